"""Regenerates coq/theories/Gen/*.v from /repo's working tree.

generate(repo) -> {filename: text}; a generator that cannot translate its
source (shape outside the whitelist) yields a file that does not compile and an
entry in `errors`, so that every proof depending on it is reported as broken.
"""
import ast
import os
import sys

sys.path.insert(0, os.path.dirname(os.path.abspath(__file__)))
from pygallina import MethodTranslator, TranslatorError, find_class, find_def  # noqa

HEADER = '(* GENERATED from %s by /verif/translator - do not edit *)\n'


def coq_str(s):
    """Coq string literal for a Python str (as UTF-8 bytes; only printable ASCII expected)."""
    b = s.encode('utf8') if isinstance(s, str) else s
    for ch in b:
        if ch < 32 or ch > 126:
            raise TranslatorError('non-printable byte in table string %r' % (s,))
    return '"' + b.decode('ascii').replace('"', '""') + '"'


def coq_list(items):
    return '[' + '; '.join(items) + ']'


def parse(repo, rel):
    with open(os.path.join(repo, rel)) as f:
        return ast.parse(f.read(), rel)


def module_assign(tree, name):
    for n in tree.body:
        if isinstance(n, ast.Assign) and len(n.targets) == 1 and isinstance(n.targets[0], ast.Name) \
                and n.targets[0].id == name:
            return n.value
    raise TranslatorError('module-level assignment %s not found' % name)


# --------------------------------------------------------------------------
def gen_reservoir(repo):
    rel = 'clastic/middleware/stats.py'
    tree = parse(repo, rel)
    cls = find_class(tree, 'Reservoir')
    add = find_def(cls.body, 'add')
    resize = find_def(cls.body, 'resize')
    init = find_def(cls.body, '__init__')
    fields = ['_cap', '_data', '_total_count']
    # every self.<attr> touched by add/resize must be one of the modelled fields
    for fn in (add, resize):
        for n in ast.walk(fn):
            if isinstance(n, ast.Attribute) and isinstance(n.value, ast.Name) and n.value.id == 'self':
                if n.attr not in fields:
                    raise TranslatorError('Reservoir.%s touches unmodelled attribute %s' % (fn.name, n.attr))
    # default capacity: the `self._cap = <const expr>` under `if cap is True`
    default_cap = None
    for n in ast.walk(init):
        if isinstance(n, ast.If) and isinstance(n.test, ast.Compare) and isinstance(n.test.ops[0], ast.Is) \
                and isinstance(n.test.comparators[0], ast.Constant) and n.test.comparators[0].value is True:
            a = n.body[0]
            if isinstance(a, ast.Assign) and isinstance(a.value, (ast.BinOp, ast.Constant)):
                default_cap = eval(compile(ast.Expression(a.value), rel, 'eval'), {'__builtins__': {}})
    if not isinstance(default_cap, int):
        raise TranslatorError('Reservoir default capacity not found')
    # total_count property must return self._total_count; __iter__ must iterate self._data
    tc = find_def(cls.body, 'total_count')
    if ast.dump(tc.body[-1]) != ast.dump(ast.parse('return self._total_count').body[0]):
        raise TranslatorError('total_count is no longer `return self._total_count`')
    it = find_def(cls.body, '__iter__')
    if ast.dump(it.body[-1]) != ast.dump(ast.parse('return iter(self._data)').body[0]):
        raise TranslatorError('__iter__ is no longer `return iter(self._data)`')
    mt = MethodTranslator(fields, ['_data'], opaque=['val'], oracles=['fast_randint'])
    out = [HEADER % rel,
           'From Coq Require Import List ZArith String.\nImport ListNotations.\n',
           'From ClasticV Require Import Base.PyList Base.Py.\n',
           'Open Scope Z_scope.\n\nSection Reservoir.\nContext {V : Type}.\n',
           'Record rstate := mk_rstate { _cap : Z; _data : list V; _total_count : Z }.\n',
           'Definition upd_cap (s : rstate) (x : Z) := mk_rstate x (_data s) (_total_count s).\n',
           'Definition upd_data (s : rstate) (x : list V) := mk_rstate (_cap s) x (_total_count s).\n',
           'Definition upd_total_count (s : rstate) (x : Z) := mk_rstate (_cap s) (_data s) x.\n\n',
           mt.method(add, {'val': 'V'}), '\n',
           mt.method(resize, {'new_size': 'Z'}), '\n',
           'End Reservoir.\n\nDefinition default_cap : Z := %d.\n' % default_cap]
    return ''.join(out)


class ConstEval(object):
    """Evaluates module-level constant assignments: literals, tuple/list/set/dict displays,
    references to earlier constants, `+` on sequences, set([...]) / frozenset / tuple / dict([...])."""

    def __init__(self, tree):
        self.tree = tree
        self.env = {}

    def get(self, name):
        if name not in self.env:
            self.env[name] = self.ev(module_assign(self.tree, name))
        return self.env[name]

    def ev(self, n):
        if isinstance(n, ast.Constant):
            return n.value
        if isinstance(n, (ast.Tuple, ast.List)):
            return tuple(self.ev(e) for e in n.elts)
        if isinstance(n, ast.Set):
            return frozenset(self.ev(e) for e in n.elts)
        if isinstance(n, ast.Dict):
            return dict((self.ev(k), self.ev(v)) for k, v in zip(n.keys, n.values))
        if isinstance(n, ast.Name):
            return self.get(n.id)
        if isinstance(n, ast.BinOp) and isinstance(n.op, ast.Add):
            return self.ev(n.left) + self.ev(n.right)
        if isinstance(n, ast.JoinedStr):
            raise TranslatorError('f-string in constant')
        if isinstance(n, ast.Call) and isinstance(n.func, ast.Name) and n.func.id in ('set', 'frozenset', 'tuple', 'list') \
                and len(n.args) == 1 and not n.keywords:
            v = self.ev(n.args[0])
            return frozenset(v) if n.func.id in ('set', 'frozenset') else tuple(v)
        raise TranslatorError('constant expression outside whitelist: %s' % ast.dump(n)[:200])


def names_list(xs):
    return coq_list([coq_str(x) for x in xs])


def gen_tables(repo):
    route = ConstEval(parse(repo, 'clastic/route.py'))
    core = ConstEval(parse(repo, 'clastic/middleware/core.py'))
    out = [HEADER % 'clastic/route.py, clastic/middleware/core.py',
           'From Coq Require Import List String.\nImport ListNotations.\nLocal Open Scope string_scope.\n\n']
    out.append('Definition REQUEST_BUILTINS : list string := %s.\n' % names_list(route.get('_REQUEST_BUILTINS')))
    out.append('Definition RENDER_BUILTINS : list string := %s.\n' % names_list(route.get('_RENDER_BUILTINS')))
    out.append('Definition RESERVED_ARGS : list string := %s.\n' % names_list(route.get('RESERVED_ARGS')))
    out.append('Definition INNER_NAME : string := %s.\n' % coq_str(core.get('_INNER_NAME')))
    out.append('Definition HTTP_METHODS : list string := %s.\n' % names_list(sorted(route.get('HTTP_METHODS'))))
    # NullRoute: pattern and the parameter names of its endpoint
    tree = route.tree
    nr = find_class(tree, 'NullRoute')
    hs = find_def(nr.body, 'handle_sentinel_condition')
    a = hs.args
    if a.vararg or a.kwarg or a.kwonlyargs or a.defaults or a.posonlyargs or a.args[0].arg != 'self':
        raise TranslatorError('NullRoute.handle_sentinel_condition signature shape')
    out.append('Definition NULL_ENDPOINT_ARGS : list string := %s.\n' % names_list([x.arg for x in a.args[1:]]))
    init = find_def(nr.body, '__init__')
    pat = None
    for n in ast.walk(init):
        if isinstance(n, ast.Call) and n.args and isinstance(n.args[0], ast.Constant) and isinstance(n.args[0].value, str):
            pat = n.args[0].value
    if pat is None:
        raise TranslatorError('NullRoute pattern not found')
    out.append('Definition NULL_PATTERN : string := %s.\n' % coq_str(pat))
    nr_render = find_def(tree.body, '_noop_render')
    out.append('Definition NOOP_RENDER_ARGS : list string := %s.\n' % names_list([x.arg for x in nr_render.args.args]))
    return ''.join(out)


def rx_of_pattern(pat):
    """Python regex source -> Coq term of type Base.Rx.rx (fail-closed on anything but the constructs below)."""
    import re._parser as sp
    import re._constants as sc

    def cls(items):
        neg, ranges = False, []
        for op, av in items:
            if op is sc.NEGATE:
                neg = True
            elif op is sc.LITERAL:
                ranges.append((av, av))
            elif op is sc.RANGE:
                ranges.append(av)
            elif op is sc.CATEGORY and av is sc.CATEGORY_DIGIT:
                ranges.append((48, 57))          # \d restricted to ASCII digits (DESIGN.md section 3)
            else:
                raise TranslatorError('character class item %s %s' % (op, av))
        for a, b in ranges:
            if a > 127 or b > 127:
                raise TranslatorError('non-ASCII character class')
        return 'RCls %s [%s]' % ('true' if neg else 'false', '; '.join('(%d, %d)' % r for r in ranges))

    def seq(items):
        terms = [one(op, av) for op, av in items]
        if not terms:
            return 'REps'
        out = terms[-1]
        for t in reversed(terms[:-1]):
            out = 'RCat (%s) (%s)' % (t, out)
        return out

    def one(op, av):
        if op is sc.LITERAL:
            if av > 127:
                raise TranslatorError('non-ASCII literal')
            return 'RCls false [(%d, %d)]' % (av, av)
        if op is sc.NOT_LITERAL:
            return 'RCls true [(%d, %d)]' % (av, av)
        if op is sc.IN:
            return cls(av)
        if op is sc.MAX_REPEAT:
            lo, hi, sub = av
            body = seq(sub)
            if (lo, hi) == (0, 1):
                return 'ROpt (%s)' % body
            if lo == 0 and hi is sc.MAXREPEAT:
                return 'RStar (%s)' % body
            if lo == 1 and hi is sc.MAXREPEAT:
                return 'RPlus (%s)' % body
            raise TranslatorError('repeat {%s,%s}' % (lo, hi))
        if op is sc.SUBPATTERN:
            return seq(av[3])
        if op is sc.BRANCH:
            alts = [seq(a) for a in av[1]]
            out = alts[-1]
            for t in reversed(alts[:-1]):
                out = 'RAlt (%s) (%s)' % (t, out)
            return out
        raise TranslatorError('regex construct %s outside the translated subset' % (op,))
    return seq(list(sp.parse(pat)))


def gen_route_lex(repo):
    rel = 'clastic/route.py'
    tree = parse(repo, rel)
    ce = ConstEval(tree)
    out = [HEADER % rel,
           'From Coq Require Import List String.\nImport ListNotations.\n',
           'From ClasticV Require Import Base.Rx.\nLocal Open Scope string_scope.\n\n']
    arity, opt = ce.get('_OP_ARITY_MAP'), ce.get('_OP_OPTIONALITY_MAP')
    for d in (arity, opt):
        for k, v in d.items():
            if not isinstance(k, str) or not isinstance(v, bool):
                raise TranslatorError('operator table entry %r: %r' % (k, v))
    cb = lambda b: 'true' if b else 'false'
    out.append('Definition OP_ARITY : list (string * bool) := %s.\n'
               % coq_list(['(%s, %s)' % (coq_str(k), cb(v)) for k, v in sorted(arity.items())]))
    out.append('Definition OP_OPTIONALITY : list (string * bool) := %s.\n'
               % coq_list(['(%s, %s)' % (coq_str(k), cb(v)) for k, v in sorted(opt.items())]))
    # DEFAULT_CONVS = [(name, func, pattern)]: func is a Name node (int / float / unicode)
    convs = module_assign(tree, 'DEFAULT_CONVS')
    if not isinstance(convs, ast.List):
        raise TranslatorError('DEFAULT_CONVS is not a list display')
    rows = []
    for e in convs.elts:
        if not (isinstance(e, ast.Tuple) and len(e.elts) == 3 and isinstance(e.elts[1], ast.Name)):
            raise TranslatorError('DEFAULT_CONVS entry shape')
        name = ce.ev(e.elts[0])
        func = e.elts[1].id
        kind = {'int': 'KInt', 'float': 'KFloat', 'unicode': 'KStr', 'str': 'KStr'}.get(func)
        if kind is None:
            raise TranslatorError('converter function %s' % func)
        pat = ce.ev(e.elts[2])
        rows.append('(%s, %s, %s)' % (coq_str(name), kind, rx_of_pattern(pat)))
    out.append('Inductive tykind := KInt | KFloat | KStr.\n')
    out.append('Definition TYPE_TABLE : list (string * tykind * rx) :=\n  %s.\n' % coq_list(rows).replace('; (', ';\n   ('))
    out.append('Definition SEG_TMPL : string := %s.\n' % coq_str(ce.get('_SEG_TMPL')))
    out.append('Definition SLASH_MODES : list string := %s.\n'
               % names_list([ce.get('S_REDIRECT'), ce.get('S_REWRITE'), ce.get('S_STRICT')]))
    # string constants of _compile_path_pattern that are regex pieces (not error messages)
    fn = find_def(tree.body, '_compile_path_pattern')
    consts = []

    class V(ast.NodeVisitor):
        def visit_Raise(self, n):
            pass

        def visit_Assign(self, n):
            if any(isinstance(t, ast.Name) and t.id == '_tmpl' for t in n.targets):
                return
            self.generic_visit(n)

        def visit_Constant(self, n):
            if isinstance(n.value, str):
                consts.append(n.value)
    for st in fn.body:
        if isinstance(st, ast.Expr) and isinstance(st.value, ast.Constant):
            continue
        V().visit(st)
    out.append('Definition COMPILE_CONSTS : list string := %s.\n' % names_list(consts))
    return ''.join(out)


def gen_static_guards(repo):
    """Which filesystem calls of static.py are inside a try block that turns OSError/IOError/ValueError into a
    non-breaking Forbidden; the comparison of the 304 test; the guards of find_file in order."""
    rel = 'clastic/static.py'
    tree = parse(repo, rel)
    bfr = find_def(tree.body, 'build_file_response')
    sa = find_class(tree, 'StaticApplication')
    gfr = find_def(sa.body, 'get_file_response')
    ff = find_def(tree.body, 'find_file')

    def call_name(c):
        f = c.func
        if isinstance(f, ast.Name):
            return f.id
        if isinstance(f, ast.Attribute):
            return f.attr
        return None

    def handler_ok(h):
        # except (ValueError, IOError, OSError): [file_obj.close()] raise Forbidden(is_breaking=False)
        names = set()
        t = h.type
        if isinstance(t, ast.Tuple):
            names = set(e.id for e in t.elts if isinstance(e, ast.Name))
        elif isinstance(t, ast.Name):
            names = {t.id}
        if not ({'OSError', 'EnvironmentError', 'Exception'} & names or {'IOError', 'ValueError'} <= names and 'OSError' in names):
            return False
        if not ('OSError' in names or 'Exception' in names or 'EnvironmentError' in names):
            return False
        last = h.body[-1]
        if not (isinstance(last, ast.Raise) and isinstance(last.exc, ast.Call) and call_name(last.exc) == 'Forbidden'):
            return False
        kws = dict((k.arg, k.value) for k in last.exc.keywords)
        return isinstance(kws.get('is_breaking'), ast.Constant) and kws['is_breaking'].value is False

    def covers_value_error(h):
        t = h.type
        names = set(e.id for e in t.elts if isinstance(e, ast.Name)) if isinstance(t, ast.Tuple) else ({t.id} if isinstance(t, ast.Name) else set())
        return 'ValueError' in names or 'Exception' in names

    found = []   # (call name, guarded, guarded-for-ValueError) in source order

    def walk(stmts, guarded, gv):
        for st in stmts:
            if isinstance(st, ast.Try):
                ok = any(handler_ok(h) for h in st.handlers)
                okv = any(handler_ok(h) and covers_value_error(h) for h in st.handlers)
                walk(st.body, guarded or ok, gv or okv)
                for h in st.handlers:
                    walk(h.body, guarded, gv)
                walk(st.orelse, guarded, gv)
                walk(st.finalbody, guarded, gv)
                continue
            for field in ('body', 'orelse'):
                sub = getattr(st, field, None)
                if isinstance(sub, list) and sub and isinstance(sub[0], ast.stmt):
                    # the statement's own expressions first (test), then nested blocks
                    pass
            exprs = [st] if not hasattr(st, 'body') else [getattr(st, 'test', None), getattr(st, 'iter', None)]
            for e in exprs:
                if e is None:
                    continue
                for n in ast.walk(e):
                    if isinstance(n, ast.Call) and call_name(n) in ('open', 'get_file_mtime', 'getsize', 'peek_file', 'find_file'):
                        found.append((call_name(n), guarded, gv, n.lineno, n.col_offset))
            if hasattr(st, 'body') and not isinstance(st, ast.Try):
                walk(st.body, guarded, gv)
                walk(getattr(st, 'orelse', []) or [], guarded, gv)
    walk(bfr.body, False, False)
    n_bfr = len(found)
    walk(gfr.body, False, False)
    found_sorted = sorted(found[:n_bfr], key=lambda x: (x[3], x[4])) + found[n_bfr:]
    names = [f[0] for f in found_sorted]
    if names != ['get_file_mtime', 'open', 'get_file_mtime', 'getsize', 'peek_file', 'find_file']:
        raise TranslatorError('filesystem calls of build_file_response/get_file_response are %r' % (names,))
    gb = lambda b: 'true' if b else 'false'
    g = found_sorted
    out = [HEADER % rel, 'From Coq Require Import List String.\nImport ListNotations.\n',
           'From ClasticV Require Import Model.Static.\nLocal Open Scope string_scope.\n\n',
           'Definition GUARDS : guards := mk_guards %s %s %s %s %s %s.\n'
           % (gb(g[0][1]), gb(g[1][1]), gb(g[2][1]), gb(g[3][1]), gb(g[4][1]), gb(g[5][1] and g[5][2]))]
    # the 304 comparison
    ops = [type(n.ops[0]).__name__ for n in ast.walk(bfr) if isinstance(n, ast.Compare) and len(n.ops) == 1
           and isinstance(n.left, ast.Name) and n.left.id == 'mtime']
    if len(ops) != 1:
        raise TranslatorError('the If-Modified-Since comparison was not found')
    out.append('Definition COND_OP : string := %s.\n' % coq_str(ops[0]))
    # guards of find_file, in order
    guards = []
    for n in ast.walk(ff):
        if isinstance(n, ast.Call) and isinstance(n.func, ast.Attribute) and n.func.attr == 'startswith' and n.args:
            a = n.args[0]
            subj = n.func.value.id if isinstance(n.func.value, ast.Name) else '?'
            if isinstance(a, ast.Constant):
                guards.append((n.lineno, '%s.startswith:%s' % (subj, a.value)))
            elif isinstance(a, ast.Attribute):
                guards.append((n.lineno, '%s.startswith:%s' % (subj, a.attr)))
    for n in ast.walk(ff):
        if isinstance(n, ast.Call) and call_name(n) == 'normpath':
            guards.append((n.lineno, 'normpath'))
        if isinstance(n, ast.Call) and call_name(n) in ('pjoin', 'join') and not isinstance(n.func, ast.Attribute):
            guards.append((n.lineno, 'join'))
    out.append('Definition FIND_FILE_STEPS : list string := %s.\n' % names_list([gname for _, gname in sorted(guards)]))
    # every NotFound/Forbidden raised by the two functions is non-breaking
    nb = []
    for fn in (bfr, gfr):
        for n in ast.walk(fn):
            if isinstance(n, ast.Raise) and isinstance(n.exc, ast.Call) and call_name(n.exc) in ('NotFound', 'Forbidden'):
                kws = dict((k.arg, k.value) for k in n.exc.keywords)
                nb.append(isinstance(kws.get('is_breaking'), ast.Constant) and kws['is_breaking'].value is False)
    out.append('Definition ALL_ERRORS_NONBREAKING : bool := %s.\n' % gb(all(nb) and len(nb) >= 5))
    return ''.join(out)


def gen_mw_guards(repo):
    """Decision structure of the built-in middlewares' request functions, as source text of the conditions in order."""
    def request_fn(rel, cls):
        tree = parse(repo, rel)
        return find_def(find_class(tree, cls).body, 'request')

    def early_returns(fn):
        out = []

        def walk(stmts, ctx):
            for st in stmts:
                if isinstance(st, ast.If):
                    cond = ast.unparse(st.test)
                    last = st.body[-1]
                    if isinstance(last, ast.Return):
                        out.append((ctx + [cond], ast.unparse(last.value) if last.value is not None else 'None'))
                    walk(st.body, ctx + [cond])
                    walk(st.orelse, ctx + ['not (%s)' % cond])
        walk(fn.body, [])
        return out
    gz = request_fn('clastic/middleware/compress.py', 'GzipMiddleware')
    rows = ['%s => return %s' % (' && '.join(c), r) for c, r in early_returns(gz)]
    assigns = [ast.unparse(st) for st in gz.body if isinstance(st, (ast.Assign, ast.Expr))
               and not (isinstance(st, ast.Expr) and isinstance(st.value, ast.Constant))]
    out = [HEADER % 'clastic/middleware/*.py', 'From Coq Require Import List String.\nImport ListNotations.\nLocal Open Scope string_scope.\n\n']
    out.append('Definition GZIP_EARLY_RETURNS : list string :=\n  %s.\n' % names_list(rows).replace('; "', ';\n   "'))
    out.append('Definition GZIP_EFFECTS : list string :=\n  %s.\n' % names_list(assigns).replace('; "', ';\n   "'))
    cc = request_fn('clastic/middleware/client_cache.py', 'HTTPCacheMiddleware')
    guards = [ast.unparse(st.test) for st in cc.body if isinstance(st, ast.If)]
    out.append('Definition CACHE_GUARDS : list string := %s.\n' % names_list(guards))
    stt = request_fn('clastic/middleware/stats.py', 'StatsMiddleware')
    tries = [st for st in stt.body if isinstance(st, ast.Try)]
    if len(tries) != 1:
        raise TranslatorError('StatsMiddleware.request: expected exactly one try statement')
    t = tries[0]
    reraises = all(isinstance(h.body[-1], ast.Raise) and h.body[-1].exc is None for h in t.handlers) and len(t.handlers) >= 1
    calls_next_in_try = any(isinstance(n, ast.Call) and isinstance(n.func, ast.Name) and n.func.id == 'next' for st in t.body for n in ast.walk(st))
    records_in_finally = any(isinstance(n, ast.Call) and isinstance(n.func, ast.Attribute) and n.func.attr == 'add'
                             for st in t.finalbody for n in ast.walk(st))
    returns_resp = isinstance(stt.body[-1], ast.Return) and ast.unparse(stt.body[-1].value) == 'resp'
    gb = lambda b: 'true' if b else 'false'
    out.append('Definition STATS_SHAPE : list (string * bool) := [("except re-raises", %s); ("next() inside try", %s); '
               '("hit recorded in finally", %s); ("returns resp", %s)].\n'
               % (gb(reraises), gb(calls_next_in_try), gb(records_in_finally), gb(returns_resp)))
    pf = request_fn('clastic/middleware/profile.py', 'SimpleProfileMiddleware')
    first = pf.body[0]
    if not (isinstance(first, ast.If) and isinstance(first.body[-1], ast.Return)):
        raise TranslatorError('SimpleProfileMiddleware.request no longer starts with the trigger test')
    out.append('Definition PROFILE_FIRST : string := %s.\n' % coq_str('%s => return %s' % (ast.unparse(first.test), ast.unparse(first.body[-1].value))))
    return ''.join(out)


def gen_cookie_guards(repo):
    rel = 'clastic/middleware/cookie.py'
    tree = parse(repo, rel)
    jc = find_class(tree, 'JSONCookie')
    un = find_def(jc.body, 'unserialize')
    tries = [st for st in un.body if isinstance(st, ast.Try)]
    if len(tries) != 1:
        raise TranslatorError('JSONCookie.unserialize: expected one try statement')
    t = tries[0]
    handlers = ['except %s => %s' % (ast.unparse(h.type) if h.type is not None else '<bare>', ast.unparse(h.body[-1])) for h in t.handlers]
    body = [ast.unparse(st) for st in t.body]
    uq = find_def(jc.body, 'unquote')
    uq_tries = [st for st in uq.body if isinstance(st, ast.Try)]
    uq_handlers = ['except %s => %s' % (ast.unparse(h.type) if h.type is not None else '<bare>', ast.unparse(h.body[-1]))
                   for tr in uq_tries for h in tr.handlers]
    mw = find_def(find_class(tree, 'SignedCookieMiddleware').body, 'request')
    conds = [ast.unparse(n.test) for n in ast.walk(mw) if isinstance(n, ast.If)]
    stamps = [ast.unparse(n) for n in ast.walk(mw) if isinstance(n, ast.Assign) and isinstance(n.targets[0], ast.Subscript)]
    out = [HEADER % rel, 'From Coq Require Import List String.\nImport ListNotations.\nLocal Open Scope string_scope.\n\n',
           'Definition UNSERIALIZE_TRY : list string := %s.\n' % names_list(body),
           'Definition UNSERIALIZE_HANDLERS : list string := %s.\n' % names_list(handlers),
           'Definition UNQUOTE_HANDLERS : list string := %s.\n' % names_list(uq_handlers),
           'Definition MW_CONDITIONS : list string := %s.\n' % names_list(conds),
           'Definition MW_STAMPS : list string := %s.\n' % names_list(stamps)]
    return ''.join(out)


def coq_str_any(s):
    """Coq string literal for text that may contain newlines/tabs: split around them"""
    parts = s.split('\n')
    return '(' + ' ++ nl ++ '.join(coq_str(p) for p in parts) + ')'


def gen_errors(repo):
    rel = 'clastic/errors.py'
    tree = parse(repo, rel)
    ce = ConstEval(tree)
    out = [HEADER % rel, 'From Coq Require Import List String ZArith.\nImport ListNotations.\n',
           'From ClasticV Require Import Base.Strs Model.Errors.\nLocal Open Scope string_scope.\nLocal Open Scope list_scope.\n\n']
    mm = ce.get('MIME_SUPPORT_MAP')
    out.append('Definition MIME_SUPPORT_MAP : list (string * string) := %s.\n'
               % coq_list(['(%s, %s)' % (coq_str(k), coq_str(v)) for k, v in mm.items()]))
    out.append('Definition DEFAULT_MIME : string := %s.\n' % coq_str(ce.get('DEFAULT_MIME')))
    # class table: every class whose bases lead to HTTPException, with its literal code/message (inherited if absent)
    classes = dict((n.name, n) for n in tree.body if isinstance(n, ast.ClassDef))

    def attr(cls, name):
        for st in cls.body:
            if isinstance(st, ast.Assign) and len(st.targets) == 1 and isinstance(st.targets[0], ast.Name) and st.targets[0].id == name:
                return ce.ev(st.value)
        for b in cls.bases:
            if isinstance(b, ast.Name) and b.id in classes:
                v = attr(classes[b.id], name)
                if v is not None:
                    return v
        return None

    def is_http(cls):
        if cls.name == 'HTTPException':
            return True
        return any(isinstance(b, ast.Name) and b.id in classes and is_http(classes[b.id]) for b in cls.bases)
    rows = []
    for n in tree.body:
        if isinstance(n, ast.ClassDef) and is_http(n) and n.name != 'HTTPException':
            code, msg = attr(n, 'code'), attr(n, 'message')
            if not isinstance(code, int) or not isinstance(msg, str):
                raise TranslatorError('class %s: code/message are not literals' % n.name)
            rows.append('(%s, %d%%Z, %s)' % (coq_str(n.name), code, coq_str(msg)))
    out.append('Definition ERROR_CLASSES : list (string * Z * string) :=\n  %s.\n' % coq_list(rows).replace('; (', ';\n   ('))
    he = classes['HTTPException']
    # escaping calls of to_escaped_dict and where html_escape comes from
    ted = find_def(he.body, 'to_escaped_dict')
    calls = [ast.unparse(n) for n in ast.walk(ted) if isinstance(n, ast.Call) and isinstance(n.func, ast.Name) and n.func.id == 'html_escape']
    out.append('Definition ESCAPE_CALLS : list string := %s.\n' % names_list(sorted(calls)))
    imports = [ast.unparse(n) for n in ast.walk(tree) if isinstance(n, ast.ImportFrom) and any(a.asname == 'html_escape' for a in n.names)]
    out.append('Definition ESCAPE_IMPORTS : list string := %s.\n' % names_list(imports))
    none_rule = [ast.unparse(st.test) + ' => ' + ast.unparse(st.body[0]) for st in ast.walk(ted) if isinstance(st, ast.If)]
    out.append('Definition ESCAPE_NONE_RULE : list string := %s.\n' % names_list(none_rule))
    # to_html: lines = [...]; conditional appends; '\n'.join(lines).format(**params)
    th = find_def(he.body, 'to_html')

    def const_str(e):
        v = ce.ev(e)
        if not isinstance(v, str):
            raise TranslatorError('template piece is not a string')
        return v

    def cond(e):
        # params['x']  |  params['x'].startswith('http')
        if isinstance(e, ast.Subscript) and isinstance(e.value, ast.Name) and e.value.id == 'params':
            return 'nonempty (field f %s)' % coq_str(ce.ev(e.slice))
        if isinstance(e, ast.Call) and isinstance(e.func, ast.Attribute) and e.func.attr == 'startswith' and len(e.args) == 1:
            sub = e.func.value
            if isinstance(sub, ast.Subscript) and isinstance(sub.value, ast.Name) and sub.value.id == 'params':
                return 'prefix_s %s (field f %s)' % (coq_str(ce.ev(e.args[0])), coq_str(ce.ev(sub.slice)))
        raise TranslatorError('to_html condition outside whitelist: %s' % ast.unparse(e))

    def lines_of(stmts):
        """-> Gallina expression of type list string for the pieces appended by these statements"""
        parts = []
        for st in stmts:
            if isinstance(st, ast.Expr) and isinstance(st.value, ast.Call) and isinstance(st.value.func, ast.Attribute) \
                    and st.value.func.attr == 'append' and isinstance(st.value.func.value, ast.Name) and st.value.func.value.id == 'lines':
                parts.append('[%s]' % coq_str_any(const_str(st.value.args[0])))
            elif isinstance(st, ast.If):
                parts.append('(if %s then %s else %s)' % (cond(st.test), lines_of(st.body), lines_of(st.orelse) if st.orelse else '[]'))
            else:
                raise TranslatorError('to_html statement outside whitelist: %s' % ast.unparse(st)[:80])
        return ' ++ '.join(parts) if parts else '[]'
    body = th.body
    if not (isinstance(body[0], ast.Assign) and ast.unparse(body[0]) == 'params = self.to_escaped_dict()'):
        raise TranslatorError('to_html no longer starts with params = self.to_escaped_dict()')
    if not (isinstance(body[1], ast.Assign) and isinstance(body[1].targets[0], ast.Name) and body[1].targets[0].id == 'lines'
            and isinstance(body[1].value, ast.List)):
        raise TranslatorError('to_html: lines = [...] expected')
    first = '[' + '; '.join(coq_str_any(const_str(e)) for e in body[1].value.elts) + ']'
    ret = body[-1]
    if not (isinstance(ret, ast.Return) and ast.unparse(ret.value) == "'\\n'.join(lines).format(**params)"):
        raise TranslatorError('to_html return shape: %s' % ast.unparse(ret))
    out.append('Definition html_lines (f : efields) : list string :=\n  %s ++ %s.\n' % (first, lines_of(body[2:-1])))
    out.append('Definition to_html (f : efields) : string := fmt (join nl (html_lines f)) f.\n')
    # to_xml: one template
    tx = find_def(he.body, 'to_xml')
    tpl = None
    for n in ast.walk(tx):
        if isinstance(n, ast.Call) and isinstance(n.func, ast.Attribute) and n.func.attr == 'format' and ast.unparse(n.args + n.keywords) if False else False:
            pass
    for n in ast.walk(tx):
        if isinstance(n, ast.Call) and isinstance(n.func, ast.Attribute) and n.func.attr == 'format':
            if [k.arg for k in n.keywords] != [None] or n.args:
                raise TranslatorError('to_xml format call shape')
            tpl = const_str(n.func.value)
    if tpl is None:
        raise TranslatorError('to_xml template not found')
    out.append('Definition XML_TEMPLATE : string := %s.\nDefinition to_xml (f : efields) : string := fmt XML_TEMPLATE f.\n' % coq_str_any(tpl))
    # JSON fields
    td = find_def(he.body, 'to_dict')
    keys = None
    for n in ast.walk(td):
        if isinstance(n, ast.Dict):
            keys = [ce.ev(k) for k in n.keys]
    out.append('Definition JSON_FIELDS : list string := %s.\n' % names_list(sorted(keys or [])))
    return ''.join(out)


def gen_templates(repo):
    """every variable reference ({name} / {name|filters}) of the ashes templates used for debug pages and the flaw page"""
    import re as _re
    out = [HEADER % 'clastic/_contextual_errors.py, clastic/flaw.py',
           'From Coq Require Import List String.\nImport ListNotations.\nLocal Open Scope string_scope.\n\n']

    def refs(text):
        found = []
        for m in _re.finditer(r'\{([^{}\n]*)\}', text):
            body = m.group(1).strip()
            if not body or body[0] in '#?^<>+@!:/%~' or ' ' in body.split('|')[0] or body[0] in '\'"0123456789':
                continue
            if not _re.match(r'^[A-Za-z_.][A-Za-z0-9_.\[\]]*(\|[a-z]+)*$', body):
                continue
            parts = body.split('|')
            found.append((parts[0], parts[1:]))
        return found
    for label, rel in (('CONTEXTUAL', 'clastic/_contextual_errors.py'), ('FLAW', 'clastic/flaw.py')):
        tree = parse(repo, rel)
        texts = [n.value for n in ast.walk(tree) if isinstance(n, ast.Constant) and isinstance(n.value, str) and '{' in n.value and '<' in n.value]
        allrefs = []
        for t in texts:
            allrefs += refs(t)
        uniq = sorted(set((n, tuple(f)) for n, f in allrefs))
        out.append('Definition %s_REFS : list (string * list string) :=\n  %s.\n'
                   % (label, coq_list(['(%s, %s)' % (coq_str(n), names_list(list(f))) for n, f in uniq]).replace('; (', ';\n   (')))
    return ''.join(out)


def gen_flaw(repo):
    """flaw.py: the page template as a node list (ashes subset: text, {ref}, {#sec}..{:else}..{/sec}), the
    exception handling of create_app / get_flaw_info, the route patterns."""
    import re as _re
    rel = 'clastic/flaw.py'
    tree = parse(repo, rel)
    tpl = ConstEval(tree).get('_FLAW_TEMPLATE')
    toks = _re.split(r'(\{[#/:]?[A-Za-z_.]*\})', tpl)

    def lit(t):
        return 'NText %s' % coq_str_any(t)

    def parse_nodes(i, closing):
        nodes = []
        while i < len(toks):
            t = toks[i]
            if i % 2 == 0:
                if t:
                    nodes.append(lit(t))
                i += 1
                continue
            inner = t[1:-1]
            if inner.startswith('#'):
                body, i, sep = parse_nodes(i + 1, inner[1:])
                els = []
                if sep == 'else':
                    els, i, sep = parse_nodes(i, inner[1:])
                nodes.append('NSection %s [%s] [%s]' % (coq_str(inner[1:]), '; '.join(body), '; '.join(els)))
                continue
            if inner.startswith('/'):
                if inner[1:] != closing:
                    raise TranslatorError('template: unbalanced section %s' % inner)
                return nodes, i + 1, 'end'
            if inner.startswith(':'):
                if inner != ':else':
                    raise TranslatorError('template: %s' % inner)
                return nodes, i + 1, 'else'
            if not inner:
                raise TranslatorError('template: empty tag')
            nodes.append('NRef %s' % coq_str(inner))
            i += 1
        if closing is not None:
            raise TranslatorError('template: section %s not closed' % closing)
        return nodes, i, 'eof'
    if '{' in ''.join(toks[0::2]).replace('{', '', 0) and _re.search(r'\{[^#/:A-Za-z_.]', tpl):
        raise TranslatorError('template uses ashes syntax outside the translated subset')
    nodes, _, _ = parse_nodes(0, None)
    out = [HEADER % rel, 'From Coq Require Import List String.\nImport ListNotations.\n',
           'From ClasticV Require Import Base.Strs Model.Errors Model.Flaw.\nLocal Open Scope list_scope.\nLocal Open Scope string_scope.\n\n',
           'Definition FLAW_NODES : list node :=\n  [%s].\n' % ';\n   '.join(nodes)]
    ca = find_def(tree.body, 'create_app')
    gi = find_def(tree.body, 'get_flaw_info')

    def tries(fn):
        rows = []
        for n in ast.walk(fn):
            if isinstance(n, ast.Try):
                rows.append('try %s / %s' % (' ; '.join(ast.unparse(x) for x in n.body),
                                             ' | '.join('except %s: %s' % (ast.unparse(h.type) if h.type is not None else '<bare>',
                                                                           ' ; '.join(ast.unparse(x) for x in h.body)) for h in n.handlers)))
        return rows
    out.append('Definition FLAW_CREATE_TRIES : list string := %s.\n' % names_list(tries(ca)))
    out.append('Definition FLAW_INFO_TRIES : list string := %s.\n' % names_list(tries(gi)))
    pats = [ConstEval(tree).ev(e.elts[0]) for n in ast.walk(ca) if isinstance(n, ast.Assign) and ast.unparse(n.targets[0]) == 'routes'
            for e in n.value.elts]
    out.append('Definition FLAW_ROUTES : list string := %s.\n' % names_list(pats))
    return ''.join(out)


def gen_meta(repo):
    rel = 'clastic/meta.py'
    tree = parse(repo, rel)
    gri = find_def(tree.body, 'get_resource_info')
    needle = marker = None
    for n in ast.walk(gri):
        if isinstance(n, ast.Compare) and isinstance(n.ops[0], ast.In) and isinstance(n.left, ast.Constant):
            needle = n.left.value
            subject = ast.unparse(n.comparators[0])
        if isinstance(n, ast.Assign) and isinstance(n.value, ast.Constant) and isinstance(n.value.value, str):
            marker = n.value.value
    if needle is None or marker is None:
        raise TranslatorError('get_resource_info: substring test / marker not found')
    shape = [ast.unparse(st) for st in gri.body]
    tr = find_def(tree.body, '_trunc')
    defaults = [ConstEval(tree).ev(d) for d in tr.args.defaults]
    out = [HEADER % rel, 'From Coq Require Import List String.\nImport ListNotations.\nLocal Open Scope string_scope.\n\n',
           'Definition SECRET_NEEDLE : string := %s.\nDefinition SECRET_SUBJECT : string := %s.\nDefinition REDACTED : string := %s.\n'
           % (coq_str(needle), coq_str(subject), coq_str(marker)),
           'Definition TRUNC_LEN : nat := %d.\nDefinition TRUNC_TRAILER : string := %s.\n' % (defaults[0], coq_str(defaults[1])),
           'Definition RESOURCE_INFO_LOOP : list string := %s.\n' % names_list([x.replace('\n', ' ; ') for x in shape])]
    # who reads .resources / secret_key in meta.py
    readers = []
    for fn in ast.walk(tree):
        if isinstance(fn, ast.FunctionDef):
            for n in ast.walk(fn):
                if isinstance(n, ast.Attribute) and n.attr in ('resources', 'secret_key'):
                    readers.append('%s reads .%s' % (fn.name, n.attr))
    out.append('Definition RESOURCE_READERS : list string := %s.\n' % names_list(sorted(set(readers))))
    # SignedCookieMiddleware.__repr__ : which attributes it prints
    ctree = parse(repo, 'clastic/middleware/cookie.py')
    rp = find_def(find_class(ctree, 'SignedCookieMiddleware').body, '__repr__')
    attrs = sorted(set(n.attr for n in ast.walk(rp) if isinstance(n, ast.Attribute) and isinstance(n.value, ast.Name) and n.value.id == 'self'))
    out.append('Definition COOKIE_REPR_ATTRS : list string := %s.\n' % names_list(attrs))
    # the per-peripheral exception handling
    mc = find_class(tree, 'MetaApplication')
    rows = []
    for name in ('get_main', 'render_main_page_html'):
        fn = find_def(mc.body, name)
        for n in ast.walk(fn):
            if isinstance(n, ast.Try):
                rows.append('%s: try %s / %s' % (name, ' ; '.join(ast.unparse(x).split('\n')[0] for x in n.body[:1]),
                                                 ' | '.join('except %s: %s' % (ast.unparse(h.type) if h.type else '<bare>',
                                                                               ' ; '.join(ast.unparse(x) for x in h.body)) for h in n.handlers)))
    out.append('Definition META_TRIES : list string := %s.\n' % names_list(rows))
    # template references that bypass escaping, per template file
    import re as _re
    unesc = []
    base = os.path.join(repo, 'clastic')
    for fn in sorted(os.listdir(base)):
        if fn.startswith('meta_') and fn.endswith('.html'):
            txt = open(os.path.join(base, fn)).read()
            for m in _re.finditer(r'\{([A-Za-z_.][A-Za-z0-9_.]*)((?:\|[a-z]+)+)\}', txt):
                if 's' in m.group(2).split('|'):
                    unesc.append('%s:%s' % (fn, m.group(1)))
    out.append('Definition META_UNESCAPED_REFS : list string := %s.\n' % names_list(unesc))
    return ''.join(out)


REQUEST_PATH = [  # (file, class or None, function)
    ('clastic/application.py', 'Application', '__call__'), ('clastic/application.py', 'Application', '_dispatch_wsgi'),
    ('clastic/application.py', 'Application', 'dispatch'), ('clastic/application.py', None, 'default_render_error'),
    ('clastic/application.py', 'DispatchState', '__init__'), ('clastic/application.py', 'DispatchState', 'add_route'),
    ('clastic/application.py', 'DispatchState', 'add_exception'), ('clastic/application.py', 'DispatchState', 'update_methods'),
    ('clastic/route.py', 'BoundRoute', 'execute'), ('clastic/route.py', 'BoundRoute', 'execute_error'),
    ('clastic/route.py', 'BoundRoute', 'match_path'), ('clastic/route.py', 'BoundRoute', 'match_method'),
    ('clastic/route.py', 'NullRoute', 'handle_sentinel_condition'), ('clastic/route.py', None, 'normalize_path'),
    ('clastic/sinter.py', None, 'inject'), ('clastic/sinter.py', None, 'get_fb'),
    ('clastic/errors.py', 'ErrorHandler', 'render_error'), ('clastic/errors.py', 'ErrorHandler', 'uncaught_to_response'),
    ('clastic/errors.py', 'ContextualErrorHandler', 'uncaught_to_response'),
]
PER_REQUEST_CLASSES = ('DispatchState',)        # instances created per request: writes through self stay with the request
PER_REQUEST_NAMES = ('request', 'dispatch_state', 'ret', 'params', '_error', 'injectables', 'kwargs', 'all_kwargs', 'error_params',
                     'uncaught_params', 'nf_exc', 'resp', 'response', 'environ', 'base_params', 'path_params', 'exc', 'rre', 'match', 'groups')
MUTATORS = ('append', 'extend', 'insert', 'pop', 'remove', 'clear', 'update', 'add', 'discard', 'setdefault', 'popitem', 'sort', 'reverse',
            '__setitem__', '__delitem__')


def gen_footprint(repo):
    """every write (assignment target, augmented assignment, del, mutating method call, global/nonlocal declaration) of the
    functions on the request path, classified by the root of its target"""
    trees = {}
    rows = []
    for rel, cls, fname in REQUEST_PATH:
        if rel not in trees:
            trees[rel] = parse(repo, rel)
        body = trees[rel].body if cls is None else find_class(trees[rel], cls).body
        fn = find_def(body, fname)
        where = '%s%s.%s' % (rel.split('/')[-1][:-3] + ':', cls or '', fname)
        params = set(a.arg for a in fn.args.args + fn.args.kwonlyargs) | ({fn.args.vararg.arg} if fn.args.vararg else set()) | \
            ({fn.args.kwarg.arg} if fn.args.kwarg else set())
        assigned = set()
        declared_global = set()
        for n in ast.walk(fn):
            if isinstance(n, (ast.Global, ast.Nonlocal)):
                declared_global |= set(n.names)
            if isinstance(n, ast.Name) and isinstance(n.ctx, ast.Store):
                assigned.add(n.id)
            if isinstance(n, (ast.For, ast.comprehension)):
                pass

        def root(e):
            while isinstance(e, (ast.Attribute, ast.Subscript)):
                e = e.value
            return e.id if isinstance(e, ast.Name) else None

        def classify(target, text):
            if isinstance(target, ast.Name):
                return 'WShared' if target.id in declared_global else 'WLocal'
            r = root(target)
            if r is None:
                return 'WShared'
            if r == 'self':
                return 'WRequest' if cls in PER_REQUEST_CLASSES else 'WShared'
            if r in PER_REQUEST_NAMES:
                return 'WRequest'
            if r in assigned and r not in declared_global and r not in ('route', 'err_handler', 'eh', 'fb', 'f'):
                return 'WRequest'       # an object bound by this very call (a fresh dict/list/response)
            return 'WShared'
        for n in ast.walk(fn):
            targets = []
            if isinstance(n, ast.Assign):
                targets = n.targets
            elif isinstance(n, (ast.AugAssign, ast.AnnAssign)):
                targets = [n.target]
            elif isinstance(n, ast.Delete):
                targets = n.targets
            elif isinstance(n, (ast.Global, ast.Nonlocal)):
                rows.append((where, 'global ' + ', '.join(n.names), 'WShared'))
            elif isinstance(n, ast.Call) and isinstance(n.func, ast.Attribute) and n.func.attr in MUTATORS:
                rows.append((where, ast.unparse(n.func), classify(n.func.value if not isinstance(n.func.value, ast.Name) else
                                                                  ast.Attribute(value=n.func.value, attr='x', ctx=ast.Load()), '')))
            elif isinstance(n, ast.Call) and isinstance(n.func, ast.Name) and n.func.id == 'next' and n.args and \
                    isinstance(n.args[0], ast.Name) and n.args[0].id == '_REQ_ID_ITER':
                rows.append((where, ast.unparse(n), 'WCounter'))
            for t in targets:
                for el in (t.elts if isinstance(t, (ast.Tuple, ast.List)) else [t]):
                    rows.append((where, ast.unparse(el), classify(el, '')))
    # the counter itself
    atree = trees['clastic/application.py']
    src = ast.unparse(module_assign(atree, '_REQ_ID_ITER'))
    # generated code templates: the only names they bind are parameters and `context` / `resp`
    ctree = parse(repo, 'clastic/middleware/core.py')
    tmpl = ConstEval(ctree).get('_REQ_INNER_TMPL')
    out = [HEADER % 'the request path of clastic', 'From Coq Require Import List String.\nImport ListNotations.\nLocal Open Scope string_scope.\n\n',
           'Inductive wkind := WLocal | WRequest | WShared | WCounter.\n',
           'Definition WRITES : list (string * string * wkind) :=\n  %s.\n'
           % coq_list(['(%s, %s, %s)' % (coq_str(a), coq_str(b2), k) for a, b2, k in rows]).replace('; (', ';\n   ('),
           'Definition REQ_ID_SOURCE : string := %s.\n' % coq_str(src),
           'Definition REQ_INNER_TMPL_LINES : list string := %s.\n' % names_list([l.strip() for l in tmpl.strip().split('\n')])]
    return ''.join(out)


def gen_normpath(repo):
    from strfun import StrFun
    rel = 'clastic/route.py'
    tree = parse(repo, rel)
    fn = find_def(tree.body, 'normalize_path')
    body = StrFun(['path'], ['is_branch']).function(fn)
    return ''.join([HEADER % rel,
                    'From Coq Require Import List String Ascii.\nImport ListNotations.\n',
                    'From ClasticV Require Import Base.Strs.\nLocal Open Scope string_scope.\n\n',
                    'Definition is_nil {X} (l : list X) : bool := match l with [] => true | _ => false end.\n\n',
                    body])


def skeleton_of(fn):
    """control-flow skeleton of a function: one line per statement, indented by nesting depth; simple
    statements by their (normalised) source text, compound ones by their header"""
    out = []

    def one(text, depth):
        text = ' '.join(text.split())
        out.append('  ' * depth + text)

    def walk(stmts, depth):
        for st in stmts:
            if isinstance(st, ast.Expr) and isinstance(st.value, ast.Constant) and isinstance(st.value.value, str):
                continue                      # docstring
            if isinstance(st, (ast.For, ast.While)):
                hdr = ('for %s in %s' % (ast.unparse(st.target), ast.unparse(st.iter))) if isinstance(st, ast.For) \
                    else 'while %s' % ast.unparse(st.test)
                one(hdr, depth)
                walk(st.body, depth + 1)
                if st.orelse:
                    one('else', depth)
                    walk(st.orelse, depth + 1)
            elif isinstance(st, ast.If):
                one('if %s' % ast.unparse(st.test), depth)
                walk(st.body, depth + 1)
                if st.orelse:
                    one('else', depth)
                    walk(st.orelse, depth + 1)
            elif isinstance(st, ast.Try):
                one('try', depth)
                walk(st.body, depth + 1)
                for h in st.handlers:
                    one('except %s%s' % (ast.unparse(h.type) if h.type else '<bare>', ' as ' + h.name if h.name else ''), depth)
                    walk(h.body, depth + 1)
                if st.orelse:
                    one('else', depth)
                    walk(st.orelse, depth + 1)
                if st.finalbody:
                    one('finally', depth)
                    walk(st.finalbody, depth + 1)
            elif isinstance(st, ast.With):
                one('with %s' % ', '.join(ast.unparse(i) for i in st.items), depth)
                walk(st.body, depth + 1)
            elif isinstance(st, ast.FunctionDef):
                one('def %s(%s)' % (st.name, ast.unparse(st.args)), depth)
                walk(st.body, depth + 1)
            elif isinstance(st, ast.ClassDef):
                raise TranslatorError('nested class %s in a pinned function' % st.name)
            else:
                one(ast.unparse(st), depth)
    walk(fn.body, 0)
    return out


def gen_dispatch_shape(repo):
    """application.py: the request path of Application (dispatch loop, _dispatch_wsgi, DispatchState) and
    route.py: BoundRoute.match_path / match_method / execute, as control-flow skeletons.  Model/Dispatch.v is a
    hand transcription of exactly these; the skeletons are pinned by reflexivity obligations in Props/C06.v and
    Props/C08.v, so that ANY edit of these functions re-opens the correspondence question."""
    app = parse(repo, 'clastic/application.py')
    route = parse(repo, 'clastic/route.py')
    items = []
    for tree, cls, fns in ((app, 'Application', ['dispatch', '_dispatch_wsgi']),
                           (app, 'DispatchState', ['add_exception', 'update_methods']),
                           (route, 'BoundRoute', ['match_path', 'match_method', 'execute'])):
        c = find_class(tree, cls)
        for f in fns:
            fn = find_def(c.body, f)
            name = ('%s_%s' % (cls, f.strip('_'))).upper()
            items.append((name, skeleton_of(fn)))
    return shape_file('clastic/application.py, clastic/route.py', items)


def shape_file(srcs, items):
    text = HEADER % srcs
    text += 'From Coq Require Import List String.\nImport ListNotations.\nLocal Open Scope string_scope.\n\n'
    for name, lines in items:
        text += 'Definition SK_%s : list string :=\n  [%s].\n\n' % (name, ';\n   '.join(coq_str(l) for l in lines))
    return text


def module_def(tree, name):
    for n in tree.body:
        if isinstance(n, ast.FunctionDef) and n.name == name:
            return n
    raise TranslatorError('module-level function %s not found' % name)


def gen_chain_shape(repo):
    """sinter.py / middleware/core.py / route.py: the bind-time machinery that Model/Chain.v transcribes by hand"""
    sinter = parse(repo, 'clastic/sinter.py')
    core = parse(repo, 'clastic/middleware/core.py')
    route = parse(repo, 'clastic/route.py')
    items = []
    for tree, fns in ((sinter, ['chain_argspec', 'build_chain_str', 'make_chain', 'inject']),
                      (core, ['check_middleware', 'check_middlewares', 'merge_middlewares', 'make_middleware_chain'])):
        for f in fns:
            items.append((f.upper(), skeleton_of(module_def(tree, f))))
    br = find_class(route, 'BoundRoute')
    for f in ['__init__', '_resolve_required_args']:
        items.append(('BOUNDROUTE_' + f.strip('_').upper(), skeleton_of(find_def(br.body, f))))
    return shape_file('clastic/sinter.py, clastic/middleware/core.py, clastic/route.py', items)


def gen_world_shape(repo):
    """application.py: construction, add() and embedding - what Model/World.v transcribes by hand"""
    app = parse(repo, 'clastic/application.py')
    route = parse(repo, 'clastic/route.py')
    items = []
    a = find_class(app, 'Application')
    for f in ['__init__', 'add', 'iter_routes']:
        items.append(('APPLICATION_' + f.strip('_').upper(), skeleton_of(find_def(a.body, f))))
    sa = find_class(app, 'SubApplication')
    for f in ['__init__', 'bind_all', 'iter_routes']:
        items.append(('SUBAPPLICATION_' + f.strip('_').upper(), skeleton_of(find_def(sa.body, f))))
    items.append(('CAST_TO_ROUTE_FACTORY', skeleton_of(module_def(app, 'cast_to_route_factory'))))
    r = find_class(route, 'Route')
    for f in ['__init__', 'bind', 'iter_routes']:
        items.append(('ROUTE_' + f.strip('_').upper(), skeleton_of(find_def(r.body, f))))
    br = find_class(route, 'BoundRoute')
    items.append(('BOUNDROUTE_BIND', skeleton_of(find_def(br.body, 'bind'))))
    return shape_file('clastic/application.py, clastic/route.py', items)

def gen_more_shapes(repo):
    """render/simple.py (Model/Render.v), the WSGI wrapper stack of application.py (Model/Wsgi.v) and the counting
    side of middleware/stats.py (Model/Stats.v): hand-transcribed functions, pinned statement by statement"""
    simple = parse(repo, 'clastic/render/simple.py')
    app = parse(repo, 'clastic/application.py')
    stats = parse(repo, 'clastic/middleware/stats.py')
    items = []
    for cls, fns in (('ClasticJSONEncoder', ['default']), ('JSONRender', ['__call__']), ('JSONPRender', ['__call__']),
                     ('BasicRender', ['render_response', '_serialize_to_resp', '_guess_json'])):
        c = find_class(simple, cls)
        for f in fns:
            items.append(('%s_%s' % (cls.upper(), f.strip('_').upper()), skeleton_of(find_def(c.body, f))))
    items.append(('GET_ALL_MIDDLEWARES', skeleton_of(module_def(app, '_get_all_middlewares'))))
    items.append(('SAFE_WRAP_WSGI', skeleton_of(module_def(app, '_safe_wrap_wsgi'))))
    sm = find_class(stats, 'StatsMiddleware')
    for f in ['__init__', 'reset', 'request']:
        items.append(('STATSMIDDLEWARE_' + f.strip('_').upper(), skeleton_of(find_def(sm.body, f))))
    rs = find_class(stats, 'RouteStatReservoir')
    for f in ['__init__', 'add']:
        items.append(('ROUTESTATRESERVOIR_' + f.strip('_').upper(), skeleton_of(find_def(rs.body, f))))
    for f in ['_get_route_stats', 'get_stats_dict', 'get_and_reset_stats_dict']:
        items.append((f.strip('_').upper(), skeleton_of(module_def(stats, f))))
    return shape_file('clastic/render/simple.py, clastic/application.py, clastic/middleware/stats.py', items)


def gen_mw_shape(repo):
    """the request / render functions of the built-in middlewares that Model/Mw.v treats as transformers of the inner
    outcome (gzip, cache, profiler, cookie) or as pass-through (script root, GET / POST parameters, context processors)"""
    items = []
    for rel, cls, fns in (('clastic/middleware/compress.py', 'GzipMiddleware', ['request']),
                          ('clastic/middleware/client_cache.py', 'HTTPCacheMiddleware', ['request']),
                          ('clastic/middleware/profile.py', 'SimpleProfileMiddleware', ['request']),
                          ('clastic/middleware/cookie.py', 'SignedCookieMiddleware', ['request']),
                          ('clastic/middleware/cookie.py', 'JSONCookie', ['quote', 'unquote', 'unserialize', 'set_expires']),
                          ('clastic/middleware/url.py', 'ScriptRootMiddleware', ['request']),
                          ('clastic/middleware/url.py', 'GetParamMiddleware', ['request']),
                          ('clastic/middleware/form.py', 'PostDataMiddleware', ['request']),
                          ('clastic/middleware/context.py', 'ContextProcessor', ['_create_render'])):
        c = find_class(parse(repo, rel), cls)
        for f in fns:
            items.append(('%s_%s' % (cls.upper(), f.strip('_').upper()), skeleton_of(find_def(c.body, f))))
    return shape_file('clastic/middleware/*.py', items)


def gen_misc_shape(repo):
    """errors.py (C08/C09), static.py (C14), meta.py (C18), flaw.py (C20): the functions the hand-written models and the
    regenerated tables of these properties describe, statement by statement"""
    items = []
    errors = parse(repo, 'clastic/errors.py')
    he = find_class(errors, 'HTTPException')
    for f in ['__init__', 'adapt', 'to_dict', 'to_escaped_dict', 'to_json', 'to_text', 'to_html', 'to_xml']:
        items.append(('HTTPEXCEPTION_' + f.strip('_').upper(), skeleton_of(find_def(he.body, f))))
    ise = find_class(errors, 'InternalServerError')
    for f in ['__init__', 'to_dict']:
        items.append(('INTERNALSERVERERROR_' + f.strip('_').upper(), skeleton_of(find_def(ise.body, f))))
    eh = find_class(errors, 'ErrorHandler')
    for f in ['render_error', 'uncaught_to_response']:
        items.append(('ERRORHANDLER_' + f.upper(), skeleton_of(find_def(eh.body, f))))
    static = parse(repo, 'clastic/static.py')
    for f in ['is_binary_string', 'peek_file', 'find_file', 'get_file_mtime', 'build_file_response']:
        items.append(('STATIC_' + f.upper(), skeleton_of(module_def(static, f))))
    sa = find_class(static, 'StaticApplication')
    for f in ['__init__', 'get_file_response']:
        items.append(('STATICAPPLICATION_' + f.strip('_').upper(), skeleton_of(find_def(sa.body, f))))
    meta = parse(repo, 'clastic/meta.py')
    for f in ['_trunc', 'get_resource_info', 'get_mw_infos', 'get_route_infos']:
        items.append(('META_' + f.strip('_').upper(), skeleton_of(module_def(meta, f))))
    rp = find_class(meta, 'ResourcePeripheral')
    items.append(('RESOURCEPERIPHERAL_GET_CONTEXT', skeleton_of(find_def(rp.body, 'get_context'))))
    ma = find_class(meta, 'MetaApplication')
    for f in ['get_main', 'render_main_page_html']:
        items.append(('METAAPPLICATION_' + f.upper(), skeleton_of(find_def(ma.body, f))))
    flaw = parse(repo, 'clastic/flaw.py')
    for f in ['create_app', 'get_flaw_info', '_filter_site_files']:
        items.append(('FLAW_' + f.strip('_').upper(), skeleton_of(module_def(flaw, f))))
    return shape_file('clastic/errors.py, clastic/static.py, clastic/meta.py, clastic/flaw.py', items)


def gen_route_shape(repo):
    """route.py: the assembly of the route regex and the converters that Model/RouteRx.v, Model/Match.v and
    Proofs/ConvertProofs.v transcribe by hand"""
    route = parse(repo, 'clastic/route.py')
    items = [('COMPILE_PATH_PATTERN', skeleton_of(module_def(route, '_compile_path_pattern'))),
             ('BUILD_CONVERTER', skeleton_of(module_def(route, 'build_converter')))]
    br = find_class(route, 'BoundRoute')
    items.append(('MATCH_PATH', skeleton_of(find_def(br.body, 'match_path'))))
    return shape_file('clastic/route.py', items)


GENERATORS = {
    'Footprint.v': gen_footprint,
    'MetaGen.v': gen_meta,
    'FlawGen.v': gen_flaw,
    'ErrorsGen.v': gen_errors,
    'Templates.v': gen_templates,
    'CookieGuards.v': gen_cookie_guards,
    'MwGuards.v': gen_mw_guards,
    'StaticGuards.v': gen_static_guards,
    'RouteLex.v': gen_route_lex,
    'NormPathGen.v': gen_normpath,
    'Tables.v': gen_tables,
    'ReservoirGen.v': gen_reservoir,
    'DispatchShape.v': gen_dispatch_shape,
    'RouteShape.v': gen_route_shape,
    'MwShape.v': gen_mw_shape,
    'MiscShape.v': gen_misc_shape,
    'ChainShape.v': gen_chain_shape,
    'WorldShape.v': gen_world_shape,
    'MoreShapes.v': gen_more_shapes,
}


def generate(repo):
    files, errors = {}, {}
    for name, fn in GENERATORS.items():
        try:
            files[name] = fn(repo)
        except Exception as e:              # any failure of a generator is a shape it cannot translate: fail closed
            errors[name] = '%s: %s' % (type(e).__name__, e)
            files[name] = ('(* TRANSLATOR FAILED: the source no longer has a shape the translator accepts *)\n'
                           'Definition translator_failed : True := 0.\n')
    return files, errors


if __name__ == '__main__':
    repo = sys.argv[1] if len(sys.argv) > 1 else '/repo'
    files, errors = generate(repo)
    outdir = sys.argv[2] if len(sys.argv) > 2 else None
    for name, text in files.items():
        if outdir:
            with open(os.path.join(outdir, name), 'w') as f:
                f.write(text)
        else:
            print('=====', name)
            print(text)
    for k, v in errors.items():
        print('ERROR', k, v, file=sys.stderr)
