"""Fail-closed translator for small pure string/list functions (normalize_path):
locals are lists of strings, parameters are strings or booleans."""
import ast

from pygallina import TranslatorError, fail


def coq_str(s):
    for ch in s.encode('utf8'):
        if ch < 32 or ch > 126:
            raise TranslatorError('non-printable byte in string constant %r' % (s,))
    return '"' + s.replace('"', '""') + '"'


class StrFun(object):
    def __init__(self, str_params, bool_params):
        self.str_params = set(str_params)
        self.bool_params = set(bool_params)
        self.lists = set()

    def sexpr(self, e):
        if isinstance(e, ast.Constant) and isinstance(e.value, str):
            return coq_str(e.value)
        if isinstance(e, ast.Name) and e.id in self.str_params:
            return e.id
        if isinstance(e, ast.Call) and isinstance(e.func, ast.Attribute) and e.func.attr == 'join' \
                and isinstance(e.func.value, ast.Constant) and isinstance(e.func.value.value, str) \
                and len(e.args) == 1 and not e.keywords:
            return '(join %s %s)' % (coq_str(e.func.value.value), self.lexpr(e.args[0]))
        fail(e, 'string expression not in whitelist')

    def char(self, e):
        if isinstance(e, ast.Constant) and isinstance(e.value, str) and len(e.value) == 1 and ord(e.value) < 127:
            return '%s%%char' % coq_str(e.value)
        fail(e, 'separator must be a one-character ASCII constant')

    def lexpr(self, e):
        if isinstance(e, ast.Name) and e.id in self.lists:
            return e.id
        if isinstance(e, ast.ListComp) and len(e.generators) == 1:
            g = e.generators[0]
            if isinstance(e.elt, ast.Name) and isinstance(g.target, ast.Name) and e.elt.id == g.target.id \
                    and len(g.ifs) == 1 and isinstance(g.ifs[0], ast.Name) and g.ifs[0].id == g.target.id \
                    and not g.is_async:
                return '(filter nonempty %s)' % self.lexpr(g.iter)
            fail(e, 'list comprehension shape')
        if isinstance(e, ast.Call) and isinstance(e.func, ast.Attribute) and e.func.attr == 'split' \
                and len(e.args) == 1 and not e.keywords:
            return '(split_on %s %s)' % (self.char(e.args[0]), self.sexpr(e.func.value))
        if isinstance(e, ast.List):
            return '[' + '; '.join(self.sexpr(x) for x in e.elts) + ']'
        if isinstance(e, ast.BinOp) and isinstance(e.op, ast.Add):
            return '(List.app %s %s)' % (self.lexpr(e.left), self.lexpr(e.right))
        fail(e, 'list expression not in whitelist')

    def append_stmt(self, s):
        if isinstance(s, ast.Expr) and isinstance(s.value, ast.Call) and isinstance(s.value.func, ast.Attribute) \
                and s.value.func.attr == 'append' and isinstance(s.value.func.value, ast.Name) \
                and s.value.func.value.id in self.lists and len(s.value.args) == 1 and not s.value.keywords:
            n = s.value.func.value.id
            return n, '(List.app %s [%s])' % (n, self.sexpr(s.value.args[0]))
        return None

    def block(self, stmts, ind=1):
        pad = '  ' * ind
        if not stmts:
            raise TranslatorError('function can fall off its end')
        s, rest = stmts[0], stmts[1:]
        if isinstance(s, ast.Expr) and isinstance(s.value, ast.Constant) and isinstance(s.value.value, str):
            return self.block(rest, ind)
        if isinstance(s, ast.Return) and s.value is not None:
            return pad + self.sexpr(s.value)
        if isinstance(s, ast.Assign) and len(s.targets) == 1 and isinstance(s.targets[0], ast.Name):
            v = self.lexpr(s.value)
            self.lists.add(s.targets[0].id)
            return pad + 'let %s := %s in\n' % (s.targets[0].id, v) + self.block(rest, ind)
        a = self.append_stmt(s)
        if a:
            return pad + 'let %s := %s in\n' % a + self.block(rest, ind)
        if isinstance(s, ast.If) and not s.orelse:
            t = s.test
            if isinstance(t, ast.UnaryOp) and isinstance(t.op, ast.Not) and isinstance(t.operand, ast.Name) \
                    and t.operand.id in self.lists and len(s.body) == 1 and isinstance(s.body[0], ast.Return):
                return (pad + 'if is_nil %s then %s else\n' % (t.operand.id, self.sexpr(s.body[0].value))
                        + self.block(rest, ind))
            if isinstance(t, ast.Name) and t.id in self.bool_params and len(s.body) == 1:
                a = self.append_stmt(s.body[0])
                if a:
                    return pad + 'let %s := if %s then %s else %s in\n' % (a[0], t.id, a[1], a[0]) + self.block(rest, ind)
        fail(s, 'statement not in whitelist')

    def function(self, fn):
        args = [a.arg for a in fn.args.args]
        if fn.args.vararg or fn.args.kwarg or fn.args.kwonlyargs or fn.args.defaults or fn.args.posonlyargs:
            fail(fn, 'signature')
        for a in args:
            if a not in self.str_params and a not in self.bool_params:
                fail(fn, 'unexpected parameter %s' % a)
        params = ' '.join('(%s : %s)' % (a, 'string' if a in self.str_params else 'bool') for a in args)
        return 'Definition %s %s : string :=\n%s.\n' % (fn.name, params, self.block(fn.body))
