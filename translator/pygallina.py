"""Fail-closed translator for a tiny imperative subset of Python (methods that
read/write fields of `self`, `if`, bare `return`, list append / index
assignment / prefix slice, integer comparisons and +,-) into Gallina.

Anything outside the whitelisted shapes raises TranslatorError: the caller
treats that as a broken proof obligation (the model can no longer be tied to
the source), never as "nothing to check".
"""
import ast


class TranslatorError(Exception):
    pass


def fail(node, why):
    line = getattr(node, 'lineno', '?')
    raise TranslatorError('line %s: %s: %s' % (line, why, ast.dump(node)[:200]))


CMP = {ast.Lt: '<?', ast.LtE: '<=?', ast.Gt: '>?', ast.GtE: '>=?', ast.Eq: '=?'}


class MethodTranslator(object):
    """Translates one method body.  State is a Coq record value named `self`
    that is re-bound functionally; `list_fields` are fields of type list,
    all other fields and all locals/params are Z (except `opaque` params,
    which are only ever moved around)."""

    def __init__(self, fields, list_fields, opaque, oracles):
        self.fields = fields
        self.list_fields = list_fields
        self.opaque = set(opaque)
        self.oracles = oracles  # callable names translated to function parameters

    # ---- expressions ----
    def expr(self, e, env):
        if isinstance(e, ast.Constant) and isinstance(e.value, int) and not isinstance(e.value, bool):
            return '(%d)' % e.value
        if isinstance(e, ast.Name):
            if e.id in env:
                return e.id
            fail(e, 'unknown name')
        if isinstance(e, ast.Attribute) and isinstance(e.value, ast.Name) and e.value.id == 'self':
            if e.attr in self.fields:
                return '(%s self)' % e.attr
            fail(e, 'unknown field')
        if isinstance(e, ast.Call) and isinstance(e.func, ast.Name):
            if e.func.id == 'len' and len(e.args) == 1 and not e.keywords:
                return '(zlen %s)' % self.lexpr(e.args[0], env)
            if e.func.id in self.oracles and not e.keywords:
                return '(%s %s)' % (e.func.id, ' '.join(self.expr(a, env) for a in e.args))
            fail(e, 'call not in whitelist')
        if isinstance(e, ast.BinOp) and isinstance(e.op, (ast.Add, ast.Sub)):
            op = '+' if isinstance(e.op, ast.Add) else '-'
            return '(%s %s %s)' % (self.expr(e.left, env), op, self.expr(e.right, env))
        fail(e, 'expression not in whitelist')

    def lexpr(self, e, env):
        """list-typed expression"""
        if isinstance(e, ast.Attribute) and isinstance(e.value, ast.Name) and e.value.id == 'self' \
                and e.attr in self.list_fields:
            return '(%s self)' % e.attr
        if isinstance(e, ast.Subscript) and isinstance(e.slice, ast.Slice):
            s = e.slice
            if s.lower is None and s.step is None and s.upper is not None:
                return '(py_slice_to %s %s)' % (self.lexpr(e.value, env), self.expr(s.upper, env))
            fail(e, 'slice shape')
        fail(e, 'list expression not in whitelist')

    def cond(self, e, env):
        if isinstance(e, ast.Compare) and len(e.ops) == 1 and type(e.ops[0]) in CMP:
            return '(%s %s %s)' % (self.expr(e.left, env), CMP[type(e.ops[0])],
                                   self.expr(e.comparators[0], env))
        fail(e, 'condition not in whitelist')

    # ---- statements ----
    def upd(self, field, val):
        return 'let self := upd%s self %s in' % (field, val)

    def always_returns(self, stmts):
        if not stmts:
            return False
        last = stmts[-1]
        if isinstance(last, ast.Return):
            return True
        if isinstance(last, ast.If) and last.orelse:
            return self.always_returns(last.body) and self.always_returns(last.orelse)
        return False

    def block(self, stmts, env, ind):
        pad = '  ' * ind
        if not stmts:
            return pad + 'Ok self'
        s, rest = stmts[0], stmts[1:]
        if isinstance(s, ast.Return):
            if s.value is not None:
                fail(s, 'only bare return supported')
            return pad + 'Ok self'
        if isinstance(s, ast.AugAssign) and isinstance(s.op, ast.Add) and self._is_field(s.target):
            f = s.target.attr
            if f in self.list_fields:
                fail(s, '+= on list field')
            return pad + self.upd(f, '(%s self + %s)' % (f, self.expr(s.value, env))) + '\n' + \
                self.block(rest, env, ind)
        if isinstance(s, ast.Assign) and len(s.targets) == 1:
            t = s.targets[0]
            if self._is_field(t):
                f = t.attr
                v = self.lexpr(s.value, env) if f in self.list_fields else self.expr(s.value, env)
                return pad + self.upd(f, v) + '\n' + self.block(rest, env, ind)
            if isinstance(t, ast.Name):
                v = self.expr(s.value, env)
                return pad + 'let %s := %s in\n' % (t.id, v) + self.block(rest, env | {t.id}, ind)
            if isinstance(t, ast.Subscript) and self._is_field(t.value) and t.value.attr in self.list_fields \
                    and not isinstance(t.slice, ast.Slice):
                f = t.value.attr
                val = self._value(s.value, env)
                return (pad + 'match py_set_nth (%s self) %s %s with\n' % (f, self.expr(t.slice, env), val) +
                        pad + '| None => Raise "IndexError"%string\n' +
                        pad + '| Some l_ =>\n' + pad + '  ' + self.upd(f, 'l_') + '\n' +
                        self.block(rest, env, ind + 1) + '\n' + pad + 'end')
            fail(s, 'assignment target')
        if isinstance(s, ast.Expr) and isinstance(s.value, ast.Call):
            c = s.value
            if isinstance(c.func, ast.Attribute) and c.func.attr == 'append' and self._is_field(c.func.value) \
                    and c.func.value.attr in self.list_fields and len(c.args) == 1 and not c.keywords:
                f = c.func.value.attr
                return pad + self.upd(f, '(%s self ++ [%s])' % (f, self._value(c.args[0], env))) + '\n' + \
                    self.block(rest, env, ind)
            fail(s, 'call statement')
        if isinstance(s, ast.If):
            c = self.cond(s.test, env)
            then = s.body if self.always_returns(s.body) else s.body + rest
            els = (s.orelse if self.always_returns(s.orelse) else s.orelse + rest) if s.orelse else rest
            return (pad + 'if %s then\n' % c + self.block(then, env, ind + 1) + '\n' +
                    pad + 'else\n' + self.block(els, env, ind + 1))
        if isinstance(s, ast.Expr) and isinstance(s.value, ast.Constant) and isinstance(s.value.value, str):
            return self.block(rest, env, ind)  # docstring
        fail(s, 'statement not in whitelist')

    def _value(self, e, env):
        if isinstance(e, ast.Name) and e.id in self.opaque:
            return e.id
        return self.expr(e, env)

    @staticmethod
    def _is_field(t):
        return isinstance(t, ast.Attribute) and isinstance(t.value, ast.Name) and t.value.id == 'self'

    def method(self, fn, param_types):
        args = [a.arg for a in fn.args.args]
        if args[0] != 'self' or fn.args.vararg or fn.args.kwarg or fn.args.kwonlyargs or fn.args.defaults:
            fail(fn, 'method signature')
        env = set(args[1:])
        body = self.block(fn.body, env, 1)
        params = ' '.join('(%s : %s)' % (a, param_types[a]) for a in args[1:])
        orc = ' '.join('(%s : Z -> Z -> Z)' % o for o in self.oracles if self._uses(fn, o))
        return 'Definition %s (self : rstate) %s %s : result rstate :=\n%s.\n' % (fn.name, params, orc, body)

    @staticmethod
    def _uses(fn, name):
        return any(isinstance(n, ast.Name) and n.id == name for n in ast.walk(fn))


def find_class(tree, name):
    for n in tree.body:
        if isinstance(n, ast.ClassDef) and n.name == name:
            return n
    raise TranslatorError('class %s not found' % name)


def find_def(body, name):
    for n in body:
        if isinstance(n, ast.FunctionDef) and n.name == name:
            return n
    raise TranslatorError('def %s not found' % name)
