(* Wire format of the flawlab correspondence (C20). *)
From Coq Require Import List String Ascii Bool Arith.
Import ListNotations.
From ClasticV Require Import Base.Py Base.Strs Base.Sx Model.Errors Model.Flaw Gen.FlawGen.
Local Open Scope list_scope.
Local Open Scope string_scope.

(* input: (tb_str (mon_file ...) (all_file ...)) -> the page *)
Definition run_flawlab (s : sexp) : sexp :=
  match s with
  | L [A tb; mon; all] =>
      match dlist dstr mon, dlist dstr all with
      | Some mon', Some all' => L [A (render_nodes (flaw_ctx tb mon' all') FLAW_NODES); A (last_line tb)]
      | _, _ => bad_input
      end
  | _ => bad_input
  end.
