(* Bind-time logic of clastic: signatures, chain_argspec / make_chain /
   build_chain_str (sinter.py), check_middleware(s) / merge_middlewares /
   make_middleware_chain / _create_request_inner (middleware/core.py), the
   src_provides_map + cycle test of BoundRoute.__init__ (route.py) and the
   resource check + null route of Application.__init__ (application.py).
   The output is a *call plan*: for each generated `def next(...)` level its
   parameter list, the function it calls and the keyword list of that call. *)
From Coq Require Import List String Bool Arith.
Import ListNotations.
From ClasticV Require Import Base.Py Base.FSet Gen.Tables.
Local Open Scope string_scope.
Local Open Scope list_scope.

(* ---------------- signatures ---------------- *)
Record fsig := mk_fsig {
  f_pos : list name;        (* positional-or-keyword parameters, positional-only ones first *)
  f_posonly : nat;          (* how many of f_pos are positional-only *)
  f_kwonly : list name;
  f_defaulted : list name   (* parameters that have a default *)
}.

Definition arg_names (f : fsig) : list name := f_pos f ++ f_kwonly f.     (* fb.get_arg_names() *)
Definition required (f : fsig) : list name := diff (arg_names f) (f_defaulted f).
Definition optional (f : fsig) : list name := inter (arg_names f) (f_defaulted f).
Definition posonly_names (f : fsig) : list name := firstn (f_posonly f) (f_pos f).

(* ---------------- middlewares ---------------- *)
Record mw := mk_mw {
  m_inst : nat;                     (* identifies the middleware *instance* (for traces/scripts) *)
  m_id : nat;                       (* identifies the middleware *type* (Middleware.__eq__) *)
  m_unique : bool;
  m_reorderable : bool;
  m_request : option fsig;
  m_endpoint : option fsig;
  m_render : option fsig;
  m_provides : list name;
  m_ep_provides : list name;
  m_rn_provides : list name
}.

Inductive phase := PhReq | PhEp | PhRn.

Inductive fid : Type :=
| FMw (ph : phase) (i : nat)        (* i = instance number of the middleware *)
| FEndpoint
| FRender
| FProc.                            (* the generated process_request *)

Record level := mk_level {
  lv_params : list name;            (* parameters of the generated `def next(...)` at this level *)
  lv_func : fid;                    (* funcs[level] *)
  lv_sig : fsig;
  lv_kwargs : list name;            (* names passed as name=name *)
  lv_gives : list name              (* what the called middleware hands to next(): its declared provides *)
}.

Record plan := mk_plan {
  p_req : list level;
  p_ep : list level;
  p_rn : list level;
  p_pr_params : list name;          (* parameters of process_request *)
  p_ep_kwargs : list name;          (* endpoint(...) call inside process_request *)
  p_rn_kwargs : list name           (* render(...) call inside process_request *)
}.

(* ---------------- sinter.chain_argspec ---------------- *)
Fixpoint chain_argspec (fps : list (fsig * list name)) (provided opt req : list name)
  : list name * list name :=
  match fps with
  | [] => (req, opt)
  | (f, p) :: r =>
      chain_argspec r (union provided p) (union opt (optional f))
                    (union req (diff (required f) provided))
  end.

(* ---------------- sinter.build_chain_str ---------------- *)
Fixpoint build_levels (fs : list (fid * fsig * list name)) (params : list (list name))
         (sofar : list name) : list level :=
  match fs, params with
  | (id, sg, gives) :: fr, p :: pr =>
      let sofar' := union sofar p in
      mk_level p id sg (inter (arg_names sg) sofar') gives :: build_levels fr pr sofar'
  | _, _ => []
  end.

(* ---------------- sinter.make_chain ---------------- *)
Record chain_res := mk_chain_res { c_levels : list level; c_args : list name; c_unres : list name }.

Definition make_chain (funcs : list (fid * fsig * list name)) (final : fid * fsig)
           (preprovided : list name) : chain_res :=
  let fps := map (fun x => (snd (fst x), snd x)) funcs ++ [(snd final, [])] in
  let '(reqs, opts) := chain_argspec fps [INNER_NAME] [] [] in
  let unres := diff reqs preprovided in
  let args := dedup (union reqs (inter preprovided opts)) in
  let levels := build_levels (funcs ++ [(fst final, snd final, [])])
                             (args :: map (fun x => snd x) funcs) [INNER_NAME] in
  mk_chain_res levels args unres.

(* ---------------- middleware.core ---------------- *)
Definition check_func (o : option fsig) : result unit :=
  match o with
  | None => Ok tt
  | Some f => match arg_names f with
              | [] => Raise "IndexError"           (* get_arg_names(func)[0] on an empty tuple *)
              | a :: _ => if String.eqb a "next" then Ok tt else Raise "TypeError"
              end
  end.

Definition check_middleware (m : mw) : result unit :=
  rbind (check_func (m_request m)) (fun _ =>
  rbind (check_func (m_endpoint m)) (fun _ => check_func (m_render m))).

Fixpoint check_each (ms : list mw) : result unit :=
  match ms with [] => Ok tt | m :: r => rbind (check_middleware m) (fun _ => check_each r) end.

Definition mw_offers (m : mw) : list name := m_provides m ++ m_ep_provides m ++ m_rn_provides m.
Definition all_offers (src : list name) (ms : list mw) : list name := src ++ flat_map mw_offers ms.

Definition check_middlewares (ms : list mw) (src : list name) : result unit :=
  rbind (check_each ms) (fun _ => if has_dup (all_offers src ms) then Raise "NameError" else Ok tt).

Fixpoint merge_into (merged old : list mw) : result (list mw) :=
  match old with
  | [] => Ok merged
  | m :: r =>
      if m_unique m && existsb (fun x => Nat.eqb (m_id x) (m_id m)) merged
      then (if m_reorderable m then merge_into merged r else Raise "ValueError")
      else merge_into (merged ++ [m]) r
  end.
Definition merge_middlewares (old new : list mw) : result (list mw) := merge_into new old.

Definition phase_funcs (ph : phase) (ms : list mw) : list (fid * fsig * list name) :=
  flat_map (fun m =>
    let i := m_inst m in
    match ph with
    | PhReq => match m_request m with Some f => [(FMw PhReq i, f, m_provides m)] | None => [] end
    | PhEp => match m_endpoint m with Some f => [(FMw PhEp i, f, m_ep_provides m)] | None => [] end
    | PhRn => match m_render m with Some f => [(FMw PhRn i, f, m_rn_provides m)] | None => [] end
    end) ms.

Definition make_middleware_chain (ms : list mw) (endpoint render : fsig) (preprovided : list name)
  : result plan :=
  if mem "next" (arg_names endpoint) then Raise "NameError" else
  if mem "next" (arg_names render) then Raise "NameError" else
  let req_avail := diff preprovided ["next"; "context"] in
  let req_fs := phase_funcs PhReq ms in
  let req_all := flat_map (fun x => snd x) req_fs in
  let ep_avail := union req_avail req_all in
  let ep := make_chain (phase_funcs PhEp ms) (FEndpoint, endpoint) ep_avail in
  if negb (is_empty (c_unres ep)) then Raise "NameError" else
  let rn_avail := union ep_avail ["context"] in
  let rn := make_chain (phase_funcs PhRn ms) (FRender, render) rn_avail in
  if negb (is_empty (c_unres rn)) then Raise "NameError" else
  let req_args := dedup (diff (union (c_args ep) (c_args rn)) ["context"]) in
  let rq := make_chain req_fs (FProc, mk_fsig req_args 0 [] []) req_avail in
  if negb (is_empty (c_unres rq)) then Raise "NameError" else
  Ok (mk_plan (c_levels rq) (c_levels ep) (c_levels rn) req_args (c_args ep) (c_args rn)).

(* ---------------- BoundRoute._resolve_required_args: the cycle test ---------------- *)
Definition func_deps (o : option fsig) : list name :=
  match o with Some f => f_pos f | None => [] end.      (* fb.args: positional names only *)

Definition dep_edges (ms : list mw) (endpoint : fsig) : list (name * name) :=
  flat_map (fun m =>
    list_prod (m_provides m) (func_deps (m_request m)) ++
    list_prod (m_ep_provides m) (func_deps (m_endpoint m)) ++
    list_prod (m_rn_provides m) (func_deps (m_render m))) ms
  ++ list_prod ["__endpoint_response__"] (f_pos endpoint).

Definition prune (edges : list (name * name)) (alive : list name) : list name :=
  filter (fun n => existsb (fun e => String.eqb (fst e) n && mem (snd e) alive) edges) alive.

Fixpoint iter_prune (fuel : nat) (edges : list (name * name)) (alive : list name) : list name :=
  match fuel with O => alive | S k => iter_prune k edges (prune edges alive) end.

Definition has_cycle (edges : list (name * name)) : bool :=
  let nodes := dedup (map fst edges ++ map snd edges) in
  negb (is_empty (iter_prune (List.length nodes) edges nodes)).

(* ---------------- BoundRoute.__init__ (dependency part) ---------------- *)
Record route_cfg := mk_route_cfg {
  r_url : list name;                (* converters: names bound by the URL pattern *)
  r_resources : list name;          (* effective resources (application's + route's) *)
  r_mws : list mw;                  (* merged middleware list *)
  r_endpoint : fsig;
  r_render : fsig
}.

Definition src_offers (c : route_cfg) : list name := r_url c ++ RESERVED_ARGS ++ r_resources c.

Definition build_route (c : route_cfg) : result plan :=
  rbind (check_middlewares (r_mws c) (src_offers c)) (fun _ =>
  rbind (make_middleware_chain (r_mws c) (r_endpoint c) (r_render c) (dedup (src_offers c))) (fun p =>
  if has_cycle (dep_edges (r_mws c) (r_endpoint c)) then Raise "RuntimeError" else Ok p)).

(* ---------------- Application.__init__ with one route ---------------- *)
Record app_cfg := mk_app_cfg {
  a_resources : list name;
  a_mws : list mw;
  a_route_url : list name;
  a_route_resources : list name;
  a_route_mws : list mw;
  a_endpoint : fsig;
  a_render : fsig
}.

Definition null_sig : fsig := mk_fsig NULL_ENDPOINT_ARGS 0 [] [].
Definition noop_render_sig : fsig := mk_fsig NOOP_RENDER_ARGS 0 [] [].

Definition null_cfg (a : app_cfg) : route_cfg :=
  mk_route_cfg ["_ignored"] (a_resources a) (a_mws a) null_sig noop_render_sig.

Definition build_app (a : app_cfg) : result (plan * plan) :=
  if existsb (fun r => mem r (a_resources a)) RESERVED_ARGS then Raise "NameError" else
  rbind (check_middlewares (a_mws a) []) (fun _ =>
  rbind (build_route (null_cfg a)) (fun pn =>
  rbind (merge_middlewares (a_route_mws a) (a_mws a)) (fun merged =>
  rbind (build_route (mk_route_cfg (a_route_url a)
                                   (dedup (a_resources a ++ a_route_resources a))
                                   merged (a_endpoint a) (a_render a))) (fun pr =>
  Ok (pn, pr))))).

(* ---------------- an application embedded in an outer application under a prefix ---------------- *)
(* Application([(prefix, inner)], resources, middlewares): the inner application is constructed first (build_app);
   the outer one checks its own resources and middlewares, binds its null route, and RE-binds the inner
   application's bound route: URL names of the prefix are added, the outer list is merged in front of the
   already merged inner list, the resources of all levels are visible by name *)
Record outer_cfg := mk_outer_cfg {
  o_resources : list name;
  o_mws : list mw;
  o_prefix_url : list name
}.

Definition outer_null_cfg (o : outer_cfg) : route_cfg :=
  mk_route_cfg ["_ignored"] (o_resources o) (o_mws o) null_sig noop_render_sig.

Definition nested_route_cfg (o : outer_cfg) (a : app_cfg) (merged : list mw) : route_cfg :=
  mk_route_cfg (o_prefix_url o ++ a_route_url a)
               (dedup (o_resources o ++ a_resources a ++ a_route_resources a))
               merged (a_endpoint a) (a_render a).

Definition build_nested (o : outer_cfg) (a : app_cfg) : result (plan * plan * list mw) :=
  rbind (build_app a) (fun _ =>
  if existsb (fun r => mem r (o_resources o)) RESERVED_ARGS then Raise "NameError" else
  rbind (check_middlewares (o_mws o) []) (fun _ =>
  rbind (build_route (outer_null_cfg o)) (fun pn =>
  rbind (merge_middlewares (a_route_mws a) (a_mws a)) (fun m1 =>
  rbind (merge_middlewares m1 (o_mws o)) (fun m2 =>
  rbind (build_route (nested_route_cfg o a m2)) (fun pr =>
  Ok (pn, pr, m2))))))).
