(* Wire format of the renderlab correspondence (C17). *)
From Coq Require Import List String Ascii Bool Arith ZArith.
Import ListNotations.
From ClasticV Require Import Base.Py Base.Strs Base.Sx Model.Render.
Local Open Scope list_scope.
Local Open Scope string_scope.

Fixpoint d_pyval (s : sexp) : option pyval :=
  match s with
  | A "none" => Some PNone
  | L [A "s"; A x] => Some (PStr x)
  | L [A "b"; A x] => Some (PBytes x)
  | L [A "i"; z] => do z' <- dZ z; Some (PInt z')
  | L [A "f"; A x] => Some (PFloat x)
  | L [A "bool"; b] => do b' <- dbool b; Some (PBool b')
  | L [A "date"; A x] => Some (PDate x)
  | L [A "plain"; A x] => Some (PPlain x)
  | L [A "gen"; A x] => Some (PGen x)
  | L [A "todict"; x] => do x' <- d_pyval x; Some (PToDict x')
  | L [A "asdict"; x] => do x' <- d_pyval x; Some (PAsDict x')
  | L [A tag; L items] =>
      if String.eqb tag "list" || String.eqb tag "tuple" || String.eqb tag "set" then
        do l <- (fix go (l : list sexp) : option (list pyval) :=
                   match l with [] => Some [] | x :: r => do x' <- d_pyval x; do r' <- go r; Some (x' :: r') end) items;
        Some (if String.eqb tag "list" then PList l else if String.eqb tag "tuple" then PTuple l else PSet l)
      else if String.eqb tag "dict" || String.eqb tag "mapping" then
        do l <- (fix go (l : list sexp) : option (list (string * pyval)) :=
                   match l with
                   | [] => Some []
                   | L [A k; x] :: r => do x' <- d_pyval x; do r' <- go r; Some ((k, x') :: r')
                   | _ => None
                   end) items;
        Some (if String.eqb tag "dict" then PDict l else PMapping l)
      else None
  | _ => None
  end.

Fixpoint e_json (j : jsonval) : sexp :=
  match j with
  | JStr s => L [A "s"; A s]
  | JNum x => L [A "n"; A x]
  | JBool b => L [A "bool"; ebool b]
  | JNull => A "null"
  | JArr l => L [A "arr"; L (map e_json l)]
  | JSet l => L [A "set"; L (map e_json l)]
  | JObj kvs => L [A "obj"; L (map (fun kv => L [A (fst kv); e_json (snd kv)]) kvs)]
  end.

Definition e_rendered (r : result rendered) : sexp :=
  match r with
  | Raise c => L [A "raise"; A c]
  | Ok (RText m _) => L [A "text"; A m]
  | Ok RStr => A "str"
  | Ok (RJson j) => L [A "json"; e_json j]
  | Ok RTable => A "table"
  end.

(* input: (value format best-or-None dev) *)
Definition run_renderlab (s : sexp) : sexp :=
  match s with
  | L [v; A f; best; dev] =>
      match d_pyval v, dopt dstr best, dbool dev with
      | Some v', Some best', Some dev' =>
          let f' := if String.eqb f "absent" then FAbsent else if String.eqb f "json" then FJson
                    else if String.eqb f "html" then FHtml else FOther in
          L [e_rendered (render_basic v' f' best');
             match normalise dev' v' with Ok j => L [A "json"; e_json j] | Raise c => L [A "raise"; A c] end]
      | _, _, _ => bad_input
      end
  | _ => bad_input
  end.
