(* Wire format of the chainlab correspondence (C01-C04, C08 reuse it). *)
From Coq Require Import List String Bool Arith ZArith.
Import ListNotations.
From ClasticV Require Import Base.Py Base.FSet Base.Sx Gen.Tables Model.Chain Model.Exec.
Local Open Scope string_scope.
Local Open Scope list_scope.

Definition d_names : sexp -> option (list name) := dlist dstr.

Definition d_sig (s : sexp) : option fsig :=
  match s with
  | L [pos; po; kwo; dfl] =>
      do p <- d_names pos; do n <- dnat po; do k <- d_names kwo; do d <- d_names dfl;
      Some (mk_fsig p n k d)
  | _ => None
  end.

Definition d_mw (s : sexp) : option mw :=
  match s with
  | L [inst; id; un; ro; rq; ep; rn; p1; p2; p3] =>
      do inst' <- dnat inst; do id' <- dnat id; do un' <- dbool un; do ro' <- dbool ro;
      do rq' <- dopt d_sig rq; do ep' <- dopt d_sig ep; do rn' <- dopt d_sig rn;
      do p1' <- d_names p1; do p2' <- d_names p2; do p3' <- d_names p3;
      Some (mk_mw inst' id' un' ro' rq' ep' rn' p1' p2' p3')
  | _ => None
  end.

Definition d_app (s : sexp) : option app_cfg :=
  match s with
  | L [res; mws; url; rres; rmws; ep; rn] =>
      do res' <- d_names res; do mws' <- dlist d_mw mws; do url' <- d_names url;
      do rres' <- d_names rres; do rmws' <- dlist d_mw rmws; do ep' <- d_sig ep; do rn' <- d_sig rn;
      Some (mk_app_cfg res' mws' url' rres' rmws' ep' rn')
  | _ => None
  end.

Definition d_post (s : sexp) : option post :=
  match s with
  | A "pass" => Some PPass
  | L [A "raise_after"; A e] => Some (PRaiseAfter e)
  | L [A "swallow"; A r] => Some (PSwallow r)
  | L [A "replace"; A r] => Some (PReplace r)
  | _ => None
  end.

Definition d_mscript (s : sexp) : option mscript :=
  match s with
  | L [A "call"; p] => do p' <- d_post p; Some (MCallNext p')
  | L [A "raise"; A e] => Some (MRaiseBefore e)
  | L [A "early"; A r] => Some (MReturnEarly r)
  | _ => None
  end.

Definition d_phase (s : sexp) : option phase :=
  match s with A "q" => Some PhReq | A "e" => Some PhEp | A "r" => Some PhRn | _ => None end.

Definition phase_eqb (a b : phase) : bool :=
  match a, b with PhReq, PhReq | PhEp, PhEp | PhRn, PhRn => true | _, _ => false end.

Definition d_mscripts (s : sexp) : option (phase -> nat -> mscript) :=
  do l <- dlist (fun x => match x with
                          | L [ph; i; sc] => do ph' <- d_phase ph; do i' <- dnat i; do sc' <- d_mscript sc;
                                             Some (ph', i', sc')
                          | _ => None end) s;
  Some (fun ph i =>
          match find (fun x => phase_eqb (fst (fst x)) ph && Nat.eqb (snd (fst x)) i) l with
          | Some x => snd x
          | None => MCallNext PPass
          end).

Definition d_escript (s : sexp) : option escript :=
  match s with
  | L [A "ctx"; A t] => Some (ECtx t)
  | L [A "resp"; A t] => Some (EResp t)
  | L [A "raise"; A e] => Some (ERaise e)
  | _ => None
  end.

Definition d_rscript (s : sexp) : option rscript :=
  match s with
  | L [A "resp"; A t] => Some (RResp t)
  | L [A "non"; A t] => Some (RNon t)
  | L [A "raise"; A e] => Some (RRaise e)
  | _ => None
  end.

Definition d_scripts (s : sexp) : option scripts :=
  match s with
  | L [m; e; r] => do m' <- d_mscripts m; do e' <- d_escript e; do r' <- d_rscript r;
                   Some (mk_scripts m' e' r')
  | _ => None
  end.

(* ---------- encoders ---------- *)
Definition e_value (v : value) : sexp := match v with VS s => A s | VNext => A "NEXT" end.
Definition e_env (e : env) : sexp := elist (epair estr e_value) e.
Definition e_fid (f : fid) : sexp :=
  match f with
  | FMw ph i => L [A "mw"; A (phase_tag ph); enat i]
  | FEndpoint => A "endpoint"
  | FRender => A "render"
  | FProc => A "proc"
  end.
Definition e_outcome (o : outcome) : sexp :=
  match o with
  | OVal true t => L [A "resp"; A t]
  | OVal false t => L [A "ctx"; A t]
  | OExc e => L [A "exc"; A e]
  end.
Definition e_event (ev : event) : sexp :=
  match ev with
  | Enter f kw => L [A "enter"; e_fid f; e_env kw]
  | Leave f o => L [A "leave"; e_fid f; e_outcome o]
  | ArgError f => L [A "argerror"; e_fid f]
  | Unbound f n => L [A "unbound"; e_fid f; A n]
  end.
Definition e_run (r : outcome * list event) : sexp := L [e_outcome (fst r); elist e_event (snd r)].

Definition merged_cfg (a : app_cfg) (merged : list mw) : route_cfg :=
  mk_route_cfg (a_route_url a) (dedup (a_resources a ++ a_route_resources a)) merged
               (a_endpoint a) (a_render a).

Definition d_outer (s : sexp) : option outer_cfg :=
  match s with
  | L [res; mws; purl] =>
      do res' <- d_names res; do mws' <- dlist d_mw mws; do purl' <- d_names purl;
      Some (mk_outer_cfg res' mws' purl')
  | _ => None
  end.

(* input: (app scripts) or (app scripts outer) ; the null route's endpoint returns the 404 response *)
Definition run_chainlab (s : sexp) : sexp :=
  match s with
  | L [a; sc; o] =>
      match d_app a, d_scripts sc, d_outer o with
      | Some a', Some sc', Some o' =>
          match build_nested o' a' with
          | Raise c => L [L [A "construct"; A c]]
          | Ok (pn, pr, merged) =>
              let null_sc := mk_scripts (s_mw sc') (EResp "404") (s_rn sc') in
              L [L [A "construct"; A "ok"];
                 e_run (run null_sc pn (base_env (outer_null_cfg o')));
                 e_run (run sc' pr (base_env (nested_route_cfg o' a' merged)))]
          end
      | _, _, _ => bad_input
      end
  | L [a; sc] =>
      match d_app a, d_scripts sc with
      | Some a', Some sc' =>
          match build_app a' with
          | Raise c => L [L [A "construct"; A c]]
          | Ok (pn, pr) =>
              let null_sc := mk_scripts (s_mw sc') (EResp "404") (s_rn sc') in
              let merged := match merge_middlewares (a_route_mws a') (a_mws a') with Ok m => m | Raise _ => [] end in
              L [L [A "construct"; A "ok"];
                 e_run (run null_sc pn (base_env (null_cfg a')));
                 e_run (run sc' pr (base_env (merged_cfg a' merged)))]
          end
      | _, _ => bad_input
      end
  | _ => bad_input
  end.
