(* Wire format of the metalab correspondence (C18). *)
From Coq Require Import List String Ascii Bool Arith.
Import ListNotations.
From ClasticV Require Import Base.Py Base.Strs Base.Sx Model.Render Model.Meta Gen.MetaGen.
Local Open Scope list_scope.
Local Open Scope string_scope.

(* input: ((key repr-of-value) ...) -> ((key shown) ...) *)
Definition run_metalab (s : sexp) : sexp :=
  match dlist (dpair dstr dstr) s with
  | Some res => elist (epair estr estr)
                      (resource_info string (fun x => x) SECRET_NEEDLE REDACTED TRUNC_TRAILER TRUNC_LEN res)
  | None => bad_input
  end.
