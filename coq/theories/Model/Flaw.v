(* clastic/flaw.py: the failsafe page.  The template is a node list (generated
   from _FLAW_TEMPLATE); rendering follows the ashes discipline: a reference is
   the HTML-escaped value; a section over a list repeats its body with "." bound
   to each item; a section over a dict renders its body with the dict's keys in
   scope if the dict is non-empty and the else-body otherwise. *)
From Coq Require Import List String Ascii Bool Arith.
Import ListNotations.
From ClasticV Require Import Base.Py Base.Strs Model.Errors.
Local Open Scope list_scope.
Local Open Scope string_scope.

Inductive node :=
| NText (s : string)
| NRef (name : string)
| NSection (name : string) (body els : list node).

Record fctx := mk_fctx {
  c_parsed : option (string * string * string);     (* exc_type, exc_msg, source_file : parsed_err when parsing succeeded *)
  c_last_line : string;
  c_tb_str : string;
  c_mon_files : list string;
  c_all_mon_files : list string
}.

Definition ref_value (c : fctx) (dot : option string) (name : string) : string :=
  if String.eqb name "." then match dot with Some d => d | None => "" end
  else if String.eqb name "tb_str" then c_tb_str c
  else if String.eqb name "last_line" then c_last_line c
  else match c_parsed c with
       | Some (t, m, f) => if String.eqb name "exc_type" then t else if String.eqb name "exc_msg" then m
                           else if String.eqb name "source_file" then f else ""
       | None => ""
       end.

Fixpoint render (c : fctx) (dot : option string) (n : node) {struct n} : string :=
  let fix render_list (ns : list node) (dot : option string) : string :=
      match ns with [] => "" | x :: r => render c dot x ++ render_list r dot end in
  match n with
  | NText s => s
  | NRef name => html_escape (ref_value c dot name)
  | NSection name body els =>
      if String.eqb name "parsed_err" then
        (* ashes: a falsy value renders the else-body if there is one; WITHOUT an else-body the block is rendered
           with the (empty) dict pushed, so its references come out empty *)
        match c_parsed c, els with
        | Some _, _ => render_list body dot
        | None, [] => render_list body dot
        | None, _ => render_list els dot
        end
      else
        let items := if String.eqb name "mon_files" then c_mon_files c
                     else if String.eqb name "all_mon_files" then c_all_mon_files c else [] in
        match items with
        | [] => render_list els dot
        | _ => String.concat "" (map (fun it => render_list body (Some it)) items)
        end
  end.

Definition render_nodes (c : fctx) (ns : list node) : string := String.concat "" (map (render c None) ns).

(* tb_str.splitlines()[-1] over "\n" and "\r" (the line separators of the quantifier's alphabet);
   an empty text has no last line: the bare except gives 'Unknown error' *)
Definition is_nl (a : ascii) : bool := Ascii.eqb a (ascii_of_nat 10) || Ascii.eqb a (ascii_of_nat 13).
Fixpoint last_line_go (s : string) (cur : string) (seen : bool) : option string :=
  match s with
  | EmptyString => if seen then Some cur else None
  | String a r => if is_nl a then
                    match r with
                    | EmptyString => Some cur                      (* a trailing separator does not open a new line *)
                    | String b r' =>
                        if Ascii.eqb a (ascii_of_nat 13) && Ascii.eqb b (ascii_of_nat 10)
                        then match r' with EmptyString => Some cur | _ => last_line_go r' "" true end   (* CR LF is one separator *)
                        else last_line_go r "" true
                    end
                  else last_line_go r (cur ++ String a "") true
  end.
Definition last_line (tb : string) : string :=
  match last_line_go tb "" false with Some l => l | None => "Unknown error" end.

Definition flaw_ctx (tb : string) (mon all : list string) : fctx := mk_fctx None (last_line tb) tb mon all.
