(* Applications, routes, embedding and add(): Application.__init__ / add /
   cast_to_route_factory / SubApplication.bind_all (application.py) and the
   parts of BoundRoute.__init__ (route.py) that decide pattern, slash mode,
   resources, middleware list, renderer and error renderer of a bound route.
   The dependency check is reduced to [r_needs]: names the route's functions
   require (Model/Chain.v decides that part in full, C01). *)
From Coq Require Import List String Ascii Bool Arith ZArith.
Import ListNotations.
From ClasticV Require Import Base.Py Base.Strs Base.PyList Model.Pattern Model.Dispatch.
Local Open Scope string_scope.
Local Open Scope list_scope.

Definition name := string.

Record wmw := mk_wmw { w_inst : nat; w_type : nat; w_unique : bool; w_reorderable : bool; w_provides : list name }.

(* Route.render as given: nothing, a callable, or an argument for a render factory *)
Inductive rarg := RaNone | RaCallable (id : nat) | RaArg (tag : string).
(* the resolved renderer of a bound route *)
Inductive rres := RrNoop | RrCallable (id : nat) | RrFactory (factory : nat) (tag : string).

Record rdecl := mk_rdecl {
  r_key : nat;                           (* identity of the Route object *)
  r_pattern : string;
  r_mode : smode;
  r_methods : option (list string);
  r_mws : list wmw;
  r_resources : list (name * nat);       (* name -> identity of the value *)
  r_needs : list name;                   (* names its endpoint/render/middleware functions require *)
  r_render : rarg
}.

Record bound := mk_bound {
  b_key : nat;
  b_pattern : string;
  b_mode : smode;
  b_methods : option (list string);
  b_mws : list wmw;
  b_resources : list (name * nat);
  b_needs : list name;
  b_rarg : rarg;                         (* unbound_route.render *)
  b_render : rres;
  b_factory : option nat;                (* self.render_factory *)
  b_rerr : nat;                          (* identity of the error handler whose render_error is attached *)
  b_apps : list nat                      (* bound_apps, innermost first *)
}.

(* what BoundRoute.__init__ reads from the application it binds into *)
Record appenv := mk_appenv {
  a_id : nat;
  a_resources : list (name * nat);
  a_mws : list wmw;
  a_mode : smode;
  a_handler : nat;
  a_factory : option nat
}.

(* ---------------- pieces of BoundRoute.__init__ ---------------- *)
(* dict(app.resources); update(route.resources): the route's entries win *)
Fixpoint assoc_set (k : name) (v : nat) (l : list (name * nat)) : list (name * nat) :=
  match l with
  | [] => [(k, v)]
  | (k', v') :: r => if String.eqb k k' then (k, v) :: r else (k', v') :: assoc_set k v r
  end.
Definition dict_update (base upd : list (name * nat)) : list (name * nat) :=
  fold_left (fun acc kv => assoc_set (fst kv) (snd kv) acc) upd base.
Fixpoint lookup (k : name) (l : list (name * nat)) : option nat :=
  match l with [] => None | (k', v) :: r => if String.eqb k k' then Some v else lookup k r end.

(* merge_middlewares(old, new) *)
Fixpoint merge_into (merged old : list wmw) : result (list wmw) :=
  match old with
  | [] => Ok merged
  | m :: r =>
      if w_unique m && existsb (fun x => Nat.eqb (w_type x) (w_type m)) merged
      then (if w_reorderable m then merge_into merged r else Raise "ValueError")
      else merge_into (merged ++ [m]) r
  end.
Definition merge_mws (old new : list wmw) : result (list wmw) := merge_into new old.

(* last bound application that has a callable render factory *)
Fixpoint last_factory (fs : list (option nat)) : option nat :=
  match fs with
  | [] => None
  | f :: r => match last_factory r with Some x => Some x | None => f end
  end.

(* the three-way renderer choice; [cur] is route.render of the thing being bound
   (the argument itself for a Route, the resolved renderer for a BoundRoute) *)
Definition resolve_render (arg : rarg) (cur_is_callable cur_is_noop : bool) (cur : rres) (cur_factory : option nat)
           (rebind : bool) (factories : list (option nat)) : rres * option nat :=
  let bind_render := rebind || cur_is_noop || negb cur_is_callable in
  match arg with
  | RaCallable id => (RrCallable id, None)
  | _ =>
      match bind_render, last_factory factories, arg with
      | true, Some f, RaArg t => (RrFactory f t, Some f)
      | _, _, _ => ((if cur_is_callable then cur else RrNoop), cur_factory)
      end
  end.

Definition url_names (pattern : string) : result (list name) :=
  match parse_pattern pattern with
  | Ok p => Ok (bound_names (p_elems p))
  | Raise c => Raise c
  end.

Definition provided_names (mws : list wmw) : list name := flat_map w_provides mws.

Definition builtin_names : list name := ["request"; "_application"; "_route"; "_dispatch_state"; "context"; "next"].

(* the dependency check, reduced: every needed name has a source *)
Definition needs_ok (needs urls : list name) (res : list (name * nat)) (mws : list wmw) : bool :=
  forallb (fun n => mem_str n urls || mem_str n (map fst res) || mem_str n (provided_names mws) || mem_str n builtin_names) needs.

(* BoundRoute(route, app, prefix=..., rebind_render=..., inherit_slashes=...) for a Route ... *)
Definition bind_decl (r : rdecl) (a : appenv) (inherit : bool) (rebind : bool) (apps_factories : list (option nat))
  : result bound :=
  let pattern := r_pattern r in
  let mode := if inherit then a_mode a else r_mode r in
  match url_names pattern with
  | Raise c => Raise c
  | Ok urls =>
      let res := dict_update (a_resources a) (r_resources r) in
      match merge_mws (r_mws r) (a_mws a) with
      | Raise c => Raise c
      | Ok mws =>
          let is_callable := match r_render r with RaCallable _ => true | _ => false end in
          let cur := match r_render r with RaCallable id => RrCallable id | _ => RrNoop end in
          let '(rn, fac) := resolve_render (r_render r) is_callable false cur None rebind (apps_factories ++ [a_factory a]) in
          if needs_ok (r_needs r) urls res mws
          then Ok (mk_bound (r_key r) pattern mode (r_methods r) mws res (r_needs r) (r_render r) rn fac (a_handler a) [a_id a])
          else Raise "NameError"
      end
  end.

(* ... and for an already bound route (re-binding through SubApplication.bind_all);
   [facs] = render factories of the applications in b_apps, innermost first *)
Definition rebind_bound (b : bound) (facs : list (option nat)) (a : appenv) (prefix : string) (inherit rebind : bool)
  : result bound :=
  let pattern := String.append prefix (b_pattern b) in
  let mode := if inherit then a_mode a else b_mode b in
  match url_names pattern with
  | Raise c => Raise c
  | Ok urls =>
      let res := dict_update (a_resources a) (b_resources b) in
      match merge_mws (b_mws b) (a_mws a) with
      | Raise c => Raise c
      | Ok mws =>
          let is_noop := match b_render b with RrNoop => true | _ => false end in
          let '(rn, fac) := resolve_render (b_rarg b) true is_noop (b_render b) (b_factory b) rebind (facs ++ [a_factory a]) in
          if needs_ok (b_needs b) urls res mws
          then Ok (mk_bound (b_key b) pattern mode (b_methods b) mws res (b_needs b) (b_rarg b) rn fac (a_handler a)
                            (b_apps b ++ [a_id a]))
          else Raise "NameError"
      end
  end.

(* ---------------- application trees ---------------- *)
Inductive entry :=
| ERoute (r : rdecl) (inherit_slashes : bool)
| ESub (prefix : string) (env : appenv) (entries : list entry) (rebind_render inherit_slashes : bool).

Fixpoint all_ok {X} (l : list (result X)) : result (list X) :=
  match l with
  | [] => Ok []
  | Ok x :: r => match all_ok r with Ok xs => Ok (x :: xs) | Raise c => Raise c end
  | Raise c :: _ => Raise c
  end.

Definition rstrip_slash (s : string) : string :=
  (* str.rstrip('/') *)
  let fix go (s : string) : string * bool :=       (* (stripped, all-slashes-so-far-from-the-right) *)
      match s with
      | EmptyString => (EmptyString, true)
      | String c r => let '(t, e) := go r in
                      if e && Ascii.eqb c "/" then (EmptyString, true) else (String c t, false)
      end in fst (go s).

(* bound routes (with the factories of their bound_apps) of one entry bound into [a] *)
Fixpoint bind_entry (a : appenv) (e : entry) {struct e} : result (list (bound * list (option nat))) :=
  match e with
  | ERoute r inh =>
      match bind_decl r a inh true [] with
      | Ok b => Ok [(b, [a_factory a])]
      | Raise c => Raise c
      end
  | ESub prefix env entries rebind inh =>
      (* the embedded application was constructed first: its own routes, in order *)
      let fix inner (es : list entry) : result (list (bound * list (option nat))) :=
          match es with
          | [] => Ok []
          | x :: r => match bind_entry env x with
                      | Raise c => Raise c
                      | Ok bs => match inner r with Ok rest => Ok (bs ++ rest) | Raise c => Raise c end
                      end
          end in
      match inner entries with
      | Raise c => Raise c
      | Ok ibs =>
          match all_ok (map (fun bf => match rebind_bound (fst bf) (snd bf) a (rstrip_slash prefix) inh rebind with
                                       | Ok b => Ok (b, snd bf ++ [a_factory a])
                                       | Raise c => Raise c end) ibs) with
          | Ok l => Ok l
          | Raise c => Raise c
          end
      end
  end.

(* ---------------- Application.add ---------------- *)
(* index None = append; the loop `routes.insert(index, br); index += 1` after resolving a negative index once *)
Fixpoint insert_all {X} (rs : list X) (idx : Z) (news : list X) : list X :=
  match news with
  | [] => rs
  | n :: r => insert_all (py_insert rs idx n) (idx + 1)%Z r
  end.

Definition add_index {X} (rs : list X) (index : option Z) : Z :=
  match index with
  | None => zlen rs
  | Some i => if (i <? 0)%Z then Z.max (zlen rs + i) 0 else i
  end.

Definition add_routes {X} (rs : list X) (index : option Z) (news : list X) : list X :=
  insert_all rs (add_index rs index) news.

(* the specification: one contiguous splice *)
Definition splice {X} (rs : list X) (index : option Z) (news : list X) : list X :=
  let i := Z.to_nat (Z.min (add_index rs index) (zlen rs)) in
  firstn i rs ++ news ++ skipn i rs.

(* ---------------- worlds ---------------- *)
Definition world := list (nat * (appenv * list (bound * list (option nat)))).   (* application id -> (env, routes) *)

Fixpoint wget (w : world) (id : nat) : option (appenv * list (bound * list (option nat))) :=
  match w with [] => None | (k, v) :: r => if Nat.eqb k id then Some v else wget r id end.
Fixpoint wset (w : world) (id : nat) (v : appenv * list (bound * list (option nat))) : world :=
  match w with
  | [] => [(id, v)]
  | (k, v') :: r => if Nat.eqb k id then (k, v) :: r else (k, v') :: wset r id v
  end.

Inductive wop :=
| ONew (env : appenv) (entries : list entry)                 (* Application(routes=[...]) *)
| OAdd (target : nat) (e : entry) (index : option Z)         (* app.add(entry, index) *)
| OEmbed (target : nat) (prefix : string) (src : nat) (rebind inherit : bool) (index : option Z).  (* add((prefix, other_app)) *)

Inductive wobs := WOk | WFail (cls : string) | WNoSuchApp.

Fixpoint bind_entries (a : appenv) (es : list entry) (acc : list (bound * list (option nat)))
  : result (list (bound * list (option nat))) :=
  match es with
  | [] => Ok acc
  | e :: r => match bind_entry a e with
              | Raise c => Raise c
              | Ok bs => bind_entries a r (acc ++ bs)
              end
  end.

Definition wstep (w : world) (op : wop) : world * wobs :=
  match op with
  | ONew env entries =>
      match bind_entries env entries [] with
      | Ok rs => (wset w (a_id env) (env, rs), WOk)
      | Raise c => (w, WFail c)
      end
  | OAdd target e index =>
      match wget w target with
      | None => (w, WNoSuchApp)
      | Some (env, rs) =>
          match bind_entry env e with
          | Ok bs => (wset w target (env, add_routes rs index bs), WOk)
          | Raise c => (w, WFail c)
          end
      end
  | OEmbed target prefix src rebind inherit index =>
      match wget w target, wget w src with
      | Some (env, rs), Some (_, srcs) =>
          match all_ok (map (fun bf => match rebind_bound (fst bf) (snd bf) env (rstrip_slash prefix) inherit rebind with
                                       | Ok b => Ok (b, snd bf ++ [a_factory env])
                                       | Raise c => Raise c end) srcs) with
          | Ok bs => (wset w target (env, add_routes rs index bs), WOk)
          | Raise c => (w, WFail c)
          end
      | _, _ => (w, WNoSuchApp)
      end
  end.

Definition wrun (ops : list wop) : world * list wobs :=
  fold_left (fun acc op => let '(w, o) := wstep (fst acc) op in (w, snd acc ++ [o])) ops ([], []).
