(* The backtracking matcher of Python's re module, for the constructs of Base/Rx.v: every way to match a prefix
   of the subject, as the list of remainders IN THE ORDER the engine tries them (greedy: a repetition first tries
   one more iteration, an alternation its left branch).  The first element for which the rest of the expression
   succeeds is the match the engine reports; group spans are read off that path.
   Star bodies of the expressions used here never match the empty word; an iteration must make progress. *)
From Coq Require Import List String Ascii Bool Arith.
Import ListNotations.
From ClasticV Require Import Base.Strs Base.Rx.
Local Open Scope list_scope.
Local Open Scope string_scope.
Local Open Scope nat_scope.

Fixpoint star_bt (f : string -> list string) (n : nat) (s : string) : list string :=
  match n with
  | O => [s]
  | S n' => (flat_map (fun r => if String.length r <? String.length s then star_bt f n' r else []) (f s) ++ [s])%list
  end.

Fixpoint bt (r : rx) (s : string) {struct r} : list string :=
  match r with
  | REmp => []
  | REps => [s]
  | RCls neg rs => match s with String c t => if cls_ok neg rs c then [t] else [] | EmptyString => [] end
  | RCat a b => flat_map (bt b) (bt a s)
  | RAlt a b => (bt a s ++ bt b s)%list
  | RStar a => star_bt (bt a) (String.length s) s
  end.

(* the first remainder (in the engine's order) from which the continuation succeeds *)
Fixpoint first_some {X Y} (f : X -> option Y) (l : list X) : option (X * Y) :=
  match l with
  | [] => None
  | x :: r => match f x with Some y => Some (x, y) | None => first_some f r end
  end.

(* a sequence of groups followed by the end of the subject: the span (start remainder, end remainder) each group
   matched on the first successful path *)
Fixpoint match_groups (gs : list rx) (s : string) : option (list (string * string)) :=
  match gs with
  | [] => match s with EmptyString => Some [] | _ => None end
  | g :: r => match first_some (match_groups r) (bt g s) with
              | Some (s', spans) => Some ((s, s') :: spans)
              | None => None
              end
  end.

