(* Wire format of the errorlab correspondence (C09): bodies of HTTP errors. *)
From Coq Require Import List String Ascii Bool Arith ZArith.
Import ListNotations.
From ClasticV Require Import Base.Py Base.Strs Base.Sx Model.Errors Gen.ErrorsGen Proofs.ErrorsProofs.
Local Open Scope list_scope.
Local Open Scope string_scope.

(* input: (code message detail error_type-or-None mime-or-None) -> (format content-type html-body xml-body) *)
Definition run_errorlab (s : sexp) : sexp :=
  match s with
  | L [c; A msg; A det; et; mime] =>
      match dZ c, dopt dstr et, dopt dstr mime with
      | Some c', Some et', Some mime' =>
          let f := escape_fields (mk_rfields c' msg det et') in
          let '(fname, ct) := adapt mime' in
          L [A fname; A ct; A (to_html f); A (to_xml f)]
      | _, _, _ => bad_input
      end
  | _ => bad_input
  end.
