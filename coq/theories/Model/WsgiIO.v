(* Wire format of the wsgilab correspondence (C13). *)
From Coq Require Import List String Ascii Bool Arith.
Import ListNotations.
From ClasticV Require Import Base.Py Base.Strs Base.Sx Model.Wsgi.
Local Open Scope list_scope.
Local Open Scope string_scope.

Definition d_wsmw (s : sexp) : option wsmw :=
  match s with
  | L [i; t; w] => do i' <- dnat i; do t' <- dnat t; do w' <- dbool w; Some (mk_wsmw i' t' w')
  | _ => None
  end.

(* input: ((route-middleware-list ...) handler-has-wrapper) -> instance numbers in the order a request passes them (None = handler) *)
Definition run_wsgistack (s : sexp) : sexp :=
  match s with
  | L [rs; h] =>
      match dlist (dlist d_wsmw) rs, dbool h with
      | Some rs', Some h' => elist (eopt enat) (wrapper_sequence rs' h')
      | _, _ => bad_input
      end
  | _ => bad_input
  end.

Definition d_wevent (s : sexp) : option wevent :=
  match s with
  | L [A "start"; a; b] => do a' <- dbool a; do b' <- dbool b; Some (EStart a' b')
  | L [A "chunk"; n; b] => do n' <- dnat n; do b' <- dbool b; Some (EChunk n' b')
  | A "close" => Some EClose
  | _ => None
  end.

(* input: (head (event ...)) -> T/F *)
Definition run_wsgimonitor (s : sexp) : sexp :=
  match s with
  | L [h; evs] =>
      match dbool h, dlist d_wevent evs with
      | Some h', Some t => ebool (monitor h' t)
      | _, _ => bad_input
      end
  | _ => bad_input
  end.
