(* dispatchlab with the match bits computed by the pattern model itself (Model/Pattern + Model/Match) instead of
   being taken from the implementation: routing decided end to end from the declared patterns, slash modes,
   method sets and the request line. *)
From Coq Require Import List String Ascii Bool Arith ZArith.
Import ListNotations.
From ClasticV Require Import Base.Py Base.Strs Base.Sx Model.Pattern Model.Match Model.Dispatch Model.DispatchIO.
Local Open Scope string_scope.
Local Open Scope list_scope.

Definition route_bit (path : string) (rb : sexp) : sexp :=
  match rb with
  | L (_ :: _ :: A pat :: mo :: _) =>
      let m := match mo with A "strict" => MStrict | _ => MTolerant end in
      match parse_pattern pat with
      | Ok p => ebool (match match_path m p path with Some _ => true | None => false end)
      | Raise _ => ebool false
      end
  | _ => ebool false
  end.

(* input: as dispatchlab; the bits sent along are ignored *)
Definition run_dispatchfull (s : sexp) : sexp :=
  match s with
  | L [hd; nre; L routes; L reqs] =>
      run_dispatchlab (L [hd; nre; L routes;
                          L (map (fun rq => match rq with
                                            | L [meth; A path; _] => L [meth; A path; L (map (route_bit path) routes)]
                                            | x => x
                                            end) reqs)])
  | _ => bad_input
  end.
