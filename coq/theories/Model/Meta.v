(* clastic/meta.py: what the meta pages show of the host application's resources
   and middlewares.  repr is a section variable (Python's own); the constants
   (substring, marker, truncation) are regenerated from the source. *)
From Coq Require Import List String Ascii Bool Arith.
Import ListNotations.
From ClasticV Require Import Base.Py Base.Strs Model.Render.
Local Open Scope list_scope.
Local Open Scope string_scope.

Section Meta.
Variable V : Type.
Variable repr : V -> string.
Variables (needle marker trailer : string) (maxlen : nat).

(* _trunc(str_val, length, trailer) *)
Definition trunc (s : string) : string :=
  if Nat.ltb maxlen (String.length s)
  then (if nonempty trailer then substring 0 (maxlen - String.length trailer) s ++ trailer else substring 0 maxlen s)
  else s.

Definition is_secret (k : string) : bool := contains_str needle k.

Definition resource_info (res : list (string * V)) : list (string * string) :=
  map (fun kv => (fst kv, if is_secret (fst kv) then marker else trunc (repr (snd kv)))) res.

(* a section of the page: rendered content, or the repr of the exception its peripheral raised *)
Inductive section := Content (html : string) | ExcContent (what : string).
Definition page_status (sections : list section) : nat := 200.
End Meta.
