(* Wire format of the worldlab correspondence (C10, C11). *)
From Coq Require Import List String Ascii Bool Arith ZArith.
Import ListNotations.
From ClasticV Require Import Base.Py Base.Strs Base.Sx Model.Dispatch Model.World.
Local Open Scope string_scope.
Local Open Scope list_scope.

Definition d_smode (s : sexp) : option smode :=
  match s with
  | A "strict" => Some SStrict | A "redirect" => Some SRedirect | A "rewrite" => Some SRewrite
  | _ => None
  end.
Definition e_smode (m : smode) : sexp :=
  A (match m with SStrict => "strict" | SRedirect => "redirect" | SRewrite => "rewrite" end).

Definition d_wmw (s : sexp) : option wmw :=
  match s with
  | L [i; t; u; r; p] => do i' <- dnat i; do t' <- dnat t; do u' <- dbool u; do r' <- dbool r; do p' <- dlist dstr p;
                         Some (mk_wmw i' t' u' r' p')
  | _ => None
  end.
Definition d_res : sexp -> option (list (name * nat)) := dlist (dpair dstr dnat).
Definition d_rarg (s : sexp) : option rarg :=
  match s with
  | A "none" => Some RaNone
  | L [A "callable"; i] => do i' <- dnat i; Some (RaCallable i')
  | L [A "arg"; A t] => Some (RaArg t)
  | _ => None
  end.
Definition d_rdecl (s : sexp) : option rdecl :=
  match s with
  | L [k; A pat; mo; ms; mws; res; needs; rn] =>
      do k' <- dnat k; do mo' <- d_smode mo; do ms' <- dopt (dlist dstr) ms; do mws' <- dlist d_wmw mws;
      do res' <- d_res res; do needs' <- dlist dstr needs; do rn' <- d_rarg rn;
      Some (mk_rdecl k' pat mo' ms' mws' res' needs' rn')
  | _ => None
  end.
Definition d_env (s : sexp) : option appenv :=
  match s with
  | L [i; res; mws; mo; h; f] =>
      do i' <- dnat i; do res' <- d_res res; do mws' <- dlist d_wmw mws; do mo' <- d_smode mo; do h' <- dnat h;
      do f' <- dopt dnat f; Some (mk_appenv i' res' mws' mo' h' f')
  | _ => None
  end.

Fixpoint d_entry (s : sexp) : option entry :=
  match s with
  | L [A "route"; r; inh] => do r' <- d_rdecl r; do inh' <- dbool inh; Some (ERoute r' inh')
  | L [A "sub"; A prefix; env; L es; rb; inh] =>
      do env' <- d_env env; do rb' <- dbool rb; do inh' <- dbool inh;
      do es' <- (fix go (l : list sexp) : option (list entry) :=
                   match l with
                   | [] => Some []
                   | x :: r => do x' <- d_entry x; do r' <- go r; Some (x' :: r')
                   end) es;
      Some (ESub prefix env' es' rb' inh')
  | _ => None
  end.

Definition d_index (s : sexp) : option (option Z) := dopt dZ s.

Definition d_wop (s : sexp) : option wop :=
  match s with
  | L [A "new"; env; es] => do env' <- d_env env; do es' <- dlist d_entry es; Some (ONew env' es')
  | L [A "add"; t; e; idx] => do t' <- dnat t; do e' <- d_entry e; do idx' <- d_index idx; Some (OAdd t' e' idx')
  | L [A "embed"; t; A prefix; src; rb; inh; idx] =>
      do t' <- dnat t; do src' <- dnat src; do rb' <- dbool rb; do inh' <- dbool inh; do idx' <- d_index idx;
      Some (OEmbed t' prefix src' rb' inh' idx')
  | _ => None
  end.

Definition e_rres (r : rres) : sexp :=
  match r with
  | RrNoop => A "noop"
  | RrCallable i => L [A "callable"; enat i]
  | RrFactory f t => L [A "factory"; enat f; A t]
  end.

Definition e_bound (bf : bound * list (option nat)) : sexp :=
  let b := fst bf in
  L [enat (b_key b); A (b_pattern b); e_smode (b_mode b); elist enat (map w_inst (b_mws b));
     elist (epair estr enat) (b_resources b); e_rres (b_render b); enat (b_rerr b); elist enat (b_apps b)].

Definition e_world (w : world) : sexp :=
  elist (fun kv => L [enat (fst kv); elist e_bound (snd (snd kv))]) w.

Definition e_wobs (o : wobs) : sexp :=
  match o with WOk => A "ok" | WFail c => L [A "fail"; A c] | WNoSuchApp => A "nosuchapp" end.

(* input: (op ...) ; output: ((obs world) ...) after every operation *)
Definition run_worldlab (s : sexp) : sexp :=
  match dlist d_wop s with
  | None => bad_input
  | Some ops =>
      L (rev (snd (fold_left (fun acc op => let '(w, o) := wstep (fst acc) op in
                                           (w, L [e_wobs o; e_world w] :: snd acc)) ops ([], []))))
  end.
