(* Wire format of the dispatchlab correspondence (C06, C07, C08). *)
From Coq Require Import List String Ascii Bool Arith ZArith.
Import ListNotations.
From ClasticV Require Import Base.Py Base.Strs Base.Sx Gen.Tables Gen.NormPathGen Model.Dispatch.
Local Open Scope string_scope.
Local Open Scope list_scope.

Definition d_mode' (s : sexp) : option smode :=
  match s with
  | A "strict" => Some SStrict | A "redirect" => Some SRedirect | A "rewrite" => Some SRewrite
  | _ => None
  end.

Definition d_out' (s : sexp) : option exec_out :=
  match s with
  | L [A "resp"; A t] => Some (XResp t)
  | L [A "http"; c; b] => do c' <- dZ c; do b' <- dbool b; Some (XHttp c' b')
  | A "nonresp" => Some XNonResp
  | L [A "raise"; A e] => Some (XRaise e)
  | A "reroute" => Some XReroute
  | _ => None
  end.

Definition d_rerr' (s : sexp) : option rerr :=
  match s with
  | A "adapt" => Some RAdapt
  | A "raises" => Some RRaises
  | L [A "other"; A t] => Some (ROther t)
  | A "notcallable" => Some RNotCallable
  | _ => None
  end.

(* a route as declared: (matches methods pattern mode out rerr); the model
   normalises the methods and derives is_branch from the pattern *)
Definition d_route (s : sexp) : option (result droute) :=
  match s with
  | L [m; ms; A pat; mo; o; re] =>
      do m' <- dbool m; do ms' <- dopt (dlist dstr) ms; do mo' <- d_mode' mo; do o' <- d_out' o;
      do re' <- d_rerr' re;
      Some (match norm_methods ms' with
            | Ok nm => Ok (mk_droute m' nm (ends_with_chr "/" pat) mo' o' re')
            | Raise c => Raise c
            end)
  | _ => None
  end.

Fixpoint all_ok {X} (l : list (result X)) : result (list X) :=
  match l with
  | [] => Ok []
  | Ok x :: r => match all_ok r with Ok xs => Ok (x :: xs) | Raise c => Raise c end
  | Raise c :: _ => Raise c
  end.

Definition e_final (f : final) : sexp :=
  match f with
  | FResp i t => L [A "resp"; enat i; A t]
  | FRedirect i n => L [A "redirect"; enat i; A n]
  | FErr src c a d => L [A "err"; enat src; eZ c; elist estr a; ebool d]
  | FOther src t => L [A "other"; enat src; A t]
  | FEscape e => L [A "escape"; A e]
  | FReroute i => L [A "reroute"; enat i]
  end.

(* input: (handler null_rerr (route...) ((method path (matchbit...)) ...)) *)
Definition run_dispatchlab (s : sexp) : sexp :=
  match s with
  | L [A hd; nre; L routes; L reqs] =>
      match (match hd with "default" => Some HDefault | "reraise" => Some HReraise | _ => None end),
            d_rerr' nre with
      | Some h, Some nr =>
          L (map (fun rq =>
                    match rq with
                    | L [A meth; A path; L bits] =>
                        match omap (fun rb => d_route rb)
                                   (map (fun p => match fst p with
                                                  | L (_ :: rest) => L (snd p :: rest)
                                                  | x => x end)
                                        (combine routes bits)) with
                        | Some rrs =>
                            match all_ok rrs with
                            | Ok rs => e_final (serve h nr rs meth path)
                            | Raise c => L [A "construct"; A c]
                            end
                        | None => bad_input
                        end
                    | _ => bad_input
                    end) reqs)
      | _, _ => bad_input
      end
  | _ => bad_input
  end.

(* methods lab: Route(methods=...) *)
Definition run_methodslab (s : sexp) : sexp :=
  match s with
  | L [ms; L probes] =>
      match dopt (dlist dstr) ms with
      | Some ms' =>
          match norm_methods ms' with
          | Raise c => L [A "raise"; A c]
          | Ok nm => L [A "ok"; L (map (fun p => match p with A m => ebool (admits nm m) | _ => bad_input end) probes)]
          end
      | None => bad_input
      end
  | _ => bad_input
  end.

(* normalize_path as translated from the source *)
Definition run_normpath (s : sexp) : sexp :=
  match s with
  | L [A p; b] => match dbool b with Some b' => A (normalize_path p b') | None => bad_input end
  | _ => bad_input
  end.

(* redirect lab (C07): (root path query) -> (canonical normalised location unquoted-path-of-location) *)
From ClasticV Require Import Model.Redirect.
Definition run_redirectlab (s : sexp) : sexp :=
  match s with
  | L [A root; A path; A query] =>
      L [ebool (canonical path); A (normalize_path path true); A (location root path query);
         A (unquote (quote_path (normalize_path path true)))]
  | _ => bad_input
  end.
