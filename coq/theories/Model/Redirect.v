(* The slash-redirect Location of Application.dispatch: percent-encoding of the
   normalised path (werkzeug url_quote with safe='/') and of the raw query bytes
   (safe = delimiters and '%'), and the percent-decoding a server applies. *)
From Coq Require Import List String Ascii Bool Arith.
Import ListNotations.
From ClasticV Require Import Base.Py Base.Strs Gen.NormPathGen.
Local Open Scope string_scope.
Local Open Scope nat_scope.

(* werkzeug.urls._always_safe: letters, digits, "-._~" *)
Definition always_safe (c : ascii) : bool :=
  let n := nat_of_ascii c in
  ((48 <=? n) && (n <=? 57)) || ((65 <=? n) && (n <=? 90)) || ((97 <=? n) && (n <=? 122))
  || (n =? 45) || (n =? 46) || (n =? 95) || (n =? 126).

Definition hex_digit (n : nat) : ascii :=
  ascii_of_nat (if n <? 10 then 48 + n else 55 + n).        (* upper case *)

Definition hex_val (c : ascii) : option nat :=
  let n := nat_of_ascii c in
  if (48 <=? n) && (n <=? 57) then Some (n - 48)
  else if (65 <=? n) && (n <=? 70) then Some (n - 55)
  else if (97 <=? n) && (n <=? 102) then Some (n - 87)
  else None.

Fixpoint quote_with (safe : ascii -> bool) (s : string) : string :=
  match s with
  | EmptyString => EmptyString
  | String c r =>
      if always_safe c || safe c then String c (quote_with safe r)
      else let n := nat_of_ascii c in
           String "%" (String (hex_digit (n / 16)) (String (hex_digit (n mod 16)) (quote_with safe r)))
  end.

Definition path_safe (c : ascii) : bool := Ascii.eqb c "/".
(* ":/?#[]@!$&'()*+,;=%" *)
Definition query_safe (c : ascii) : bool :=
  str_contains_chr c ":/?#[]@!$&'()*+,;=%".

Definition quote_path := quote_with path_safe.
Definition quote_query := quote_with query_safe.

(* percent-decoding; a '%' not followed by two hex digits is kept literally *)
Fixpoint unquote (s : string) : string :=
  match s with
  | EmptyString => EmptyString
  | String c r =>
      if Ascii.eqb c "%" then
        match r with
        | String a (String b r') =>
            match hex_val a, hex_val b with
            | Some x, Some y => String (ascii_of_nat (16 * x + y)) (unquote r')
            | _, _ => String c (unquote r)
            end
        | _ => String c (unquote r)
        end
      else String c (unquote r)
  end.

(* first '?' splits path from query; a '#' ends the URL *)
Fixpoint split_at (c : ascii) (s : string) : string * option string :=
  match s with
  | EmptyString => (EmptyString, None)
  | String a r => if Ascii.eqb a c then (EmptyString, Some r)
                  else let '(x, y) := split_at c r in (String a x, y)
  end.

Definition location (root path query : string) : string :=
  root ++ quote_path (normalize_path path true) ++ "?" ++ quote_query query.
