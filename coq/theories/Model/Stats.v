(* C19 model.  The reservoir functions [add]/[resize] are NOT written here: they
   are regenerated from clastic/middleware/stats.py (Gen/ReservoirGen.v).
   This file adds (1) operation sequences over them and (2) the hand-written
   model of StatsMiddleware.request / reset / the report. *)
From Coq Require Import List ZArith String Bool.
Import ListNotations.
From ClasticV Require Import Base.PyList Base.Py Base.Sx Gen.ReservoirGen.
Local Open Scope Z_scope.
Local Open Scope string_scope. Local Open Scope Z_scope.

(* fast_randint(a, b) returns some integer in [a, b]; the model receives the raw
   random integer [r] of each call and maps it into the interval.  As r ranges
   over Z every value of [a, b] is reached, so quantifying over r covers every
   behaviour of the real generator. *)
Definition rnd_of (r a b : Z) : Z :=
  if (b + 1 - a <=? 0) then a else a + r mod (b + 1 - a).

Inductive rop : Type :=
| RAdd (v : Z) (r : Z)
| RResize (n : Z).

Definition rstep (st : result (@rstate Z)) (o : rop) : result (@rstate Z) :=
  rbind st (fun s => match o with
                     | RAdd v r => add s v (rnd_of r)
                     | RResize n => resize s n
                     end).

Definition rinit (cap : Z) : @rstate Z := mk_rstate cap [] 0.
Definition rrun (cap : Z) (ops : list rop) : result (@rstate Z) :=
  fold_left rstep ops (Ok (rinit cap)).

Fixpoint count_adds (ops : list rop) : Z :=
  match ops with
  | [] => 0
  | RAdd _ _ :: r => 1 + count_adds r
  | RResize _ :: r => count_adds r
  end.

Fixpoint added (ops : list rop) : list Z :=
  match ops with
  | [] => []
  | RAdd v _ :: r => v :: added r
  | RResize _ :: r => added r
  end.

Definition resize_ok (o : rop) : Prop :=
  match o with RResize n => 0 <= n | RAdd _ _ => True end.

(* ---------------- StatsMiddleware ---------------- *)
(* What next() did, as seen by StatsMiddleware.request *)
Inductive outcome : Type :=
| ORet (status : Z)          (* returned a response (incl. a returned HTTPException) *)
| OHttp (code : Z)           (* raised an HTTPException *)
| OExc (cls : string).       (* raised any other exception *)

(* repr(getattr(resp,'status_code',..)) / repr(getattr(e,'code', e.__class__.__name__)) *)
Definition status_key (o : outcome) : string :=
  match o with
  | ORet s => string_of_Z s
  | OHttp c => string_of_Z c
  | OExc c => "'" ++ c ++ "'"
  end.

Definition hits := list (string * @rstate unit).       (* status key -> reservoir *)
Definition sstate := list (string * hits).              (* route pattern -> hits *)

Fixpoint lookup {X} (k : string) (m : list (string * X)) : option X :=
  match m with
  | [] => None
  | (k', v) :: r => if String.eqb k k' then Some v else lookup k r
  end.

Fixpoint update {X} (k : string) (v : X) (m : list (string * X)) : list (string * X) :=
  match m with
  | [] => [(k, v)]
  | (k', v') :: r => if String.eqb k k' then (k, v) :: r else (k', v') :: update k v r
  end.

(* RouteStatReservoir() : Reservoir.__init__ with cap=True *)
Definition new_reservoir : @rstate unit := mk_rstate default_cap [] 0.

(* self.route_hits[_route][resp_status].add(hit) -- the finally block *)
Definition record (st : sstate) (route : string) (o : outcome) (r : Z) : result sstate :=
  let h := match lookup route st with Some h => h | None => [] end in
  let k := status_key o in
  let res := match lookup k h with Some x => x | None => new_reservoir end in
  rbind (add res tt (rnd_of r)) (fun res' => Ok (update route (update k res' h) st)).

Inductive sop : Type :=
| SReq (route : string) (o : outcome) (r : Z)
| SReset.

Definition sstep (st : result sstate) (o : sop) : result sstate :=
  rbind st (fun s => match o with
                     | SReq rt oc r => record s rt oc r
                     | SReset => Ok []
                     end).

Definition srun (ops : list sop) : result sstate := fold_left sstep ops (Ok []).

(* the report: per route, per key, the reservoir's total_count *)
Definition report (st : sstate) : list (string * list (string * Z)) :=
  map (fun rh => (fst rh, map (fun kr => (fst kr, _total_count (snd kr))) (snd rh))) st.

Definition route_total (st : sstate) (route : string) : Z :=
  match lookup route st with
  | None => 0
  | Some h => fold_right (fun kr acc => _total_count (snd kr) + acc) 0 h
  end.

Definition key_count (st : sstate) (route key : string) : Z :=
  match lookup route st with
  | None => 0
  | Some h => match lookup key h with None => 0 | Some r => _total_count r end
  end.

(* specification side: requests that reached [route] since the last reset *)
Fixpoint reqs_since_reset (ops : list sop) (route : string) (acc : Z) : Z :=
  match ops with
  | [] => acc
  | SReq rt _ _ :: r => reqs_since_reset r route (if String.eqb route rt then acc + 1 else acc)
  | SReset :: r => reqs_since_reset r route 0
  end.

Fixpoint keyreqs_since_reset (ops : list sop) (route key : string) (acc : Z) : Z :=
  match ops with
  | [] => acc
  | SReq rt oc _ :: r =>
      keyreqs_since_reset r route key
        (if String.eqb route rt && String.eqb key (status_key oc) then acc + 1 else acc)
  | SReset :: r => keyreqs_since_reset r route key 0
  end.

(* ---------------- wire format ---------------- *)
Definition d_rop (s : sexp) : option rop :=
  match s with
  | L [A "add"; v; r] => do v' <- dZ v; do r' <- dZ r; Some (RAdd v' r')
  | L [A "resize"; n] => do n' <- dZ n; Some (RResize n')
  | _ => None
  end.

Definition e_rstate (r : result (@rstate Z)) : sexp :=
  match r with
  | Ok s => L [A "ok"; eZ (_cap s); eZ (_total_count s); elist eZ (_data s)]
  | Raise c => L [A "raise"; A c]
  end.

(* returns the observable state after every operation *)
Fixpoint rtrace (st : result (@rstate Z)) (ops : list rop) : list sexp :=
  match ops with
  | [] => []
  | o :: r => let st' := rstep st o in e_rstate st' :: rtrace st' r
  end.

Definition run_reservoir (s : sexp) : sexp :=
  match s with
  | L [cap; ops] =>
      match dZ cap, dlist d_rop ops with
      | Some c, Some os => L (rtrace (Ok (rinit c)) os)
      | _, _ => bad_input
      end
  | _ => bad_input
  end.

Definition d_outcome (s : sexp) : option outcome :=
  match s with
  | L [A "ret"; z] => do z' <- dZ z; Some (ORet z')
  | L [A "http"; z] => do z' <- dZ z; Some (OHttp z')
  | L [A "exc"; A c] => Some (OExc c)
  | _ => None
  end.

Definition d_sop (s : sexp) : option sop :=
  match s with
  | L [A "req"; A rt; oc] => do o <- d_outcome oc; Some (SReq rt o 0)
  | L [A "reset"] => Some SReset
  | _ => None
  end.

Definition e_report (r : result sstate) : sexp :=
  match r with
  | Ok s => L [A "ok"; elist (epair estr (elist (epair estr eZ))) (report s)]
  | Raise c => L [A "raise"; A c]
  end.

Fixpoint strace (st : result sstate) (ops : list sop) : list sexp :=
  match ops with
  | [] => []
  | o :: r => let st' := sstep st o in e_report st' :: strace st' r
  end.

Definition run_stats (s : sexp) : sexp :=
  match dlist d_sop s with
  | Some os => L (strace (Ok []) os)
  | None => bad_input
  end.
