(* Definitional interpreter for a call plan (Chain.plan): what the generated
   nested `def next(...)` code, process_request and sinter.inject do at request
   time, with user functions abstracted to scripts.  Produces the outcome and a
   trace of Enter/Leave events; framework-level calling errors are recorded as
   ArgError / Unbound events so that a swallowing middleware cannot hide them. *)
From Coq Require Import List String Bool Arith ZArith.
Import ListNotations.
From ClasticV Require Import Base.Py Base.FSet Base.Sx Gen.Tables Model.Chain.
Local Open Scope string_scope.
Local Open Scope list_scope.

Inductive value := VS (s : string) | VNext.
Definition env := list (name * value).

Fixpoint lookup_env (n : name) (e : env) : option value :=
  match e with
  | [] => None
  | (k, v) :: r => if String.eqb n k then Some v else lookup_env n r
  end.

(* inside a generated def, `next` always denotes the inner def of that level *)
Definition lookup_scope (n : name) (e : env) : option value :=
  if String.eqb n INNER_NAME then Some VNext else lookup_env n e.

Fixpoint bind_kwargs (look : name -> env -> option value) (e : env) (ns : list name)
  : env + name :=
  match ns with
  | [] => inl []
  | n :: r => match look n e with
              | None => inr n
              | Some v => match bind_kwargs look e r with
                          | inl kws => inl ((n, v) :: kws)
                          | inr m => inr m
                          end
              end
  end.

(* Python's check of a call by keywords only against the callee's signature *)
Definition sig_accepts (f : fsig) (kw : list name) : bool :=
  subset (required f) kw && subset kw (arg_names f)
  && forallb (fun k => negb (mem k (posonly_names f))) kw.

Definition same_names (a b : list name) : bool := subset a b && subset b a.

(* ---------------- scripts: what user functions do ---------------- *)
Inductive post := PPass | PRaiseAfter (e : string) | PSwallow (r : string) | PReplace (r : string).
Inductive mscript := MCallNext (p : post) | MRaiseBefore (e : string) | MReturnEarly (r : string).
Inductive escript := ECtx (tag : string) | EResp (tag : string) | ERaise (e : string).
Inductive rscript := RResp (tag : string) | RNon (tag : string) | RRaise (e : string).

Record scripts := mk_scripts {
  s_mw : phase -> nat -> mscript;
  s_ep : escript;
  s_rn : rscript
}.

Inductive outcome := OVal (isresp : bool) (tag : string) | OExc (e : string).

Inductive event :=
| Enter (f : fid) (kw : env)
| Leave (f : fid) (o : outcome)
| ArgError (f : fid)
| Unbound (f : fid) (n : name).

Definition apply_post (p : post) (o : outcome) : outcome :=
  match p, o with
  | PPass, _ => o
  | PRaiseAfter e, OVal _ _ => OExc e
  | PRaiseAfter _, OExc _ => o
  | PSwallow r, OExc _ => OVal true r
  | PSwallow _, OVal _ _ => o
  | PReplace r, OVal _ _ => OVal true r
  | PReplace _, OExc _ => o
  end.

Definition phase_tag (ph : phase) : string :=
  match ph with PhReq => "q" | PhEp => "e" | PhRn => "r" end.

Definition provided_value (ph : phase) (i : nat) (n : name) : value :=
  VS ("P" ++ phase_tag ph ++ string_of_Z (Z.of_nat i) ++ ":" ++ n).

Definition final_fn := fid -> env -> outcome * list event.

Fixpoint exec_chain (sc : scripts) (final : final_fn) (lvls : list level) (e : env) {struct lvls}
  : outcome * list event :=
  match lvls with
  | [] => (OExc "EmptyChain", [])
  | lv :: rest =>
      let f := lv_func lv in
      match bind_kwargs lookup_scope e (lv_kwargs lv) with
      | inr n => (OExc "NameError", [Unbound f n])
      | inl kws =>
          if negb (sig_accepts (lv_sig lv) (lv_kwargs lv)) then (OExc "TypeError", [ArgError f]) else
          match rest with
          | [] => final f kws
          | nxt :: _ =>
              match f with
              | FMw ph i =>
                  match s_mw sc ph i with
                  | MRaiseBefore x => (OExc x, [Enter f kws; Leave f (OExc x)])
                  | MReturnEarly r => (OVal true r, [Enter f kws; Leave f (OVal true r)])
                  | MCallNext p =>
                      let given := map (fun n => (n, provided_value ph i n)) (lv_gives lv) in
                      let '(o, tr) :=
                        if same_names (lv_gives lv) (lv_params nxt)
                        then exec_chain sc final rest (given ++ e)
                        else (OExc "TypeError", [ArgError (lv_func nxt)]) in
                      let o' := apply_post p o in
                      (o', Enter f kws :: tr ++ [Leave f o'])
                  end
              | _ => (OExc "BadPlan", [])
              end
          end
      end
  end.

(* calling the level-0 generated def with exactly the keywords [kws] *)
Definition call_chain (sc : scripts) (final : final_fn) (lvls : list level) (kws : env)
  : outcome * list event :=
  match lvls with
  | [] => (OExc "EmptyChain", [])
  | lv :: _ =>
      if same_names (lv_params lv) (map fst kws) then exec_chain sc final lvls kws
      else (OExc "TypeError", [ArgError (lv_func lv)])
  end.

Definition ep_final (sc : scripts) : final_fn := fun f kws =>
  let o := match s_ep sc with
           | ECtx t => OVal false t
           | EResp t => OVal true t
           | ERaise x => OExc x
           end in
  (o, [Enter f kws; Leave f o]).

Definition rn_final (sc : scripts) : final_fn := fun f kws =>
  let o := match s_rn sc with
           | RResp t => OVal true t
           | RNon t => OVal false t
           | RRaise x => OExc x
           end in
  (o, [Enter f kws; Leave f o]).

(* the generated process_request: its frame holds exactly its parameters *)
Definition proc (sc : scripts) (pl : plan) : final_fn := fun _ kws =>
  match bind_kwargs lookup_env kws (p_ep_kwargs pl) with
  | inr n => (OExc "NameError", [Unbound FProc n])
  | inl ekws =>
      let '(o1, t1) := call_chain sc (ep_final sc) (p_ep pl) ekws in
      match o1 with
      | OVal false tag =>
          match bind_kwargs lookup_env (("context", VS tag) :: kws) (p_rn_kwargs pl) with
          | inr n => (OExc "NameError", t1 ++ [Unbound FProc n])
          | inl rkws =>
              let '(o2, t2) := call_chain sc (rn_final sc) (p_rn pl) rkws in
              (o2, t1 ++ t2)
          end
      | _ => (o1, t1)
      end
  end.

(* sinter.inject(route._execute, injectables) *)
Definition run (sc : scripts) (pl : plan) (injectables : env) : outcome * list event :=
  match p_req pl with
  | [] => (OExc "EmptyChain", [])
  | lv :: _ =>
      let kws := filter (fun kv => mem (fst kv) (lv_params lv)) injectables in
      call_chain sc (proc sc pl) (p_req pl) kws
  end.

(* what dispatch + BoundRoute.execute put into the injectables for a route *)
Definition base_env (c : route_cfg) : env :=
  map (fun n => (n, VS ("U:" ++ n))) (r_url c) ++
  map (fun n => (n, VS ("B:" ++ n))) REQUEST_BUILTINS ++
  map (fun n => (n, VS ("R:" ++ n))) (r_resources c).
