(* Wire format of the cookielab correspondence (C16).  Instantiation of the
   section variables: values are canonical JSON texts ("!..." = undecodable),
   tags are symbolic (TMac key items | TJunk). *)
From Coq Require Import List String Ascii Bool Arith ZArith.
Import ListNotations.
From ClasticV Require Import Base.Py Base.Strs Base.Sx Model.Cookie.
Local Open Scope string_scope.
Local Open Scope list_scope.

Inductive stag := TMac (key : nat) (its : list (string * string)) | TJunk.

Fixpoint items_eqb (a b : list (string * string)) : bool :=
  match a, b with
  | [], [] => true
  | (k, v) :: a', (k', v') :: b' => String.eqb k k' && String.eqb v v' && items_eqb a' b'
  | _, _ => false
  end.
Definition stag_eqb (a b : stag) : bool :=
  match a, b with
  | TMac k i, TMac k' i' => Nat.eqb k k' && items_eqb i i'
  | _, _ => false
  end.

Definition is_bad (s : string) : bool := match s with String "!" _ => true | _ => false end.
Definition dec_val (s : string) : option string := if is_bad s then None else Some s.
Definition enc_val (s : string) : string := s.
Definition as_time (s : string) : option Z := Z_of_string s.
Definition of_time (z : Z) : string := string_of_Z z.
Definition smac (k : nat) (its : list (string * string)) : stag := TMac k its.

Definition d_item (s : sexp) : option (option (string * string)) :=
  match s with
  | A "None" => Some None
  | L [A k; A v] => Some (Some (k, v))
  | _ => None
  end.
Definition d_tag (s : sexp) : option (option stag) :=
  match s with
  | A "b64error" => Some None
  | A "junk" => Some (Some TJunk)
  | L [A "mac"; k; its] => do k' <- dnat k; do its' <- dlist (dpair dstr dstr) its; Some (Some (TMac k' its'))
  | _ => None
  end.
Definition d_received (s : sexp) : option (received stag) :=
  match s with
  | A "absent" => Some (RAbsent stag)
  | A "nosep" => Some (RNoSeparator stag)
  | L [A "parsed"; tg; its; kr] =>
      do tg' <- d_tag tg; do its' <- dlist d_item its; do kr' <- dbool kr; Some (RParsed stag tg' its' kr')
  | _ => None
  end.
Definition d_cop (s : sexp) : option (cop string) :=
  match s with
  | L [A "set"; A k; A v] => Some (CSet string k v)
  | L [A "del"; A k] => Some (CDel string k)
  | A "clear" => Some (CClear string)
  | _ => None
  end.
Definition d_expiry (s : sexp) : option expiry :=
  match s with
  | A "session" => Some ESession
  | A "never" => Some ENever
  | L [A "numeric"; z] => do z' <- dZ z; Some (ENumeric z')
  | _ => None
  end.

Definition e_dict (d : list (string * string)) : sexp := elist (epair estr estr) d.

(* input: (expiry now received (op ...)) ; server key = 0 *)
Definition run_cookielab (s : sexp) : sexp :=
  match s with
  | L [ex; now; rc; ops] =>
      match d_expiry ex, dZ now, d_received rc, dlist d_cop ops with
      | Some ex', Some now', Some rc', Some ops' =>
          let '(given, out) := mw_request string stag nat smac stag_eqb dec_val as_time of_time 0 ex' now' rc' ops' in
          L [e_dict given; eopt e_dict out]
      | _, _, _, _ => bad_input
      end
  | _ => bad_input
  end.

(* whole histories: input (expiry (step ...)), step = (req now (op ...)) | (tamper received); the jar is carried by
   the model itself ([run_history]), so that what the server serializes at one request is what it parses at the next *)
Definition d_hstep (s : sexp) : option (hstep string stag) :=
  match s with
  | L [A "req"; now; ops] => do now' <- dZ now; do ops' <- dlist d_cop ops; Some (HReq string stag now' ops')
  | L [A "tamper"; rc] => do rc' <- d_received rc; Some (HTamper string stag rc')
  | _ => None
  end.
Definition run_cookiehist (s : sexp) : sexp :=
  match s with
  | L [ex; steps] =>
      match d_expiry ex, dlist d_hstep steps with
      | Some ex', Some h =>
          elist e_dict (run_history string stag nat smac stag_eqb enc_val dec_val as_time of_time 0 ex' (RAbsent stag) h)
      | _, _ => bad_input
      end
  | _ => bad_input
  end.
