(* The built-in middlewares as transformers of the inner outcome (value or
   raised exception), written from their sources: GzipMiddleware,
   HTTPCacheMiddleware, StatsMiddleware, SimpleProfileMiddleware without its
   trigger, SignedCookieMiddleware, ContextProcessor, Get/Post parameter
   extractors, ScriptRootMiddleware.  zlib is a section variable. *)
From Coq Require Import List String Bool Arith ZArith.
Import ListNotations.
From ClasticV Require Import Base.Py Base.Strs.
Local Open Scope string_scope.
Local Open Scope list_scope.

(* Full = werkzeug Response (with the mixins: vary, content_encoding, is_streamed, cache_control ...);
   Base = clastic's HTTPException, a BaseResponse without them *)
Inductive rkind := KFull | KBase.

Record resp := mk_resp {
  r_kind : rkind;
  r_status : Z;
  r_body : string;
  r_streamed : bool;
  r_cenc : option string;          (* Content-Encoding *)
  r_texty : bool;                  (* content type starts with text/ or contains javascript *)
  r_vary : list string;
  r_clen : option nat;             (* Content-Length as set by a middleware *)
  r_etag : bool;
  r_setcookie : bool
}.

Inductive inner := IResp (r : resp) | IRaise (e : string).

Definition upd_body (r : resp) (b : string) (cl : option nat) (ce : option string) : resp :=
  mk_resp (r_kind r) (r_status r) b (r_streamed r) ce (r_texty r) (r_vary r) cl (r_etag r) (r_setcookie r).
Definition add_vary (r : resp) (v : string) : resp :=
  mk_resp (r_kind r) (r_status r) (r_body r) (r_streamed r) (r_cenc r) (r_texty r)
          (if mem_str v (r_vary r) then r_vary r else r_vary r ++ [v]) (r_clen r) (r_etag r) (r_setcookie r).
Definition set_etag (r : resp) : resp :=
  mk_resp (r_kind r) (r_status r) (r_body r) (r_streamed r) (r_cenc r) (r_texty r) (r_vary r) (r_clen r) true (r_setcookie r).
Definition set_cookie (r : resp) : resp :=
  mk_resp (r_kind r) (r_status r) (r_body r) (r_streamed r) (r_cenc r) (r_texty r) (r_vary r) (r_clen r) (r_etag r) true.

Section Gzip.
Variable compress : string -> string.

(* what the request contributes *)
Record greq := mk_greq { q_accepts_gzip : bool; q_msie : bool }.

Definition gzip_mw (q : greq) (i : inner) : inner :=
  match i with
  | IRaise e => IRaise e
  | IResp r =>
      match r_kind r with
      | KBase => IResp r
      | KFull =>
          let r1 := add_vary r "Accept-Encoding" in
          if (match r_cenc r with Some _ => true | None => false end) || negb (q_accepts_gzip q) then IResp r1
          else if q_msie q && negb (r_texty r) then IResp r1
          else if r_streamed r then IResp r1
          else let c := compress (r_body r) in
               if Nat.leb (String.length (r_body r)) (String.length c) then IResp r1
               else IResp (upd_body r1 c (Some (String.length c)) (Some "gzip"))
      end
  end.
End Gzip.

(* HTTPCacheMiddleware in its default configuration: ETag + make_conditional; [validator_matches] says whether
   the client sent a validator that matches (then HTTP itself demands a 304) *)
Definition cache_mw (validator_matches : bool) (i : inner) : inner :=
  match i with
  | IRaise e => IRaise e
  | IResp r =>
      match r_kind r with
      | KBase => IResp r
      | KFull =>
          if r_streamed r then IResp r
          else if validator_matches
               then IResp (mk_resp KFull 304 "" false (r_cenc r) (r_texty r) (r_vary r) (r_clen r) true (r_setcookie r))
               else IResp (set_etag r)
      end
  end.

(* StatsMiddleware.request: try / except (re-raise) / finally (record) *)
Definition stats_mw (i : inner) : inner * string :=
  match i with
  | IResp r => (IResp r, "status")
  | IRaise e => (IRaise e, "exception")
  end.

Definition profile_mw (triggered : bool) (i : inner) : inner := i.       (* without its trigger parameter: return next() *)
Definition cookie_mw (should_save : bool) (i : inner) : inner :=
  match i with
  | IResp r => if should_save then IResp (set_cookie r) else IResp r
  | IRaise e => IRaise e
  end.
Definition passthrough_mw (i : inner) : inner := i.                      (* Get/Post param, script root, context processor *)

(* what the client observes: status and decoded body *)
Section Observe.
Variable decompress : string -> string.
Definition decoded (r : resp) : string :=
  match r_cenc r with Some "gzip" => decompress (r_body r) | _ => r_body r end.
Definition observe (i : inner) : (Z * string) + string :=
  match i with IResp r => inl (r_status r, decoded r) | IRaise e => inr e end.
End Observe.
