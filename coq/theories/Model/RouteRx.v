(* The regular expression _compile_path_pattern assembles for a parsed pattern,
   as a term of Base.Rx.rx: the literal parts joined by the separator, each
   binding pasted onto the part before it as "(sep lexeme)arity", then "/*"
   (tolerant modes) or the pattern's own trailing slash (strict), between ^ and $.
   The harness parses the pattern text of BoundRoute.regex with Python's own
   regex parser and compares the two trees (tag routerx); Proofs/RouteRxProofs.v
   proves that the language of this expression is exactly what Model/Match.v
   accepts at token level. *)
From Coq Require Import List String Ascii Bool Arith.
Import ListNotations.
From ClasticV Require Import Base.Py Base.Strs Base.Rx Gen.RouteLex Model.Pattern Model.Match.
Local Open Scope string_scope.
Local Open Scope list_scope.
Local Open Scope nat_scope.

Definition slash_rx : rx := RCls false [(47, 47)].

Definition sep_rx (m : mmode) : rx :=
  match m with MStrict => slash_rx | MTolerant => RPlus slash_rx end.

Fixpoint lit_rx (s : string) : rx :=
  match s with
  | EmptyString => REps
  | String c r => RCat (RCls false [(nat_of_ascii c, nat_of_ascii c)]) (lit_rx r)
  end.

Definition arity_rx (op : string) (r : rx) : rx :=
  if String.eqb op "?" then RAlt r REps           (* greedy: the engine first tries to take the segment *)
  else if String.eqb op "*" then RStar r
  else if String.eqb op "+" then RPlus r
  else r.

Definition bind_rx (m : mmode) (b : binding) : rx :=
  arity_rx (b_opstr b) (RCat (sep_rx m) (b_rx b)).

Fixpoint elems_rx (m : mmode) (es : list elem) : rx :=
  match es with
  | [] => REps
  | ELit s :: r => RCat (RCat (sep_rx m) (lit_rx s)) (elems_rx m r)
  | EBind b :: r => RCat (bind_rx m b) (elems_rx m r)
  end.

Definition tail_rx (m : mmode) (p : pat) : rx :=
  match m with
  | MTolerant => RStar slash_rx
  | MStrict => if p_trailing p then slash_rx else REps
  end.

Definition route_rx (m : mmode) (p : pat) : rx := RCat (elems_rx m (p_elems p)) (tail_rx m p).

(* acceptance by the token-level matcher, before the conversions *)
Definition accepts (m : mmode) (p : pat) (path : string) : bool :=
  match tokenise path with
  | None => false
  | Some (ts, trailing) =>
      mode_ok m p ts trailing && (match gmatch (p_elems p) ts with Some _ => true | None => false end)
  end.

(* every string of the language avoids the character (sufficient, computable) *)
Fixpoint avoids (c : ascii) (r : rx) : bool :=
  match r with
  | REmp | REps => true
  | RCls neg rs => negb (cls_ok neg rs c)
  | RCat a b | RAlt a b => avoids c a && avoids c b
  | RStar a => avoids c a
  end.

(* no repetition of a body that matches the empty word (the backtracking model's progress condition is then vacuous) *)
Fixpoint star_free_null (r : rx) : bool :=
  match r with
  | REmp | REps | RCls _ _ => true
  | RCat a b | RAlt a b => star_free_null a && star_free_null b
  | RStar a => negb (nullable a) && star_free_null a
  end.

Definition bind_ok (b : binding) : bool :=
  star_free_null (b_rx b) &&
  (mem_str (b_opstr b) [""; "?"; "*"; "+"] && negb (nullable (b_rx b)) && avoids "/" (b_rx b)).

Definition elem_ok (e : elem) : bool :=
  match e with
  | ELit s => nonempty s && all_chr is_lit_chr s
  | EBind b => bind_ok b
  end.

Definition pat_ok (p : pat) : bool := forallb elem_ok (p_elems p).
