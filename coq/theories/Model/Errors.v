(* clastic/errors.py: html escaping, the four fields of an error, str.format
   over the fixed templates, format selection by MIME type.  The templates and
   tables themselves are regenerated from the source (Gen/ErrorsGen.v). *)
From Coq Require Import List String Ascii Bool Arith ZArith.
Import ListNotations.
From ClasticV Require Import Base.Py Base.Strs Base.Sx.
Local Open Scope list_scope.
Local Open Scope string_scope.

(* html.escape(s, quote=True) *)
Definition esc_chr (c : ascii) : string :=
  if Ascii.eqb c "&" then "&amp;"
  else if Ascii.eqb c "<" then "&lt;"
  else if Ascii.eqb c ">" then "&gt;"
  else if Ascii.eqb c """" then "&quot;"
  else if Ascii.eqb c "'" then "&#x27;"
  else String c "".

Fixpoint html_escape (s : string) : string :=
  match s with EmptyString => "" | String c r => esc_chr c ++ html_escape r end.

(* the escaped fields, as to_escaped_dict hands them to str.format *)
Record efields := mk_efields { e_code : string; e_message : string; e_detail : string; e_error_type : string }.

Definition field (f : efields) (name : string) : string :=
  if String.eqb name "code" then e_code f
  else if String.eqb name "message" then e_message f
  else if String.eqb name "detail" then e_detail f
  else if String.eqb name "error_type" then e_error_type f
  else "".

(* str.format with keyword parameters, for templates with plain {name} fields: the values are inserted verbatim, never re-scanned *)
Fixpoint fmt_go (tpl : string) (st : option string) (f : efields) : string :=
  match tpl with
  | EmptyString => ""
  | String c r =>
      match st with
      | None => if Ascii.eqb c "{" then fmt_go r (Some "") f else String c (fmt_go r None f)
      | Some nm => if Ascii.eqb c "}" then field f nm ++ fmt_go r None f
                   else fmt_go r (Some (nm ++ String c "")) f
      end
  end.
Definition fmt (tpl : string) (f : efields) : string := fmt_go tpl None f.

Fixpoint prefix_s (a s : string) : bool :=
  match a, s with
  | EmptyString, _ => true
  | String x a', String y s' => Ascii.eqb x y && prefix_s a' s'
  | _, EmptyString => false
  end.

Definition nl : string := String (ascii_of_nat 10) "".

(* raw fields -> escaped fields (None -> '', the integer code -> its decimal text) *)
Record rfields := mk_rfields { r_code : Z; r_message : string; r_detail : string; r_error_type : option string }.
Definition escape_fields (r : rfields) : efields :=
  mk_efields (string_of_Z (r_code r)) (html_escape (r_message r)) (html_escape (r_detail r))
             (match r_error_type r with Some t => html_escape t | None => "" end).

(* markup-significant characters *)
Definition is_markup (c : ascii) : bool :=
  Ascii.eqb c "<" || Ascii.eqb c ">" || Ascii.eqb c """" || Ascii.eqb c "'".
Fixpoint skeleton (s : string) : string :=
  match s with
  | EmptyString => ""
  | String c r => if is_markup c then String c (skeleton r) else skeleton r
  end.

Fixpoint assoc_s (k : string) (l : list (string * string)) : option string :=
  match l with [] => None | (k', v) :: r => if String.eqb k k' then Some v else assoc_s k r end.
