(* The URL-pattern mini-language of clastic/route.py: _compile_path_pattern's
   parsing and validation (the BINDING regex is modelled for the grammar of the
   property's quantifier: a part is either a literal over [A-Za-z0-9_-] or a
   complete binding "<name op type>"; anything else is [Raise "OutsideModel"]). *)
From Coq Require Import List String Ascii Bool Arith.
Import ListNotations.
From ClasticV Require Import Base.Py Base.Strs Base.Rx Gen.RouteLex.
Local Open Scope string_scope.
Local Open Scope list_scope.
Local Open Scope nat_scope.

Record binding := mk_binding {
  b_name : string;
  b_opstr : string;        (* the quantifier pasted into the regex: "", "?", "*", "+" *)
  b_multi : bool;          (* _OP_ARITY_MAP[op] *)
  b_optional : bool;       (* _OP_OPTIONALITY_MAP[op] *)
  b_kind : tykind;
  b_rx : rx                (* lexeme pattern of the type *)
}.

Inductive elem := ELit (s : string) | EBind (b : binding).

Record pat := mk_pat { p_elems : list elem; p_trailing : bool }.

Definition is_word (c : ascii) : bool :=
  let n := nat_of_ascii c in
  ((48 <=? n) && (n <=? 57)) || ((65 <=? n) && (n <=? 90)) || ((97 <=? n) && (n <=? 122)) || (n =? 95).
Definition is_name_start (c : ascii) : bool :=
  let n := nat_of_ascii c in ((65 <=? n) && (n <=? 90)) || ((97 <=? n) && (n <=? 122)) || (n =? 95).
Definition is_lit_chr (c : ascii) : bool := is_word c || (nat_of_ascii c =? 45).

Fixpoint span (f : ascii -> bool) (s : string) : string * string :=
  match s with
  | EmptyString => ("", "")
  | String c r => if f c then let '(a, b) := span f r in (String c a, b) else ("", s)
  end.

Fixpoint all_chr (f : ascii -> bool) (s : string) : bool :=
  match s with EmptyString => true | String c r => f c && all_chr f r end.

Fixpoint assoc {X} (k : string) (l : list (string * X)) : option X :=
  match l with [] => None | (k', v) :: r => if String.eqb k k' then Some v else assoc k r end.

Fixpoint assoc_type (k : string) (l : list (string * tykind * rx)) : option (tykind * rx) :=
  match l with [] => None | (k', kd, r) :: t => if String.eqb k k' then Some (kd, r) else assoc_type k t end.

(* "<name op type>" -> (name, op, type) *)
Definition split_binding (part : string) : option (string * string * string) :=
  match part with
  | String "<" body =>
      match body with
      | String c _ =>
          if is_name_start c then
            let '(nm, r1) := span is_word body in
            let '(op, r2) := span (fun c => negb (is_word c) && negb (Ascii.eqb c ">") && negb (Ascii.eqb c "<")) r1 in
            let '(ty, r3) := span is_word r2 in
            if String.eqb r3 ">" then Some (nm, op, ty) else None
          else None
      | EmptyString => None
      end
  | _ => None
  end.

Definition bound_names (es : list elem) : list string :=
  flat_map (fun e => match e with EBind b => [b_name b] | ELit _ => [] end) es.

Fixpoint parse_parts (parts : list string) (acc : list elem) : result pat :=
  match parts with
  | [] => Ok (mk_pat (rev acc) false)
  | [EmptyString] => Ok (mk_pat (rev acc) true)
  | p :: rest =>
      if starts_with_chr "<" p then
        match split_binding p with
        | None => Raise "OutsideModel"
        | Some (nm, op0, ty0) =>
            if mem_str nm (bound_names acc) then Raise "InvalidPattern" else
            let op := if String.eqb op0 ":" then "" else op0 in
            let ty := if String.eqb ty0 "" then "unicode" else ty0 in
            match assoc_type ty TYPE_TABLE with
            | None => Raise "InvalidPattern"
            | Some (kd, r) =>
                match assoc op OP_ARITY, assoc op OP_OPTIONALITY with
                | Some mu, Some opt => parse_parts rest (EBind (mk_binding nm op mu opt kd r) :: acc)
                | _, _ => Raise "InvalidPattern"
                end
            end
        end
      else if nonempty p && all_chr is_lit_chr p then parse_parts rest (ELit p :: acc)
      else Raise "OutsideModel"
  end.

Fixpoint has_double_slash (s : string) : bool :=
  match s with
  | String "/" (String "/" _) => true
  | String _ r => has_double_slash r
  | EmptyString => false
  end.

Definition parse_pattern (s : string) : result pat :=
  if negb (starts_with_chr "/" s) then Raise "InvalidPattern" else
  if has_double_slash s then Raise "InvalidPattern" else
  match split_on "/" s with
  | _ :: parts => parse_parts parts []
  | [] => Raise "InvalidPattern"
  end.

(* how many segments the regex quantifier lets a binding take *)
Definition op_min (b : binding) : nat :=
  if String.eqb (b_opstr b) "" || String.eqb (b_opstr b) "+" then 1 else 0.
Definition op_unbounded (b : binding) : bool :=
  String.eqb (b_opstr b) "*" || String.eqb (b_opstr b) "+".
