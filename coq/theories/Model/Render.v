(* clastic/render/simple.py: the branch structure of BasicRender.render_response /
   _serialize_to_resp / _guess_json and ClasticJSONEncoder.default over a universe
   of Python values.  Number formatting and string escaping are json's own: the
   model carries numbers as lexemes and strings as byte strings. *)
From Coq Require Import List String Ascii Bool Arith ZArith.
Import ListNotations.
From ClasticV Require Import Base.Py Base.Strs Base.Sx.
Local Open Scope list_scope.
Local Open Scope string_scope.

Inductive pyval :=
| PStr (s : string)
| PBytes (s : string)
| PInt (z : Z)
| PFloat (lexeme : string)
| PBool (b : bool)
| PNone
| PDict (kvs : list (string * pyval))         (* string-keyed dict *)
| PList (l : list pyval)
| PTuple (l : list pyval)
| PSet (l : list pyval)
| PMapping (kvs : list (string * pyval))      (* a Mapping that is not a dict *)
| PDate (iso : string)                        (* has isoformat() *)
| PToDict (d : pyval)                         (* has to_dict() returning d *)
| PAsDict (d : pyval)                         (* has asdict() returning d *)
| PPlain (repr : string)                      (* any other object *)
| PGen (repr : string).                       (* a generator *)

Inductive jsonval :=
| JStr (s : string) | JNum (lexeme : string) | JBool (b : bool) | JNull
| JArr (l : list jsonval) | JSet (l : list jsonval)       (* JSet: an array whose order is unspecified (from a set) *)
| JObj (kvs : list (string * jsonval)).

Fixpoint collect {X} (l : list (result X)) : result (list X) :=
  match l with
  | [] => Ok []
  | Ok x :: r => match collect r with Ok xs => Ok (x :: xs) | Raise c => Raise c end
  | Raise c :: _ => Raise c
  end.

Definition tag_kv {X} (k : string) (r : result X) : result (string * X) :=
  match r with Ok j => Ok (k, j) | Raise c => Raise c end.

(* ClasticJSONEncoder: what json.dumps(v, cls=ClasticJSONEncoder) serializes *)
Fixpoint normalise (dev : bool) (v : pyval) {struct v} : result jsonval :=
  match v with
  | PStr s => Ok (JStr s)
  | PBytes s => Ok (JArr (map (fun c => JNum (string_of_Z (Z.of_nat (nat_of_ascii c)))) (list_ascii_of_string s)))
  | PInt z => Ok (JNum (string_of_Z z))
  | PFloat lx => Ok (JNum lx)
  | PBool b => Ok (JBool b)
  | PNone => Ok JNull
  | PDict kvs => match collect (map (fun kv => tag_kv (fst kv) (normalise dev (snd kv))) kvs) with Ok j => Ok (JObj j) | Raise c => Raise c end
  | PMapping kvs => match collect (map (fun kv => tag_kv (fst kv) (normalise dev (snd kv))) kvs) with Ok j => Ok (JObj j) | Raise c => Raise c end
  | PList l => match collect (map (normalise dev) l) with Ok j => Ok (JArr j) | Raise c => Raise c end
  | PTuple l => match collect (map (normalise dev) l) with Ok j => Ok (JArr j) | Raise c => Raise c end
  | PSet l => match collect (map (normalise dev) l) with Ok j => Ok (JSet j) | Raise c => Raise c end
  | PDate iso => Ok (JStr iso)
  | PToDict d => normalise dev d
  | PAsDict d => normalise dev d
  | PPlain r => if dev then Ok (JStr r) else Raise "TypeError"
  | PGen r => if dev then Ok (JStr r) else Raise "TypeError"
  end.

(* isinstance(context, Sized) for the universe *)
Definition is_sized (v : pyval) : bool :=
  match v with
  | PStr _ | PBytes _ | PDict _ | PList _ | PTuple _ | PSet _ | PMapping _ => true
  | _ => false
  end.

Fixpoint last_chr (s : string) : option ascii :=
  match s with EmptyString => None | String c EmptyString => Some c | String _ r => last_chr r end.

(* BasicRender._guess_json on the encoded text *)
Definition guess_json (b : string) : bool :=
  match b with
  | EmptyString => false
  | String c _ =>
      match last_chr b with
      | Some l => (Ascii.eqb c "{" && Ascii.eqb l "}") || (Ascii.eqb c "[" && Ascii.eqb l "]")
      | None => false
      end
  end.

Fixpoint prefix_b (a s : string) : bool :=
  match a, s with
  | EmptyString, _ => true
  | String x a', String y s' => Ascii.eqb x y && prefix_b a' s'
  | _, EmptyString => false
  end.
Fixpoint contains_str (needle hay : string) : bool :=
  match hay with
  | EmptyString => match needle with EmptyString => true | _ => false end
  | String _ r => prefix_b needle hay || contains_str needle r
  end.

(* what the response is *)
Inductive rendered :=
| RText (mime : string) (body : string)        (* the given text/bytes, labelled *)
| RStr                                         (* str(context), text/plain *)
| RJson (j : jsonval)                          (* application/json, serialization of j *)
| RTable.                                      (* text/html table built by TabularRender *)

Inductive fmt_param := FAbsent | FJson | FHtml | FOther.

Definition label_text (b : string) : rendered :=
  if guess_json b then RText "application/json" b
  else if contains_str "<html" (substring 0 168 b) then RText "text/html" b
  else RText "text/plain" b.

(* best = request.accept_mimetypes.best_match(['text/html', 'application/json']) when the header is non-empty *)
Definition render_basic (v : pyval) (f : fmt_param) (best : option string) : result rendered :=
  match v with
  | PStr s => Ok (label_text s)
  | PBytes s => Ok (label_text s)
  | _ =>
      if negb (is_sized v) then Ok RStr else
      match f with
      | FOther => Raise "ValueError"
      | _ =>
          let mime := match f with
                      | FJson => "application/json"
                      | FHtml => "text/html"
                      | _ => match best with
                             | Some m => if String.eqb m "text/html" || String.eqb m "application/json" then m else "application/json"
                             | None => "application/json"
                             end
                      end in
          if String.eqb mime "text/html" then Ok RTable
          else match normalise true v with Ok j => Ok (RJson j) | Raise c => Raise c end
      end
  end.
