(* clastic/middleware/cookie.py + secure_cookie.SecureCookie.unserialize /
   serialize, step by step, over a parsed wire form.  HMAC, base64, JSON are
   section variables: values are opaque ([V]) with encode/decode, tags are
   opaque ([T]) with a decidable equality. *)
From Coq Require Import List String Bool Arith ZArith.
Import ListNotations.
From ClasticV Require Import Base.Py Base.Strs.
Local Open Scope string_scope.
Local Open Scope list_scope.

Section Cookie.
Variable V : Type.                       (* JSON-compatible values *)
Variable T : Type.                       (* MAC tags *)
Variable secret : Type.
Variable mac : secret -> list (string * string) -> T.      (* over the encoded items, in order *)
Variable tag_eqb : T -> T -> bool.
Variable enc_val : V -> string.
Variable dec_val : string -> option V.
Variable as_time : V -> option Z.        (* a number usable in `time() > items['_expires']` *)
Variable of_time : Z -> V.

Definition item := (string * string)%type.        (* (key, encoded value) as received *)

(* what arrives in the Cookie header, after the purely lexical steps *)
Inductive received :=
| RAbsent                                  (* no cookie / empty value *)
| RNoSeparator                             (* no '?' : split fails *)
| RParsed (tag : option T)                 (* None: base64 of the tag does not decode (raises; caught) *)
          (items : list (option item))     (* None: an item without '=' or with an undecodable key *)
          (key_decode_raises : bool).      (* a non-ASCII key: UnicodeDecodeError (raises; caught) *)

Definition dict := list (string * V).       (* later entries win on lookup *)

Fixpoint dlookup (k : string) (d : dict) : option V :=
  match d with
  | [] => None
  | (k', v) :: r => match dlookup k r with Some x => Some x | None => if String.eqb k k' then Some v else None end
  end.
Definition dremove (k : string) (d : dict) : dict := filter (fun kv => negb (String.eqb (fst kv) k)) d.
Definition dset (k : string) (v : V) (d : dict) : dict := dremove k d ++ [(k, v)].

Fixpoint all_some {X} (l : list (option X)) : option (list X) :=
  match l with
  | [] => Some []
  | Some x :: r => match all_some r with Some xs => Some (x :: xs) | None => None end
  | None :: _ => None
  end.

Fixpoint decode_items (l : list item) : option dict :=
  match l with
  | [] => Some []
  | (k, ev) :: r => match dec_val ev, decode_items r with
                    | Some v, Some d => Some ((k, v) :: d)
                    | _, _ => None
                    end
  end.

(* JSONCookie.unserialize: every exception of the delegated parsing is an empty cookie *)
Definition unserialize (sk : secret) (now : Z) (r : received) : dict :=
  match r with
  | RAbsent | RNoSeparator => []
  | RParsed tag items key_raises =>
      if key_raises then [] else
      match all_some items with
      | None => []
      | Some its =>
          match tag with
          | None => []
          | Some t =>
              if tag_eqb t (mac sk its) then
                match decode_items its with
                | None => []
                | Some d =>
                    match dlookup "_expires" d with
                    | None => d
                    | Some e => match as_time e with
                                | Some n => if (n <? now)%Z then [] else dremove "_expires" d
                                | None => []              (* TypeError in the comparison; caught *)
                                end
                    end
                end
              else []
          end
      end
  end.

(* SecureCookie.serialize: items sorted by key (the caller passes a sorted, duplicate-free dict) *)
Definition serialize (sk : secret) (d : dict) : received :=
  let its := map (fun kv => (fst kv, enc_val (snd kv))) d in
  RParsed (Some (mac sk its)) (map Some its) false.

(* ---------------- the middleware ---------------- *)
Inductive cop := CSet (k : string) (v : V) | CDel (k : string) | CClear.

Definition apply_op (d : dict) (o : cop) : dict :=
  match o with
  | CSet k v => dset k v d
  | CDel k => dremove k d
  | CClear => []
  end.

(* the dict after the operations, and whether the cookie object was modified (ModificationTrackingDict):
   setting and clearing always count, deleting only when the key is there *)
Definition apply_ops (ops : list cop) (d : dict) : dict * bool :=
  fold_left (fun acc o =>
               match o with
               | CDel k => match dlookup k (fst acc) with
                           | Some _ => (apply_op (fst acc) o, true)
                           | None => acc
                           end
               | _ => (apply_op (fst acc) o, true)
               end) ops (d, false).

Inductive expiry := ESession | ENever | ENumeric (secs : Z).

(* one request: what the endpoint is given, and the cookie sent back (None = no Set-Cookie) *)
Definition mw_request (sk : secret) (ex : expiry) (now : Z) (incoming : received) (ops : list cop)
  : dict * option dict :=
  let given := unserialize sk now incoming in
  let '(after, modified) := apply_ops ops given in
  match ex with
  | ENumeric secs =>
      match dlookup "_expires" after with
      | Some _ => (given, if modified then Some after else None)
      | None => (given, Some (dset "_expires" (of_time (now + secs)%Z) after))
      end
  | _ => (given, if modified then Some after else None)
  end.

(* ---------------- histories of one client ---------------- *)
(* the client keeps the last cookie it was sent (its jar) and presents it on the next request;
   a tampering step replaces the jar by anything at all *)
Inductive hstep := HReq (now : Z) (ops : list cop) | HTamper (r : received).

Definition client_step (sk : secret) (ex : expiry) (jar : received) (now : Z) (ops : list cop) : received * dict :=
  let '(given, out) := mw_request sk ex now jar ops in
  (match out with Some d => serialize sk d | None => jar end, given).

(* the cookie contents the endpoint is given at each request of the history *)
Fixpoint run_history (sk : secret) (ex : expiry) (jar : received) (h : list hstep) : list dict :=
  match h with
  | [] => []
  | HReq now ops :: r => let '(jar', given) := client_step sk ex jar now ops in given :: run_history sk ex jar' r
  | HTamper x :: r => run_history sk ex x r
  end.

(* the specification: a plain dictionary and the time after which it is forgotten *)
Definition spec_state := (dict * option Z)%type.
Definition spec_given (now : Z) (s : spec_state) : dict :=
  match snd s with
  | Some st => if (st <? now)%Z then [] else fst s
  | None => fst s
  end.
Fixpoint spec_history (ex : expiry) (s : spec_state) (h : list hstep) : list dict :=
  match h with
  | [] => []
  | HReq now ops :: r =>
      let g := spec_given now s in
      g :: spec_history ex (fst (apply_ops ops g), match ex with ENumeric secs => Some (now + secs)%Z | _ => None end) r
  | HTamper _ :: r => spec_history ex ([], None) r
  end.

Definition op_key (o : cop) : option string := match o with CSet k _ => Some k | CDel k => Some k | CClear => None end.
End Cookie.
