(* Concurrent requests on one Application (C12, partial).  A request is a finite
   sequence of atomic steps; the application is frozen after construction; the
   only step that touches shared state is the fetch-and-increment of the process
   wide request counter (next(_REQ_ID_ITER)); every other step transforms the
   thread's own state.  That the code has this shape is the obligation on the
   write footprint regenerated from the source (Gen/Footprint.v). *)
From Coq Require Import List Arith.
Import ListNotations.

Section Conc.
Variable frozen : Type.            (* the application after __init__ *)
Variable local : Type.             (* everything a request owns: request object, params, dispatch state, response ... *)
Variable app : frozen.

Inductive step := SFetch | SLocal (f : frozen -> local -> local).

Record tstate := mk_t { t_rem : list step; t_loc : local; t_ids : list nat }.

(* one atomic step of a thread, given the shared counter *)
Definition tstep (c : nat) (t : tstate) : nat * tstate :=
  match t_rem t with
  | [] => (c, t)
  | SFetch :: r => (S c, mk_t r (t_loc t) (t_ids t ++ [c]))
  | SLocal f :: r => (c, mk_t r (f app (t_loc t)) (t_ids t))
  end.

Fixpoint replace_nth (l : list tstate) (i : nat) (x : tstate) : list tstate :=
  match l, i with
  | [], _ => []
  | _ :: r, O => x :: r
  | y :: r, S k => y :: replace_nth r k x
  end.

Definition gstate := (nat * list tstate)%type.

(* the scheduler picks thread i *)
Definition gstep (st : gstate) (i : nat) : gstate :=
  match nth_error (snd st) i with
  | None => st
  | Some t => let '(c', t') := tstep (fst st) t in (c', replace_nth (snd st) i t')
  end.

Definition run (sched : list nat) (st : gstate) : gstate := fold_left gstep sched st.

(* what a thread computes on its own *)
Definition lproj (t : tstate) : list step * local := (t_rem t, t_loc t).
Definition ladv (p : list step * local) : list step * local :=
  match fst p with
  | [] => p
  | SFetch :: r => (r, snd p)
  | SLocal f :: r => (r, f app (snd p))
  end.

Definition all_ids (ts : list tstate) : list nat := flat_map t_ids ts.
End Conc.
