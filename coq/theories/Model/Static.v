(* clastic/static.py: find_file (os.path.normpath + the three guards + the search
   over the roots) and the decision structure of build_file_response /
   StaticApplication.get_file_response with every filesystem call answered by
   an oracle that may fail. *)
From Coq Require Import List String Ascii Bool Arith.
Import ListNotations.
From ClasticV Require Import Base.Py Base.Strs.
Local Open Scope string_scope.
Local Open Scope list_scope.

(* ---------------- os.path.normpath (POSIX) ---------------- *)
Definition is_skip (c : string) : bool := String.eqb c "" || String.eqb c ".".
Definition is_dd (c : string) : bool := String.eqb c "..".

(* stack = new_comps reversed *)
Fixpoint norm_loop (absolute : bool) (comps stack : list string) : list string :=
  match comps with
  | [] => rev stack
  | c :: r =>
      if is_skip c then norm_loop absolute r stack
      else if negb (is_dd c)
              || (negb absolute && match stack with [] => true | _ => false end)
              || (match stack with top :: _ => is_dd top | [] => false end)
           then norm_loop absolute r (c :: stack)
           else match stack with
                | _ :: s' => norm_loop absolute r s'
                | [] => norm_loop absolute r stack
                end
  end.

(* number of leading slashes that normpath keeps: 0, 1, or 2 (exactly two) *)
Definition initial_slashes (p : string) : nat :=
  match p with
  | String "/" (String "/" (String "/" _)) => 1
  | String "/" (String "/" _) => 2
  | String "/" _ => 1
  | _ => 0
  end.

Fixpoint slashes (n : nat) : string := match n with O => "" | S k => String "/" (slashes k) end.

Definition norm_comps (p : string) : list string :=
  norm_loop (negb (Nat.eqb (initial_slashes p) 0)) (split_on "/" p) [].

Definition normpath (p : string) : string :=
  match p with
  | EmptyString => "."
  | _ => let r := (slashes (initial_slashes p) ++ join "/" (norm_comps p))%string in
         match r with EmptyString => "." | _ => r end
  end.

Fixpoint prefix_str (a s : string) : bool :=
  match a, s with
  | EmptyString, _ => true
  | String x a', String y s' => Ascii.eqb x y && prefix_str a' s'
  | _, EmptyString => false
  end.

(* os.path.join(sr, rel) for a relative rel *)
Definition pjoin (sr rel : string) : string :=
  if starts_with_chr "/" rel then rel
  else if String.eqb sr "" || ends_with_chr "/" sr then (sr ++ rel)%string else (sr ++ "/" ++ rel)%string.

Fixpoint first_file (isfile : string -> bool) (cands : list string) : option string :=
  match cands with [] => None | c :: r => if isfile c then Some c else first_file isfile r end.

Definition find_file (isfile : string -> bool) (roots : list string) (path : string) : result (option string) :=
  let rel := normpath path in
  if starts_with_chr "/" rel then Raise "ValueError"
  else if prefix_str ".." rel then Raise "ValueError"
  else Ok (first_file isfile (map (fun sr => pjoin sr rel) roots)).

(* ---------------- serving one file ---------------- *)
Inductive outcome :=
| S200 (full : string)        (* body = bytes of [full], Content-Length = its size, Last-Modified = its mtime *)
| S304
| S403                        (* non-breaking Forbidden *)
| S404                        (* non-breaking NotFound *)
| SEscape (what : string).    (* an exception leaves the static application: becomes a 500 *)

(* answers of the filesystem while one request is served; None = the call raises an OSError *)
Record fsans := mk_fsans {
  f_mtime1 : option bool;     (* get_file_mtime for the conditional check: Some b, b = (mtime <= If-Modified-Since) *)
  f_isfile : bool;            (* the second isfile, inside build_file_response *)
  f_open : option unit;
  f_mtime2 : option unit;
  f_size : option unit;
  f_has_ext_type : bool;      (* mimetypes.guess_type knows the extension *)
  f_peek : option unit
}.

(* which calls sit inside a try block whose handler turns OSError into a non-breaking
   Forbidden; the table is regenerated from static.py (Gen/StaticGuards.v) *)
Record guards := mk_guards { g_mtime1 : bool; g_open : bool; g_mtime2 : bool; g_size : bool; g_peek : bool; g_find : bool }.

Definition guarded (g : bool) (what : string) (o : option unit) (k : outcome) : outcome :=
  match o with Some _ => k | None => if g then S403 else SEscape what end.

Definition build_file_response (g : guards) (conditional : bool) (a : fsans) (full : string) : outcome :=
  let rest :=
    if negb (f_isfile a) then S404 else
    guarded (g_open g) "open" (f_open a)
      (guarded (g_mtime2 g) "getmtime" (f_mtime2 a)
        (guarded (g_size g) "getsize" (f_size a)
          (if f_has_ext_type a then S200 full
           else guarded (g_peek g) "peek" (f_peek a) (S200 full)))) in
  if conditional then
    match f_mtime1 a with
    | None => if g_mtime1 g then S403 else SEscape "getmtime"
    | Some true => S304
    | Some false => rest
    end
  else rest.

Definition get_file_response (g : guards) (isfile : string -> bool) (roots : list string) (path : string)
           (conditional : bool) (a : fsans) : outcome :=
  match find_file isfile roots path with
  | Raise _ => if g_find g then S403 else SEscape "find_file"
  | Ok None => S404
  | Ok (Some full) => build_file_response g conditional a full
  end.
