(* Wire format of the staticlab correspondence (C14). *)
From Coq Require Import List String Ascii Bool Arith.
Import ListNotations.
From ClasticV Require Import Base.Py Base.Strs Base.Sx Model.Static Gen.StaticGuards.
Local Open Scope string_scope.
Local Open Scope list_scope.

Definition d_ounit (s : sexp) : option (option unit) :=
  match s with A "T" => Some (Some tt) | A "F" => Some None | _ => None end.

Definition e_outcome (o : outcome) : sexp :=
  match o with
  | S200 f => L [A "200"; A f]
  | S304 => A "304"
  | S403 => A "403"
  | S404 => A "404"
  | SEscape w => L [A "escape"; A w]
  end.

(* input: (roots files path conditional (mtime1 isfile open mtime2 size hasext peek)) *)
Definition run_staticlab (s : sexp) : sexp :=
  match s with
  | L [roots; files; A path; cond; L [m1; isf; op; m2; sz; ext; pk]] =>
      match dlist dstr roots, dlist dstr files, dbool cond, dopt dbool m1, dbool isf, d_ounit op, d_ounit m2, d_ounit sz,
            dbool ext, d_ounit pk with
      | Some roots', Some files', Some cond', Some m1', Some isf', Some op', Some m2', Some sz', Some ext', Some pk' =>
          L [A (normpath path);
             e_outcome (get_file_response GUARDS (fun f => mem_str f files') roots' path cond'
                          (mk_fsans m1' isf' op' m2' sz' ext' pk'))]
      | _, _, _, _, _, _, _, _, _, _ => bad_input
      end
  | _ => bad_input
  end.
