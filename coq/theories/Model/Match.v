(* What the regex assembled by _compile_path_pattern does to a path, at token
   level, followed by build_converter's conversions (BoundRoute.match_path).
   A path is cut into tokens (number of slashes before the segment, segment)
   plus the number of trailing slashes; pattern elements take tokens in order,
   greedily, leftmost element first, backtracking like the regex engine. *)
From Coq Require Import List String Ascii Bool Arith ZArith.
Import ListNotations.
From ClasticV Require Import Base.Py Base.Strs Base.Rx Gen.RouteLex Model.Pattern.
Local Open Scope string_scope.
Local Open Scope list_scope.
Local Open Scope nat_scope.

Definition token := (nat * string)%type.

(* pieces after the leading "" of path.split('/') *)
Fixpoint tok_pieces (ps : list string) (run : nat) : list token * nat :=
  match ps with
  | [] => ([], run)
  | p :: r => if nonempty p then let '(ts, tr) := tok_pieces r 0 in ((S run, p) :: ts, tr)
              else tok_pieces r (S run)
  end.

Definition tokenise (path : string) : option (list token * nat) :=
  match split_on "/" path with
  | EmptyString :: ps => Some (tok_pieces ps 0)
  | _ => None                                   (* a non-empty path that does not start with '/' *)
  end.

Definition seg_ok (b : binding) (t : token) : bool := rx_match (b_rx b) (snd t).

(* number of leading tokens whose segment is in the binding's lexeme class *)
Fixpoint valid_prefix (b : binding) (ts : list token) : nat :=
  match ts with
  | t :: r => if seg_ok b t then S (valid_prefix b r) else 0
  | [] => 0
  end.

Definition capture := (binding * list token)%type.

(* try to give the binding k, k-1, ..., kmin tokens *)
Fixpoint try_down (k kmin : nat) (b : binding) (ts : list token)
         (cont : list token -> option (list capture)) : option (list capture) :=
  let here := if kmin <=? k then
                match cont (skipn k ts) with
                | Some caps => Some ((b, firstn k ts) :: caps)
                | None => None
                end
              else None in
  match here with
  | Some r => Some r
  | None => match k with O => None | S k' => try_down k' kmin b ts cont end
  end.

Fixpoint gmatch (es : list elem) (ts : list token) {struct es} : option (list capture) :=
  match es with
  | [] => match ts with [] => Some [] | _ => None end
  | ELit s :: r =>
      match ts with
      | (_, seg) :: t => if String.eqb seg s then gmatch r t else None
      | [] => None
      end
  | EBind b :: r =>
      let vmax := valid_prefix b ts in
      let kmax := if op_unbounded b then vmax else Nat.min 1 vmax in
      try_down kmax (op_min b) b ts (gmatch r)
  end.

(* ---------------- conversions ---------------- *)
Inductive value :=
| VStr (s : string)
| VInt (z : Z)
| VFloat (lexeme : string)          (* Python's float() of this text; the text is known to be convertible *)
| VNone
| VList (l : list value).

Fixpoint digits_Z (s : string) (acc : Z) : option Z :=
  match s with
  | EmptyString => Some acc
  | String c r =>
      let n := Z.of_nat (nat_of_ascii c) in
      if ((48 <=? n) && (n <=? 57))%Z then digits_Z r (acc * 10 + (n - 48))%Z else None
  end.

Fixpoint drop_spaces (s : string) : string * nat :=
  match s with
  | String " " r => let '(t, n) := drop_spaces r in (t, S n)
  | _ => (s, 0)
  end.

Definition MAX_INT_DIGITS : nat := 4300.

(* int(s) for s in the int lexeme class: a sign followed by a space is rejected,
   leading spaces alone are accepted; more than 4300 digits are rejected *)
Definition py_int (s : string) : option Z :=
  let '(sign, rest) := match s with
                       | String "+" r => (Some true, r)
                       | String "-" r => (Some false, r)
                       | _ => (None, s)
                       end in
  let '(ds, nsp) := drop_spaces rest in
  match sign, nsp with
  | Some _, S _ => None
  | _, _ =>
      if nonempty ds && (String.length ds <=? MAX_INT_DIGITS) then
        match digits_Z ds 0%Z with
        | Some z => Some (match sign with Some false => (- z)%Z | _ => z end)
        | None => None
        end
      else None
  end.

(* float(s) for s in the float lexeme class fails exactly for "sign, then space" *)
Definition py_float_ok (s : string) : bool :=
  match s with
  | EmptyString => false                       (* float('') raises: an empty piece of a multi binding (O3) *)
  | String "+" (String " " _) | String "-" (String " " _) => false
  | _ => true
  end.

Definition conv (k : tykind) (s : string) : option value :=
  match k with
  | KStr => Some (VStr s)
  | KInt => match py_int s with Some z => Some (VInt z) | None => None end
  | KFloat => if py_float_ok s then Some (VFloat s) else None
  end.

(* value.split('/')[1:] of the captured text: a run of n slashes yields n-1 empty pieces *)
Definition pieces_of (ts : list token) : list string :=
  flat_map (fun t => repeat EmptyString (fst t - 1) ++ [snd t]) ts.

Fixpoint conv_all (k : tykind) (l : list string) : option (list value) :=
  match l with
  | [] => Some []
  | s :: r => match conv k s, conv_all k r with
              | Some v, Some vs => Some (v :: vs)
              | _, _ => None
              end
  end.

Definition convert1 (c : capture) : option (string * value) :=
  let '(b, ts) := c in
  match ts with
  | [] => if b_optional b then Some (b_name b, if b_multi b then VList [] else VNone)
          else if b_multi b then Some (b_name b, VList [])
          else match conv (b_kind b) "" with Some v => Some (b_name b, v) | None => None end
  | _ =>
      if b_multi b then
        match conv_all (b_kind b) (pieces_of ts) with Some vs => Some (b_name b, VList vs) | None => None end
      else
        match conv (b_kind b) (String.concat "" (map snd ts)) with Some v => Some (b_name b, v) | None => None end
  end.

Fixpoint convert (cs : list capture) : option (list (string * value)) :=
  match cs with
  | [] => Some []
  | c :: r => match convert1 c, convert r with
              | Some x, Some xs => Some (x :: xs)
              | _, _ => None
              end
  end.

Inductive mmode := MStrict | MTolerant.

Definition mode_ok (m : mmode) (p : pat) (ts : list token) (trailing : nat) : bool :=
  match m with
  | MTolerant => true
  | MStrict => forallb (fun t => fst t =? 1) ts && (trailing =? (if p_trailing p then 1 else 0))
  end.

Definition match_path (m : mmode) (p : pat) (path : string) : option (list (string * value)) :=
  match tokenise path with
  | None => None
  | Some (ts, trailing) =>
      if mode_ok m p ts trailing then
        match gmatch (p_elems p) ts with
        | Some caps => convert caps
        | None => None
        end
      else None
  end.
