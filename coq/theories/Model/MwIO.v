(* Wire format of the mwlab correspondence (C15): the gzip decision. *)
From Coq Require Import List String Ascii Bool Arith ZArith.
Import ListNotations.
From ClasticV Require Import Base.Py Base.Strs Base.Sx Model.Mw.
Local Open Scope string_scope.
Local Open Scope list_scope.

(* the compressed length is an input (zlib is outside the model): compress := a string of that length *)
Fixpoint filler (n : nat) : string := match n with O => "" | S k => String "z"%char (filler k) end.

(* input: (kind status bodylen streamed cenc texty accepts msie complen) -> (encoded vary-has-accept-encoding content-length-set) *)
Definition run_gziplab (s : sexp) : sexp :=
  match s with
  | L [A kind; st; bl; sm; ce; tx; ac; ms; cl] =>
      match dZ st, dnat bl, dbool sm, dopt dstr ce, dbool tx, dbool ac, dbool ms, dnat cl with
      | Some st', Some bl', Some sm', Some ce', Some tx', Some ac', Some ms', Some cl' =>
          let r := mk_resp (if String.eqb kind "full" then KFull else KBase) st' (filler bl') sm' ce' tx' [] None false false in
          match gzip_mw (fun _ => filler cl') (mk_greq ac' ms') (IResp r) with
          | IResp r' => L [eopt estr (r_cenc r'); ebool (mem_str "Accept-Encoding" (r_vary r')); eopt enat (r_clen r');
                           enat (String.length (r_body r')); eZ (r_status r')]
          | IRaise e => L [A "raise"; A e]
          end
      | _, _, _, _, _, _, _, _ => bad_input
      end
  | _ => bad_input
  end.
