(* Application.dispatch (application.py), Route.__init__'s method normalisation,
   BoundRoute.match_method, DispatchState, NullRoute.handle_sentinel_condition
   (route.py), ErrorHandler.uncaught_to_response and the execute_error /
   default_render_error fallback.  What a route does when executed is abstracted
   to [exec_out] (it is the outcome of the chain interpreter of Model/Exec.v);
   whether its pattern matches is a boolean (Model/Match.v supplies it). *)
From Coq Require Import List String Ascii Bool Arith ZArith.
Import ListNotations.
From ClasticV Require Import Base.Py Base.Strs Gen.Tables Gen.NormPathGen.
Local Open Scope string_scope.
Local Open Scope list_scope.

Inductive smode := SStrict | SRedirect | SRewrite.

(* ---------------- Route.__init__: methods ---------------- *)
Definition norm_methods (ms : option (list string)) : result (option (list string)) :=
  match ms with
  | None => Ok None
  | Some [] => Ok None                         (* `methods and set(...)`: an empty list stays falsy *)
  | Some l =>
      let u := map upper l in
      if forallb (fun m => mem_str m HTTP_METHODS) u
      then Ok (Some (if mem_str "GET" u then u ++ ["HEAD"] else u))
      else Raise "InvalidMethod"
  end.

(* BoundRoute.match_method *)
Definition admits (methods : option (list string)) (meth : string) : bool :=
  match methods with
  | None => true
  | Some l => if nonempty meth then mem_str (upper meth) l else true
  end.

(* ---------------- what executing a route yields ---------------- *)
Inductive exec_out :=
| XResp (tag : string)                     (* a Response that is not an HTTPException *)
| XHttp (code : Z) (breaking : bool)       (* an HTTPException, raised or returned *)
| XNonResp                                 (* a non-Response reached dispatch *)
| XRaise (e : string)                      (* any other Exception *)
| XReroute.                                (* RerouteWSGI *)

(* the error renderer bound to a route *)
Inductive rerr := RAdapt | RRaises | ROther (tag : string) | RNotCallable.

Record droute := mk_droute {
  d_match : bool;
  d_methods : option (list string);        (* normalised *)
  d_branch : bool;
  d_mode : smode;
  d_out : exec_out;
  d_rerr : rerr
}.

Inductive handler := HDefault | HReraise.

Record dstate := mk_dstate {
  ds_excs : list (nat * Z);                (* (source route index, status code), oldest first *)
  ds_allowed : list string
}.

Inductive lres :=
| LResp (i : nat) (tag : string)
| LRedirect (i : nat)
| LHttp (src : nat) (code : Z) (allow : list string)
| LEscape (e : string)
| LReroute (i : nat).

Definition methods_of (r : droute) : list string :=
  match d_methods r with Some l => l | None => [] end.

(* the catch-all route: last stored exception, else 405, else 404 *)
Definition null_out (i : nat) (st : dstate) : lres :=
  match rev (ds_excs st) with
  | (src, code) :: _ => LHttp src code []
  | [] => match ds_allowed st with
          | [] => LHttp i 404%Z []
          | a => LHttp i 405%Z a
          end
  end.

Definition uncaught (h : handler) (i : nat) (e : string) : lres :=
  match h with HReraise => LEscape e | HDefault => LHttp i 500%Z [] end.

(* canon = (normalize_path url_path True == url_path) *)
Fixpoint loop (h : handler) (meth : string) (canon : bool) (rs : list droute) (i : nat) (st : dstate)
  : lres :=
  match rs with
  | [] => null_out i st
  | r :: rest =>
      if negb (d_match r) then loop h meth canon rest (S i) st else
      if negb (admits (d_methods r) meth)
      then loop h meth canon rest (S i) (mk_dstate (ds_excs st) (ds_allowed st ++ methods_of r)) else
      let exec :=
        match d_out r with
        | XResp t => LResp i t
        | XReroute => LReroute i
        | XHttp c true => LHttp i c []
        | XHttp c false => loop h meth canon rest (S i) (mk_dstate (ds_excs st ++ [(i, c)]) (ds_allowed st))
        | XNonResp => uncaught h i "TypeError"
        | XRaise e => uncaught h i e
        end in
      if d_branch r && negb canon then
        match d_mode r with
        | SRedirect => LRedirect i
        | SStrict => loop h meth canon rest (S i) (mk_dstate (ds_excs st ++ [(i, 404%Z)]) (ds_allowed st))
        | SRewrite => exec
        end
      else exec
  end.

Definition canonical (path : string) : bool := String.eqb (normalize_path path true) path.

Inductive final :=
| FResp (i : nat) (tag : string)
| FRedirect (i : nat) (norm : string)
| FErr (src : nat) (code : Z) (allow : list string) (by_default : bool)
| FOther (src : nat) (tag : string)
| FEscape (e : string)
| FReroute (i : nat).

(* after the loop: the HTTPException is rendered by its source route's
   render_error; if that raises (or is not callable) default_render_error renders it *)
Definition render_err (rs : list droute) (null_rerr : rerr) (src : nat) (code : Z) (allow : list string) : final :=
  let re := match nth_error rs src with Some r => d_rerr r | None => null_rerr end in
  match re with
  | RAdapt => FErr src code allow false
  | RRaises | RNotCallable => FErr src code allow true
  | ROther t => FOther src t
  end.

Definition serve (h : handler) (null_rerr : rerr) (rs : list droute) (meth path : string) : final :=
  match loop h meth (canonical path) rs 0 (mk_dstate [] []) with
  | LResp i t => FResp i t
  | LRedirect i => FRedirect i (normalize_path path true)
  | LHttp src c a => render_err rs null_rerr src c a
  | LEscape e => FEscape e
  | LReroute i => FReroute i
  end.

(* ---------------- declarative specification (C06) ---------------- *)
(* what one route does to a request that reaches it *)
Inductive verdict :=
| VSkip                                    (* pattern does not match *)
| VMethod                                  (* pattern matches, method not admitted *)
| VSoft (code : Z)                         (* non-breaking error (or strict-mode non-canonical branch): later routes are tried *)
| VStop (l : nat -> lres).                 (* the route answers *)

Definition verdict_of (h : handler) (meth : string) (canon : bool) (r : droute) : verdict :=
  if negb (d_match r) then VSkip else
  if negb (admits (d_methods r) meth) then VMethod else
  let exec :=
    match d_out r with
    | XResp t => VStop (fun i => LResp i t)
    | XReroute => VStop (fun i => LReroute i)
    | XHttp c true => VStop (fun i => LHttp i c [])
    | XHttp c false => VSoft c
    | XNonResp => VStop (fun i => uncaught h i "TypeError")
    | XRaise e => VStop (fun i => uncaught h i e)
    end in
  if d_branch r && negb canon then
    match d_mode r with
    | SRedirect => VStop (fun i => LRedirect i)
    | SStrict => VSoft 404%Z
    | SRewrite => exec
    end
  else exec.

Definition is_stop (v : verdict) : bool := match v with VStop _ => true | _ => false end.

(* index (from base) and verdict of the first stopping route *)
Fixpoint first_stop (vs : list verdict) (i : nat) : option (nat * (nat -> lres)) :=
  match vs with
  | [] => None
  | VStop l :: _ => Some (i, l)
  | _ :: r => first_stop r (S i)
  end.

Fixpoint softs (vs : list verdict) (i : nat) : list (nat * Z) :=
  match vs with
  | [] => []
  | VSoft c :: r => (i, c) :: softs r (S i)
  | _ :: r => softs r (S i)
  end.

Definition spec (h : handler) (meth : string) (canon : bool) (rs : list droute) : lres :=
  let vs := map (verdict_of h meth canon) rs in
  match first_stop vs 0 with
  | Some (i, l) => l i
  | None =>
      null_out (List.length rs)
        (mk_dstate (softs vs 0)
                   (flat_map (fun r => match verdict_of h meth canon r with VMethod => methods_of r | _ => [] end) rs))
  end.
