(* Wire format of the matchlab correspondence (C05). *)
From Coq Require Import List String Ascii Bool Arith ZArith.
Import ListNotations.
From ClasticV Require Import Base.Py Base.Strs Base.Sx Base.Rx Gen.RouteLex Model.Pattern Model.Match Model.RouteRx.
Local Open Scope string_scope.
Local Open Scope list_scope.

Fixpoint e_value (v : value) : sexp :=
  match v with
  | VStr s => L [A "s"; A s]
  | VInt z => L [A "i"; eZ z]
  | VFloat s => L [A "f"; A s]
  | VNone => A "None"
  | VList l => L [A "l"; L (map e_value l)]
  end.

Definition e_match (r : option (list (string * value))) : sexp :=
  match r with
  | None => A "nomatch"
  | Some l => L (map (fun kv => L [A (fst kv); e_value (snd kv)]) l)
  end.

(* input: (pattern mode (path ...)) *)
Definition run_matchlab (s : sexp) : sexp :=
  match s with
  | L [A pattern; A mode; L paths] =>
      match parse_pattern pattern with
      | Raise c => L [A "raise"; A c]
      | Ok p =>
          let m := if String.eqb mode "strict" then MStrict else MTolerant in
          L [A "ok"; L (flat_map (fun ix => match snd ix with
                                           | A path => match match_path m p path with
                                                       | None => []
                                                       | r => [L [enat (fst ix); e_match r]]
                                                       end
                                           | _ => [bad_input] end)
                                 (combine (seq 0 (List.length paths)) paths))]
      end
  | _ => bad_input
  end.

(* the regular expression the model assembles for a pattern, as a tree (compared with Python's own parse of
   BoundRoute.regex.pattern), and the well-formedness flag the language theorem needs *)
Fixpoint e_rx (r : rx) : sexp :=
  match r with
  | REmp => A "emp"
  | REps => A "eps"
  | RCls neg rs => L [A "cls"; ebool neg; L (map (fun ab => L [enat (fst ab); enat (snd ab)]) rs)]
  | RCat a b => L [A "cat"; e_rx a; e_rx b]
  | RAlt a b => L [A "alt"; e_rx a; e_rx b]
  | RStar a => L [A "star"; e_rx a]
  end.

(* input: (pattern mode) *)
Definition run_routerx (s : sexp) : sexp :=
  match s with
  | L [A pattern; A mode] =>
      match parse_pattern pattern with
      | Raise c => L [A "raise"; A c]
      | Ok p =>
          let m := if String.eqb mode "strict" then MStrict else MTolerant in
          L [A "ok"; e_rx (route_rx m p); ebool (pat_ok p)]
      end
  | _ => bad_input
  end.
