(* Application.__init__'s WSGI wrapper stack (_get_all_middlewares, the reversed
   wrapping fold, the error handler's wrapper innermost) and a run-time monitor
   for the WSGI protocol over the events of one request. *)
From Coq Require Import List String Ascii Bool Arith.
Import ListNotations.
From ClasticV Require Import Base.Py Base.Strs.
Local Open Scope list_scope.
Local Open Scope string_scope.

Record wsmw := mk_wsmw { ws_inst : nat; ws_type : nat; ws_wrapper : bool }.

Definition has_type (t : nat) (l : list wsmw) : bool := existsb (fun m => Nat.eqb (ws_type m) t) l.

(* for mw in broute.middlewares: if mw not in all_mw: all_mw.append(mw)   (Middleware.__eq__ is type equality) *)
Fixpoint add_all (acc : list wsmw) (ms : list wsmw) : list wsmw :=
  match ms with
  | [] => acc
  | m :: r => if has_type (ws_type m) acc then add_all acc r else add_all (acc ++ [m]) r
  end.

(* _get_all_middlewares([null_route] + routes): bound routes visited in reverse order *)
Definition get_all (routes_mws : list (list wsmw)) : list wsmw :=
  fold_left add_all (rev routes_mws) [].

(* for mw in reversed(all_mws): wrap  => the first of all_mws ends up outermost; a request passes
   the wrappers in this order, then the error handler's wrapper (if any), then _dispatch_wsgi *)
Definition wrapper_sequence (routes_mws : list (list wsmw)) (handler_has_wrapper : bool) : list (option nat) :=
  map (fun m => Some (ws_inst m)) (filter ws_wrapper (get_all routes_mws)) ++ (if handler_has_wrapper then [None] else []).

(* ---------------- protocol monitor ---------------- *)
Inductive wevent :=
| EStart (status_ok headers_ok : bool)     (* start_response(status, headers) with a well-formed status line / header list *)
| EChunk (len : nat) (is_bytes : bool)     (* one item of the returned iterable *)
| EClose.                                  (* close() of the returned iterable *)

Record mstate := mk_mstate { m_started : nat; m_body : bool; m_closed : bool; m_ok : bool }.

Definition mstep (head : bool) (s : mstate) (e : wevent) : mstate :=
  match e with
  | EStart so ho => mk_mstate (S (m_started s)) (m_body s) (m_closed s) (m_ok s && so && ho && negb (m_body s) && negb (m_closed s))
  | EChunk n b => mk_mstate (m_started s) (m_body s || negb (Nat.eqb n 0)) (m_closed s)
                            (m_ok s && b && negb (m_closed s) && (Nat.eqb n 0 || (Nat.eqb (m_started s) 1 && negb head)))
  | EClose => mk_mstate (m_started s) (m_body s) true (m_ok s && negb (m_closed s))
  end.

Definition monitor (head : bool) (t : list wevent) : bool :=
  let s := fold_left (mstep head) t (mk_mstate 0 false false true) in
  m_ok s && Nat.eqb (m_started s) 1 && m_closed s.
