(* C02 - Each injected argument comes from its one declared source. *)
From Coq Require Import List String Bool.
Import ListNotations.
From ClasticV Require Import Base.Py Base.FSet Gen.Tables Model.Chain Model.Exec
     Proofs.ChainProofs Proofs.ExecProofs Proofs.RouteProofs.
Local Open Scope string_scope.
Local Open Scope list_scope.

(* In every accepted plan, at every level of the three generated chains, the
   keyword list of the call is EXACTLY the function's declared parameters that
   some source offers at that position: pre-provided names (URL, built-ins,
   resources; + request provides for the endpoint/render phases; + context for
   render) or next or the provides of the middlewares entered before it in the
   same chain.  Hence: never an undeclared name, a defaulted parameter is
   omitted only if no source offers it, endpoint_provides never reach the
   render phase, and process_request's own parameters are exactly what the two
   inner calls need. *)
Theorem C02_exact_kwargs :
  forall ms endpoint render pre pl,
  make_middleware_chain ms endpoint render pre = Ok pl ->
  let ra := req_avail_of pre in
  let ea := union ra (provs (phase_funcs PhReq ms)) in
  kw_exact (p_ep pl) (phase_funcs PhEp ms ++ [(FEndpoint, endpoint, [])]) ea [INNER_NAME] /\
  kw_exact (p_rn pl) (phase_funcs PhRn ms ++ [(FRender, render, [])]) (union ea ["context"]) [INNER_NAME] /\
  kw_exact (p_req pl) (phase_funcs PhReq ms ++ [(FProc, mk_fsig (p_pr_params pl) 0 [] [], [])]) ra [INNER_NAME] /\
  (forall x, In x (p_ep_kwargs pl) -> In x ea) /\
  (forall x, In x (p_rn_kwargs pl) -> In x (union ea ["context"])) /\
  (forall x, In x (p_pr_params pl) <-> (In x (p_ep_kwargs pl) \/ In x (p_rn_kwargs pl)) /\ x <> "context").
Proof. exact plan_kw_exact. Qed.
Print Assumptions C02_exact_kwargs.

(* the sources of an accepted route are pairwise distinct, so the lexical
   lookup in the nested generated defs can never pick a shadowing binding *)
Theorem C02_sources_distinct :
  forall c p, build_route c = Ok p -> NoDup (all_offers (src_offers c) (r_mws c)).
Proof. exact accept_disjoint. Qed.
Print Assumptions C02_sources_distinct.

(* the pre-provided set of the request phase is exactly URL + built-ins + resources *)
Theorem C02_request_base :
  forall c, NoDup (src_offers c) ->
  forall x, In x (req_avail_of (dedup (src_offers c))) <-> In x (base c).
Proof. exact req_avail_base. Qed.
Print Assumptions C02_request_base.

(* concrete run with distinct sentinels: keyword-only parameter with a default
   receives the URL value (repaired defect F1), endpoint_provides invisible in render *)
Definition c2_mw : mw :=
  mk_mw 0 0 true true None (Some (mk_fsig ["next"] 0 [] [])) None [] ["epv"] [].
Definition c2_cfg : route_cfg :=
  mk_route_cfg ["a"] [] [c2_mw] (mk_fsig [] 0 ["a"; "epv"] ["a"]) (mk_fsig ["context"] 0 ["epv"] ["epv"]).
Example C02_example :
  exists pl, build_route c2_cfg = Ok pl /\
  snd (run (mk_scripts (fun _ _ => MCallNext PPass) (ECtx "C") (RResp "R")) pl (base_env c2_cfg)) =
  [Enter (FMw PhEp 0) [("next", VNext)];
   Enter FEndpoint [("a", VS "U:a"); ("epv", VS "Pe0:epv")]; Leave FEndpoint (OVal false "C");
   Leave (FMw PhEp 0) (OVal false "C");
   Enter FRender [("context", VS "C")]; Leave FRender (OVal true "R")].
Proof. eexists. split; [vm_compute; reflexivity|]. vm_compute. reflexivity. Qed.
