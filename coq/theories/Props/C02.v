(* C02 - Each injected argument comes from its one declared source. *)
From Coq Require Import List String Bool.
Import ListNotations.
From ClasticV Require Import Gen.ChainShape Base.Py Base.FSet Gen.Tables Model.Chain Model.Exec
     Proofs.ChainProofs Proofs.ExecProofs Proofs.RouteProofs Proofs.OnionProofs Proofs.ValueProofs Proofs.NestedProofs.
Local Open Scope string_scope.
Local Open Scope list_scope.

(* In every accepted plan, at every level of the three generated chains, the
   keyword list of the call is EXACTLY the function's declared parameters that
   some source offers at that position: pre-provided names (URL, built-ins,
   resources; + request provides for the endpoint/render phases; + context for
   render) or next or the provides of the middlewares entered before it in the
   same chain.  Hence: never an undeclared name, a defaulted parameter is
   omitted only if no source offers it, endpoint_provides never reach the
   render phase, and process_request's own parameters are exactly what the two
   inner calls need. *)
Theorem C02_exact_kwargs :
  forall ms endpoint render pre pl,
  make_middleware_chain ms endpoint render pre = Ok pl ->
  let ra := req_avail_of pre in
  let ea := union ra (provs (phase_funcs PhReq ms)) in
  kw_exact (p_ep pl) (phase_funcs PhEp ms ++ [(FEndpoint, endpoint, [])]) ea [INNER_NAME] /\
  kw_exact (p_rn pl) (phase_funcs PhRn ms ++ [(FRender, render, [])]) (union ea ["context"]) [INNER_NAME] /\
  kw_exact (p_req pl) (phase_funcs PhReq ms ++ [(FProc, mk_fsig (p_pr_params pl) 0 [] [], [])]) ra [INNER_NAME] /\
  (forall x, In x (p_ep_kwargs pl) -> In x ea) /\
  (forall x, In x (p_rn_kwargs pl) -> In x (union ea ["context"])) /\
  (forall x, In x (p_pr_params pl) <-> (In x (p_ep_kwargs pl) \/ In x (p_rn_kwargs pl)) /\ x <> "context").
Proof. exact plan_kw_exact. Qed.
Print Assumptions C02_exact_kwargs.

(* the sources of an accepted route are pairwise distinct, so the lexical
   lookup in the nested generated defs can never pick a shadowing binding *)
Theorem C02_sources_distinct :
  forall c p, build_route c = Ok p -> NoDup (all_offers (src_offers c) (r_mws c)).
Proof. exact accept_disjoint. Qed.
Print Assumptions C02_sources_distinct.

(* the pre-provided set of the request phase is exactly URL + built-ins + resources *)
Theorem C02_request_base :
  forall c, NoDup (src_offers c) ->
  forall x, In x (req_avail_of (dedup (src_offers c))) <-> In x (base c).
Proof. exact req_avail_base. Qed.
Print Assumptions C02_request_base.

(* VALUES.  In every accepted route, for every script assignment (raise before/after next, early Response, swallow,
   replace), every function of the three chains is entered with, for each keyword it is passed, EXACTLY the value of
   that name's one source [src_of]: no cross-wiring between two names, two phases or two functions is possible. *)
Theorem C02_value_is_source :
  forall c pl sc, build_route c = Ok pl ->
  forall f kws, In (Enter f kws) (snd (run sc pl (base_env c))) ->
  forall n v, In (n, v) kws -> v = src_of c sc n.
Proof. intros c pl sc Hb f kws Hin n v Hk. exact (value_is_source c pl sc Hb f kws Hin n v Hk). Qed.
Print Assumptions C02_value_is_source.

(* ... where the source of a name is: next itself; the context the endpoint returned; the URL value; the built-in;
   the registered resource; or what the providing middleware function (phase ph, instance i) handed to next() *)
Theorem C02_sources :
  forall c pl sc, build_route c = Ok pl ->
  src_of c sc "next" = VNext /\
  (forall tag, s_ep sc = ECtx tag -> src_of c sc "context" = VS tag) /\
  (forall n, In n (r_url c) -> src_of c sc n = VS ("U:" ++ n)) /\
  (forall n, In n REQUEST_BUILTINS -> src_of c sc n = VS ("B:" ++ n)) /\
  (forall n, In n (r_resources c) -> src_of c sc n = VS ("R:" ++ n)) /\
  (forall ph x i n, In x (phase_funcs ph (r_mws c)) -> fid_of x = FMw ph i -> In n (snd x) ->
                    src_of c sc n = provided_value ph i n).
Proof. exact src_of_spec. Qed.
Print Assumptions C02_sources.

(* the same for a route embedded under a prefix in an outer application: sources include the URL bindings of the prefix and
   the resources of all levels *)
Theorem C02_nested_value_is_source :
  forall o a pn pr m2 sc, build_nested o a = Ok (pn, pr, m2) ->
  forall f kws, In (Enter f kws) (snd (run sc pr (base_env (nested_route_cfg o a m2)))) ->
  forall n v, In (n, v) kws -> v = src_of (nested_route_cfg o a m2) sc n.
Proof. intros o a pn pr m2 sc Hb f kws Hin n v Hk. exact (nested_value_is_source o a pn pr m2 sc Hb f kws Hin n v Hk). Qed.
Print Assumptions C02_nested_value_is_source.

(* concrete run with distinct sentinels: keyword-only parameter with a default
   receives the URL value (repaired defect F1), endpoint_provides invisible in render *)
Definition c2_mw : mw :=
  mk_mw 0 0 true true None (Some (mk_fsig ["next"] 0 [] [])) None [] ["epv"] [].
Definition c2_cfg : route_cfg :=
  mk_route_cfg ["a"] [] [c2_mw] (mk_fsig [] 0 ["a"; "epv"] ["a"]) (mk_fsig ["context"] 0 ["epv"] ["epv"]).
Example C02_example :
  exists pl, build_route c2_cfg = Ok pl /\
  snd (run (mk_scripts (fun _ _ => MCallNext PPass) (ECtx "C") (RResp "R")) pl (base_env c2_cfg)) =
  [Enter (FMw PhEp 0) [("next", VNext)];
   Enter FEndpoint [("a", VS "U:a"); ("epv", VS "Pe0:epv")]; Leave FEndpoint (OVal false "C");
   Leave (FMw PhEp 0) (OVal false "C");
   Enter FRender [("context", VS "C")]; Leave FRender (OVal true "R")].
Proof. eexists. split; [vm_compute; reflexivity|]. vm_compute. reflexivity. Qed.

(* obligation on the source: the control-flow skeletons of sinter.inject (BoundRoute.execute is pinned in C08), regenerated from the source on every run.  The model is a
   hand transcription of exactly these statements: any edit re-opens the correspondence question (the check then searches
   for a failing input and reports what it finds) *)
Theorem C02_inject_shape :
  SK_INJECT =
  ["__traceback_hide__ = True";
   "fb = get_fb(f)";
   "all_kwargs = fb.get_defaults_dict()";
   "all_kwargs.update(injectables)";
   "if fb.varkw";
   "  return f(**all_kwargs)";
   "kwargs = dict([(k, v) for k, v in all_kwargs.items() if k in fb.get_arg_names()])";
   "return f(**kwargs)"].
Proof. repeat split; reflexivity. Qed.
Print Assumptions C02_inject_shape.
