(* C10 - Embedding a sub-application is equivalent to declaring its routes flat.
   Model: Model/World.v (bind_entry over application trees of any depth,
   rebind_bound = BoundRoute.__init__ on an already bound route). *)
From Coq Require Import List String Bool Arith.
Import ListNotations.
From ClasticV Require Import Gen.ChainShape Gen.WorldShape Base.Py Base.PyList Model.Dispatch Model.World Proofs.WorldProofs.
Local Open Scope string_scope.
Local Open Scope list_scope.

(* what embedding does to one inner route: prefixed pattern, the outer
   application's slash mode unless opted out, the outer error handling, the
   inner resources laid over the outer ones at bind time, merged middlewares *)
Theorem C10_rebind_fields : forall b facs a prefix inh rb b',
  rebind_bound b facs a prefix inh rb = Ok b' ->
  b_pattern b' = String.append prefix (b_pattern b) /\
  b_mode b' = (if inh then a_mode a else b_mode b) /\
  b_rerr b' = a_handler a /\ b_key b' = b_key b /\ b_methods b' = b_methods b /\
  b_apps b' = b_apps b ++ [a_id a] /\
  b_resources b' = dict_update (a_resources a) (b_resources b) /\
  merge_mws (b_mws b) (a_mws a) = Ok (b_mws b').
Proof. exact rebind_fields. Qed.
Print Assumptions C10_rebind_fields.

(* middlewares over three levels: the outer list, then a subsequence of the
   embedded application's, then a subsequence of the route's own *)
Theorem C10_three_level_order : forall route_mws inner_mws outer_mws l1 l2,
  merge_mws route_mws inner_mws = Ok l1 -> merge_mws l1 outer_mws = Ok l2 ->
  exists ki kr, l2 = outer_mws ++ ki ++ kr /\ sublist ki inner_mws /\ sublist kr route_mws.
Proof. exact three_level_order. Qed.
Print Assumptions C10_three_level_order.

(* NESTED = FLAT for the middleware list, at full strength: merging the route's list into the embedded application's
   and the result into the embedding application's gives - success and failure alike - exactly the ONE keep-first
   pass of the flat declaration over  outer ++ inner ++ route  (a unique type kept once, at its outermost position;
   ValueError for a unique non-reorderable duplicate).  By induction this extends to any nesting depth, since the
   right-hand side is itself a [merge_into]. *)
Theorem C10_nested_merge_is_flat : forall route_mws inner_mws outer_mws,
  match merge_mws route_mws inner_mws with
  | Ok l1 => merge_mws l1 outer_mws
  | Raise c => Raise c
  end =
  match merge_into outer_mws inner_mws with
  | Ok acc => merge_into acc route_mws
  | Raise c => Raise "ValueError"
  end.
Proof. exact nested_merge_is_flat. Qed.
Print Assumptions C10_nested_merge_is_flat.

Theorem C10_flat_pass_is_one_pass : forall a acc b,
  merge_into acc (a ++ b) = match merge_into acc a with Ok acc' => merge_into acc' b | Raise c => Raise c end.
Proof. exact merge_into_app. Qed.
Print Assumptions C10_flat_pass_is_one_pass.

(* resources at request time: the serving (outermost) application's value wins
   for a name it defines; every other name keeps the value bound further in *)
Theorem C10_serving_app_wins : forall a b n v,
  lookup n (rev (a_resources a)) = Some v -> request_value a b n = Some v.
Proof. exact serving_app_wins. Qed.
Print Assumptions C10_serving_app_wins.

Theorem C10_inner_value_visible : forall a b n,
  lookup n (rev (a_resources a)) = None -> request_value a b n = lookup n (b_resources b).
Proof. exact inner_value_visible. Qed.
Print Assumptions C10_inner_value_visible.

(* entries are bound independently: the routes outside an embedding are bound
   exactly as in the application without it, in the same order around it *)
Theorem C10_outside_embedding_unaffected : forall a es1 sub es2 l,
  bind_entries a (es1 ++ sub :: es2) [] = Ok l ->
  exists l1 ls l2, l = l1 ++ ls ++ l2 /\ bind_entries a (es1 ++ es2) [] = Ok (l1 ++ l2) /\ bind_entry a sub = Ok ls.
Proof. exact outside_embedding_unaffected. Qed.
Print Assumptions C10_outside_embedding_unaffected.

(* non-vacuity: a two-level tree with a shared unique middleware type, a shared resource name, rebind off *)
Definition mwA (i : nat) := mk_wmw i 0 true true [].
Definition inner_env := mk_appenv 2 [("ra", 20)] [mwA 2] SStrict 9 (Some 1).
Definition outer_env := mk_appenv 1 [("ra", 10)] [mwA 1] SRedirect 7 (Some 2).
Definition rt := mk_rdecl 5 "/x/<y>" SRewrite None [] [] ["ra"; "y"] (RaArg "t").
Example C10_example :
  bind_entry outer_env (ESub "/pre/" inner_env [ERoute rt true] false true) =
  Ok [(mk_bound 5 "/pre/x/<y>" SRedirect None [mwA 1] [("ra", 20)] ["ra"; "y"] (RaArg "t") (RrFactory 1 "t") (Some 1) 7 [2; 1],
       [Some 1; Some 2])].
Proof. vm_compute. reflexivity. Qed.

(* obligation on the source: the control-flow skeletons of BoundRoute.__init__ / bind and SubApplication, regenerated from the source on every run.  The model is a
   hand transcription of exactly these statements: any edit re-opens the correspondence question (the check then searches
   for a failing input and reports what it finds) *)
Theorem C10_binding_shape :
  SK_BOUNDROUTE_INIT =
  ["self.unbound_route = unbound_route = getattr(route, 'unbound_route', route)";
   "self.bound_apps = getattr(route, 'bound_apps', []) + [app]";
   "prefix = kwargs.pop('prefix', '')";
   "rebind_render = kwargs.pop('rebind_render', True)";
   "inherit_slashes = kwargs.pop('inherit_slashes', True)";
   "rebind_render_error = kwargs.pop('rebind_render_error', True)";
   "if kwargs";
   "  raise TypeError('unexpected keyword args: %r' % kwargs.keys())";
   "self.pattern = prefix + route.pattern";
   "self.slash_mode = app.slash_mode if inherit_slashes else route.slash_mode";
   "self.methods = route.methods";
   "self.regex, self.converters = _compile_path_pattern(self.pattern, self.slash_mode)";
   "self.path_args = self.converters.keys()";
   "self.endpoint_args = get_arg_names(unbound_route.endpoint)";
   "app_resources = getattr(app, 'resources', {})";
   "self.resources = dict(app_resources)";
   "self.resources.update(getattr(route, 'resources', {}))";
   "app_mws = getattr(app, 'middlewares', [])";
   "self.middlewares = tuple(merge_middlewares(getattr(route, 'middlewares', []), app_mws))";
   "bind_render = rebind_render or route.render is _noop_render or (not callable(route.render))";
   "render_factory_list = [getattr(ba, 'render_factory', None) for ba in self.bound_apps]";
   "render_factory = first(reversed(render_factory_list), key=callable)";
   "if callable(unbound_route.render)";
   "  render = unbound_route.render";
   "  render_factory = None";
   "else";
   "  if bind_render and render_factory and (unbound_route.render is not None)";
   "    render = render_factory(unbound_route.render)";
   "  else";
   "    render = route.render if callable(route.render) else _noop_render";
   "    render_factory = getattr(route, 'render_factory', None)";
   "self.render_factory = render_factory";
   "self.render = render";
   "if rebind_render_error";
   "  render_error = getattr(app.error_handler, 'render_error', None)";
   "else";
   "  render_error = route.render_error";
   "if callable(render_error)";
   "  check_render_error(render_error, self.resources)";
   "self.render_error = render_error";
   "src_provides_map = {'url': set(self.converters), 'builtins': set(RESERVED_ARGS), 'resources': set(self.resources)}";
   "check_middlewares(self.middlewares, src_provides_map)";
   "provided = set.union(*src_provides_map.values())";
   "self._execute = make_middleware_chain(self.middlewares, unbound_route.endpoint, render, provided)";
   "self._required_args = self._resolve_required_args()"] /\
  SK_SUBAPPLICATION_INIT =
  ["self.prefix = prefix.rstrip('/')";
   "self.app = app";
   "self.rebind_render = rebind_render";
   "self.inherit_slashes = inherit_slashes"] /\
  SK_SUBAPPLICATION_BIND_ALL =
  ["ret = []";
   "kwargs['prefix'] = self.prefix";
   "kwargs.setdefault('rebind_render', self.rebind_render)";
   "kwargs.setdefault('inherit_slashes', self.inherit_slashes)";
   "for rt in self.app.routes";
   "  if isinstance(rt, NullRoute)";
   "    continue";
   "  bound_rt = rt.bind(app, **kwargs)";
   "  ret.append(bound_rt)";
   "return ret"] /\
  SK_SUBAPPLICATION_ITER_ROUTES =
  ["for rt in self.app.iter_routes()";
   "  if isinstance(rt, NullRoute)";
   "    continue";
   "  yield rt";
   "return"] /\
  SK_BOUNDROUTE_BIND =
  ["return BoundRoute(self, app, **kwargs)"].
Proof. repeat split; reflexivity. Qed.
Print Assumptions C10_binding_shape.
