(* C10 - Embedding a sub-application is equivalent to declaring its routes flat.
   Model: Model/World.v (bind_entry over application trees of any depth,
   rebind_bound = BoundRoute.__init__ on an already bound route). *)
From Coq Require Import List String Bool Arith.
Import ListNotations.
From ClasticV Require Import Base.Py Base.PyList Model.Dispatch Model.World Proofs.WorldProofs.
Local Open Scope string_scope.
Local Open Scope list_scope.

(* what embedding does to one inner route: prefixed pattern, the outer
   application's slash mode unless opted out, the outer error handling, the
   inner resources laid over the outer ones at bind time, merged middlewares *)
Theorem C10_rebind_fields : forall b facs a prefix inh rb b',
  rebind_bound b facs a prefix inh rb = Ok b' ->
  b_pattern b' = String.append prefix (b_pattern b) /\
  b_mode b' = (if inh then a_mode a else b_mode b) /\
  b_rerr b' = a_handler a /\ b_key b' = b_key b /\ b_methods b' = b_methods b /\
  b_apps b' = b_apps b ++ [a_id a] /\
  b_resources b' = dict_update (a_resources a) (b_resources b) /\
  merge_mws (b_mws b) (a_mws a) = Ok (b_mws b').
Proof. exact rebind_fields. Qed.
Print Assumptions C10_rebind_fields.

(* middlewares over three levels: the outer list, then a subsequence of the
   embedded application's, then a subsequence of the route's own *)
Theorem C10_three_level_order : forall route_mws inner_mws outer_mws l1 l2,
  merge_mws route_mws inner_mws = Ok l1 -> merge_mws l1 outer_mws = Ok l2 ->
  exists ki kr, l2 = outer_mws ++ ki ++ kr /\ sublist ki inner_mws /\ sublist kr route_mws.
Proof. exact three_level_order. Qed.
Print Assumptions C10_three_level_order.

(* NESTED = FLAT for the middleware list, at full strength: merging the route's list into the embedded application's
   and the result into the embedding application's gives - success and failure alike - exactly the ONE keep-first
   pass of the flat declaration over  outer ++ inner ++ route  (a unique type kept once, at its outermost position;
   ValueError for a unique non-reorderable duplicate).  By induction this extends to any nesting depth, since the
   right-hand side is itself a [merge_into]. *)
Theorem C10_nested_merge_is_flat : forall route_mws inner_mws outer_mws,
  match merge_mws route_mws inner_mws with
  | Ok l1 => merge_mws l1 outer_mws
  | Raise c => Raise c
  end =
  match merge_into outer_mws inner_mws with
  | Ok acc => merge_into acc route_mws
  | Raise c => Raise "ValueError"
  end.
Proof. exact nested_merge_is_flat. Qed.
Print Assumptions C10_nested_merge_is_flat.

Theorem C10_flat_pass_is_one_pass : forall a acc b,
  merge_into acc (a ++ b) = match merge_into acc a with Ok acc' => merge_into acc' b | Raise c => Raise c end.
Proof. exact merge_into_app. Qed.
Print Assumptions C10_flat_pass_is_one_pass.

(* resources at request time: the serving (outermost) application's value wins
   for a name it defines; every other name keeps the value bound further in *)
Theorem C10_serving_app_wins : forall a b n v,
  lookup n (rev (a_resources a)) = Some v -> request_value a b n = Some v.
Proof. exact serving_app_wins. Qed.
Print Assumptions C10_serving_app_wins.

Theorem C10_inner_value_visible : forall a b n,
  lookup n (rev (a_resources a)) = None -> request_value a b n = lookup n (b_resources b).
Proof. exact inner_value_visible. Qed.
Print Assumptions C10_inner_value_visible.

(* entries are bound independently: the routes outside an embedding are bound
   exactly as in the application without it, in the same order around it *)
Theorem C10_outside_embedding_unaffected : forall a es1 sub es2 l,
  bind_entries a (es1 ++ sub :: es2) [] = Ok l ->
  exists l1 ls l2, l = l1 ++ ls ++ l2 /\ bind_entries a (es1 ++ es2) [] = Ok (l1 ++ l2) /\ bind_entry a sub = Ok ls.
Proof. exact outside_embedding_unaffected. Qed.
Print Assumptions C10_outside_embedding_unaffected.

(* non-vacuity: a two-level tree with a shared unique middleware type, a shared resource name, rebind off *)
Definition mwA (i : nat) := mk_wmw i 0 true true [].
Definition inner_env := mk_appenv 2 [("ra", 20)] [mwA 2] SStrict 9 (Some 1).
Definition outer_env := mk_appenv 1 [("ra", 10)] [mwA 1] SRedirect 7 (Some 2).
Definition rt := mk_rdecl 5 "/x/<y>" SRewrite None [] [] ["ra"; "y"] (RaArg "t").
Example C10_example :
  bind_entry outer_env (ESub "/pre/" inner_env [ERoute rt true] false true) =
  Ok [(mk_bound 5 "/pre/x/<y>" SRedirect None [mwA 1] [("ra", 20)] ["ra"; "y"] (RaArg "t") (RrFactory 1 "t") (Some 1) 7 [2; 1],
       [Some 1; Some 2])].
Proof. vm_compute. reflexivity. Qed.
