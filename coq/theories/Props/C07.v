(* C07 - Trailing-slash redirects lead to the same resource in one hop.
   Model: normalize_path TRANSLATED from route.py (Gen/NormPathGen.v), the
   redirect branch of the dispatch model (Model/Dispatch.v), the Location
   assembly with percent-encoding (Model/Redirect.v). *)
From Coq Require Import List String Ascii Bool Arith ZArith.
Import ListNotations.
From ClasticV Require Import Base.Py Base.Strs Gen.NormPathGen Model.Pattern Model.Match Model.Redirect Model.Dispatch
     Proofs.MatchProofs Proofs.DispatchProofs Proofs.RedirectProofs.
Local Open Scope string_scope.

Theorem C07_norm_idempotent : forall path b, normalize_path (normalize_path path b) b = normalize_path path b.
Proof. exact normalize_idempotent. Qed.
Print Assumptions C07_norm_idempotent.

(* the redirect target is canonical: requesting it never produces a second slash redirect *)
Theorem C07_norm_canonical : forall path, canonical (normalize_path path true) = true.
Proof. exact normalized_is_canonical. Qed.
Print Assumptions C07_norm_canonical.

(* normalisation keeps exactly the non-empty segments, in order *)
Theorem C07_norm_segments : forall path b,
  filter nonempty (split_on "/" (normalize_path path b)) = filter nonempty (split_on "/" path).
Proof. exact normalize_segments. Qed.
Print Assumptions C07_norm_segments.

(* decoding the encoded path gives the path back, for every byte string *)
Theorem C07_quote_roundtrip : forall s, unquote (quote_path s) = s.
Proof. exact quote_path_roundtrip. Qed.
Print Assumptions C07_quote_roundtrip.

(* the encoded path contains only unreserved characters, '/' and '%': no '?', no '#' *)
Theorem C07_quote_clean : forall s,
  all_chr path_out_ok (quote_path s) = true /\
  str_contains_chr "?" (quote_path s) = false /\ str_contains_chr "#" (quote_path s) = false.
Proof. intros s. split; [apply quote_path_clean|apply quote_path_no_delims]. Qed.
Print Assumptions C07_quote_clean.

(* the Location splits at its first '?' into the encoded normalised path (which
   decodes to exactly the normalised path) and the encoded query *)
Theorem C07_location :
  forall root path query, str_contains_chr "?" root = false ->
  split_at "?" (location root path query) = (root ++ quote_path (normalize_path path true), Some (quote_query query)) /\
  unquote (quote_path (normalize_path path true)) = normalize_path path true.
Proof. exact location_splits. Qed.
Print Assumptions C07_location.

(* a query string made of URL-legal characters is passed through unchanged *)
Theorem C07_query_unchanged : forall q,
  all_chr (fun c => always_safe c || query_safe c) q = true -> quote_query q = q.
Proof. exact quote_query_identity. Qed.
Print Assumptions C07_query_unchanged.

(* a redirect is issued only by a branch route in redirect mode whose pattern
   matches, which admits the method, for a non-canonical path *)
Theorem C07_redirect_only_if :
  forall h meth canon rs i st j, loop h meth canon rs i st = LRedirect j ->
  exists r, nth_error rs (j - i) = Some r /\ i <= j /\
    d_match r = true /\ admits (d_methods r) meth = true /\ d_branch r = true /\ canon = false /\ d_mode r = SRedirect.
Proof. exact redirect_only_if. Qed.
Print Assumptions C07_redirect_only_if.

(* the route matches the redirect target exactly as it matched the original path (C05, tolerant modes) *)
Theorem C07_same_bindings_partial :
  forall p path ts tr, tokenise path = Some (ts, tr) -> multi_clean (p_elems p) ts ->
  match_path MTolerant p path = match_path MTolerant p (normalize_path path true).
Proof. intros. eapply tolerant_normalized; eauto. Qed.
Print Assumptions C07_same_bindings_partial.

Example C07_example :
  location "http://h" "/a//b?c/%41" "x=1&y=%zz" = "http://h/a/b%3Fc/%2541/?x=1&y=%zz" /\
  unquote "/a/b%3Fc/%2541/" = "/a/b?c/%41/" /\
  canonical "/a//b" = false /\ canonical "/a/b/" = true /\
  serve HDefault RAdapt [mk_droute true (Some ["GET"; "HEAD"]) true SRedirect (XResp "r") RAdapt] "GET" "/a//b" = FRedirect 0 "/a/b/" /\
  serve HDefault RAdapt [mk_droute true (Some ["GET"; "HEAD"]) true SRedirect (XResp "r") RAdapt] "POST" "/a//b" = FErr 1 405%Z ["GET"; "HEAD"] false /\
  serve HDefault RAdapt [mk_droute true None true SStrict (XResp "r") RAdapt] "GET" "/a//b" = FErr 0 404%Z [] false /\
  serve HDefault RAdapt [mk_droute true None true SRewrite (XResp "r") RAdapt] "GET" "/a//b" = FResp 0 "r".
Proof. vm_compute. repeat split; reflexivity. Qed.
