(* C13 - An Application is a conforming WSGI application (partial).
   Model: Model/Wsgi.v (the WSGI wrapper stack built by Application.__init__; a
   run-time monitor for the WSGI protocol).  The monitor is PROVED sound w.r.t.
   the declarative protocol reading; that every trace the implementation can
   produce is accepted is NOT a theorem (werkzeug's BaseResponse.__call__,
   FileWrapper and get_app_iter produce the events): every observed trace is
   decided by the extracted, proved monitor - this is the partial part. *)
From Coq Require Import List String Ascii Bool Arith.
Import ListNotations.
From ClasticV Require Import Gen.MoreShapes Base.Py Base.Strs Model.Wsgi Proofs.WsgiProofs.
Local Open Scope list_scope.

(* every middleware type contributes its wrapper at most once *)
Theorem C13_types_once : forall rs, types_nodup (get_all rs).
Proof. exact get_all_types_once. Qed.
Print Assumptions C13_types_once.

(* the application-level middlewares come first, in list order (first = outermost); anything contributed
   only by routes or embedded applications follows: an embedding application's wrappers before the embedded one's *)
Theorem C13_wrapper_order : forall rs last M,
  NoDup (map ws_type M) -> (exists tail, last = M ++ tail) -> exists rest, get_all (rs ++ [last]) = M ++ rest.
Proof. exact app_list_first. Qed.
Print Assumptions C13_wrapper_order.

(* soundness of the protocol monitor *)
Theorem C13_monitor_sound : forall head t,
  monitor head t = true ->
  count_starts t = 1 /\
  (forall (pre : list wevent) (so ho : bool) (post : list wevent), t = pre ++ EStart so ho :: post ->
      so = true /\ ho = true /\ (forall (n : nat) (b : bool), In (EChunk n b) pre -> n = 0)) /\
  (forall (n : nat) (b : bool), In (EChunk n b) t -> b = true /\ (head = true -> n = 0)) /\
  (exists pre, t = pre ++ [EClose] /\ ~ In EClose pre).
Proof. exact monitor_sound. Qed.
Print Assumptions C13_monitor_sound.

(* ... and complete: the monitor accepts EXACTLY the traces of the conforming shape - zero-length byte
   chunks, one well-formed start_response, byte chunks (only zero-length ones for HEAD), one close at the end -
   so a trace it rejects is a protocol violation, never an artefact of the monitor *)
Theorem C13_monitor_exact : forall head t, monitor head t = true <-> conforming head t.
Proof. exact monitor_exact. Qed.
Print Assumptions C13_monitor_exact.

Example C13_conforming_nonvacuous :
  conforming false [EChunk 0 true; EStart true true; EChunk 5 true; EChunk 0 true; EClose] /\
  conforming true [EStart true true; EChunk 0 true; EClose] /\
  monitor true [EStart true true; EChunk 3 true; EClose] = false.
Proof.
  split; [|split; [|reflexivity]].
  - exists [EChunk 0 true], [EChunk 5 true; EChunk 0 true]. split; [reflexivity|]. split.
    + repeat constructor.
    + repeat constructor; [exists 5|exists 0]; (split; [reflexivity|discriminate]).
  - exists [], [EChunk 0 true]. split; [reflexivity|]. split; [constructor|].
    repeat constructor. exists 0. split; reflexivity.
Qed.

Example C13_example :
  wrapper_sequence [[mk_wsmw 1 0 true; mk_wsmw 2 1 false; mk_wsmw 3 2 true; mk_wsmw 9 7 true];
                    [mk_wsmw 1 0 true; mk_wsmw 2 1 false; mk_wsmw 3 2 true; mk_wsmw 4 0 true]] true
  = [Some 1; Some 3; Some 9; None] /\
  monitor false [EStart true true; EChunk 5 true; EClose] = true /\
  monitor false [EChunk 5 true; EStart true true; EClose] = false /\
  monitor true [EStart true true; EChunk 5 true; EClose] = false /\
  monitor false [EStart true true; EStart true true; EClose] = false /\
  monitor false [EStart true true; EChunk 0 true] = false.
Proof. vm_compute. repeat split; reflexivity. Qed.

Local Open Scope string_scope.
Local Open Scope list_scope.
(* obligation on the source: the control-flow skeletons of _get_all_middlewares and _safe_wrap_wsgi (Application.__init__ is pinned in C11), regenerated from the source on every run.  The model is a
   hand transcription of exactly these statements: any edit re-opens the correspondence question (the check then searches
   for a failing input and reports what it finds) *)
Theorem C13_stack_shape :
  SK_GET_ALL_MIDDLEWARES =
  ["all_mw = []";
   "for broute in reversed(bound_routes)";
   "  for mw in broute.middlewares";
   "    if mw not in all_mw";
   "      all_mw.append(mw)";
   "return all_mw"] /\
  SK_SAFE_WRAP_WSGI =
  ["wsgi_wrapper = getattr(source, 'wsgi_wrapper', None)";
   "if wsgi_wrapper is None";
   "  return inner";
   "else";
   "  if not callable(wsgi_wrapper)";
   "    raise TypeError('expected %s.wsgi_wrapper to be callable or None, not %r' % (source_name, wsgi_wrapper))";
   "wrapped_wsgi = wsgi_wrapper(inner)";
   "try";
   "  check_valid_wsgi(wrapped_wsgi)";
   "except TypeError as te";
   "  raise TypeError('expected valid WSGI callable from %s (%r) WSGI wrapper (%r), instead got issue: %r' % (source_name, source, wsgi_wrapper, te))";
   "return wrapped_wsgi"].
Proof. repeat split; reflexivity. Qed.
Print Assumptions C13_stack_shape.
