(* C04 - Name conflicts and reserved-name misuse are rejected at construction. *)
From Coq Require Import List String Bool.
Import ListNotations.
From ClasticV Require Import Gen.ChainShape Base.Py Base.FSet Gen.Tables Model.Chain
     Model.Exec Proofs.ChainProofs Proofs.ExecProofs Proofs.RouteProofs Proofs.OnionProofs Proofs.ValueProofs Proofs.NestedProofs.
Local Open Scope string_scope.
Local Open Scope list_scope.

(* obligation on the table regenerated from clastic/route.py *)
Theorem C04_reserved_table :
  RESERVED_ARGS = ["request"; "_application"; "_route"; "_dispatch_state"; "context"; "next"].
Proof. reflexivity. Qed.
Print Assumptions C04_reserved_table.

(* offers as a multiset: URL bindings ++ reserved built-ins ++ resources ++ every
   provides / endpoint_provides / render_provides tuple of every middleware.
   Any name offered twice => construction fails (NameError unless a malformed
   middleware function is reported first). *)
Theorem C04_conflict_rejected :
  forall c, has_dup (all_offers (src_offers c) (r_mws c)) = true ->
  exists cls, build_route c = Raise cls /\ (check_each (r_mws c) = Ok tt -> cls = "NameError").
Proof. exact conflict_rejected. Qed.
Print Assumptions C04_conflict_rejected.

Theorem C04_accept_disjoint :
  forall c p, build_route c = Ok p -> NoDup (all_offers (src_offers c) (r_mws c)).
Proof. exact accept_disjoint. Qed.
Print Assumptions C04_accept_disjoint.

Theorem C04_reserved_resource :
  forall a r, In r RESERVED_ARGS -> In r (a_resources a) -> build_app a = Raise "NameError".
Proof. exact reserved_resource_rejected. Qed.
Print Assumptions C04_reserved_resource.

(* a middleware function whose first parameter is not next (or that has no
   parameter at all) is rejected at construction *)
Theorem C04_next_first :
  forall c m, In m (r_mws c) -> check_middleware m <> Ok tt ->
  exists cls, build_route c = Raise cls /\ (cls = "TypeError" \/ cls = "IndexError").
Proof. exact bad_middleware_rejected. Qed.
Print Assumptions C04_next_first.

Theorem C04_next_misplaced :
  forall c, check_middlewares (r_mws c) (src_offers c) = Ok tt ->
  mem "next" (arg_names (r_endpoint c)) = true \/ mem "next" (arg_names (r_render c)) = true ->
  build_route c = Raise "NameError".
Proof. exact next_misplaced_rejected. Qed.
Print Assumptions C04_next_misplaced.

(* no accepted route has a request-phase or endpoint-phase function (the
   endpoint included) that requires context *)
Theorem C04_context_only_render :
  forall c p, build_route c = Ok p ->
  (forall f pr, In (f, pr) (mfps (phase_funcs PhReq (r_mws c))) -> ~ In "context" (required f)) /\
  (forall f pr, In (f, pr) (fps_of (phase_funcs PhEp (r_mws c)) (FEndpoint, r_endpoint c)) ->
                ~ In "context" (required f)).
Proof. exact context_only_render. Qed.
Print Assumptions C04_context_only_render.

Example C04_example_conflict :
  build_route (mk_route_cfg ["a"] ["a"] [] (mk_fsig [] 0 [] []) (mk_fsig ["context"] 0 [] [])) = Raise "NameError"
  /\ build_route (mk_route_cfg ["a"] []
        [mk_mw 0 0 true true (Some (mk_fsig ["next"] 0 [] [])) None None ["x"] [] ["x"]]
        (mk_fsig [] 0 [] []) (mk_fsig ["context"] 0 [] [])) = Raise "NameError".
Proof. split; vm_compute; reflexivity. Qed.

(* embedded placement: when an application embedded under a prefix is accepted, the URL bindings of the prefix and of
   the route, the reserved names, the resources of ALL levels and every provides tuple of the flat middleware list are
   pairwise distinct - so a name of the prefix that is also an inner resource, a middleware's provide or a reserved
   name makes the construction fail *)
Theorem C04_nested_sources_distinct :
  forall o a pn pr m2, build_nested o a = Ok (pn, pr, m2) ->
  NoDup (all_offers (src_offers (nested_route_cfg o a m2)) m2).
Proof.
  intros o a pn pr m2 Hb. destruct (nested_accept o a pn pr m2 Hb) as (_ & _ & _ & _ & _ & Hr).
  exact (accept_disjoint (nested_route_cfg o a m2) pr Hr).
Qed.
Print Assumptions C04_nested_sources_distinct.

(* ... stated as rejections: a name bound by the embedding prefix that is also bound by the route's own pattern, reserved,
   or a resource of ANY level (outer application, embedded application, route) makes the nested construction fail *)
Theorem C04_nested_prefix_conflict_rejected :
  forall o a n,
  In n (o_prefix_url o) ->
  (In n (a_route_url a) \/ In n RESERVED_ARGS \/ In n (o_resources o) \/ In n (a_resources a) \/ In n (a_route_resources a)) ->
  forall r, build_nested o a <> Ok r.
Proof. exact nested_prefix_conflict_rejected. Qed.
Print Assumptions C04_nested_prefix_conflict_rejected.

(* obligation on the source: the control-flow skeletons of check_middleware and check_middlewares, regenerated from the source on every run.  The model is a
   hand transcription of exactly these statements: any edit re-opens the correspondence question (the check then searches
   for a failing input and reports what it finds) *)
Theorem C04_check_shape :
  SK_CHECK_MIDDLEWARE =
  ["for f_name in ('request', 'endpoint', 'render')";
   "  func = getattr(mw, f_name, None)";
   "  if not func";
   "    continue";
   "  if not callable(func)";
   "    raise TypeError('expected %s.%s to be a function' % (mw.name, f_name))";
   "  if not get_arg_names(func)[0] == 'next'";
   "    raise TypeError(""middleware functions must take argument 'next' as the first parameter (%s.%s)"" % (mw.name, f_name))";
   "return"] /\
  SK_CHECK_MIDDLEWARES =
  ["args_dict = args_dict or {}";
   "provided_by = defaultdict(list)";
   "for (source, arg_list) in args_dict.items()";
   "  for arg_name in arg_list";
   "    provided_by[arg_name].append(source)";
   "for mw in middlewares";
   "  check_middleware(mw)";
   "  for arg in mw.provides";
   "    provided_by[arg].append(mw)";
   "  for arg in mw.endpoint_provides";
   "    provided_by[arg].append(mw)";
   "  for arg in mw.render_provides";
   "    provided_by[arg].append(mw)";
   "conflicts = [(n, tuple(ps)) for n, ps in provided_by.items() if len(ps) > 1]";
   "if conflicts";
   "  raise NameError('found conflicting provides: %r' % conflicts)";
   "return True"].
Proof. repeat split; reflexivity. Qed.
Print Assumptions C04_check_shape.
