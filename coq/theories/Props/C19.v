(* C19 - Stats count every request once and keep bounded samples.
   Property theorems only; each is closed by [exact] of a lemma proved in
   Proofs/StatsProofs.v about the functions REGENERATED from
   clastic/middleware/stats.py (Gen/ReservoirGen.v). *)
From Coq Require Import List ZArith String.
Import ListNotations.
From ClasticV Require Import Gen.MoreShapes Base.PyList Base.Py Gen.ReservoirGen Model.Stats Proofs.StatsProofs.
Local Open Scope Z_scope.

(* For every capacity >= 0 and every sequence of add / resize(n>=0) operations,
   with every possible result of the random generator at every add:
   no exception, size bounded by the capacity, exact total, membership. *)
Theorem C19_reservoir_bounded_exact_member_total :
  forall cap ops, 0 <= cap -> Forall resize_ok ops ->
  exists s, rrun cap ops = Ok s /\
            zlen (_data s) <= _cap s /\
            _total_count s = count_adds ops /\
            (forall y, In y (_data s) -> In y (added ops)).
Proof. exact reservoir_main. Qed.
Print Assumptions C19_reservoir_bounded_exact_member_total.

(* the model's random source covers exactly the interval fast_randint promises *)
Theorem C19_rnd_range : forall r a b, a <= b -> a <= rnd_of r a b <= b.
Proof. exact rnd_of_range. Qed.
Print Assumptions C19_rnd_range.

Theorem C19_rnd_surjective : forall a b x, a <= x <= b -> exists r, rnd_of r a b = x.
Proof. exact rnd_of_surj. Qed.
Print Assumptions C19_rnd_surjective.

(* samples are actually kept: with no resize the store holds min(cap, total) values *)
Theorem C19_reservoir_fills :
  forall cap ops, 0 <= cap -> only_adds ops ->
  exists s, rrun cap ops = Ok s /\ zlen (_data s) = Z.min cap (count_adds ops).
Proof. exact reservoir_fill. Qed.
Print Assumptions C19_reservoir_fills.

(* every request history: recording never raises, a route's counts sum to the
   number of requests that reached it since the last reset, and each request is
   counted under exactly its own status key *)
Theorem C19_counts_sum :
  forall ops,
  exists st, srun ops = Ok st /\
    (forall route, route_total st route = reqs_since_reset ops route 0) /\
    (forall route key, key_count st route key = keyreqs_since_reset ops route key 0).
Proof. exact stats_main. Qed.
Print Assumptions C19_counts_sum.

(* non-vacuity: a concrete history with a growing resize (the shape of defect F12) *)
Example C19_example :
  rrun 2 [RAdd 1 0; RAdd 2 0; RAdd 3 5; RAdd 4 1; RAdd 5 2; RResize 10;
          RAdd 6 0; RAdd 7 0; RAdd 8 0; RAdd 9 0; RAdd 10 0; RAdd 11 0; RAdd 12 0;
          RAdd 13 0; RAdd 14 9; RAdd 15 10]
  = Ok (mk_rstate 10 [1; 4; 6; 7; 8; 9; 10; 11; 12; 14] 15).
Proof. vm_compute. reflexivity. Qed.

Local Open Scope string_scope.
Local Open Scope list_scope.
(* obligation on the source: the control-flow skeletons of StatsMiddleware, RouteStatReservoir and the report functions (Reservoir.add/resize are TRANSLATED in Gen/ReservoirGen.v), regenerated from the source on every run.  The model is a
   hand transcription of exactly these statements: any edit re-opens the correspondence question (the check then searches
   for a failing input and reports what it finds) *)
Theorem C19_stats_shape :
  SK_STATSMIDDLEWARE_INIT =
  ["self.reset()"] /\
  SK_STATSMIDDLEWARE_RESET =
  ["self.route_hits = defaultdict(lambda: defaultdict(RouteStatReservoir))";
   "self.last_reset = datetime.datetime.utcnow()"] /\
  SK_STATSMIDDLEWARE_REQUEST =
  ["start_time = time.time()";
   "try";
   "  resp = next()";
   "  resp_status = repr(getattr(resp, 'status_code', resp.__class__.__name__))";
   "  resp_mime_type = (getattr(resp, 'content_type', None) or '').partition(';')[0]";
   "except Exception as e";
   "  resp_status = repr(getattr(e, 'code', e.__class__.__name__))";
   "  resp_mime_type = getattr(e, 'content_type', '').partition(';')[0]";
   "  raise";
   "finally";
   "  end_time = time.time()";
   "  duration = end_time - start_time";
   "  hit = Hit(start_time, request.path, _route.pattern, resp_status, duration, resp_mime_type)";
   "  self.route_hits[_route][resp_status].add(hit)";
   "return resp"] /\
  SK_ROUTESTATRESERVOIR_INIT =
  ["self.last_hit = None";
   "self.total_duration = 0.0";
   "super(RouteStatReservoir, self).__init__()"] /\
  SK_ROUTESTATRESERVOIR_ADD =
  ["super(RouteStatReservoir, self).add(hit)";
   "self.last_hit = hit.start_time";
   "self.total_duration += hit.duration"] /\
  SK_GET_ROUTE_STATS =
  ["ret = {}";
   "for (status, hits) in rt_hits.items()";
   "  ret[status] = cur = {}";
   "  durs = [round(h.duration * 1000, 2) for h in hits]";
   "  stats = Stats(durs, use_copy=False)";
   "  desc_dict = stats.describe(quantiles=[0.25, 0.5, 0.75, 0.95, 0.99], format='dict')";
   "  desc_dict['count'] = hits.total_count";
   "  desc_dict['last_hit'] = datetime.datetime.fromtimestamp(hits.last_hit).isoformat()";
   "  desc_dict['total_duration'] = round(hits.total_duration * 1000, 2)";
   "  cur.update(desc_dict)";
   "return ret"] /\
  SK_GET_STATS_DICT =
  ["stats_mw = _get_stats_mw(_application)";
   "rt_hits = stats_mw.route_hits";
   "utcnow = datetime.datetime.utcnow().isoformat()";
   "return {'route_stats': dict([(rt.pattern, _get_route_stats(rh)) for rt, rh in rt_hits.items() if rh]), 'start_time_utc': stats_mw.last_reset.isoformat(), 'cur_time_utc': utcnow}"] /\
  SK_GET_AND_RESET_STATS_DICT =
  ["ret = get_stats_dict(_application)";
   "stats_mw = _get_stats_mw(_application)";
   "stats_mw.reset()";
   "ret['reset'] = True";
   "return ret"].
Proof. repeat split; reflexivity. Qed.
Print Assumptions C19_stats_shape.
