(* C16 - Signed cookies: only intact, unexpired, server-signed data is ever presented.
   Model: Model/Cookie.v (JSONCookie.unserialize -> SecureCookie.unserialize step
   by step over the parsed wire form; the middleware's load / provide / stamp /
   save).  HMAC, base64 and JSON are section variables; the premises are
   explicit: tag equality is decidable equality, decode (encode v) = v, and
   SYMBOLIC unforgeability (a tag determines key and items). *)
From Coq Require Import List String Bool Arith ZArith.
Import ListNotations.
From ClasticV Require Import Base.Py Base.Strs Model.Cookie Gen.CookieGuards Gen.MwShape Proofs.CookieProofs.
Local Open Scope string_scope.
Local Open Scope list_scope.

(* obligations on the exception handling regenerated from cookie.py: every exception of the
   delegated parsing yields an empty cookie - this is what makes [unserialize] total *)
Theorem C16_total_guards :
  UNSERIALIZE_TRY = ["return super(cls, JSONCookie).unserialize(string, secret_key)"] /\
  UNSERIALIZE_HANDLERS = ["except Exception => return cls(secret_key=secret_key)"] /\
  UNQUOTE_HANDLERS = ["except Exception => raise UnquoteError()"] /\
  MW_CONDITIONS = ["self.expiry != NEVER and self.expiry != SESSION"; "'_expires' in cookie"; "'_expires' not in cookie"] /\
  MW_STAMPS = ["save_cookie_kwargs['expires'] = cookie['_expires']"; "cookie['_expires'] = time.time() + self.expiry"].
Proof. repeat split; reflexivity. Qed.
Print Assumptions C16_total_guards.

Section Premises.
Variable V T secret : Type.
Variable mac : secret -> list (string * string) -> T.
Variable tag_eqb : T -> T -> bool.
Variable enc_val : V -> string.
Variable dec_val : string -> option V.
Variable as_time : V -> option Z.
Variable of_time : Z -> V.
Hypothesis tag_eqb_spec : forall a b, tag_eqb a b = true <-> a = b.
Hypothesis dec_enc : forall v, dec_val (enc_val v) = Some v.
Hypothesis time_roundtrip : forall n, as_time (of_time n) = Some n.
Hypothesis mac_injective : forall k its k' its', mac k its = mac k' its' -> k = k' /\ its = its'.

Theorem C16_roundtrip : forall sk now (d : dict V),
  unserialize V T secret mac tag_eqb dec_val as_time sk now (serialize V T secret mac enc_val sk d) =
  match dlookup V "_expires" d with
  | None => d
  | Some e => match as_time e with
              | Some n => if (n <? now)%Z then [] else dremove V "_expires" d
              | None => []
              end
  end.
Proof. exact (roundtrip V T secret mac tag_eqb enc_val dec_val as_time tag_eqb_spec dec_enc). Qed.

Theorem C16_only_signed : forall sk now r,
  unserialize V T secret mac tag_eqb dec_val as_time sk now r <> [] ->
  exists t its, r = RParsed T (Some t) (map Some its) false /\ t = mac sk its.
Proof. exact (only_signed V T secret mac tag_eqb dec_val as_time tag_eqb_spec). Qed.

Theorem C16_forged_is_empty : forall sk now sk' its' its,
  (sk', its') <> (sk, its) ->
  unserialize V T secret mac tag_eqb dec_val as_time sk now (RParsed T (Some (mac sk' its')) (map Some its) false) = [].
Proof. exact (forged_is_empty V T secret mac tag_eqb dec_val as_time tag_eqb_spec mac_injective). Qed.

Theorem C16_malformed_is_empty : forall sk now tag items,
  unserialize V T secret mac tag_eqb dec_val as_time sk now (RAbsent T) = [] /\
  unserialize V T secret mac tag_eqb dec_val as_time sk now (RNoSeparator T) = [] /\
  unserialize V T secret mac tag_eqb dec_val as_time sk now (RParsed T None items false) = [] /\
  unserialize V T secret mac tag_eqb dec_val as_time sk now (RParsed T tag items true) = [] /\
  (In None items -> unserialize V T secret mac tag_eqb dec_val as_time sk now (RParsed T tag items false) = []).
Proof. exact (malformed_is_empty V T secret mac tag_eqb dec_val as_time). Qed.

(* numeric expiry: the next request is presented exactly what the application
   stored (the stamp removed), and nothing at all once the stamp has passed *)
Theorem C16_stamped_then_presented : forall sk now secs incoming ops now' given stored,
  mw_request V T secret mac tag_eqb dec_val as_time of_time sk (ENumeric secs) now incoming ops = (given, Some stored) ->
  dlookup V "_expires" (fst (apply_ops V ops given)) = None ->
  unserialize V T secret mac tag_eqb dec_val as_time sk now' (serialize V T secret mac enc_val sk stored) =
  if (now + secs <? now')%Z then [] else dremove V "_expires" (fst (apply_ops V ops given)).
Proof. exact (stamped_then_presented V T secret mac tag_eqb enc_val dec_val as_time of_time tag_eqb_spec dec_enc time_roundtrip). Qed.

(* whole histories: any number of requests with any operations (sparing the reserved key), clock readings in
   any order, with any tampering steps in between (anything the server did not sign) - at every request the
   endpoint is given exactly what a plain dictionary with a forget-after time holds.  Expiry settings session,
   never and numeric are all covered by [ex]. *)
Theorem C16_history_refines_dict : forall sk ex h,
  wf_history V T secret mac sk h ->
  run_history V T secret mac tag_eqb enc_val dec_val as_time of_time sk ex (RAbsent T) h =
  spec_history V T ex ([], None) h.
Proof. exact (fresh_history_refines_dict V T secret mac tag_eqb enc_val dec_val as_time of_time tag_eqb_spec dec_enc time_roundtrip). Qed.

(* the premise is met by a history with operations, a truncation-style tampering step and more requests *)
Example C16_history_premise : forall sk (v : V),
  wf_history V T secret mac sk
    [HReq V T 10%Z [CSet V "a" v; CDel V "b"]; HTamper V T (RNoSeparator T); HReq V T 20%Z [CClear V]; HTamper V T (RParsed T None [None] true)].
Proof.
  intros sk v. simpl. repeat split; try (repeat constructor; unfold spares; simpl; discriminate).
  - intros [its H]. discriminate.
  - intros [its H]. discriminate.
Qed.
End Premises.
Print Assumptions C16_roundtrip.
Print Assumptions C16_only_signed.
Print Assumptions C16_forged_is_empty.
Print Assumptions C16_malformed_is_empty.
Print Assumptions C16_stamped_then_presented.
Print Assumptions C16_history_refines_dict.

(* obligation on the source: SignedCookieMiddleware.request and the JSONCookie methods that Model/Cookie.v transcribes, statement by statement, regenerated on every run *)
Theorem C16_cookie_shape :
  SK_SIGNEDCOOKIEMIDDLEWARE_REQUEST =
  ["cookie = self._cookie_type.load_cookie(request, key=self.cookie_name, secret_key=self.secret_key)";
   "response = next(**{self.arg_name: cookie})";
   "if self.expiry != NEVER and self.expiry != SESSION";
   "  if '_expires' not in cookie";
   "    cookie['_expires'] = time.time() + self.expiry";
   "save_cookie_kwargs = dict(key=self.cookie_name, domain=self.domain, path=self.path, secure=self.secure, httponly=self.http_only)";
   "if '_expires' in cookie";
   "  save_cookie_kwargs['expires'] = cookie['_expires']";
   "cookie.save_cookie(response, **save_cookie_kwargs)";
   "return response"] /\
  SK_JSONCOOKIE_QUOTE =
  ["ret = cls.serialization_method.dumps(value)";
   "ret = ret.encode('utf8')";
   "ret = b''.join(base64.b64encode(ret).splitlines()).strip()";
   "return ret"] /\
  SK_JSONCOOKIE_UNQUOTE =
  ["try";
   "  value = base64.b64decode(value)";
   "  value = cls.serialization_method.loads(value.decode('utf8'))";
   "except Exception as e";
   "  raise UnquoteError()";
   "return value"] /\
  SK_JSONCOOKIE_UNSERIALIZE =
  ["string = string.strip('""')";
   "try";
   "  return super(cls, JSONCookie).unserialize(string, secret_key)";
   "except Exception";
   "  return cls(secret_key=secret_key)"] /\
  SK_JSONCOOKIE_SET_EXPIRES =
  ["if epoch_time == NOW";
   "  epoch_time = 123456";
   "self['_expires'] = epoch_time"].
Proof. repeat split; reflexivity. Qed.
Print Assumptions C16_cookie_shape.
