(* C15 - Built-in middlewares never change what the client receives.
   Model: Model/Mw.v (each built-in middleware's request function as a
   transformer of the inner outcome).  zlib enters as a section variable with
   the premise decompress (compress x) = x.  Tie: Gen/MwGuards.v - the decision
   structure of the request functions as regenerated from the sources - and the
   with/without differential runs of mwlab. *)
From Coq Require Import List String Bool Arith ZArith.
Import ListNotations.
From ClasticV Require Import Base.Py Base.Strs Model.Mw Gen.MwGuards Gen.MwShape Proofs.MwProofs.
Local Open Scope string_scope.
Local Open Scope list_scope.

(* obligations on the decision structure regenerated from the sources *)
Theorem C15_gzip_structure :
  GZIP_EARLY_RETURNS =
  ["not hasattr(resp, 'vary') => return resp";
   "resp.content_encoding or not request.accept_encodings['gzip'] => return resp";
   "'msie' in (request.user_agent.browser or '') && not (content_type.startswith('text/') or 'javascript' in content_type) => return resp";
   "resp.is_streamed => return resp";
   "len(comp_content) >= len(resp.data) => return resp"] /\
  GZIP_EFFECTS =
  ["resp = next()"; "resp.vary.add('Accept-Encoding')"; "comp_content = gzip_bytes(resp.data, self.compress_level)";
   "resp.response = [comp_content]"; "resp.content_length = len(comp_content)"; "resp.content_encoding = 'gzip'"].
Proof. split; reflexivity. Qed.
Print Assumptions C15_gzip_structure.

Theorem C15_other_structure :
  CACHE_GUARDS = ["hasattr(resp, 'cache_control')"] /\
  STATS_SHAPE = [("except re-raises", true); ("next() inside try", true); ("hit recorded in finally", true); ("returns resp", true)] /\
  PROFILE_FIRST = "not request.args.get(self.get_param_name) => return next()".
Proof. repeat split; reflexivity. Qed.
Print Assumptions C15_other_structure.

(* for every inner outcome - Response, streamed, already encoded, HTTPException
   (no mixins), raised exception - and every request: same status, same decoded body *)
Theorem C15_transparent_gzip : forall compress decompress, (forall x, decompress (compress x) = x) ->
  forall q, transparent decompress (gzip_mw compress q).
Proof. exact gzip_transparent. Qed.
Print Assumptions C15_transparent_gzip.

Theorem C15_transparent_cache : forall decompress, transparent decompress (cache_mw false).
Proof. exact cache_transparent. Qed.
Print Assumptions C15_transparent_cache.

Theorem C15_transparent_stats : forall decompress, transparent decompress (fun i => fst (stats_mw i)).
Proof. exact stats_transparent. Qed.
Print Assumptions C15_transparent_stats.

Theorem C15_transparent_others : forall decompress t s,
  transparent decompress (profile_mw t) /\ transparent decompress (cookie_mw s) /\ transparent decompress passthrough_mw.
Proof. intros. split; [apply profile_transparent|split; [apply cookie_transparent|apply passthrough_transparent]]. Qed.
Print Assumptions C15_transparent_others.

Theorem C15_stack_transparent : forall decompress fs,
  Forall (transparent decompress) fs -> transparent decompress (fun i => fold_right (fun f x => f x) i fs).
Proof. exact stack_transparent. Qed.
Print Assumptions C15_stack_transparent.

(* gzip: Vary names Accept-Encoding; when the body was encoded, Content-Length is
   the length of the bytes sent and the client accepted gzip; a client that does
   not accept gzip receives the body unchanged *)
Theorem C15_gzip_headers : forall compress q r r',
  gzip_mw compress q (IResp r) = IResp r' -> r_kind r = KFull ->
  In "Accept-Encoding" (r_vary r') /\
  (r_cenc r = None -> r_cenc r' = Some "gzip" ->
     r_clen r' = Some (String.length (r_body r')) /\ r_body r' = compress (r_body r) /\ q_accepts_gzip q = true) /\
  (q_accepts_gzip q = false -> r_body r' = r_body r /\ r_cenc r' = r_cenc r).
Proof. exact gzip_headers. Qed.
Print Assumptions C15_gzip_headers.

Theorem C15_errors_untouched : forall compress q r e, r_kind r = KBase ->
  gzip_mw compress q (IResp r) = IResp r /\ cache_mw false (IResp r) = IResp r /\ fst (stats_mw (IResp r)) = IResp r /\
  gzip_mw compress q (IRaise e) = IRaise e /\ fst (stats_mw (IRaise e)) = IRaise e.
Proof.
  intros compress q r e H. destruct (base_untouched compress q r H) as [A [B C]].
  destruct (raise_untouched compress q e) as [D [_ [F _]]]. auto.
Qed.
Print Assumptions C15_errors_untouched.

(* obligation on the source: the request / render functions of the built-in middlewares that Model/Mw.v transcribes as transformers of the inner outcome or as pass-through, statement by statement, regenerated on every run *)
Theorem C15_request_shape :
  SK_GZIPMIDDLEWARE_REQUEST =
  ["resp = next()";
   "if not hasattr(resp, 'vary')";
   "  return resp";
   "resp.vary.add('Accept-Encoding')";
   "if resp.content_encoding or not request.accept_encodings['gzip']";
   "  return resp";
   "if 'msie' in (request.user_agent.browser or '')";
   "  content_type = resp.content_type or ''";
   "  if not (content_type.startswith('text/') or 'javascript' in content_type)";
   "    return resp";
   "if resp.is_streamed";
   "  return resp";
   "comp_content = gzip_bytes(resp.data, self.compress_level)";
   "if len(comp_content) >= len(resp.data)";
   "  return resp";
   "resp.response = [comp_content]";
   "resp.content_length = len(comp_content)";
   "resp.content_encoding = 'gzip'";
   "return resp"] /\
  SK_HTTPCACHEMIDDLEWARE_REQUEST =
  ["resp = next()";
   "if hasattr(resp, 'cache_control')";
   "  for attr in self.cache_attrs";
   "    cache_val = getattr(self, attr, None)";
   "    if cache_val";
   "      setattr(resp.cache_control, attr, cache_val)";
   "  if self.use_etags and (not resp.is_streamed)";
   "    resp.add_etag()";
   "    resp.make_conditional(request)";
   "return resp"] /\
  SK_SIMPLEPROFILEMIDDLEWARE_REQUEST =
  ["if not request.args.get(self.get_param_name)";
   "  return next()";
   "sort_param = request.args.get(self.sort_param_name, 'time')";
   "if sort_param not in _sort_keys";
   "  raise KeyError('%s is not a supported sort_key. choose from: %r' % (sort_param, _sort_keys))";
   "profiler = cProfile.Profile()";
   "try";
   "  ret = profiler.runcall(next)";
   "except Exception";
   "  if self.raise_exc";
   "    raise";
   "buff = StringIO()";
   "Stats(profiler, stream=buff).sort_stats(sort_param).print_stats()";
   "body = _prof_tmpl % buff.getvalue()";
   "ret.set_data(body)";
   "return ret"] /\
  SK_SCRIPTROOTMIDDLEWARE_REQUEST =
  ["return next(**{self.provided_name: request.script_root})"] /\
  SK_GETPARAMMIDDLEWARE_REQUEST =
  ["kwargs = {}";
   "for (p_name, p_type) in self.params.items()";
   "  kwargs[p_name] = request.args.get(p_name, None, p_type)";
   "return next(**kwargs)"] /\
  SK_POSTDATAMIDDLEWARE_REQUEST =
  ["kwargs = {}";
   "for (p_name, p_type) in self.params.items()";
   "  kwargs[p_name] = request.form.get(p_name, None, p_type)";
   "return next(**kwargs)"] /\
  SK_CONTEXTPROCESSOR_CREATE_RENDER =
  ["def process_render_context(next, context, **kwargs)";
   "  if not isinstance(context, Mapping)";
   "    return next()";
   "  desired_args = self.required + list(self.defaults.keys())";
   "  for arg in desired_args";
   "    if not self.overwrite and arg in context";
   "      continue";
   "    context[arg] = kwargs.get(arg, self.defaults.get(arg))";
   "  return next()";
   "def_items = self.defaults.items()";
   "_req_args = ['next', 'context'] + self.required + [arg for arg, val in def_items]";
   "_def_vals = [val for arg, val in def_items]";
   "fb = FunctionBuilder('process_render_context', args=_req_args, defaults=_def_vals)";
   "process_render_context._sinter_fb = fb";
   "return process_render_context"].
Proof. repeat split; reflexivity. Qed.
Print Assumptions C15_request_shape.
