(* C12 - Concurrent requests on one Application do not interfere (PARTIAL).
   Model: Model/Conc.v - threads of atomic steps over (shared counter, own
   state); the application is frozen.  What licenses this step shape for the
   code is the write footprint REGENERATED from the request path of the source
   (Gen/Footprint.v): every assignment, augmented assignment, del, mutating
   method call and global declaration, classified by the root of its target.
   Cannot be exhibited by the model: thread switches inside C code and
   third-party Python, the atomicity of itertools.count.__next__ (assumed: GIL),
   aliasing (a per-request object that IS a shared one), user middlewares. *)
From Coq Require Import List String Arith.
Import ListNotations.
From ClasticV Require Import Model.Conc Gen.Footprint Proofs.ConcProofs.
Local Open Scope string_scope.

(* no function on the request path writes through a shared root; the request counter is the one shared cell,
   fetched exactly once per request, and it is an itertools.count *)
Theorem C12_footprint_local :
  forallb (fun w => match snd w with WShared => false | _ => true end) WRITES = true /\
  List.length (filter (fun w => match snd w with WCounter => true | _ => false end) WRITES) = 1 /\
  REQ_ID_SOURCE = "itertools.count()" /\
  REQ_INNER_TMPL_LINES = ["def process_request({all_args}):"; "{hide_tb}"; "context = {endpoint}({endpoint_args})";
                          "if isinstance(context, {base_response}):"; "resp = context"; "else:"; "resp = {render}({render_args})"; "return resp"].
Proof. repeat split; vm_compute; reflexivity. Qed.
Print Assumptions C12_footprint_local.

(* for every number of threads and EVERY schedule, what a thread has computed equals running that many of
   its own steps alone: it never depends on the interleaving or on the other threads *)
Theorem C12_interleaving_irrelevant :
  forall (frozen local : Type) (app : frozen) sched (st : gstate frozen local) j t0,
  nth_error (snd st) j = Some t0 ->
  exists t, nth_error (snd (run frozen local app sched st)) j = Some t /\
            lproj frozen local t = Nat.iter (count_occ Nat.eq_dec sched j) (ladv frozen local app) (lproj frozen local t0).
Proof. exact interleaving_irrelevant. Qed.
Print Assumptions C12_interleaving_irrelevant.

(* the request identifiers handed out are pairwise distinct under every schedule *)
Theorem C12_ids_unique :
  forall (frozen local : Type) (app : frozen) sched c (ts : list (tstate frozen local)),
  (forall t, In t ts -> t_ids frozen local t = []) ->
  NoDup (all_ids frozen local (snd (run frozen local app sched (c, ts)))).
Proof. exact ids_unique_from_start. Qed.
Print Assumptions C12_ids_unique.

Example C12_example :
  let inc := SLocal unit nat (fun _ n => S n) in
  let ts := [mk_t unit nat [SFetch unit nat; inc; inc] 10 []; mk_t unit nat [inc; SFetch unit nat] 20 []] in
  map (fun t => (t_loc unit nat t, t_ids unit nat t)) (snd (run unit nat tt [0; 1; 1; 0; 0] (7, ts))) = [(12, [7]); (21, [8])] /\
  map (fun t => (t_loc unit nat t, t_ids unit nat t)) (snd (run unit nat tt [1; 1; 0; 0; 0] (7, ts))) = [(12, [8]); (21, [7])].
Proof. vm_compute. split; reflexivity. Qed.
