(* C11 - Binding is non-destructive, applications are isolated, add() is atomic.
   Model: Model/World.v (worlds of applications; construct / add / embed). *)
From Coq Require Import List String Bool ZArith.
Import ListNotations.
From ClasticV Require Import Base.Py Base.PyList Model.Dispatch Model.World Proofs.WorldProofs.
Local Open Scope list_scope.

(* the insert loop of add() (index resolved once; insert, index += 1) is ONE
   contiguous splice, for every index: None, in range, out of range, negative *)
Theorem C11_add_splice : forall (X : Type) (rs : list X) index news, add_routes rs index news = splice rs index news.
Proof. exact @add_splice. Qed.
Print Assumptions C11_add_splice.

(* the new routes are contiguous and in order; all other routes keep their relative order *)
Theorem C11_splice_shape : forall (X : Type) (rs : list X) index news,
  exists a b, rs = a ++ b /\ splice rs index news = a ++ news ++ b.
Proof. exact @splice_shape. Qed.
Print Assumptions C11_splice_shape.

(* a failing constructor / add / embed - whichever route of whichever embedded
   application fails - leaves the whole world exactly as it was *)
Theorem C11_failed_op_identity : forall w op w' c, wstep w op = (w', WFail c) -> w' = w.
Proof. exact failed_op_identity. Qed.
Print Assumptions C11_failed_op_identity.

(* an operation changes at most its target application *)
Theorem C11_frame : forall w op w' o id, wstep w op = (w', o) -> id <> op_target op -> wget w' id = wget w id.
Proof. exact frame. Qed.
Print Assumptions C11_frame.

Theorem C11_embed_source_untouched : forall w t p s rb inh idx w' o,
  wstep w (OEmbed t p s rb inh idx) = (w', o) -> s <> t -> wget w' s = wget w s.
Proof. exact embed_source_untouched. Qed.
Print Assumptions C11_embed_source_untouched.

(* a successful add is exactly the splice specification applied to the target's table *)
Theorem C11_add_refines_table : forall w t e idx env rs bs,
  wget w t = Some (env, rs) -> bind_entry env e = Ok bs ->
  wstep w (OAdd t e idx) = (wset w t (env, splice rs idx bs), WOk).
Proof. exact add_is_splice. Qed.
Print Assumptions C11_add_refines_table.

Example C11_example :
  add_routes [1; 2; 3] (Some (-1)%Z) [8; 9] = [1; 2; 8; 9; 3] /\
  add_routes [1; 2; 3] (Some 7%Z) [8; 9] = [1; 2; 3; 8; 9] /\
  add_routes [1; 2; 3] (Some (-9)%Z) [8; 9] = [8; 9; 1; 2; 3] /\
  add_routes [1; 2; 3] None [8; 9] = [1; 2; 3; 8; 9] /\
  add_routes [1; 2; 3] (Some 1%Z) [8; 9] = [1; 8; 9; 2; 3].
Proof. vm_compute. repeat split; reflexivity. Qed.
