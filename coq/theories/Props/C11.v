(* C11 - Binding is non-destructive, applications are isolated, add() is atomic.
   Model: Model/World.v (worlds of applications; construct / add / embed). *)
From Coq Require Import List String Bool ZArith.
Import ListNotations.
From ClasticV Require Import Gen.WorldShape Base.Py Base.PyList Model.Dispatch Model.World Proofs.WorldProofs.
Local Open Scope list_scope.

(* the insert loop of add() (index resolved once; insert, index += 1) is ONE
   contiguous splice, for every index: None, in range, out of range, negative *)
Theorem C11_add_splice : forall (X : Type) (rs : list X) index news, add_routes rs index news = splice rs index news.
Proof. exact @add_splice. Qed.
Print Assumptions C11_add_splice.

(* the new routes are contiguous and in order; all other routes keep their relative order *)
Theorem C11_splice_shape : forall (X : Type) (rs : list X) index news,
  exists a b, rs = a ++ b /\ splice rs index news = a ++ news ++ b.
Proof. exact @splice_shape. Qed.
Print Assumptions C11_splice_shape.

(* a failing constructor / add / embed - whichever route of whichever embedded
   application fails - leaves the whole world exactly as it was *)
Theorem C11_failed_op_identity : forall w op w' c, wstep w op = (w', WFail c) -> w' = w.
Proof. exact failed_op_identity. Qed.
Print Assumptions C11_failed_op_identity.

(* an operation changes at most its target application *)
Theorem C11_frame : forall w op w' o id, wstep w op = (w', o) -> id <> op_target op -> wget w' id = wget w id.
Proof. exact frame. Qed.
Print Assumptions C11_frame.

Theorem C11_embed_source_untouched : forall w t p s rb inh idx w' o,
  wstep w (OEmbed t p s rb inh idx) = (w', o) -> s <> t -> wget w' s = wget w s.
Proof. exact embed_source_untouched. Qed.
Print Assumptions C11_embed_source_untouched.

(* a successful add is exactly the splice specification applied to the target's table *)
Theorem C11_add_refines_table : forall w t e idx env rs bs,
  wget w t = Some (env, rs) -> bind_entry env e = Ok bs ->
  wstep w (OAdd t e idx) = (wset w t (env, splice rs idx bs), WOk).
Proof. exact add_is_splice. Qed.
Print Assumptions C11_add_refines_table.

(* embedding a live application inserts EVERY one of its routes, in its order, as one contiguous block at the index *)
Theorem C11_embed_refines_table : forall w t p s rb inh idx env rs senv srcs w',
  wget w t = Some (env, rs) -> wget w s = Some (senv, srcs) ->
  wstep w (OEmbed t p s rb inh idx) = (w', WOk) ->
  exists bs, w' = wset w t (env, splice rs idx bs) /\
             map (fun x => b_key (fst x)) bs = map (fun x => b_key (fst x)) srcs /\
             List.length bs = List.length srcs.
Proof. exact embed_is_splice_of_all. Qed.
Print Assumptions C11_embed_refines_table.

Example C11_example :
  add_routes [1; 2; 3] (Some (-1)%Z) [8; 9] = [1; 2; 8; 9; 3] /\
  add_routes [1; 2; 3] (Some 7%Z) [8; 9] = [1; 2; 3; 8; 9] /\
  add_routes [1; 2; 3] (Some (-9)%Z) [8; 9] = [8; 9; 1; 2; 3] /\
  add_routes [1; 2; 3] None [8; 9] = [1; 2; 3; 8; 9] /\
  add_routes [1; 2; 3] (Some 1%Z) [8; 9] = [1; 8; 9; 2; 3].
Proof. vm_compute. repeat split; reflexivity. Qed.

Local Open Scope string_scope.
Local Open Scope list_scope.
(* obligation on the source: the control-flow skeletons of Application.__init__ / add / iter_routes, cast_to_route_factory and Route, regenerated from the source on every run.  The model is a
   hand transcription of exactly these statements: any edit re-opens the correspondence question (the check then searches
   for a failing input and reports what it finds) *)
Theorem C11_construction_shape :
  SK_APPLICATION_INIT =
  ["self.debug = kwargs.pop('debug', None)";
   "self.slash_mode = kwargs.pop('slash_mode', S_REDIRECT)";
   "if kwargs";
   "  raise TypeError('unexpected keyword args: %r' % kwargs.keys())";
   "self.resources = dict(resources or {})";
   "resource_conflicts = [r for r in RESERVED_ARGS if r in self.resources]";
   "if resource_conflicts";
   "  raise NameError('resource names conflict with builtins: %r' % resource_conflicts)";
   "self.middlewares = list(middlewares or [])";
   "check_middlewares(self.middlewares)";
   "self.render_factory = render_factory";
   "self.set_error_handler(error_handler)";
   "routes = routes or []";
   "self.routes = []";
   "self._null_route = NullRoute().bind(self)";
   "for entry in routes";
   "  self.add(entry)";
   "all_mws = _get_all_middlewares([self._null_route] + self.routes)";
   "for mw in reversed(all_mws)";
   "  self._dispatch_wsgi = _safe_wrap_wsgi('middleware', mw, self._dispatch_wsgi)";
   "return"] /\
  SK_APPLICATION_ADD =
  ["if index is None";
   "  index = len(self.routes)";
   "else";
   "  if index < 0";
   "    index = max(len(self.routes) + index, 0)";
   "rf = cast_to_route_factory(entry)";
   "kwargs.setdefault('rebind_render', getattr(rf, 'rebind_render', True))";
   "kwargs.setdefault('inherit_slashes', getattr(rf, 'inherit_slashes', True))";
   "if callable(getattr(rf, 'bind_all', None))";
   "  bound_routes = rf.bind_all(self, **kwargs)";
   "else";
   "  bound_routes = [rf.bind(self, **kwargs)]";
   "for br in bound_routes";
   "  self.routes.insert(index, br)";
   "  index += 1";
   "return"] /\
  SK_APPLICATION_ITER_ROUTES =
  ["for rt in self.routes";
   "  yield rt"] /\
  SK_CAST_TO_ROUTE_FACTORY =
  ["if isinstance(in_arg, (Route, SubApplication))";
   "  return in_arg";
   "else";
   "  if isinstance(in_arg, Sequence)";
   "    try";
   "      if isinstance(in_arg[1], Application)";
   "        return SubApplication(*in_arg)";
   "      if callable(in_arg[1])";
   "        return Route(*in_arg)";
   "    except TypeError";
   "      pass";
   "raise TypeError('Could not create route from %r' % (in_arg,))"] /\
  SK_ROUTE_INIT =
  ["self.middlewares = list(kwargs.pop('middlewares', []))";
   "self.resources = dict(kwargs.pop('resources', []))";
   "self.slash_mode = kwargs.pop('slash_mode', S_REDIRECT)";
   "methods = kwargs.pop('methods', None)";
   "if kwargs";
   "  raise TypeError('unexpected keyword args: %r' % kwargs.keys())";
   "self.methods = methods and set([m.upper() for m in methods])";
   "if self.methods";
   "  unknown_methods = list(self.methods - HTTP_METHODS)";
   "  if unknown_methods";
   "    raise InvalidMethod('unrecognized HTTP method(s): %r' % unknown_methods)";
   "  if 'GET' in self.methods";
   "    self.methods.add('HEAD')";
   "_compile_path_pattern(pattern, self.slash_mode)";
   "self.pattern = pattern";
   "if not callable(endpoint)";
   "  raise TypeError('expected endpoint to be a function or method, not: %r' % endpoint)";
   "self.endpoint = endpoint";
   "self.render_error = render_error";
   "if callable(render_error)";
   "  check_render_error(render_error, self.resources)";
   "self.render = render"] /\
  SK_ROUTE_BIND =
  ["return BoundRoute(self, app, **kwargs)"] /\
  SK_ROUTE_ITER_ROUTES =
  ["yield self"].
Proof. repeat split; reflexivity. Qed.
Print Assumptions C11_construction_shape.
