(* C18 - The meta application never reveals secrets and always renders.
   Model: Model/Meta.v (get_resource_info; repr is a section variable).
   REGENERATED from meta.py / cookie.py on every run (Gen/MetaGen.v): the
   substring and what it is tested against, the redaction marker, the truncation
   constants, the loop of get_resource_info, every function of meta.py that
   reads .resources or .secret_key, the attributes printed by
   SignedCookieMiddleware.__repr__, the per-peripheral exception handling, and
   the template references that bypass escaping. *)
From Coq Require Import List String Ascii Bool Arith.
Import ListNotations.
From ClasticV Require Import Gen.MiscShape.
From ClasticV Require Import Base.Py Base.Strs Model.Render Model.Meta Gen.MetaGen Proofs.MetaProofs.
Local Open Scope list_scope.
Local Open Scope string_scope.

Theorem C18_source_inventory :
  SECRET_NEEDLE = "secret" /\ SECRET_SUBJECT = "key" /\ REDACTED = "[REDACTED]" /\ TRUNC_LEN = 70 /\ TRUNC_TRAILER = "..." /\
  RESOURCE_INFO_LOOP = ["ret = []";
     "for key, val in _application.resources.items(): ;     if 'secret' in key: ;         trunc_val = '[REDACTED]' ;     else: ;         trunc_val = _trunc(repr(val)) ;     ret.append({'key': key, 'value': trunc_val})";
     "return ret"] /\
  (* values flow only through get_resource_info; get_context reads a start time of the meta application itself,
     get_route_arg_info only tests membership of names; secret_key is read nowhere *)
  RESOURCE_READERS = ["get_context reads .resources"; "get_resource_info reads .resources"; "get_route_arg_info reads .resources"] /\
  COOKIE_REPR_ATTRS = ["__class__"; "arg_name"; "cookie_name"] /\
  META_UNESCAPED_REFS = ["meta_base.html:content"].
Proof. repeat split; reflexivity. Qed.
Print Assumptions C18_source_inventory.

(* a failing peripheral becomes an inline exc_content, in both passes *)
Theorem C18_sections_guarded :
  forallb (fun s => Model.Render.contains_str "except Exception" s) META_TRIES = true /\ List.length META_TRIES = 3.
Proof. split; vm_compute; reflexivity. Qed.
Print Assumptions C18_sections_guarded.

Theorem C18_noninterference : forall (V : Type) (repr : V -> string) needle marker trailer maxlen (r1 r2 : list (string * V)),
  map fst r1 = map fst r2 ->
  (forall i k v1 v2, nth_error r1 i = Some (k, v1) -> nth_error r2 i = Some (k, v2) -> is_secret needle k = false -> v1 = v2) ->
  resource_info V repr needle marker trailer maxlen r1 = resource_info V repr needle marker trailer maxlen r2.
Proof. exact noninterference. Qed.
Print Assumptions C18_noninterference.

Theorem C18_marker_and_visible : forall (V : Type) (repr : V -> string) needle marker trailer maxlen res k v,
  In (k, v) res ->
  In (k, if is_secret needle k then marker else trunc trailer maxlen (repr v)) (resource_info V repr needle marker trailer maxlen res).
Proof. exact marker_and_visible. Qed.
Print Assumptions C18_marker_and_visible.

Example C18_example :
  resource_info string (fun x => x) SECRET_NEEDLE REDACTED TRUNC_TRAILER TRUNC_LEN
    [("db", "'postgres://x'"); ("api_secret_key", "'hunter2'"); ("Secret", "'case matters (O11)'")] =
  [("db", "'postgres://x'"); ("api_secret_key", "[REDACTED]"); ("Secret", "'case matters (O11)'")].
Proof. vm_compute. reflexivity. Qed.

(* obligation on the source: the functions of meta.py behind the resource / middleware / route sections and the main page, statement by statement *)
Theorem C18_meta_shape :
  SK_META_TRUNC =
  ["if len(str_val) > length";
   "  if trailer";
   "    str_val = str_val[:length - len(trailer)] + trailer";
   "  else";
   "    str_val = str_val[:length]";
   "return str_val"] /\
  SK_META_GET_RESOURCE_INFO =
  ["ret = []";
   "for (key, val) in _application.resources.items()";
   "  if 'secret' in key";
   "    trunc_val = '[REDACTED]'";
   "  else";
   "    trunc_val = _trunc(repr(val))";
   "  ret.append({'key': key, 'value': trunc_val})";
   "return ret"] /\
  SK_META_GET_MW_INFOS =
  ["ret = []";
   "for mw in _application.middlewares";
   "  cur = {}";
   "  cur['type_name'] = mw.__class__.__name__";
   "  cur['provides'] = mw.provides";
   "  cur['requires'] = mw.requires";
   "  cur['repr'] = repr(mw)";
   "  ret.append(cur)";
   "return ret"] /\
  SK_META_GET_ROUTE_INFOS =
  ["app = _application";
   "ret = []";
   "for r in app.routes";
   "  if isinstance(r, NullRoute)";
   "    continue";
   "  r_info = {}";
   "  r_info['url_pattern'] = r.pattern";
   "  r_info['url_regex_pattern'] = r.regex.pattern";
   "  r_info['endpoint'] = get_endpoint_info(r)";
   "  r_info['render'] = get_render_info(r)";
   "  r_info['args'] = get_route_arg_info(r)";
   "  ret.append(r_info)";
   "return ret"] /\
  SK_RESOURCEPERIPHERAL_GET_CONTEXT =
  ["return {'resources': get_resource_info(_application)}"] /\
  SK_METAAPPLICATION_GET_MAIN =
  ["full_ctx = {'page_title': self.page_title}";
   "kwargs = {'request': request, '_route': _route, '_application': _application, '_meta_application': self, 'script_root': script_root}";
   "for peri in self.peripherals";
   "  try";
   "    peri_ctx = inject(peri.get_context, kwargs)";
   "  except Exception as e";
   "    peri_ctx = {'exc_content': repr(e)}";
   "  full_ctx.setdefault(peri.group_key, {}).update(peri_ctx)";
   "return full_ctx"] /\
  SK_METAAPPLICATION_RENDER_MAIN_PAGE_HTML =
  ["context['sections'] = []";
   "general_items = context['general'] = []";
   "for peri in self.peripherals";
   "  cur = {'title': peri.title, 'group_key': peri.group_key}";
   "  try";
   "    cur_context = context[peri.group_key]";
   "    kwargs = {'context': cur_context}";
   "    cur['content'] = inject(peri.render_main_page_html, kwargs)";
   "    prev_exc = cur_context.get('exc_content')";
   "    if prev_exc";
   "      cur['exc_content'] = prev_exc";
   "  except Exception as e";
   "    cur['exc_content'] = repr(e)";
   "  try";
   "    cur_general_items = inject(peri.get_general_items, kwargs)";
   "    cur_general_items = _process_items(cur_general_items)";
   "  except Exception as e";
   "    cur_general_items = []";
   "  context['sections'].append(cur)";
   "  general_items.extend(cur_general_items)";
   "return self._main_page_render(context)"].
Proof. repeat split; reflexivity. Qed.
Print Assumptions C18_meta_shape.
