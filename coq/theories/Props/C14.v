(* C14 - Static serving never leaves its roots and serves files faithfully.
   Model: Model/Static.v (os.path.normpath, find_file's guards and search,
   build_file_response / get_file_response with every filesystem call answered
   by an oracle that may fail).  Tie: Gen/StaticGuards.v - which calls are
   inside a try block that yields a non-breaking Forbidden, the 304 comparison,
   the order of find_file's steps - regenerated from static.py; staticlab. *)
From Coq Require Import List String Ascii Bool Arith.
Import ListNotations.
From ClasticV Require Import Gen.MiscShape.
From ClasticV Require Import Base.Py Base.Strs Model.Static Gen.StaticGuards Proofs.StaticProofs.
Local Open Scope string_scope.
Local Open Scope list_scope.

(* obligations on what the translator found in static.py *)
Theorem C14_guard_table :
  GUARDS = mk_guards true true true true true true /\ COND_OP = "LtE" /\
  FIND_FILE_STEPS = ["normpath"; "rel_path.startswith:/"; "rel_path.startswith:pardir"; "join"] /\
  ALL_ERRORS_NONBREAKING = true.
Proof. repeat split; reflexivity. Qed.
Print Assumptions C14_guard_table.

(* normpath of any string: a run of ".." (none if absolute) followed by ordinary components only *)
Theorem C14_normpath_shape : forall p,
  exists d o, norm_comps p = d ++ o /\ forallb is_dd d = true /\ forallb is_ord o = true /\
              (initial_slashes p <> 0 -> d = []).
Proof. exact norm_comps_shape. Qed.
Print Assumptions C14_normpath_shape.

(* for EVERY request path: a disclosed file is root/rel with rel made of
   ordinary components only - no "..", no ".", no empty component, not
   absolute - hence, in a filesystem without symbolic links, inside that root *)
Theorem C14_confined : forall isfile roots path full,
  find_file isfile roots path = Ok (Some full) ->
  exists sr, In sr roots /\ full = pjoin sr (normpath path) /\ isfile full = true /\
  (normpath path = "." \/
   (normpath path = join "/" (norm_comps path) /\ norm_comps path <> [] /\ forallb is_ord (norm_comps path) = true)).
Proof. exact confined. Qed.
Print Assumptions C14_confined.

Theorem C14_escaping_refused : forall isfile roots path,
  starts_with_chr "/" (normpath path) = true \/ prefix_str ".." (normpath path) = true ->
  find_file isfile roots path = Raise "ValueError".
Proof. exact escaping_refused. Qed.
Print Assumptions C14_escaping_refused.

(* every regular file at root_i/rel (ordinary components, first one not
   beginning with "..") is found for the request path rel, first root winning *)
Theorem C14_complete : forall isfile roots cs,
  cs <> [] -> forallb clean_comp cs = true -> prefix_str ".." (hd "" cs) = false ->
  find_file isfile roots (join "/" cs) = Ok (first_file isfile (map (fun sr => pjoin sr (join "/" cs)) roots)).
Proof. exact complete. Qed.
Print Assumptions C14_complete.

(* whatever the filesystem answers - any call may fail - the outcome is 200, 304
   or a non-breaking 403/404: no exception leaves the static application *)
Theorem C14_faults_total : forall isfile roots path cond a,
  match get_file_response GUARDS isfile roots path cond a with SEscape _ => False | _ => True end.
Proof. exact faults_total. Qed.
Print Assumptions C14_faults_total.

Theorem C14_faithful : forall g isfile roots path cond a full,
  get_file_response g isfile roots path cond a = S200 full -> find_file isfile roots path = Ok (Some full).
Proof. exact serve_faithful. Qed.
Print Assumptions C14_faithful.

Theorem C14_conditional : forall g isfile roots path a full,
  find_file isfile roots path = Ok (Some full) -> f_mtime1 a = Some true ->
  get_file_response g isfile roots path true a = S304.
Proof. exact conditional_304. Qed.
Print Assumptions C14_conditional.

Example C14_example :
  normpath "a/./b//../c" = "a/c" /\ normpath "/x/../../etc/passwd" = "/etc/passwd" /\ normpath "../../etc" = "../../etc" /\
  normpath "a/../.." = ".." /\ normpath "//etc" = "//etc" /\ normpath "///etc" = "/etc" /\ normpath "" = "." /\
  find_file (fun f => String.eqb f "/srv/www/a/c") ["/srv/alt"; "/srv/www"] "a/./b//../c" = Ok (Some "/srv/www/a/c") /\
  find_file (fun _ => true) ["/srv/www"] "x/../../secret" = Raise "ValueError" /\
  find_file (fun _ => true) ["/srv/www"] "/etc/passwd" = Raise "ValueError" /\
  find_file (fun _ => true) ["/srv/www"] "..data/x" = Raise "ValueError".
Proof. vm_compute. repeat split; reflexivity. Qed.

(* obligation on the source: the functions of static.py that Model/Static.v and the regenerated guard table describe, statement by statement *)
Theorem C14_static_shape :
  SK_STATIC_IS_BINARY_STRING =
  ["if len(byte_string) > sample_size";
   "  byte_string = byte_string[:sample_size]";
   "bin_chars = byte_string.translate(None, _PRINTABLE)";
   "return bool(bin_chars)"] /\
  SK_STATIC_PEEK_FILE =
  ["if not callable(getattr(file_obj, 'seek', None))";
   "  raise TypeError('expected seekable file object, not %r' % (file_obj,))";
   "cur_pos = file_obj.tell()";
   "peek_data = file_obj.read(size)";
   "file_obj.seek(cur_pos)";
   "return peek_data"] /\
  SK_STATIC_FIND_FILE =
  ["rel_path = os.path.normpath(path)";
   "if limit_root";
   "  if rel_path.startswith('/')";
   "    raise ValueError('expected relative path, not %r' % path)";
   "  if IS_WINDOWS and ':' in path";
   "    raise ValueError('unexpected colon in path: %r' % path)";
   "  if rel_path.startswith(os.pardir)";
   "    raise ValueError('attempted to access beyond root directory')";
   "for sr in search_paths";
   "  full_path = pjoin(sr, rel_path)";
   "  if isfile(full_path)";
   "    return full_path";
   "else";
   "  return None"] /\
  SK_STATIC_GET_FILE_MTIME =
  ["unix_mtime = round(os.path.getmtime(path), rounding)";
   "return datetime.utcfromtimestamp(unix_mtime)"] /\
  SK_STATIC_BUILD_FILE_RESPONSE =
  ["resp = response_type('')";
   "if cache_timeout and cached_modify_time";
   "  try";
   "    mtime = get_file_mtime(path)";
   "  except (ValueError, IOError, OSError)";
   "    raise Forbidden(is_breaking=False)";
   "  resp.cache_control.public = True";
   "  if mtime <= cached_modify_time";
   "    resp.status_code = 304";
   "    resp.cache_control.max_age = cache_timeout";
   "    return resp";
   "if not isfile(path)";
   "  raise NotFound(is_breaking=False)";
   "try";
   "  file_obj = open(path, 'rb')";
   "  mtime = get_file_mtime(path)";
   "  fsize = os.path.getsize(path)";
   "except (ValueError, IOError, OSError)";
   "  raise Forbidden(is_breaking=False)";
   "if not mimetype";
   "  mimetype, encoding = mimetypes.guess_type(path)";
   "if not mimetype";
   "  try";
   "    peeked = peek_file(file_obj, 1024)";
   "  except (ValueError, IOError, OSError)";
   "    file_obj.close()";
   "    raise Forbidden(is_breaking=False)";
   "  is_binary = is_binary_string(peeked)";
   "  if peeked and is_binary";
   "    mimetype = default_binary_mime";
   "  else";
   "    mimetype = default_text_mime";
   "resp.response = file_wrapper(file_obj)";
   "resp.content_type = mimetype";
   "resp.content_length = fsize";
   "resp.last_modified = mtime";
   "resp.cache_control.max_age = cache_timeout";
   "return resp"] /\
  SK_STATICAPPLICATION_INIT =
  ["if isinstance(search_paths, (str, bytes))";
   "  search_paths = [search_paths]";
   "self.search_paths = search_paths";
   "self.cache_timeout = cache_timeout";
   "self.default_text_mime = default_text_mime";
   "self.default_binary_mime = default_binary_mime";
   "routes = [('/<path*>', self.get_file_response)]";
   "super(StaticApplication, self).__init__(routes)"] /\
  SK_STATICAPPLICATION_GET_FILE_RESPONSE =
  ["try";
   "  if not isinstance(path, (str, bytes))";
   "    path = '/'.join(path)";
   "  full_path = find_file(self.search_paths, path)";
   "  if full_path is None";
   "    raise NotFound(is_breaking=False)";
   "except (ValueError, IOError, OSError)";
   "  raise Forbidden(is_breaking=False)";
   "bfr = build_file_response";
   "resp = bfr(full_path, cache_timeout=self.cache_timeout, cached_modify_time=request.if_modified_since, mimetype=None, default_text_mime=self.default_text_mime, default_binary_mime=self.default_binary_mime, file_wrapper=request.environ.get('wsgi.file_wrapper', FileWrapper))";
   "return resp"].
Proof. repeat split; reflexivity. Qed.
Print Assumptions C14_static_shape.
