(* C17 - The basic and JSON renderers accept every endpoint result.
   Model: Model/Render.v (branch structure of BasicRender.render_response /
   _serialize_to_resp / _guess_json and ClasticJSONEncoder.default over a
   universe of Python values). *)
From Coq Require Import List String Ascii Bool Arith ZArith.
Import ListNotations.
From ClasticV Require Import Gen.MoreShapes Base.Py Base.Strs Base.Sx Model.Render Proofs.RenderProofs.
Local Open Scope list_scope.
Local Open Scope string_scope.

(* for every value of the universe (any nesting depth) and every request whose
   format parameter is absent, json or html, whatever the Accept negotiation yields: a response, never an exception *)
Theorem C17_basic_total : forall v f best, f <> FOther -> exists r, render_basic v f best = Ok r.
Proof. exact basic_total. Qed.
Print Assumptions C17_basic_total.

(* text: serialized JSON object/array => application/json; an HTML document => text/html; other text => text/plain *)
Theorem C17_text_labels : forall s,
  (guess_json s = true -> label_text s = RText "application/json" s) /\
  (guess_json s = false -> contains_str "<html" (substring 0 168 s) = true -> label_text s = RText "text/html" s) /\
  (guess_json s = false -> contains_str "<html" (substring 0 168 s) = false -> label_text s = RText "text/plain" s).
Proof. exact text_labels. Qed.
Print Assumptions C17_text_labels.

Theorem C17_text_results : forall s f best,
  render_basic (PStr s) f best = Ok (label_text s) /\ render_basic (PBytes s) f best = Ok (label_text s).
Proof. exact text_results. Qed.
Print Assumptions C17_text_results.

(* mappings and sequences: JSON, or the HTML table when the format parameter asks for it *)
Theorem C17_sized_json : forall v best, is_sized v = true -> (forall s, v <> PStr s) -> (forall s, v <> PBytes s) ->
  exists j, normalise true v = Ok j /\ render_basic v FJson best = Ok (RJson j) /\
            render_basic v FAbsent None = Ok (RJson j) /\ render_basic v FHtml best = Ok RTable.
Proof. exact sized_json. Qed.
Print Assumptions C17_sized_json.

Theorem C17_unsized_text : forall v f best, is_sized v = false -> render_basic v f best = Ok RStr.
Proof. exact unsized_text. Qed.
Print Assumptions C17_unsized_text.

(* the JSON encoder: native data is passed through unchanged (so round-tripping is stdlib json's);
   in dev mode nothing raises *)
Theorem C17_normalise_identity : forall dev v j, to_json v = Some j -> normalise dev v = Ok j.
Proof. exact normalise_identity. Qed.
Print Assumptions C17_normalise_identity.

Theorem C17_dev_total : forall v, exists j, normalise true v = Ok j.
Proof. exact dev_total. Qed.
Print Assumptions C17_dev_total.

Example C17_example :
  render_basic (PStr "{""a"": 1}") FAbsent None = Ok (RText "application/json" "{""a"": 1}") /\
  render_basic (PStr "<!doctype html><html>x") FAbsent None = Ok (RText "text/html" "<!doctype html><html>x") /\
  render_basic (PStr "[x") FAbsent None = Ok (RText "text/plain" "[x") /\
  render_basic PNone FAbsent None = Ok RStr /\
  render_basic (PDict [("k", PTuple [PInt 1; PPlain "<obj>"])]) FAbsent (Some "image/png") = Ok (RJson (JObj [("k", JArr [JNum "1"; JStr "<obj>"])])) /\
  render_basic (PList [PInt 1]) FAbsent (Some "text/html") = Ok RTable /\
  normalise false (PList [PPlain "<obj>"]) = Raise "TypeError".
Proof. vm_compute. repeat split; reflexivity. Qed.

Local Open Scope string_scope.
Local Open Scope list_scope.
(* obligation on the source: the control-flow skeletons of the JSON encoder default, JSONRender, JSONPRender and BasicRender, regenerated from the source on every run.  The model is a
   hand transcription of exactly these statements: any edit re-opens the correspondence question (the check then searches
   for a failing input and reports what it finds) *)
Theorem C17_render_shape :
  SK_CLASTICJSONENCODER_DEFAULT =
  ["if isinstance(obj, Mapping)";
   "  try";
   "    return dict(obj)";
   "  except Exception";
   "    pass";
   "if isinstance(obj, Sized) and isinstance(obj, Iterable)";
   "  try";
   "    return list(obj)";
   "  except Exception";
   "    pass";
   "if not isinstance(obj, type)";
   "  if callable(getattr(obj, 'to_dict', None))";
   "    return obj.to_dict()";
   "  if callable(getattr(obj, 'asdict', None))";
   "    return obj.asdict()";
   "  if callable(getattr(obj, 'isoformat', None))";
   "    return obj.isoformat()";
   "if self.dev_mode";
   "  return repr(obj)";
   "raise TypeError('cannot serialize to JSON: %r' % obj)"] /\
  SK_JSONRENDER_CALL =
  ["if self.streaming";
   "  json_iter = self.json_encoder.iterencode(context)";
   "else";
   "  json_iter = [self.json_encoder.encode(context)]";
   "resp = Response(json_iter, mimetype='application/json')";
   "resp.mimetype_params['charset'] = self.encoding";
   "return resp"] /\
  SK_JSONPRENDER_CALL =
  ["cb_name = request.args.get(self.qp_name, None)";
   "if not cb_name";
   "  return super(JSONPRender, self).__call__(context)";
   "json_iter = self.json_encoder.iterencode(context)";
   "resp_iter = itertools.chain([cb_name, '('], json_iter, [');'])";
   "resp = Response(resp_iter, mimetype='application/javascript')";
   "resp.mimetype_params['charset'] = self.encoding";
   "return resp"] /\
  SK_BASICRENDER_RENDER_RESPONSE =
  ["if isinstance(context, str)";
   "  context = context.encode('utf8')";
   "if isinstance(context, bytes)";
   "  if self._guess_json(context)";
   "    return Response(context, mimetype='application/json')";
   "  else";
   "    if b'<html' in context[:168]";
   "      return Response(context, mimetype='text/html')";
   "    else";
   "      return Response(context, mimetype='text/plain')";
   "if not isinstance(context, Sized)";
   "  return Response(str(context), mimetype='text/plain')";
   "return self._serialize_to_resp(context, request, _route)"] /\
  SK_BASICRENDER_SERIALIZE_TO_RESP =
  ["req_format = request.args.get(self.qp_name)";
   "if req_format and req_format not in self._format_mime_map";
   "  raise ValueError('format expected one of %r, not %r' % (self.formats, req_format))";
   "resp_mime = self._format_mime_map.get(req_format)";
   "if not resp_mime and request.accept_mimetypes";
   "  resp_mime = request.accept_mimetypes.best_match(self.mimetypes)";
   "if resp_mime not in self._mime_format_map";
   "  resp_mime = self._default_mime";
   "if resp_mime == 'application/json'";
   "  return self.json_render(context)";
   "else";
   "  if resp_mime == 'text/html'";
   "    return self.tabular_render(context, _route)";
   "return Response(str(context), mimetype='text/plain')"] /\
  SK_BASICRENDER_GUESS_JSON =
  ["if not bytestr";
   "  return False";
   "else";
   "  if bytestr[:1] == b'{' and bytestr[-1:] == b'}'";
   "    return True";
   "  else";
   "    if bytestr[:1] == b'[' and bytestr[-1:] == b']'";
   "      return True";
   "    else";
   "      return False"].
Proof. repeat split; reflexivity. Qed.
Print Assumptions C17_render_shape.
