(* C17 - The basic and JSON renderers accept every endpoint result.
   Model: Model/Render.v (branch structure of BasicRender.render_response /
   _serialize_to_resp / _guess_json and ClasticJSONEncoder.default over a
   universe of Python values). *)
From Coq Require Import List String Ascii Bool Arith ZArith.
Import ListNotations.
From ClasticV Require Import Base.Py Base.Strs Base.Sx Model.Render Proofs.RenderProofs.
Local Open Scope list_scope.
Local Open Scope string_scope.

(* for every value of the universe (any nesting depth) and every request whose
   format parameter is absent, json or html, whatever the Accept negotiation yields: a response, never an exception *)
Theorem C17_basic_total : forall v f best, f <> FOther -> exists r, render_basic v f best = Ok r.
Proof. exact basic_total. Qed.
Print Assumptions C17_basic_total.

(* text: serialized JSON object/array => application/json; an HTML document => text/html; other text => text/plain *)
Theorem C17_text_labels : forall s,
  (guess_json s = true -> label_text s = RText "application/json" s) /\
  (guess_json s = false -> contains_str "<html" (substring 0 168 s) = true -> label_text s = RText "text/html" s) /\
  (guess_json s = false -> contains_str "<html" (substring 0 168 s) = false -> label_text s = RText "text/plain" s).
Proof. exact text_labels. Qed.
Print Assumptions C17_text_labels.

Theorem C17_text_results : forall s f best,
  render_basic (PStr s) f best = Ok (label_text s) /\ render_basic (PBytes s) f best = Ok (label_text s).
Proof. exact text_results. Qed.
Print Assumptions C17_text_results.

(* mappings and sequences: JSON, or the HTML table when the format parameter asks for it *)
Theorem C17_sized_json : forall v best, is_sized v = true -> (forall s, v <> PStr s) -> (forall s, v <> PBytes s) ->
  exists j, normalise true v = Ok j /\ render_basic v FJson best = Ok (RJson j) /\
            render_basic v FAbsent None = Ok (RJson j) /\ render_basic v FHtml best = Ok RTable.
Proof. exact sized_json. Qed.
Print Assumptions C17_sized_json.

Theorem C17_unsized_text : forall v f best, is_sized v = false -> render_basic v f best = Ok RStr.
Proof. exact unsized_text. Qed.
Print Assumptions C17_unsized_text.

(* the JSON encoder: native data is passed through unchanged (so round-tripping is stdlib json's);
   in dev mode nothing raises *)
Theorem C17_normalise_identity : forall dev v j, to_json v = Some j -> normalise dev v = Ok j.
Proof. exact normalise_identity. Qed.
Print Assumptions C17_normalise_identity.

Theorem C17_dev_total : forall v, exists j, normalise true v = Ok j.
Proof. exact dev_total. Qed.
Print Assumptions C17_dev_total.

Example C17_example :
  render_basic (PStr "{""a"": 1}") FAbsent None = Ok (RText "application/json" "{""a"": 1}") /\
  render_basic (PStr "<!doctype html><html>x") FAbsent None = Ok (RText "text/html" "<!doctype html><html>x") /\
  render_basic (PStr "[x") FAbsent None = Ok (RText "text/plain" "[x") /\
  render_basic PNone FAbsent None = Ok RStr /\
  render_basic (PDict [("k", PTuple [PInt 1; PPlain "<obj>"])]) FAbsent (Some "image/png") = Ok (RJson (JObj [("k", JArr [JNum "1"; JStr "<obj>"])])) /\
  render_basic (PList [PInt 1]) FAbsent (Some "text/html") = Ok RTable /\
  normalise false (PList [PPlain "<obj>"]) = Raise "TypeError".
Proof. vm_compute. repeat split; reflexivity. Qed.
