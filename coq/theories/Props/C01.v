(* C01 - Bind-time dependency check is sound and complete.
   Model: Model/Chain.v (chain_argspec, make_chain, build_chain_str,
   make_middleware_chain, check_middlewares, cycle test, Application.__init__)
   and Model/Exec.v (the generated code + inject at request time).
   Tie: Gen/Tables.v regenerated from route.py/core.py + chainlab correspondence. *)
From Coq Require Import List String Bool.
Import ListNotations.
From ClasticV Require Import Gen.ChainShape Base.Py Base.FSet Gen.Tables Model.Chain Model.Exec
     Proofs.ChainProofs Proofs.ExecProofs Proofs.RouteProofs Proofs.OnionProofs Proofs.ValueProofs Proofs.NestedProofs.
Local Open Scope string_scope.
Local Open Scope list_scope.

(* For every route configuration (any number of middlewares, any signatures)
   whose sources are pairwise distinct and whose next is well placed (C04's
   rejections) and that clastic's own cycle test lets through: construction
   succeeds iff every required parameter of every function is available at its
   position (the declarative table [resolvable]); any failure is a NameError. *)
Theorem C01_accept_iff_resolvable :
  forall c,
  check_middlewares (r_mws c) (src_offers c) = Ok tt ->
  mem "next" (arg_names (r_endpoint c)) = false ->
  mem "next" (arg_names (r_render c)) = false ->
  has_cycle (dep_edges (r_mws c) (r_endpoint c)) = false ->
  ((exists p, build_route c = Ok p) <-> resolvable c) /\
  (forall cls, build_route c = Raise cls -> cls = "NameError").
Proof. exact route_accept_iff. Qed.
Print Assumptions C01_accept_iff_resolvable.

(* The same for the bare middleware-chain builder, for any pre-provided set. *)
Theorem C01_chain_accept_iff :
  forall ms endpoint render pre,
  mem "next" (arg_names endpoint) = false ->
  mem "next" (arg_names render) = false ->
  ((exists p, make_middleware_chain ms endpoint render pre = Ok p) <-> resolvable_mwc ms endpoint render pre)
  /\ (forall c, make_middleware_chain ms endpoint render pre = Raise c -> c = "NameError").
Proof. exact mwc_accept_iff. Qed.
Print Assumptions C01_chain_accept_iff.

(* Once a route is accepted, no request - whatever the user functions do
   (scripts: raise before/after, early Response, swallow, replace; endpoint
   returning context/Response/raising; render likewise), whatever the injected
   values - makes the framework call a function with a missing, unexpected or
   unbound argument, at any level of any of the three chains.
   _partial: positional-only parameters are excluded (known finding F2). *)
Theorem C01_no_arg_error_partial :
  forall c pl sc inj,
  build_route c = Ok pl ->
  no_posonly (r_mws c) (r_endpoint c) (r_render c) ->
  (forall x, In x (base c) -> In x (map fst inj)) ->
  clean (snd (run sc pl inj)).
Proof. exact route_run_clean. Qed.
Print Assumptions C01_no_arg_error_partial.

(* what dispatch + execute inject covers the base names *)
Theorem C01_base_env_covers : forall c x, In x (base c) -> In x (map fst (base_env c)).
Proof. exact base_env_dom. Qed.
Print Assumptions C01_base_env_covers.

(* an application is accepted only if its null route and its route are *)
Theorem C01_app_accept :
  forall a pn pr,
  build_app a = Ok (pn, pr) ->
  (forall r, In r RESERVED_ARGS -> ~ In r (a_resources a)) /\
  check_middlewares (a_mws a) [] = Ok tt /\
  build_route (null_cfg a) = Ok pn /\
  exists merged, merge_middlewares (a_route_mws a) (a_mws a) = Ok merged /\
    build_route (mk_route_cfg (a_route_url a) (dedup (a_resources a ++ a_route_resources a)) merged
                              (a_endpoint a) (a_render a)) = Ok pr.
Proof. exact app_accept. Qed.
Print Assumptions C01_app_accept.

(* an application embedded under a prefix in an outer one is accepted only if the inner application is, the outer
   application's own resources / middlewares / null route are, and the RE-BOUND route - URL names of the prefix added,
   the flat middleware list, the resources of all levels - is; and then no request to it can fail on a framework call *)
Theorem C01_nested_accept :
  forall o a pn pr m2,
  build_nested o a = Ok (pn, pr, m2) ->
  (exists pn0 pr0, build_app a = Ok (pn0, pr0)) /\
  (forall r, In r RESERVED_ARGS -> ~ In r (o_resources o)) /\
  check_middlewares (o_mws o) [] = Ok tt /\
  build_route (outer_null_cfg o) = Ok pn /\
  (match merge_into (o_mws o) (a_mws a) with Ok acc => merge_into acc (a_route_mws a) | Raise c => Raise "ValueError" end) = Ok m2 /\
  build_route (nested_route_cfg o a m2) = Ok pr.
Proof. exact nested_accept. Qed.
Print Assumptions C01_nested_accept.

Theorem C01_nested_no_arg_error_partial :
  forall o a pn pr m2 sc inj,
  build_nested o a = Ok (pn, pr, m2) ->
  no_posonly m2 (a_endpoint a) (a_render a) ->
  (forall x, In x (base (nested_route_cfg o a m2)) -> In x (map fst inj)) ->
  clean (snd (run sc pr inj)).
Proof.
  intros o a pn pr m2 sc inj Hb Hp Hi. destruct (nested_accept o a pn pr m2 Hb) as (_ & _ & _ & _ & _ & Hr).
  exact (route_run_clean (nested_route_cfg o a m2) pr sc inj Hr Hp Hi).
Qed.
Print Assumptions C01_nested_no_arg_error_partial.

(* F2 (known finding): a positional-only parameter that is in scope is passed by
   keyword, which Python rejects - witness on the faithful model *)
Definition posonly_cfg : route_cfg :=
  mk_route_cfg ["a"] [] [] (mk_fsig ["a"] 1 [] []) (mk_fsig ["context"] 0 [] []).
Theorem C01_posonly_refuted :
  exists pl, build_route posonly_cfg = Ok pl /\
  In (ArgError FEndpoint)
     (snd (run (mk_scripts (fun _ _ => MCallNext PPass) (ECtx "C") (RResp "R")) pl (base_env posonly_cfg))).
Proof. eexists. split; [vm_compute; reflexivity|]. vm_compute. tauto. Qed.
Print Assumptions C01_posonly_refuted.

(* non-vacuity: an accepted configuration with a providing middleware, a
   keyword-only parameter (the shape of repaired defect F1) and a defaulted one *)
Definition ex_mw : mw :=
  mk_mw 0 0 true true (Some (mk_fsig ["next"; "a"] 0 [] [])) None None ["g"] [] [].
Definition ex_cfg : route_cfg :=
  mk_route_cfg ["a"] ["db"] [ex_mw] (mk_fsig ["g"] 0 ["a"; "zz"] ["zz"]) (mk_fsig ["context"; "db"] 0 [] []).
Example C01_example :
  exists pl, build_route ex_cfg = Ok pl /\
  snd (run (mk_scripts (fun _ _ => MCallNext PPass) (ECtx "C") (RResp "R")) pl (base_env ex_cfg)) =
  [Enter (FMw PhReq 0) [("next", VNext); ("a", VS "U:a")];
   Enter FEndpoint [("g", VS "Pq0:g"); ("a", VS "U:a")]; Leave FEndpoint (OVal false "C");
   Enter FRender [("context", VS "C"); ("db", VS "R:db")]; Leave FRender (OVal true "R");
   Leave (FMw PhReq 0) (OVal true "R")].
Proof. eexists. split; [vm_compute; reflexivity|]. vm_compute. reflexivity. Qed.

(* obligation on the source: the control-flow skeletons of chain_argspec, build_chain_str, make_chain, make_middleware_chain and the cycle test, regenerated from the source on every run.  The model is a
   hand transcription of exactly these statements: any edit re-opens the correspondence question (the check then searches
   for a failing input and reports what it finds) *)
Theorem C01_bind_time_shape :
  SK_CHAIN_ARGSPEC =
  ["provided_sofar = set([inner_name])";
   "optional_sofar = set()";
   "required_sofar = set()";
   "for (f, p) in zip(func_list, provides)";
   "  fb = get_fb(f)";
   "  arg_names = fb.get_arg_names()";
   "  defaults_dict = fb.get_defaults_dict()";
   "  defaulted, undefaulted = iterutils.partition(arg_names, key=defaults_dict.__contains__)";
   "  optional_sofar.update(defaulted)";
   "  required_sofar |= set(undefaulted) - provided_sofar";
   "  provided_sofar.update(p)";
   "return (required_sofar, optional_sofar)"] /\
  SK_BUILD_CHAIN_STR =
  ["if not funcs";
   "  return ''";
   "if params_sofar is None";
   "  params_sofar = set([inner_name])";
   "params_sofar.update(params[0])";
   "inner_args = get_fb(funcs[0]).get_arg_names()";
   "inner_arg_dict = dict([(a, a) for a in inner_args])";
   "inner_arg_items = sorted(inner_arg_dict.items())";
   "inner_args = ', '.join(['%s=%s' % kv for kv in inner_arg_items if kv[0] in params_sofar])";
   "outer_indent = _INDENT * level";
   "inner_indent = outer_indent + _INDENT";
   "outer_arg_str = ', '.join(params[0])";
   "def_str = '%sdef %s(%s):\n' % (outer_indent, inner_name, outer_arg_str)";
   "hide_tb = '__traceback_hide__' not in params_sofar";
   "body_str = build_chain_str(funcs[1:], params[1:], inner_name, params_sofar, level + 1, funcs_name=funcs_name)";
   "htb_str = '%s__traceback_hide__ = True\n' % (inner_indent,) if hide_tb else ''";
   "return_str = '%sreturn %s[%s](%s)\n' % (inner_indent, funcs_name, level, inner_args)";
   "return ''.join([def_str, body_str, htb_str + return_str])"] /\
  SK_MAKE_CHAIN =
  ["funcs = list(funcs)";
   "provides = list(provides)";
   "preprovided = set(preprovided)";
   "reqs, opts = chain_argspec(funcs + [final_func], provides + [()], inner_name)";
   "unresolved = tuple(reqs - preprovided)";
   "args = reqs | preprovided & opts";
   "chain = compile_chain(funcs + [final_func], [args] + provides, inner_name)";
   "return (chain, set(args), set(unresolved))"] /\
  SK_MAKE_MIDDLEWARE_CHAIN =
  ["_next_exc_msg = ""argument 'next' reserved for middleware use only (%r)""";
   "if 'next' in get_arg_names(endpoint)";
   "  raise NameError(_next_exc_msg % endpoint)";
   "if 'next' in get_arg_names(render)";
   "  raise NameError(_next_exc_msg % render)";
   "req_avail = set(preprovided) - set(['next', 'context'])";
   "req_sigs = [(mw.request, mw.provides) for mw in middlewares if mw.request]";
   "req_funcs, req_provides = list(zip(*req_sigs)) or ((), ())";
   "req_all_provides = set(itertools.chain.from_iterable(req_provides))";
   "ep_avail = req_avail | req_all_provides";
   "ep_sigs = [(mw.endpoint, mw.endpoint_provides) for mw in middlewares if mw.endpoint]";
   "ep_funcs, ep_provides = list(zip(*ep_sigs)) or ((), ())";
   "ep_chain, ep_args, ep_unres = make_chain(ep_funcs, ep_provides, endpoint, ep_avail, _INNER_NAME)";
   "if ep_unres";
   "  raise NameError('unresolved endpoint middleware arguments: %r' % list(ep_unres))";
   "rn_avail = ep_avail | set(['context'])";
   "rn_sigs = [(mw.render, mw.render_provides) for mw in middlewares if mw.render]";
   "rn_funcs, rn_provides = list(zip(*rn_sigs)) or ((), ())";
   "rn_chain, rn_args, rn_unres = make_chain(rn_funcs, rn_provides, render, rn_avail, _INNER_NAME)";
   "if rn_unres";
   "  raise NameError('unresolved render middleware arguments: %r' % list(rn_unres))";
   "req_args = (ep_args | rn_args) - set(['context'])";
   "req_func = _create_request_inner(ep_chain, rn_chain, req_args, ep_args, rn_args)";
   "req_chain, req_chain_args, req_unres = make_chain(req_funcs, req_provides, req_func, req_avail, _INNER_NAME)";
   "if req_unres";
   "  raise NameError('unresolved request middleware arguments: %r' % list(req_unres))";
   "return req_chain"] /\
  SK_BOUNDROUTE_RESOLVE_REQUIRED_ARGS =
  ["args = {}";
   "def add(provides)";
   "  for p in provides";
   "    args.setdefault(p, [])";
   "def add_func(provides, func=None)";
   "  func = func or (lambda: None)";
   "  fb = get_fb(func)";
   "  deps = fb.args";
   "  defaulted_deps = fb.get_defaults_dict()";
   "  for p in provides";
   "    args.setdefault(p, []).extend(deps)";
   "  for ddep in defaulted_deps";
   "    if ddep not in args";
   "      args[ddep] = []";
   "  return";
   "url_args = self.converters.keys()";
   "add(url_args)";
   "add(RESERVED_ARGS)";
   "add(self.resources.keys())";
   "for mw in self.middlewares";
   "  add_func(mw.provides, mw.request)";
   "  add_func(mw.endpoint_provides, mw.endpoint)";
   "  add_func(mw.render_provides, mw.render)";
   "add_func(['__endpoint_response__'], self.unbound_route.endpoint)";
   "resolved = resolve_deps(args)";
   "ret = resolved['__endpoint_response__']";
   "if not with_builtins";
   "  ret = [d for d in ret if d not in RESERVED_ARGS]";
   "return ret"].
Proof. repeat split; reflexivity. Qed.
Print Assumptions C01_bind_time_shape.
