(* C08 - Every request gets a response; uncaught failures become the handler's 500.
   Model: Model/Dispatch.v ([serve] = dispatch loop + uncaught_to_response +
   execute_error with the default_render_error fallback). *)
From Coq Require Import List String Bool ZArith.
Import ListNotations.
From ClasticV Require Import Gen.MiscShape.
From ClasticV Require Import Gen.DispatchShape Base.Py Base.Strs Gen.Tables Gen.NormPathGen Model.Dispatch Proofs.DispatchProofs.
Local Open Scope string_scope.
Local Open Scope list_scope.

(* for every routing table, every behaviour of every route (Response,
   HTTPException raised or returned, breaking or not, non-Response, any other
   exception, reroute), every error renderer, method and path: the result is a
   response, except under a re-raising handler, and then what escapes is an
   exception that some route raised (TypeError for a non-Response) *)
Theorem C08_total :
  forall h nr rs meth path,
  match serve h nr rs meth path with
  | FEscape e => h = HReraise /\ raised_by rs e
  | _ => True
  end.
Proof. exact serve_total. Qed.
Print Assumptions C08_total.

Theorem C08_default_never_escapes : forall nr rs meth path e, serve HDefault nr rs meth path <> FEscape e.
Proof. exact serve_default_never_escapes. Qed.
Print Assumptions C08_default_never_escapes.

Theorem C08_uncaught_is_500 :
  forall nr re meth path e,
  serve HDefault nr (one (XRaise e) re) meth path = render_err (one (XRaise e) re) nr 0 500%Z [] /\
  serve HDefault nr (one XNonResp re) meth path = render_err (one XNonResp re) nr 0 500%Z [] /\
  serve HReraise nr (one (XRaise e) re) meth path = FEscape e /\
  serve HReraise nr (one XNonResp re) meth path = FEscape "TypeError".
Proof. exact uncaught_is_500. Qed.
Print Assumptions C08_uncaught_is_500.

(* an HTTPException yields its own status, raised or returned (one constructor), breaking or not *)
Theorem C08_http_own_status :
  forall h nr re meth path c b,
  serve h nr (one (XHttp c b) re) meth path = render_err (one (XHttp c b) re) nr 0 c [].
Proof. exact http_own_status. Qed.
Print Assumptions C08_http_own_status.

Theorem C08_error_status :
  forall rs nr src code allow,
  match render_err rs nr src code allow with
  | FErr s c a _ => s = src /\ c = code /\ a = allow
  | FOther s _ => s = src
  | _ => False
  end.
Proof. exact render_err_status. Qed.
Print Assumptions C08_error_status.

Theorem C08_broken_renderer_falls_back :
  forall rs nr src code allow,
  (match nth_error rs src with Some r => d_rerr r | None => nr end) = RRaises ->
  render_err rs nr src code allow = FErr src code allow true.
Proof. exact broken_renderer_falls_back. Qed.
Print Assumptions C08_broken_renderer_falls_back.

Example C08_example :
  serve HDefault RAdapt [mk_droute true None false SRewrite (XRaise "KeyError") RRaises] "GET" "/" = FErr 0 500 [] true /\
  serve HReraise RAdapt [mk_droute true None false SRewrite (XRaise "KeyError") RRaises] "GET" "/" = FEscape "KeyError" /\
  serve HDefault RRaises [] "GET" "/nope" = FErr 0 404 [] true.
Proof. vm_compute. repeat split; reflexivity. Qed.

(* obligation on the source: the control-flow skeletons of _dispatch_wsgi, match_path (conversion failures mean no match) and execute, regenerated from application.py / route.py on every run.
   Model/Dispatch.v is a hand transcription of exactly these statements: any edit re-opens the correspondence question
   (the check then searches for a failing request and reports what it finds) *)
Theorem C08_request_path_shape :
  SK_APPLICATION_DISPATCH_WSGI =
  ["request = self.request_type(environ)";
   "try";
   "  request.request_id = next(_REQ_ID_ITER)";
   "except Exception";
   "  pass";
   "else";
   "  request.request_guid = int2hexguid(request.request_id)";
   "try";
   "  response = self.dispatch(request)";
   "except RerouteWSGI as rre";
   "  return rre.wsgi_app(environ, start_response)";
   "return response(environ, start_response)"] /\
  SK_BOUNDROUTE_MATCH_PATH =
  ["ret = {}";
   "match = self.regex.match(path)";
   "if not match";
   "  return None";
   "groups = match.groupdict()";
   "try";
   "  for (conv_name, conv) in self.converters.items()";
   "    ret[conv_name] = conv(groups[conv_name])";
   "except (KeyError, TypeError, ValueError)";
   "  return None";
   "return ret"] /\
  SK_BOUNDROUTE_EXECUTE =
  ["injectables = {'_route': self, 'request': request, '_application': self.bound_apps[-1]}";
   "injectables.update(self.resources)";
   "injectables.update(kwargs)";
   "return inject(self._execute, injectables)"].
Proof. repeat split; reflexivity. Qed.
Print Assumptions C08_request_path_shape.

(* obligation on the source: ErrorHandler.render_error and uncaught_to_response, statement by statement *)
Theorem C08_handler_shape :
  SK_ERRORHANDLER_RENDER_ERROR =
  ["best_match = request.accept_mimetypes.best_match(MIME_SUPPORT_MAP)";
   "_error.adapt(best_match)";
   "return _error"] /\
  SK_ERRORHANDLER_UNCAUGHT_TO_RESPONSE =
  ["if self.reraise_uncaught";
   "  raise";
   "eh = _application.error_handler";
   "exc_info = eh.exc_info_type.from_current()";
   "return eh.server_error_type(repr(exc_info), exc_info=exc_info, source_route=_route)"].
Proof. repeat split; reflexivity. Qed.
Print Assumptions C08_handler_shape.
