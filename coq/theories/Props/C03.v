(* C03 - Middlewares nest in the documented M-shaped order. *)
From Coq Require Import List String Bool Arith.
Import ListNotations.
From ClasticV Require Import Gen.ChainShape Base.Py Base.FSet Gen.Tables Model.Chain Model.Exec
     Proofs.ChainProofs Proofs.ExecProofs Proofs.RouteProofs Proofs.OnionProofs Proofs.ValueProofs Proofs.NestedProofs.
Local Open Scope string_scope.
Local Open Scope list_scope.

(* every trace of every plan, for every script assignment (raise before/after
   next, early Response, swallow, replace) and every injected environment, is
   properly bracketed: each Enter f is closed by its own Leave f after
   everything inside it has completed *)
Theorem C03_well_bracketed : forall sc pl inj, nested (snd (run sc pl inj)).
Proof. exact run_nested. Qed.
Print Assumptions C03_well_bracketed.

(* the functions of a chain are entered in list order, outermost first; a layer
   that does not call next() (or raises first) cuts off every inner Enter *)
Theorem C03_list_order :
  forall sc final,
  (forall f kws, enters (snd (final f kws)) = [f] \/ enters (snd (final f kws)) = []) ->
  forall lvls e, is_prefix (enters (snd (exec_chain sc final lvls e))) (map lv_func lvls).
Proof. exact exec_order. Qed.
Print Assumptions C03_list_order.

(* merge_middlewares old new: the binding (outer) application's list comes first
   in its own order, the inner list follows as a subsequence of itself *)
Theorem C03_merge_order :
  forall old new res, merge_middlewares old new = Ok res ->
  exists kept, res = new ++ kept /\ sublist kept old.
Proof. exact merge_shape. Qed.
Print Assumptions C03_merge_order.

(* a unique type already present in the outer list is not added again: it stays
   at its outermost position *)
Theorem C03_unique_once :
  forall old merged res t,
  merge_into merged old = Ok res ->
  (forall m, In m old -> m_id m = t -> m_unique m = true) ->
  has_type merged t = true ->
  filter (fun x => Nat.eqb (m_id x) t) res = filter (fun x => Nat.eqb (m_id x) t) merged.
Proof. exact merge_into_unique_once. Qed.
Print Assumptions C03_unique_once.

Theorem C03_merge_error :
  forall old merged c, merge_into merged old = Raise c -> c = "ValueError" /\
  exists m, In m old /\ m_unique m = true /\ m_reorderable m = false.
Proof. exact merge_into_error. Qed.
Print Assumptions C03_merge_error.

(* THE ONION.  For every accepted route (any middleware list, any signatures without positional-only
   parameters), every script assignment (each function may raise before or after next, return a Response
   early, swallow or replace what comes back) and every injected environment, the trace of a request is
   exactly the documented onion [OnionProofs.onion]: request middlewares in list order around
   process_request, whose own trace [proc_shape] is the endpoint onion followed - iff the endpoint side
   produced a non-Response value - by the render onion; each layer's Leave carries its script applied to
   exactly what its next() produced, after everything inside it has completed. *)
Theorem C03_trace_is_onion :
  forall c pl sc inj,
  build_route c = Ok pl ->
  no_posonly (r_mws c) (r_endpoint c) (r_render c) ->
  (forall x, In x (base c) -> In x (map fst inj)) ->
  onion sc (proc_shape sc (r_mws c)) (map fid_of (phase_funcs PhReq (r_mws c)) ++ [FProc])
        (fst (run sc pl inj)) (snd (run sc pl inj)).
Proof. exact route_trace_is_onion. Qed.
Print Assumptions C03_trace_is_onion.

(* whatever a layer's next() returns or raises is what the inner layers produced: when every enclosing
   middleware passes through, the outcome of the chain is exactly the innermost function's outcome *)
Theorem C03_transparent_next :
  forall sc (Fin : fid -> outcome -> list event -> Prop) fs o tr,
  onion sc Fin fs o tr ->
  (forall ph i, In (FMw ph i) (removelast fs) -> s_mw sc ph i = MCallNext PPass) ->
  exists f tr', Fin f o tr' /\ last fs f = f.
Proof. exact transparent_chain. Qed.
Print Assumptions C03_transparent_next.

(* the render chain runs iff the endpoint side produced a non-Response value without raising; otherwise
   the outcome of process_request is the endpoint side's outcome and nothing else is entered *)
Theorem C03_render_skipped_iff :
  forall sc ms f o tr,
  proc_shape sc ms f o tr ->
  exists o1 t1, onion sc (ep_shape sc) (map fid_of (phase_funcs PhEp ms) ++ [FEndpoint]) o1 t1 /\
  ((exists tag, o1 = OVal false tag) <->
   (exists t2, onion sc (rn_shape sc) (map fid_of (phase_funcs PhRn ms) ++ [FRender]) o t2 /\ tr = t1 ++ t2 /\ t2 <> [])) /\
  ((forall tag, o1 <> OVal false tag) -> o = o1 /\ tr = t1).
Proof. exact render_skipped_iff. Qed.
Print Assumptions C03_render_skipped_iff.

(* a layer that does not call next() cuts off everything inside it: the functions entered are a
   non-empty PREFIX of the chain, in chain order *)
Theorem C03_short_circuit :
  forall sc (Fin : fid -> outcome -> list event -> Prop) fs o tr,
  (forall f o tr, Fin f o tr -> entered tr = [f]) ->
  onion sc Fin fs o tr -> exists k, entered tr = firstn k fs /\ 0 < k.
Proof. exact onion_entered_prefix. Qed.
Print Assumptions C03_short_circuit.

(* EMBEDDING.  For an application embedded under a prefix in an outer application (Chain.build_nested): the middleware
   list of the re-bound route is the ONE keep-first pass over  outer ++ embedded application's ++ route's own  - the
   outermost application's first, a unique type once at its outermost position - and the request's trace is the onion
   over exactly that list. *)
Theorem C03_embedded_order_and_onion :
  forall o a pn pr m2 sc inj,
  build_nested o a = Ok (pn, pr, m2) ->
  (match merge_into (o_mws o) (a_mws a) with Ok acc => merge_into acc (a_route_mws a) | Raise c => Raise "ValueError" end) = Ok m2 /\
  (no_posonly m2 (a_endpoint a) (a_render a) ->
   (forall x, In x (base (nested_route_cfg o a m2)) -> In x (map fst inj)) ->
   onion sc (proc_shape sc m2) (map fid_of (phase_funcs PhReq m2) ++ [FProc]) (fst (run sc pr inj)) (snd (run sc pr inj))).
Proof.
  intros o a pn pr m2 sc inj Hb. split.
  - destruct (nested_accept o a pn pr m2 Hb) as (_ & _ & _ & _ & Hm & _). exact Hm.
  - intros Hp Hi. exact (nested_trace_is_onion o a pn pr m2 sc inj Hb Hp Hi).
Qed.
Print Assumptions C03_embedded_order_and_onion.

(* merging twice (route into inner, result into outer) is merging once over the flat list, success and failure alike *)
Theorem C03_nested_merge_is_flat : forall route_mws inner_mws outer_mws,
  match merge_middlewares route_mws inner_mws with
  | Ok l1 => merge_middlewares l1 outer_mws
  | Raise c => Raise c
  end =
  match merge_into outer_mws inner_mws with
  | Ok acc => merge_into acc route_mws
  | Raise c => Raise "ValueError"
  end.
Proof. exact nested_merge_is_flat. Qed.
Print Assumptions C03_nested_merge_is_flat.

(* the render phase runs iff the endpoint side produced a non-Response without raising *)
Definition c3_mw (i : nat) : mw :=
  mk_mw i i true true (Some (mk_fsig ["next"] 0 [] [])) (Some (mk_fsig ["next"] 0 [] []))
        (Some (mk_fsig ["next"] 0 [] [])) [] [] [].
Definition c3_cfg : route_cfg :=
  mk_route_cfg [] [] [c3_mw 0; c3_mw 1] (mk_fsig [] 0 [] []) (mk_fsig ["context"] 0 [] []).
Example C03_example_M_shape :
  exists pl, build_route c3_cfg = Ok pl /\
  enters (snd (run (mk_scripts (fun _ _ => MCallNext PPass) (ECtx "C") (RResp "R")) pl (base_env c3_cfg))) =
  [FMw PhReq 0; FMw PhReq 1; FMw PhEp 0; FMw PhEp 1; FEndpoint; FMw PhRn 0; FMw PhRn 1; FRender] /\
  enters (snd (run (mk_scripts (fun _ _ => MCallNext PPass) (EResp "E") (RResp "R")) pl (base_env c3_cfg))) =
  [FMw PhReq 0; FMw PhReq 1; FMw PhEp 0; FMw PhEp 1; FEndpoint] /\
  enters (snd (run (mk_scripts (fun ph i => match ph, i with PhEp, 0 => MReturnEarly "X" | _, _ => MCallNext PPass end)
                               (ECtx "C") (RResp "R")) pl (base_env c3_cfg))) =
  [FMw PhReq 0; FMw PhReq 1; FMw PhEp 0].
Proof. eexists. split; [vm_compute; reflexivity|]. vm_compute. auto. Qed.

(* obligation on the source: the control-flow skeletons of merge_middlewares, regenerated from the source on every run.  The model is a
   hand transcription of exactly these statements: any edit re-opens the correspondence question (the check then searches
   for a failing input and reports what it finds) *)
Theorem C03_merge_shape :
  SK_MERGE_MIDDLEWARES =
  ["old = list(old)";
   "merged = list(new)";
   "for mw in old";
   "  if mw.unique and mw in merged";
   "    if mw.reorderable";
   "      continue";
   "    else";
   "      raise ValueError('multiple inclusion of unique middleware %r' % mw.name)";
   "  merged.append(mw)";
   "return merged"].
Proof. repeat split; reflexivity. Qed.
Print Assumptions C03_merge_shape.
