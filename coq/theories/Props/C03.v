(* C03 - Middlewares nest in the documented M-shaped order. *)
From Coq Require Import List String Bool Arith.
Import ListNotations.
From ClasticV Require Import Base.Py Base.FSet Gen.Tables Model.Chain Model.Exec
     Proofs.ChainProofs Proofs.ExecProofs Proofs.RouteProofs.
Local Open Scope string_scope.
Local Open Scope list_scope.

(* every trace of every plan, for every script assignment (raise before/after
   next, early Response, swallow, replace) and every injected environment, is
   properly bracketed: each Enter f is closed by its own Leave f after
   everything inside it has completed *)
Theorem C03_well_bracketed : forall sc pl inj, nested (snd (run sc pl inj)).
Proof. exact run_nested. Qed.
Print Assumptions C03_well_bracketed.

(* the functions of a chain are entered in list order, outermost first; a layer
   that does not call next() (or raises first) cuts off every inner Enter *)
Theorem C03_list_order :
  forall sc final,
  (forall f kws, enters (snd (final f kws)) = [f] \/ enters (snd (final f kws)) = []) ->
  forall lvls e, is_prefix (enters (snd (exec_chain sc final lvls e))) (map lv_func lvls).
Proof. exact exec_order. Qed.
Print Assumptions C03_list_order.

(* merge_middlewares old new: the binding (outer) application's list comes first
   in its own order, the inner list follows as a subsequence of itself *)
Theorem C03_merge_order :
  forall old new res, merge_middlewares old new = Ok res ->
  exists kept, res = new ++ kept /\ sublist kept old.
Proof. exact merge_shape. Qed.
Print Assumptions C03_merge_order.

(* a unique type already present in the outer list is not added again: it stays
   at its outermost position *)
Theorem C03_unique_once :
  forall old merged res t,
  merge_into merged old = Ok res ->
  (forall m, In m old -> m_id m = t -> m_unique m = true) ->
  has_type merged t = true ->
  filter (fun x => Nat.eqb (m_id x) t) res = filter (fun x => Nat.eqb (m_id x) t) merged.
Proof. exact merge_into_unique_once. Qed.
Print Assumptions C03_unique_once.

Theorem C03_merge_error :
  forall old merged c, merge_into merged old = Raise c -> c = "ValueError" /\
  exists m, In m old /\ m_unique m = true /\ m_reorderable m = false.
Proof. exact merge_into_error. Qed.
Print Assumptions C03_merge_error.

(* the render phase runs iff the endpoint side produced a non-Response without raising *)
Definition c3_mw (i : nat) : mw :=
  mk_mw i i true true (Some (mk_fsig ["next"] 0 [] [])) (Some (mk_fsig ["next"] 0 [] []))
        (Some (mk_fsig ["next"] 0 [] [])) [] [] [].
Definition c3_cfg : route_cfg :=
  mk_route_cfg [] [] [c3_mw 0; c3_mw 1] (mk_fsig [] 0 [] []) (mk_fsig ["context"] 0 [] []).
Example C03_example_M_shape :
  exists pl, build_route c3_cfg = Ok pl /\
  enters (snd (run (mk_scripts (fun _ _ => MCallNext PPass) (ECtx "C") (RResp "R")) pl (base_env c3_cfg))) =
  [FMw PhReq 0; FMw PhReq 1; FMw PhEp 0; FMw PhEp 1; FEndpoint; FMw PhRn 0; FMw PhRn 1; FRender] /\
  enters (snd (run (mk_scripts (fun _ _ => MCallNext PPass) (EResp "E") (RResp "R")) pl (base_env c3_cfg))) =
  [FMw PhReq 0; FMw PhReq 1; FMw PhEp 0; FMw PhEp 1; FEndpoint] /\
  enters (snd (run (mk_scripts (fun ph i => match ph, i with PhEp, 0 => MReturnEarly "X" | _, _ => MCallNext PPass end)
                               (ECtx "C") (RResp "R")) pl (base_env c3_cfg))) =
  [FMw PhReq 0; FMw PhReq 1; FMw PhEp 0].
Proof. eexists. split; [vm_compute; reflexivity|]. vm_compute. auto. Qed.
