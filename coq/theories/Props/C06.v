(* C06 - Dispatch: first match in order, methods, 404/405, non-breaking fallthrough.
   Model: Model/Dispatch.v (Application.dispatch loop, DispatchState, the
   catch-all route, Route.__init__ method normalisation, match_method).
   Tie: HTTP_METHODS regenerated from route.py, normalize_path translated from
   route.py, dispatchlab correspondence. *)
From Coq Require Import List String Bool ZArith.
Import ListNotations.
From ClasticV Require Import Gen.DispatchShape Base.Py Base.Strs Gen.Tables Gen.NormPathGen Model.Pattern Model.Match Model.Dispatch
     Proofs.DispatchProofs Proofs.MatchProofs Proofs.RoutingProofs.
Local Open Scope string_scope.
Local Open Scope list_scope.

(* the accumulator loop of dispatch equals the declarative specification, for
   any number of routes, any method, any handler kind *)
Theorem C06_dispatch_refines_spec :
  forall h meth canon rs, loop h meth canon rs 0 (mk_dstate [] []) = spec h meth canon rs.
Proof. exact dispatch_refines_spec. Qed.
Print Assumptions C06_dispatch_refines_spec.

(* the request is answered by the first route, in list order, that matches the
   path, admits the method and does not fail softly (non-breaking error /
   strict-mode non-canonical branch); routes before it are only consulted *)
Theorem C06_first_answerer :
  forall h meth canon rs k l,
  nth_error (map (verdict_of h meth canon) rs) k = Some (VStop l) ->
  (forall k', k' < k -> exists v, nth_error (map (verdict_of h meth canon) rs) k' = Some v /\ is_stop v = false) ->
  loop h meth canon rs 0 (mk_dstate [] []) = l k.
Proof. exact first_answerer. Qed.
Print Assumptions C06_first_answerer.

(* ... COMPOSED WITH C05: when the match bits are computed from the DECLARED patterns by the pattern model
   (Model/Match.match_path on the request path; this is what the harness tag dispatchfull runs against every table), the
   answering route is the first one in order whose verdict stops, its pattern is assigned the path's segments (the
   [assign] relation of C05) and it admits the method *)
Theorem C06_first_answerer_from_patterns :
  forall h meth canon path ds k l,
  nth_error (map (verdict_of h meth canon) (map (droute_for path) ds)) k = Some (VStop l) ->
  (forall k', k' < k -> exists v, nth_error (map (verdict_of h meth canon) (map (droute_for path) ds)) k' = Some v /\ is_stop v = false) ->
  serve_decls h meth path canon ds = l k /\
  exists d bindings ts tr caps,
    nth_error ds k = Some d /\
    match_path (mmode_of (rd_mode d)) (rd_pat d) path = Some bindings /\
    tokenise path = Some (ts, tr) /\ gmatch (p_elems (rd_pat d)) ts = Some caps /\ assign (p_elems (rd_pat d)) ts caps /\
    admits (rd_methods d) meth = true.
Proof. exact first_answerer_from_patterns. Qed.
Print Assumptions C06_first_answerer_from_patterns.

(* a route whose pattern does not match the path, or that does not admit the method, never answers *)
Theorem C06_non_matching_never_answers :
  forall h meth canon path d,
  match_path (mmode_of (rd_mode d)) (rd_pat d) path = None \/ admits (rd_methods d) meth = false ->
  is_stop (verdict_of h meth canon (droute_for path d)) = false.
Proof. exact no_match_no_stop. Qed.
Print Assumptions C06_non_matching_never_answers.

Theorem C06_no_pattern_matches_404 :
  forall h meth canon path ds,
  (forall d, In d ds -> match_path (mmode_of (rd_mode d)) (rd_pat d) path = None) ->
  serve_decls h meth path canon ds = LHttp (List.length ds) 404%Z [].
Proof. exact no_pattern_matches_404. Qed.
Print Assumptions C06_no_pattern_matches_404.

Theorem C06_no_match_404 :
  forall h meth canon rs, (forall r, In r rs -> d_match r = false) ->
  loop h meth canon rs 0 (mk_dstate [] []) = LHttp (List.length rs) 404%Z [].
Proof. exact no_match_404. Qed.
Print Assumptions C06_no_match_404.

(* patterns matched, no route admitted the method: 405 whose Allow names exactly
   the union of the methods of the path-matching routes *)
Theorem C06_allow_exact :
  forall h meth canon rs,
  (forall r, In r rs -> d_match r = true -> admits (d_methods r) meth = false) ->
  (exists r, In r rs /\ d_match r = true /\ methods_of r <> []) ->
  exists allow, loop h meth canon rs 0 (mk_dstate [] []) = LHttp (List.length rs) 405%Z allow /\
    forall m, In m allow <-> exists r, In r rs /\ d_match r = true /\ In m (methods_of r).
Proof. exact method_mismatch_405. Qed.
Print Assumptions C06_allow_exact.

(* nobody answered and some route failed softly: the most recent such error,
   attributed to the route that produced it *)
Theorem C06_soft_fallthrough :
  forall h meth canon rs,
  first_stop (map (verdict_of h meth canon) rs) 0 = None ->
  forall j c t, rev (softs (map (verdict_of h meth canon) rs) 0) = (j, c) :: t ->
  loop h meth canon rs 0 (mk_dstate [] []) = LHttp j c [].
Proof. exact soft_fallthrough. Qed.
Print Assumptions C06_soft_fallthrough.

(* methods: exact admission rule of a route declared with a method list *)
Theorem C06_methods_exact :
  forall l l' meth, norm_methods (Some l) = Ok (Some l') ->
  (admits (Some l') meth = true <->
   meth = "" \/ In (upper meth) (map upper l) \/ (upper meth = "HEAD" /\ In "GET" (map upper l))).
Proof. exact norm_methods_admits. Qed.
Print Assumptions C06_methods_exact.

Theorem C06_case_insensitive : forall ms meth, admits ms (upper meth) = admits ms meth.
Proof. exact admits_case_insensitive. Qed.
Print Assumptions C06_case_insensitive.

Theorem C06_no_methods_admits_all : forall meth, admits None meth = true.
Proof. exact no_methods_admits_all. Qed.
Print Assumptions C06_no_methods_admits_all.

Theorem C06_unknown_method_rejected :
  forall l, (exists m, In m l /\ ~ In (upper m) HTTP_METHODS) -> norm_methods (Some l) = Raise "InvalidMethod".
Proof. exact unknown_method_rejected. Qed.
Print Assumptions C06_unknown_method_rejected.

(* obligation on the table regenerated from clastic/route.py *)
Theorem C06_methods_table :
  HTTP_METHODS = ["CONNECT"; "DELETE"; "GET"; "HEAD"; "OPTIONS"; "PATCH"; "POST"; "PUT"; "TRACE"].
Proof. reflexivity. Qed.
Print Assumptions C06_methods_table.

(* non-vacuity: GET-only, POST-only and a soft-failing route on one path *)
Definition ex_rs : list droute :=
  [mk_droute true (Some ["GET"; "HEAD"]) false SRedirect (XHttp 404 false) RAdapt;
   mk_droute false None false SRedirect (XResp "never") RAdapt;
   mk_droute true (Some ["POST"]) false SRedirect (XResp "post") RAdapt;
   mk_droute true (Some ["GET"; "HEAD"]) false SRedirect (XResp "get2") RAdapt].
Example C06_example :
  serve HDefault RAdapt ex_rs "GET" "/x" = FResp 3 "get2" /\
  serve HDefault RAdapt ex_rs "post" "/x" = FResp 2 "post" /\
  serve HDefault RAdapt ex_rs "PUT" "/x" = FErr 4 405 ["GET"; "HEAD"; "POST"; "GET"; "HEAD"] false /\
  serve HDefault RAdapt (firstn 2 ex_rs) "HEAD" "/x" = FErr 0 404 [] false.
Proof. vm_compute. repeat split; reflexivity. Qed.

(* obligation on the source: the control-flow skeletons of the dispatch loop, DispatchState and match_method, regenerated from application.py / route.py on every run.
   Model/Dispatch.v is a hand transcription of exactly these statements: any edit re-opens the correspondence question
   (the check then searches for a failing request and reports what it finds) *)
Theorem C06_request_path_shape :
  SK_APPLICATION_DISPATCH =
  ["ret = None";
   "url_path, method = (request.path, request.method)";
   "dispatch_state = DispatchState()";
   "err_handler = self.error_handler";
   "base_params = dict(self.resources, request=request, _application=self, _dispatch_state=dispatch_state)";
   "for route in self.routes + [self._null_route]";
   "  path_params = route.match_path(url_path)";
   "  if path_params is None";
   "    continue";
   "  request.path_params = path_params";
   "  params = dict(base_params, **path_params)";
   "  method_allowed = route.match_method(method)";
   "  if not method_allowed";
   "    dispatch_state.update_methods(route.methods)";
   "    continue";
   "  if route.is_branch";
   "    norm_path = normalize_path(url_path, route.is_branch)";
   "    if norm_path != url_path";
   "      if route.slash_mode == S_REDIRECT";
   "        parts = [request.url_root.rstrip('/'), url_quote(norm_path, safe='/'), '?', url_quote(request.query_string, safe="":/?#[]@!$&'()*+,;=%"")]";
   "        return redirect(''.join(parts))";
   "      else";
   "        if route.slash_mode == S_STRICT";
   "          nf_exc = err_handler.not_found_type(request=request, application=self, source_route=route)";
   "          dispatch_state.add_exception(nf_exc)";
   "          continue";
   "  try";
   "    ret = route.execute(**params)";
   "    if not isinstance(ret, BaseResponse)";
   "      msg = 'expected Response, received %r' % type(ret)";
   "      raise TypeError(msg)";
   "  except RerouteWSGI";
   "    raise";
   "  except Exception as exc";
   "    ret = exc";
   "    if not isinstance(ret, HTTPException)";
   "      uncaught_params = dict(params, _route=route, _error=ret)";
   "      ret = err_handler.uncaught_to_response(**uncaught_params)";
   "  if not isinstance(ret, HTTPException)";
   "    break";
   "  if not getattr(ret, 'source_route', None)";
   "    ret.source_route = route";
   "  if getattr(ret, 'is_breaking', True)";
   "    break";
   "  else";
   "    dispatch_state.add_exception(ret)";
   "if isinstance(ret, HTTPException)";
   "  error_params = dict(params, _error=ret)";
   "  try";
   "    ret = ret.source_route.execute_error(**error_params)";
   "  except Exception";
   "    ret = default_render_error(**error_params)";
   "return ret"] /\
  SK_DISPATCHSTATE_ADD_EXCEPTION =
  ["self.exceptions.append(exception)"] /\
  SK_DISPATCHSTATE_UPDATE_METHODS =
  ["if methods";
   "  self.allowed_methods.update(methods)"] /\
  SK_BOUNDROUTE_MATCH_METHOD =
  ["if method and self.methods";
   "  if method.upper() not in self.methods";
   "    return False";
   "return True"].
Proof. repeat split; reflexivity. Qed.
Print Assumptions C06_request_path_shape.

(* ... and that match bit is what the regex engine and the converters compute on the route's own assembled
   expression (C05): for every declared pattern the model accepts, every path *)
Theorem C06_match_bit_is_the_engine : forall s path d, parse_pattern s = Ok (rd_pat d) ->
  d_match (droute_for path d) =
  match ConvertProofs.py_match_path (mmode_of (rd_mode d)) (rd_pat d) path with Some _ => true | None => false end.
Proof. exact match_bit_is_the_engine. Qed.
Print Assumptions C06_match_bit_is_the_engine.
