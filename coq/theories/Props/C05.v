(* C05 - URL patterns match exactly the paths their mini-language describes.
   Model: Model/Pattern.v (pattern parsing and validation), Model/Match.v
   (tokenising, greedy backtracking assignment, conversions), Base/Rx.v (lexeme
   classes as regular expressions regenerated from route.py).
   Tie: Gen/RouteLex.v (operator tables, type table with the three lexeme
   regexes as ASTs, regex-piece constants of _compile_path_pattern),
   Gen/NormPathGen.v, and the matchlab correspondence (exhaustive short paths). *)
From Coq Require Import List String Ascii Bool Arith ZArith.
Import ListNotations.
From ClasticV Require Import Base.Py Base.Strs Base.Rx Gen.RouteLex Gen.NormPathGen Gen.RouteShape Model.Pattern Model.Match Model.RouteRx Model.Backtrack
     Proofs.MatchProofs Proofs.RouteRxProofs Proofs.IntLexProofs Proofs.BacktrackProofs Proofs.ConvertProofs.
Local Open Scope string_scope.
Local Open Scope list_scope.

(* obligations on the tables regenerated from clastic/route.py *)
Theorem C05_op_tables :
  OP_ARITY = [("", false); ("*", true); ("+", true); (":", false); ("?", false)] /\
  OP_OPTIONALITY = [("", false); ("*", true); ("+", false); (":", false); ("?", true)] /\
  SEG_TMPL = "(?P<{name}>({sep}{pattern}){arity})" /\
  COMPILE_CONSTS = ["/"; "//"; "/+"; "/"; "/"; "name"; "type"; "op"; ":"; ""; "unicode"; "^"; "/*"; "\Z"] /\
  map (fun x => fst (fst x)) TYPE_TABLE = ["int"; "float"; "str"; "unicode"].
Proof. repeat split; reflexivity. Qed.
Print Assumptions C05_op_tables.

(* the converter flags of every operator agree with the regex quantifier it pastes *)
Theorem C05_op_tables_consistent :
  forallb (fun kv => let b := mk_binding "n" (if String.eqb (fst kv) ":" then "" else fst kv) (snd kv) false KStr REps in
                     Bool.eqb (op_unbounded b) (snd kv)) OP_ARITY = true /\
  forallb (fun kv => let b := mk_binding "n" (if String.eqb (fst kv) ":" then "" else fst kv) false (snd kv) KStr REps in
                     Bool.eqb (Nat.eqb (op_min b) 0) (snd kv)) OP_OPTIONALITY = true.
Proof. split; vm_compute; reflexivity. Qed.
Print Assumptions C05_op_tables_consistent.

(* the derivative matcher used for the lexeme classes decides the regular
   language of the (regenerated) type patterns *)
Theorem C05_lexeme_matcher_correct : forall r s, rx_match r s = true <-> lang r s.
Proof. exact rx_match_lang. Qed.
Print Assumptions C05_lexeme_matcher_correct.

(* sound: a match assigns the path's segments, in order, to the pattern's
   elements - a literal its equal, a binding a number of segments its operator
   allows, each in the lexeme class of its type *)
Theorem C05_sound : forall es ts caps, gmatch es ts = Some caps -> assign es ts caps.
Proof. exact gmatch_sound. Qed.
Print Assumptions C05_sound.

(* complete: whenever such an assignment exists the route matches *)
Theorem C05_complete : forall es ts caps, assign es ts caps -> exists caps', gmatch es ts = Some caps'.
Proof. exact gmatch_complete. Qed.
Print Assumptions C05_complete.

(* greedy: the bindings are those of the lexicographically greatest assignment, leftmost element first *)
Theorem C05_greedy : forall es ts caps caps',
  gmatch es ts = Some caps -> assign es ts caps' -> lex_ge (counts caps) (counts caps').
Proof. exact gmatch_greedy. Qed.
Print Assumptions C05_greedy.

Theorem C05_partition : forall es ts caps, assign es ts caps ->
  List.length ts = List.length (filter is_lit es) + list_sum (counts caps).
Proof. exact assign_partition. Qed.
Print Assumptions C05_partition.

(* shapes: absent optional => None / []; multi => a list with one entry per
   piece; single => the conversion of the one segment *)
Theorem C05_shapes : forall b ts name v,
  convert1 (b, ts) = Some (name, v) ->
  name = b_name b /\
  (ts = [] -> b_optional b = true -> v = (if b_multi b then VList [] else VNone)) /\
  (b_multi b = true -> exists l, v = VList l /\ (ts <> [] -> List.length l = List.length (pieces_of ts))) /\
  (b_multi b = false -> ts <> [] -> conv (b_kind b) (String.concat "" (map snd ts)) = Some v).
Proof. exact convert1_shape. Qed.
Print Assumptions C05_shapes.

(* a sign followed by a space is in the int lexeme class but is not converted: the route does not match *)
Theorem C05_int_sign_space : forall s,
  py_int (String "+"%char (String " "%char s)) = None /\ py_int (String "-"%char (String " "%char s)) = None.
Proof. exact py_int_sign_space. Qed.
Print Assumptions C05_int_sign_space.

(* strict mode demands exactly the pattern's slashes *)
Theorem C05_strict_exact : forall p path r,
  match_path MStrict p path = Some r ->
  exists ts tr, tokenise path = Some (ts, tr) /\ unit_runs ts /\ tr = (if p_trailing p then 1 else 0).
Proof. exact strict_exact. Qed.
Print Assumptions C05_strict_exact.

(* tolerant modes: the route matches a path exactly as it matches the
   normalised path (normalize_path as TRANSLATED from route.py: single slashes,
   with or without the trailing one), with the same bindings.
   _partial: paths in which a run of >= 2 slashes falls inside the span of a
   '*'/'+' binding are excluded (known finding F3, witnessed below). *)
Theorem C05_tolerant_slashes_partial : forall p path b ts tr,
  tokenise path = Some (ts, tr) -> multi_clean (p_elems p) ts ->
  match_path MTolerant p path = match_path MTolerant p (normalize_path path b).
Proof. exact tolerant_normalized. Qed.
Print Assumptions C05_tolerant_slashes_partial.

Theorem C05_tolerant_slashes_refuted :
  exists p, parse_pattern "/a/<n*int>" = Ok p /\
  match_path MTolerant p "/a//1" = None /\
  match_path MTolerant p (normalize_path "/a//1" false) = Some [("n", VList [VInt 1%Z])].
Proof. eexists. split; [vm_compute; reflexivity|]. split; vm_compute; reflexivity. Qed.
Print Assumptions C05_tolerant_slashes_refuted.

(* invalid patterns *)
Theorem C05_invalid_leading_slash : forall s, starts_with_chr "/" s = false -> parse_pattern s = Raise "InvalidPattern".
Proof. exact invalid_no_leading_slash. Qed.
Print Assumptions C05_invalid_leading_slash.

Theorem C05_invalid_double_slash : forall s, has_double_slash s = true -> parse_pattern s = Raise "InvalidPattern".
Proof. exact invalid_double_slash. Qed.
Print Assumptions C05_invalid_double_slash.

Theorem C05_invalid_duplicate : forall part rest acc nm op ty,
  starts_with_chr "<" part = true -> split_binding part = Some (nm, op, ty) ->
  In nm (bound_names acc) -> parse_parts (part :: rest) acc = Raise "InvalidPattern".
Proof. exact duplicate_binding_rejected. Qed.
Print Assumptions C05_invalid_duplicate.

Theorem C05_invalid_operator : forall part rest acc nm op ty,
  starts_with_chr "<" part = true -> split_binding part = Some (nm, op, ty) ->
  assoc (if String.eqb op ":" then "" else op) OP_ARITY = None ->
  parse_parts (part :: rest) acc = Raise "InvalidPattern".
Proof. exact unknown_operator_rejected. Qed.
Print Assumptions C05_invalid_operator.

Theorem C05_invalid_type : forall part rest acc nm op ty,
  starts_with_chr "<" part = true -> split_binding part = Some (nm, op, ty) ->
  assoc_type (if String.eqb ty "" then "unicode" else ty) TYPE_TABLE = None ->
  exists c, parse_parts (part :: rest) acc = Raise c /\ c = "InvalidPattern".
Proof. exact unknown_type_rejected. Qed.
Print Assumptions C05_invalid_type.

(* an accepted pattern has none of the defects *)
Theorem C05_accepted_wellformed : forall s p,
  parse_pattern s = Ok p ->
  starts_with_chr "/" s = true /\ has_double_slash s = false /\
  Forall elem_wf (p_elems p) /\ NoDup (bound_names (rev (p_elems p))).
Proof. exact parse_ok_wellformed. Qed.
Print Assumptions C05_accepted_wellformed.

(* non-vacuity: backtracking across elements, conversions, strict vs tolerant *)
Example C05_example :
  exists p, parse_pattern "/a/<x?int>/<rest+>/" = Ok p /\
  match_path MTolerant p "/a/5/b//c/" = Some [("x", VInt 5%Z); ("rest", VList [VStr "b"; VStr ""; VStr "c"])] /\
  match_path MTolerant p "/a/5" = Some [("x", VNone); ("rest", VList [VStr "5"])] /\
  match_path MStrict p "/a/5/b/" = Some [("x", VInt 5%Z); ("rest", VList [VStr "b"])] /\
  match_path MStrict p "/a/5/b" = None /\
  match_path MTolerant p "/a/+ 5/b" = None /\
  parse_pattern "/a/<x>/<x>" = Raise "InvalidPattern" /\
  parse_pattern "/a/<x*?int>" = Raise "InvalidPattern" /\
  parse_pattern "/a/<x:integer>" = Raise "InvalidPattern".
Proof. eexists. split; [vm_compute; reflexivity|]. vm_compute. repeat split; reflexivity. Qed.

(* regex_language (pending since section 6): the regular expression _compile_path_pattern assembles - Model/RouteRx.route_rx,
   whose tree is compared on every run with Python's own parse of BoundRoute.regex.pattern - matches a WHOLE path
   exactly when the path's slash-separated segments can be assigned, in order, to the pattern's elements (the
   property's own words: `assign`), with exactly the pattern's slashes in strict mode.  For every pattern the model
   accepts, both slash modes, every path (any length, any bytes). *)
Theorem C05_regex_language : forall s p m path, parse_pattern s = Ok p ->
  (rx_match (route_rx m p) path = true <->
   exists ts tr caps, tokenise path = Some (ts, tr) /\ mode_ok m p ts tr = true /\ assign (p_elems p) ts caps).
Proof. exact regex_language. Qed.
Print Assumptions C05_regex_language.

(* ... and the derivative matcher run on that expression IS the token-level matcher's acceptance *)
Theorem C05_regex_is_token_matcher : forall s p m path, parse_pattern s = Ok p ->
  rx_match (route_rx m p) path = accepts m p path.
Proof. intros s p m path H. apply route_rx_decides. eapply parse_pat_ok; eauto. Qed.
Print Assumptions C05_regex_is_token_matcher.

Example C05_regex_example :
  exists p, parse_pattern "/a/<x?int>/<rest+>/" = Ok p /\ pat_ok p = true /\
  rx_match (route_rx MTolerant p) "/a/5/b//c/" = true /\ rx_match (route_rx MStrict p) "/a/5/b//c/" = false /\
  rx_match (route_rx MStrict p) "/a/5/b/" = true /\ rx_match (route_rx MStrict p) "/a/5/b" = false /\
  rx_match (route_rx MTolerant p) "/a" = false.
Proof. eexists. split; [vm_compute; reflexivity|]. vm_compute. repeat split; reflexivity. Qed.

(* int_failures_exact (pending since section 6): on the int lexeme class - the regenerated _INT_PATTERN - Python's int()
   fails EXACTLY for a sign followed by a space and for more than 4300 digits; every other text of the class converts
   (so "a segment that fails conversion makes the route not match" has exactly these two causes for int bindings) *)
Theorem C05_int_failures_exact : assoc_type "int" TYPE_TABLE = Some (KInt, INT_RX) /\ forall s, rx_match INT_RX s = true ->
  exists sg n ds, s = (sg ++ spaces n ++ ds)%string /\ is_sign sg /\ all_chr is_digit ds = true /\ ds <> "" /\
    (py_int s = None <-> (sg <> "" /\ 0 < n) \/ MAX_INT_DIGITS < String.length ds).
Proof. split; [exact int_rx_is_generated|exact int_failures_exact]. Qed.
Print Assumptions C05_int_failures_exact.

(* The captures.  Model/Backtrack.v is the search of a backtracking regex engine for the constructs used here: every way to
   match a prefix, as the list of remainders in the order the engine tries them (a repetition first tries one more
   iteration, an alternation its left branch; "x?" is "x|empty").  [bt_spec]: that list holds exactly the remainders after
   a word of the language.  [match_groups]: a sequence of groups followed by the end of the subject; the span of every
   group on the FIRST successful path - what a match object reports.  For every pattern the model accepts, every slash
   mode and EVERY path: the spans of the groups of the assembled expression are the tokens the token-level matcher
   (Model/Match.gmatch - greedy, leftmost element first, proved lexicographically maximal in C05_greedy) gives each
   binding, and there is no match exactly when that matcher rejects.  The engine's search order itself is the modelled
   part (Python's re is not verified here); the expression it runs on is compared with the real one on every run. *)
Theorem C05_engine_enumerates : forall r, star_free_null r = true -> forall s r',
  In r' (bt r s) <-> exists u, s = (u ++ r')%string /\ lang r u.
Proof. exact bt_spec. Qed.
Print Assumptions C05_engine_enumerates.

Theorem C05_engine_captures : forall s p m path, parse_pattern s = Ok p ->
  match_groups (groups m p) path =
  match tokenise path with
  | Some (ts, tr) =>
      if mode_ok m p ts tr then
        match gmatch (p_elems p) ts with Some caps => Some (spans tr (p_elems p) ts caps) | None => None end
      else None
  | None => None
  end.
Proof. exact engine_captures. Qed.
Print Assumptions C05_engine_captures.

Example C05_engine_example :
  exists p, parse_pattern "/a/<x?int>/<rest+>" = Ok p /\
  match_groups (groups MTolerant p) "/a//5/b/c/" =
    Some [("/a//5/b/c/", "//5/b/c/"); ("//5/b/c/", "/b/c/"); ("/b/c/", "/"); ("/", "")] /\
  match_groups (groups MTolerant p) "/a/b/c" = Some [("/a/b/c", "/b/c"); ("/b/c", "/b/c"); ("/b/c", ""); ("", "")] /\
  match_groups (groups MStrict p) "/a//5/b" = None.
Proof. eexists. split; [vm_compute; reflexivity|]. vm_compute. repeat split; reflexivity. Qed.

(* BoundRoute.match_path END TO END.  [py_match_path] is match_path as the code spells it: run the engine on the groups of the
   assembled expression, take every named group's text, and apply build_converter's own string operations to it
   (value.split('/')[1:] for a multi binding, value.replace('/', '') for a single one, the empty text of an optional
   binding is None / []; a conversion error means no match).  For every pattern the model accepts, every slash mode and
   every path it IS Model/Match.match_path - the function all other C05 theorems (sound, complete, greedy, partition,
   shapes, strict_exact, tolerant_slashes) are about. *)
Theorem C05_match_path_end_to_end : forall s p m path, parse_pattern s = Ok p ->
  py_match_path m p path = match_path m p path.
Proof. exact py_match_path_is_match_path. Qed.
Print Assumptions C05_match_path_end_to_end.

Theorem C05_converter_on_span : forall b l, Forall tok_wf l ->
  option_map (fun v => (b_name b, v)) (py_converter b (render l)) = convert1 (b, l).
Proof. exact converter_on_span. Qed.
Print Assumptions C05_converter_on_span.

(* obligation on the source: the statements of _compile_path_pattern, build_converter and BoundRoute.match_path that
   route_rx, py_converter and py_match_path transcribe, regenerated on every run *)
Theorem C05_route_shape :
  SK_COMPILE_PATH_PATTERN =
  ["processed = []";
   "var_converter_map = {}";
   "if not pattern.startswith('/')";
   "  raise InvalidPattern('URL path patterns must start with a forward slash (got %r)' % pattern)";
   "if '//' in pattern";
   "  raise InvalidPattern('URL path patterns must not contain multiplecontiguous slashes (got %r)' % pattern)";
   "sep = '/+'";
   "if mode == S_STRICT";
   "  sep = '/'";
   "for part in pattern.split('/')";
   "  match = BINDING.match(part)";
   "  if not match";
   "    processed.append(part)";
   "    continue";
   "  parsed = match.groupdict()";
   "  name, type_name, op = (parsed['name'], parsed['type'], parsed['op'])";
   "  if name in var_converter_map";
   "    raise InvalidPattern('duplicate path binding %s' % name)";
   "  if op == ':'";
   "    op = ''";
   "  if not type_name";
   "    type_name = 'unicode'";
   "  try";
   "    cur_conv = TYPE_CONV_MAP[type_name]";
   "    cur_patt = TYPE_PATT_MAP[type_name]";
   "  except KeyError";
   "    raise InvalidPattern('unknown type specifier %s' % type_name)";
   "  try";
   "    multi = _OP_ARITY_MAP[op]";
   "    optional = _OP_OPTIONALITY_MAP[op]";
   "  except KeyError";
   "    _tmpl = 'unknown arity operator %r, expected one of %r'";
   "    raise InvalidPattern(_tmpl % (op, _OP_ARITY_MAP.keys()))";
   "  var_converter_map[name] = build_converter(cur_conv, multi=multi, optional=optional)";
   "  path_seg_pattern = _SEG_TMPL.format(name=name, sep=sep, pattern=cur_patt, arity=op)";
   "  processed[-1] += path_seg_pattern";
   "full_pattern = '^'";
   "if mode != S_STRICT and (not processed[-1])";
   "  processed = processed[:-1]";
   "full_pattern += sep.join(processed)";
   "if mode != S_STRICT";
   "  full_pattern += '/*'";
   "regex = re.compile(full_pattern + '\\Z')";
   "return (regex, var_converter_map)"] /\
  SK_BUILD_CONVERTER =
  ["if multi";
   "  def multi_converter(value)";
   "    if not value and optional";
   "      return []";
   "    return [converter(v) for v in value.split('/')[1:]]";
   "  return multi_converter";
   "def single_converter(value)";
   "  if not value and optional";
   "    return None";
   "  return converter(value.replace('/', ''))";
   "return single_converter"] /\
  SK_MATCH_PATH =
  ["ret = {}";
   "match = self.regex.match(path)";
   "if not match";
   "  return None";
   "groups = match.groupdict()";
   "try";
   "  for (conv_name, conv) in self.converters.items()";
   "    ret[conv_name] = conv(groups[conv_name])";
   "except (KeyError, TypeError, ValueError)";
   "  return None";
   "return ret"].
Proof. repeat split; reflexivity. Qed.
Print Assumptions C05_route_shape.

Example C05_end_to_end_example :
  exists p, parse_pattern "/a/<x?int>/<rest+>" = Ok p /\
  py_match_path MTolerant p "/a//5/b//c/" = Some [("x", VInt 5%Z); ("rest", VList [VStr "b"; VStr ""; VStr "c"])] /\
  py_match_path MTolerant p "/a/b" = Some [("x", VNone); ("rest", VList [VStr "b"])] /\
  py_match_path MTolerant p "/a/+ 5/b" = None /\ py_match_path MStrict p "/a//5/b" = None.
Proof. eexists. split; [vm_compute; reflexivity|]. vm_compute. repeat split; reflexivity. Qed.
