(* C20 - The Flaw failsafe page works for any start-up error text.
   Model: Model/Flaw.v (the page template as a node list REGENERATED from
   _FLAW_TEMPLATE, rendered under the ashes discipline: every reference is
   HTML-escaped, substituted values are never re-parsed).  The exception
   handling of create_app / get_flaw_info and the route patterns are regenerated
   too (Gen/FlawGen.v). *)
From Coq Require Import List String Ascii Bool Arith.
Import ListNotations.
From ClasticV Require Import Gen.MiscShape.
From ClasticV Require Import Base.Py Base.Strs Model.Errors Model.Flaw Gen.FlawGen Gen.Templates
     Proofs.ErrorsProofs Proofs.FlawProofs.
Local Open Scope list_scope.
Local Open Scope string_scope.

(* obligations on what the translator found: parsing failures and a missing last line are swallowed,
   every path is routed to the page, no reference of the template disables escaping *)
Theorem C20_guards :
  FLAW_CREATE_TRIES = ["try parsed_tb = _ParsedTB.from_string(traceback_string) ; parsed_error = parsed_tb.to_dict() / except <bare>: parsed_error = {}"] /\
  FLAW_INFO_TRIES = ["try last_line = tb_str.splitlines()[-1] / except <bare>: last_line = u'Unknown error'"] /\
  FLAW_ROUTES = ["/"; "/clastic_assets/"; "/<_ignored*>"] /\
  forallb (fun r => match snd r with [] => true | _ => false end) FLAW_REFS = true.
Proof. repeat split; reflexivity. Qed.
Print Assumptions C20_guards.

(* the page contains the HTML-escaped error text, whatever it is *)
Theorem C20_contains_text : forall tb mon all,
  contains (html_escape tb) (render_nodes (flaw_ctx tb mon all) FLAW_NODES).
Proof.
  intros tb mon all. apply (top_ref_contained (flaw_ctx tb mon all) FLAW_NODES "tb_str"). vm_compute. tauto.
Qed.
Print Assumptions C20_contains_text.

(* ... and the HTML-escaped name of every monitored file *)
Theorem C20_contains_files : forall tb mon all f,
  (In f mon -> contains (html_escape f) (render_nodes (flaw_ctx tb mon all) FLAW_NODES)) /\
  (In f all -> contains (html_escape f) (render_nodes (flaw_ctx tb mon all) FLAW_NODES)).
Proof.
  intros tb mon all f. split; intros Hf.
  - apply (file_contained (flaw_ctx tb mon all) FLAW_NODES [NText "<li>"; NRef "."; NText "</li>"] []); [| |exact Hf]; vm_compute; tauto.
  - apply (all_file_contained (flaw_ctx tb mon all) FLAW_NODES [NText "<li>"; NRef "."; NText "</li>"] []); [| |exact Hf]; vm_compute; tauto.
Qed.
Print Assumptions C20_contains_files.

(* a traceback whose last line is "Type: message": the page names both (escaped) *)
Theorem C20_names_exception : forall tb mon all t m,
  last_line tb = t ++ ":" ++ m ->
  contains (html_escape t) (render_nodes (flaw_ctx tb mon all) FLAW_NODES) /\
  contains (html_escape m) (render_nodes (flaw_ctx tb mon all) FLAW_NODES).
Proof.
  intros tb mon all t m H. apply names_exception. rewrite <- H.
  pose proof (else_ref_contained (flaw_ctx tb mon all) FLAW_NODES
    [NText ("" ++ nl ++ "      <h2 class=""parsed-error-h2"">"); NRef "exc_type"; NText "<p>"; NRef "exc_msg"; NText ("</p></h2>" ++ nl ++ "    ")]
    [NText ("" ++ nl ++ "      <h2 class=""unparsed-error-h2"">"); NRef "last_line"; NText ("</h2>" ++ nl ++ "    ")] "last_line") as X.
  apply X; [vm_compute; tauto|vm_compute; tauto|reflexivity].
Qed.
Print Assumptions C20_names_exception.

(* what is inserted is escaped: it contains no markup-significant character *)
Theorem C20_inserted_inert : forall s, skeleton (html_escape s) = "".
Proof. exact escape_clean. Qed.
Print Assumptions C20_inserted_inert.

(* SKELETON INDEPENDENCE.  The markup skeleton of the page (the subsequence of markup-significant characters of the
   whole output) is a function of the SHAPE of the start-up failure alone - parsed as a traceback or not, number of
   monitored files - and not of any text: error text, last line, exception type and message, file names can be
   anything at all (markup, template syntax, control characters) without adding, removing or altering a tag. *)
Theorem C20_skeleton_independent : forall tb tb' mon mon' all all',
  List.length mon = List.length mon' -> List.length all = List.length all' ->
  skeleton (render_nodes (flaw_ctx tb mon all) FLAW_NODES) = skeleton (render_nodes (flaw_ctx tb' mon' all') FLAW_NODES).
Proof.
  intros tb tb' mon mon' all all' Hm Ha. apply page_skeleton. unfold same_shape, flaw_ctx. cbn. auto.
Qed.
Print Assumptions C20_skeleton_independent.

(* the same for ANY template and any two contexts of one shape (incl. parsed tracebacks) *)
Theorem C20_skeleton_any_template : forall c c' ns, same_shape c c' ->
  skeleton (render_nodes c ns) = skeleton (render_nodes c' ns).
Proof. exact page_skeleton. Qed.
Print Assumptions C20_skeleton_any_template.

Example C20_example :
  last_line ("Traceback (most recent call last):" ++ nl ++ "  File ""x.py"", line 2" ++ nl ++ "NameError: name 'p' is not defined" ++ nl)
  = "NameError: name 'p' is not defined" /\ last_line "" = "Unknown error" /\ last_line "<b>" = "<b>".
Proof. vm_compute. repeat split; reflexivity. Qed.

(* obligation on the source: create_app, get_flaw_info and _filter_site_files of flaw.py, statement by statement *)
Theorem C20_flaw_shape :
  SK_FLAW_CREATE_APP =
  ["if monitored_files";
   "  monitored_files.sort(key=lambda x: len(x))";
   "non_site_files = _filter_site_files(monitored_files)";
   "try";
   "  parsed_tb = _ParsedTB.from_string(traceback_string)";
   "  parsed_error = parsed_tb.to_dict()";
   "except <bare>";
   "  parsed_error = {}";
   "resources = {'tb_str': traceback_string, 'parsed_error': parsed_error, 'all_mon_files': monitored_files, 'mon_files': non_site_files}";
   "arf = AshesRenderFactory()";
   "arf.register_source('flaw_tmpl', _FLAW_TEMPLATE)";
   "routes = [('/', get_flaw_info, 'flaw_tmpl'), ('/clastic_assets/', StaticApplication(_ASSET_PATH)), ('/<_ignored*>', get_flaw_info, 'flaw_tmpl')]";
   "app = Application(routes, resources, render_factory=arf)";
   "return app"] /\
  SK_FLAW_GET_FLAW_INFO =
  ["try";
   "  last_line = tb_str.splitlines()[-1]";
   "except <bare>";
   "  last_line = u'Unknown error'";
   "return {'mon_files': mon_files, 'all_mon_files': all_mon_files, 'parsed_err': parsed_error, 'last_line': last_line, 'tb_str': tb_str}"] /\
  SK_FLAW_FILTER_SITE_FILES =
  ["ret = paths or []";
   "if not paths";
   "  return ret";
   "main_lib_dir = os.path.dirname(ast.__file__)";
   "ret = [fn for fn in ret if not fn.startswith(main_lib_dir)]";
   "venv_lib_dir = os.path.dirname(os.__file__)";
   "ret = [fn for fn in ret if not fn.startswith(venv_lib_dir)]";
   "try";
   "  import werkzeug";
   "  venv_site_dir = os.path.dirname(werkzeug.__file__)";
   "  ret = [fn for fn in ret if not fn.startswith(venv_site_dir)]";
   "except <bare>";
   "  pass";
   "try";
   "  import clastic";
   "  clastic_dir = os.path.dirname(clastic.__file__)";
   "  ret = [fn for fn in ret if not fn.startswith(clastic_dir)]";
   "except <bare>";
   "  pass";
   "return ret"].
Proof. repeat split; reflexivity. Qed.
Print Assumptions C20_flaw_shape.
