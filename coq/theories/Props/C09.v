(* C09 - Error responses: right status, negotiated format, everything escaped.
   Model: Model/Errors.v (html escaping, str.format over fixed templates,
   format selection).  REGENERATED from errors.py on every run (Gen/ErrorsGen.v):
   the error class table, MIME_SUPPORT_MAP, the escaping calls of
   to_escaped_dict, to_html translated into a Gallina function, the XML template,
   the JSON field names; from _contextual_errors.py (Gen/Templates.v) every
   variable reference of the debug templates with its filters. *)
From Coq Require Import List String Ascii Bool Arith ZArith.
Import ListNotations.
From ClasticV Require Import Gen.MiscShape.
From ClasticV Require Import Base.Py Base.Strs Base.Sx Model.Errors Gen.ErrorsGen Gen.Templates Proofs.ErrorsProofs.
Local Open Scope list_scope.
Local Open Scope string_scope.

(* every exported error class carries the standard status code of its name *)
Definition STANDARD : list (string * Z) :=
  [("BadRequest", 400); ("Unauthorized", 401); ("PaymentRequired", 402); ("Forbidden", 403); ("NotFound", 404);
   ("MethodNotAllowed", 405); ("NotAcceptable", 406); ("ProxyAuthenticationRequired", 407); ("RequestTimeout", 408);
   ("Conflict", 409); ("Gone", 410); ("LengthRequired", 411); ("PreconditionFailed", 412); ("RequestEntityTooLarge", 413);
   ("RequestURITooLong", 414); ("UnsupportedMediaType", 415); ("RequestedRangeNotSatisfiable", 416); ("ExpectationFailed", 417);
   ("ImATeapot", 418); ("UnprocessableEntity", 422); ("UpgradeRequired", 426); ("PreconditionRequired", 428);
   ("TooManyRequests", 429); ("RequestHeaderFieldsTooLarge", 431); ("UnavailableForLegalReasons", 451);
   ("InternalServerError", 500); ("NotImplemented", 501); ("BadGateway", 502); ("ServiceUnavailable", 503);
   ("GatewayTimeout", 504); ("HTTPVersionNotSupported", 505); ("ContextualInternalServerError", 500); ("ContextualNotFound", 404)]%Z.

Fixpoint assoc_z (k : string) (l : list (string * Z)) : option Z :=
  match l with [] => None | (k', v) :: r => if String.eqb k k' then Some v else assoc_z k r end.

Theorem C09_code_table :
  forallb (fun row => match assoc_z (fst (fst row)) STANDARD with Some c => Z.eqb c (snd (fst row)) | None => false end)
          ERROR_CLASSES = true /\ List.length ERROR_CLASSES = List.length STANDARD.
Proof. split; vm_compute; reflexivity. Qed.
Print Assumptions C09_code_table.

(* obligations on the regenerated tables: formats, escaping calls, JSON fields *)
Theorem C09_tables :
  MIME_SUPPORT_MAP = [("text/html", "html"); ("application/json", "json"); ("text/plain", "text"); ("application/xml", "xml")] /\
  DEFAULT_MIME = "text/plain" /\
  ESCAPE_CALLS = ["html_escape(repr(v), True)"; "html_escape(v, True)"] /\
  ESCAPE_IMPORTS = ["from cgi import escape as html_escape"; "from html import escape as html_escape"] /\
  ESCAPE_NONE_RULE = ["v is None => ret[k] = ''"] /\
  JSON_FIELDS = ["code"; "detail"; "error_type"; "message"].
Proof. repeat split; reflexivity. Qed.
Print Assumptions C09_tables.

(* an escaped string contains none of the markup-significant characters *)
Theorem C09_escape_clean : forall s, skeleton (html_escape s) = "".
Proof. exact escape_clean. Qed.
Print Assumptions C09_escape_clean.

(* ... and loses nothing: decoding the five character references (what an HTML parser does with text content) gives
   back exactly the original text, whatever it was - so the page SHOWS the message, detail and error type as given *)
Theorem C09_unescape_escape : forall s fuel, String.length (html_escape s) <= fuel -> unescape fuel (html_escape s) = s.
Proof. exact unescape_escape. Qed.
Print Assumptions C09_unescape_escape.

Example C09_unescape_example :
  unescape 100 (html_escape "<b>&amp; 'x' ""y""</b>") = "<b>&amp; 'x' ""y""</b>" /\
  html_escape "<b>&amp;" = "&lt;b&gt;&amp;amp;".
Proof. split; reflexivity. Qed.

(* str.format never re-scans inserted values: fields without markup characters cannot change the markup skeleton *)
Theorem C09_format_inert : forall tpl f, fields_clean f -> skeleton (fmt tpl f) = skeleton (fmt tpl empty_fields).
Proof. exact fmt_skeleton. Qed.
Print Assumptions C09_format_inert.

(* HTML (function translated from to_html) and XML: the sequence of angle brackets and quotes of the body
   depends only on which optional lines are present, never on the contents of detail / message / error type *)
Theorem C09_html_skeleton : forall f f',
  fields_clean f -> fields_clean f' -> html_flags f = html_flags f' -> skeleton (to_html f) = skeleton (to_html f').
Proof. exact html_skeleton. Qed.
Print Assumptions C09_html_skeleton.

Theorem C09_xml_skeleton : forall f f', fields_clean f -> fields_clean f' -> skeleton (to_xml f) = skeleton (to_xml f').
Proof. exact xml_skeleton. Qed.
Print Assumptions C09_xml_skeleton.

Theorem C09_escaped_fields_clean : forall r, skeleton (string_of_Z (r_code r)) = "" -> fields_clean (escape_fields r).
Proof. exact escaped_fields_clean. Qed.
Print Assumptions C09_escaped_fields_clean.

(* body builder and Content-Type are selected by the same key; an unsupported or absent type gives plain text *)
Theorem C09_format_agrees : forall mime, assoc_s (snd (adapt mime)) MIME_SUPPORT_MAP = Some (fst (adapt mime)).
Proof. exact format_agrees. Qed.
Print Assumptions C09_format_agrees.

(* debug pages: no variable reference of the 500/404 templates disables escaping (ashes filter s) *)
Theorem C09_debug_refs_escaped :
  forallb (fun r => negb (mem_str "s" (snd r))) CONTEXTUAL_REFS = true /\ Nat.ltb 20 (List.length CONTEXTUAL_REFS) = true.
Proof. split; vm_compute; reflexivity. Qed.
Print Assumptions C09_debug_refs_escaped.

Example C09_example :
  to_html (escape_fields (mk_rfields 404 "Not <found>" "a & ""b""" (Some "http://x/?a='1'"))) =
  "<!doctype html><html>" ++ nl ++ "<head><title>404 - Not &lt;found&gt;</title></head>" ++ nl ++
  "<body><h1>Not &lt;found&gt;</h1>" ++ nl ++ "<p>a &amp; &quot;b&quot;</p>" ++ nl ++
  "<p>Error type: <a target=""_blank"" href=""http://x/?a=&#x27;1&#x27;"">http://x/?a=&#x27;1&#x27;</a></p>" ++ nl ++ "</body></html>".
Proof. vm_compute. reflexivity. Qed.

(* obligation on the source: the methods of HTTPException / InternalServerError that Model/Errors.v and the regenerated templates describe, statement by statement *)
Theorem C09_errors_shape :
  SK_HTTPEXCEPTION_INIT =
  ["self.detail = detail or self.detail";
   "self.message = kwargs.pop('message', self.message)";
   "self.code = kwargs.pop('code', self.code)";
   "self.error_type = kwargs.pop('error_type', None)";
   "self.is_breaking = kwargs.pop('is_breaking', True)";
   "self.source_route = kwargs.pop('source_route', None)";
   "headers = kwargs.pop('headers', None)";
   "mimetype = kwargs.pop('mimetype', DEFAULT_MIME)";
   "content_type = kwargs.pop('content_type', None)";
   "super(HTTPException, self).__init__(response=self.to_text(), status=self.code, headers=headers, mimetype=DEFAULT_MIME, content_type=content_type)";
   "if mimetype != DEFAULT_MIME";
   "  self.adapt(mimetype)";
   "return"] /\
  SK_HTTPEXCEPTION_ADAPT =
  ["try";
   "  fmt_name = MIME_SUPPORT_MAP[mimetype]";
   "except KeyError";
   "  fmt_name, mimetype = ('text', 'text/plain')";
   "_method = getattr(self, 'to_' + fmt_name)";
   "self.data = _method()";
   "self.headers['Content-Type'] = get_content_type(mimetype, self.charset)"] /\
  SK_HTTPEXCEPTION_TO_DICT =
  ["ret = {'detail': self.detail, 'message': self.message, 'code': self.code, 'error_type': self.error_type}";
   "return ret"] /\
  SK_HTTPEXCEPTION_TO_ESCAPED_DICT =
  ["ret = {}";
   "for (k, v) in self.to_dict().items()";
   "  if v is None";
   "    ret[k] = ''";
   "    continue";
   "  try";
   "    ret[k] = html_escape(v, True)";
   "  except Exception as e";
   "    ret[k] = html_escape(repr(v), True)";
   "return ret"] /\
  SK_HTTPEXCEPTION_TO_JSON =
  ["encoder = ClasticJSONEncoder(dev_mode=True, indent=indent, sort_keys=sort_keys, ensure_ascii=False, skipkeys=skipkeys)";
   "return encoder.encode(self.to_dict())"] /\
  SK_HTTPEXCEPTION_TO_TEXT =
  ["lines = ['%s - %s' % (self.code, self.message)]";
   "if self.detail";
   "  lines.extend(['', self.detail])";
   "if self.error_type";
   "  lines.extend(['', 'Error type: %s' % self.error_type])";
   "return '\n'.join(lines)"] /\
  SK_HTTPEXCEPTION_TO_HTML =
  ["params = self.to_escaped_dict()";
   "lines = ['<!doctype html><html>', '<head><title>{code} - {message}</title></head>', '<body><h1>{message}</h1>']";
   "if params['detail']";
   "  lines.append('<p>{detail}</p>')";
   "if params['error_type']";
   "  if params['error_type'].startswith('http')";
   "    lines.append('<p>Error type: <a target=""_blank"" href=""{error_type}"">{error_type}</a></p>')";
   "  else";
   "    lines.append('<p>Error type: {error_type}</p>')";
   "lines.append('</body></html>')";
   "return '\n'.join(lines).format(**params)"] /\
  SK_HTTPEXCEPTION_TO_XML =
  ["params = self.to_escaped_dict()";
   "ret = '<http_error><code>{code}</code><message>{message}</message><detail>{detail}</detail><error_type>{error_type}</error_type></http_error>'.format(**params)";
   "return ret"] /\
  SK_INTERNALSERVERERROR_INIT =
  ["self.exc_info = kwargs.pop('exc_info', None)";
   "super(InternalServerError, self).__init__(detail, **kwargs)";
   "if self.error_type is None";
   "  try";
   "    exc_type_name = self.exc_info.exc_type";
   "    exc_type = getattr(exceptions, exc_type_name)";
   "    self.error_type = STDLIB_EXC_URL + exc_type.__name__";
   "  except Exception";
   "    pass"] /\
  SK_INTERNALSERVERERROR_TO_DICT =
  ["ret = super(InternalServerError, self).to_dict()";
   "ret['exc_info'] = glom(self, T.exc_info.to_dict(), skip_exc=Exception)";
   "return ret"].
Proof. repeat split; reflexivity. Qed.
Print Assumptions C09_errors_shape.
