(* Lists of names used as sets (duplicate tolerant, order irrelevant). *)
From Coq Require Import List String Bool.
Import ListNotations.

Definition name := string.

Fixpoint mem (x : name) (l : list name) : bool :=
  match l with [] => false | y :: r => if String.eqb x y then true else mem x r end.

Definition union (a b : list name) : list name := a ++ b.
Definition diff (a b : list name) : list name := filter (fun x => negb (mem x b)) a.
Definition inter (a b : list name) : list name := filter (fun x => mem x b) a.
Definition subset (a b : list name) : bool := forallb (fun x => mem x b) a.
Definition is_empty (a : list name) : bool := match a with [] => true | _ => false end.

Fixpoint dedup (l : list name) : list name :=
  match l with [] => [] | x :: r => if mem x r then dedup r else x :: dedup r end.

(* does any name occur twice in l ? *)
Fixpoint has_dup (l : list name) : bool :=
  match l with [] => false | x :: r => mem x r || has_dup r end.

Lemma mem_In x l : mem x l = true <-> In x l.
Proof.
  induction l as [|y r IH]; simpl; [split; [discriminate|tauto]|].
  destruct (String.eqb x y) eqn:E.
  - apply String.eqb_eq in E. subst. tauto.
  - apply String.eqb_neq in E. rewrite IH. split; [tauto|]. intros [H|H]; [congruence|exact H].
Qed.

Lemma mem_false_In x l : mem x l = false <-> ~ In x l.
Proof. rewrite <- mem_In. destruct (mem x l); split; congruence. Qed.

Lemma mem_app x a b : mem x (a ++ b) = mem x a || mem x b.
Proof.
  induction a as [|y r IH]; simpl; [reflexivity|]. destruct (String.eqb x y); [reflexivity|exact IH].
Qed.

Lemma mem_union x a b : mem x (union a b) = mem x a || mem x b.
Proof. apply mem_app. Qed.

Lemma mem_filter x f l : mem x (filter f l) = mem x l && f x.
Proof.
  induction l as [|y r IH]; simpl; [reflexivity|].
  destruct (f y) eqn:Ef; simpl; destruct (String.eqb x y) eqn:E.
  - apply String.eqb_eq in E. subst. rewrite Ef. reflexivity.
  - exact IH.
  - apply String.eqb_eq in E. subst. rewrite IH, Ef. rewrite andb_false_r. reflexivity.
  - exact IH.
Qed.

Lemma mem_diff x a b : mem x (diff a b) = mem x a && negb (mem x b).
Proof. unfold diff. apply mem_filter. Qed.

Lemma mem_inter x a b : mem x (inter a b) = mem x a && mem x b.
Proof. unfold inter. apply mem_filter. Qed.

Lemma subset_spec a b : subset a b = true <-> (forall x, In x a -> In x b).
Proof.
  unfold subset. rewrite forallb_forall. split; intros H x Hx.
  - apply mem_In. apply H. exact Hx.
  - apply mem_In. apply H. exact Hx.
Qed.

Lemma is_empty_spec a : is_empty a = true <-> a = [].
Proof. destruct a; simpl; split; congruence. Qed.

Lemma is_empty_diff a b : is_empty (diff a b) = true <-> (forall x, In x a -> In x b).
Proof.
  rewrite is_empty_spec. split.
  - intros H x Hx. destruct (mem x b) eqn:E; [apply mem_In; exact E|].
    assert (In x (diff a b)) as Hin.
    { apply mem_In. rewrite mem_diff, E. simpl. rewrite andb_true_r. apply mem_In. exact Hx. }
    rewrite H in Hin. contradiction.
  - intros H. destruct (diff a b) as [|x r] eqn:E; [reflexivity|].
    assert (mem x (diff a b) = true) as Hm by (rewrite E; simpl; rewrite String.eqb_refl; reflexivity).
    rewrite mem_diff in Hm. apply andb_prop in Hm. destruct Hm as [H1 H2].
    apply mem_In in H1. apply H in H1. apply mem_In in H1. rewrite H1 in H2. discriminate.
Qed.

Lemma has_dup_NoDup l : has_dup l = false <-> NoDup l.
Proof.
  induction l as [|x r IH]; simpl.
  - split; [constructor|reflexivity].
  - rewrite orb_false_iff, IH, mem_false_In. split.
    + intros [H1 H2]. constructor; assumption.
    + intros H. inversion H; subst. split; assumption.
Qed.

Lemma mem_dedup x l : mem x (dedup l) = mem x l.
Proof.
  induction l as [|y r IH]; simpl; [reflexivity|].
  destruct (mem y r) eqn:E; simpl.
  - destruct (String.eqb x y) eqn:E2; [|exact IH].
    apply String.eqb_eq in E2. subst. rewrite IH. exact E.
  - destruct (String.eqb x y); [reflexivity|exact IH].
Qed.
