(* S-expressions: the wire format between the Python harness and the extracted
   model.  Parsing/printing of the concrete text is done by the OCaml driver;
   everything here is pure Gallina so it can also be run with vm_compute. *)
From Coq Require Import List String Ascii ZArith NArith Bool.
Import ListNotations.
Local Open Scope string_scope.

Inductive sexp : Type :=
| A (s : string)
| L (l : list sexp).

(* ---------- option monad ---------- *)
Definition obind {X Y} (o : option X) (f : X -> option Y) : option Y :=
  match o with Some x => f x | None => None end.
Notation "'do' x <- e ; k" := (obind e (fun x => k))
  (at level 200, x pattern, e at level 100, k at level 200, right associativity).

Fixpoint omap {X Y} (f : X -> option Y) (l : list X) : option (list Y) :=
  match l with
  | [] => Some []
  | x :: xs => do y <- f x; do ys <- omap f xs; Some (y :: ys)
  end.

(* ---------- decimal numbers ---------- *)
Definition digit_of (c : ascii) : option Z :=
  let n := Z.of_N (N_of_ascii c) in
  if (48 <=? n)%Z && (n <=? 57)%Z then Some (n - 48)%Z else None.

Fixpoint digits_acc (s : string) (acc : Z) : option Z :=
  match s with
  | EmptyString => Some acc
  | String c r => do d <- digit_of c; digits_acc r (acc * 10 + d)%Z
  end.

Definition Z_of_string (s : string) : option Z :=
  match s with
  | EmptyString => None
  | String "-" r => match r with EmptyString => None | _ => do z <- digits_acc r 0%Z; Some (- z)%Z end
  | _ => digits_acc s 0%Z
  end.

Definition digit_char (d : Z) : ascii := ascii_of_N (Z.to_N (48 + d)).

(* fuel = number of decimal digits is at most log2 + 1; we use Z.log2 + 2 *)
Fixpoint pos_digits (fuel : nat) (z : Z) (acc : string) : string :=
  match fuel with
  | O => acc
  | S f => if (z <? 10)%Z then String (digit_char z) acc
           else pos_digits f (z / 10)%Z (String (digit_char (z mod 10)%Z) acc)
  end.

Definition string_of_Z (z : Z) : string :=
  if (z <? 0)%Z then String "-" (pos_digits (Z.to_nat (Z.log2 (- z)) + 2) (- z) "")
  else pos_digits (Z.to_nat (Z.log2 z) + 2) z "".

(* ---------- decoders ---------- *)
Definition dstr (s : sexp) : option string := match s with A x => Some x | L _ => None end.
Definition dZ (s : sexp) : option Z := do x <- dstr s; Z_of_string x.
Definition dnat (s : sexp) : option nat :=
  do z <- dZ s; if (z <? 0)%Z then None else Some (Z.to_nat z).
Definition dbool (s : sexp) : option bool :=
  match s with A "T" => Some true | A "F" => Some false | _ => None end.
Definition dlist {X} (d : sexp -> option X) (s : sexp) : option (list X) :=
  match s with L l => omap d l | A _ => None end.
Definition dopt {X} (d : sexp -> option X) (s : sexp) : option (option X) :=
  match s with
  | A "None" => Some None
  | L [x] => do v <- d x; Some (Some v)
  | _ => None
  end.
Definition dpair {X Y} (dx : sexp -> option X) (dy : sexp -> option Y) (s : sexp)
  : option (X * Y) :=
  match s with L [a; b] => do x <- dx a; do y <- dy b; Some (x, y) | _ => None end.

(* ---------- encoders ---------- *)
Definition estr (s : string) : sexp := A s.
Definition eZ (z : Z) : sexp := A (string_of_Z z).
Definition enat (n : nat) : sexp := eZ (Z.of_nat n).
Definition ebool (b : bool) : sexp := A (if b then "T" else "F").
Definition elist {X} (e : X -> sexp) (l : list X) : sexp := L (map e l).
Definition eopt {X} (e : X -> sexp) (o : option X) : sexp :=
  match o with None => A "None" | Some x => L [e x] end.
Definition epair {X Y} (ex : X -> sexp) (ey : Y -> sexp) (p : X * Y) : sexp :=
  L [ex (fst p); ey (snd p)].

Definition bad_input : sexp := A "BAD-INPUT".
