(* Regular expressions over bytes: inductive language semantics, a
   structurally recursive derivative matcher, and the proof that they agree.
   Used for the lexeme patterns (_INT_PATTERN, _FLOAT_PATTERN, _STR_PATTERN)
   that the translator extracts from clastic/route.py. *)
From Coq Require Import List String Ascii Bool Arith Lia.
Import ListNotations.
From ClasticV Require Import Base.Strs.
Local Open Scope string_scope.

Inductive rx :=
| REmp                                           (* matches nothing *)
| REps                                           (* the empty string *)
| RCls (neg : bool) (ranges : list (nat * nat))  (* one byte in / not in the union of the ranges *)
| RCat (a b : rx)
| RAlt (a b : rx)
| RStar (a : rx).

Definition RPlus (a : rx) := RCat a (RStar a).
Definition ROpt (a : rx) := RAlt REps a.

Definition in_ranges (c : ascii) (rs : list (nat * nat)) : bool :=
  let n := nat_of_ascii c in existsb (fun r => (fst r <=? n)%nat && (n <=? snd r)%nat) rs.

Definition cls_ok (neg : bool) (rs : list (nat * nat)) (c : ascii) : bool := xorb neg (in_ranges c rs).

Inductive lang : rx -> string -> Prop :=
| LEps : lang REps ""
| LCls neg rs c : cls_ok neg rs c = true -> lang (RCls neg rs) (String c "")
| LCat a b s t : lang a s -> lang b t -> lang (RCat a b) (s ++ t)
| LAltL a b s : lang a s -> lang (RAlt a b) s
| LAltR a b s : lang b s -> lang (RAlt a b) s
| LStar0 a : lang (RStar a) ""
| LStarS a s t : lang a s -> lang (RStar a) t -> lang (RStar a) (s ++ t).

Fixpoint nullable (r : rx) : bool :=
  match r with
  | REmp => false | REps => true | RCls _ _ => false
  | RCat a b => nullable a && nullable b
  | RAlt a b => nullable a || nullable b
  | RStar _ => true
  end.

Fixpoint deriv (c : ascii) (r : rx) : rx :=
  match r with
  | REmp => REmp | REps => REmp
  | RCls neg rs => if cls_ok neg rs c then REps else REmp
  | RCat a b => if nullable a then RAlt (RCat (deriv c a) b) (deriv c b) else RCat (deriv c a) b
  | RAlt a b => RAlt (deriv c a) (deriv c b)
  | RStar a => RCat (deriv c a) (RStar a)
  end.

Fixpoint rx_match (r : rx) (s : string) : bool :=
  match s with
  | EmptyString => nullable r
  | String c t => rx_match (deriv c r) t
  end.

(* ---------------- correctness ---------------- *)
Lemma app_eq_empty (s t : string) : s ++ t = "" -> s = "" /\ t = "".
Proof. destruct s; simpl; [auto|discriminate]. Qed.

Lemma cat_inv a b w : lang (RCat a b) w -> exists u t, w = u ++ t /\ lang a u /\ lang b t.
Proof. intros H. inversion H; subst. eauto. Qed.

Lemma nullable_lang r : nullable r = true <-> lang r "".
Proof.
  induction r as [| |neg rs|a IHa b IHb|a IHa b IHb|a IHa]; simpl.
  - split; [discriminate|intros H; inversion H].
  - split; [constructor|reflexivity].
  - split; [discriminate|intros H; inversion H].
  - rewrite andb_true_iff, IHa, IHb. split.
    + intros [Ha Hb]. change "" with ("" ++ ""). constructor; assumption.
    + intros H. apply cat_inv in H. destruct H as [u [t [E [Hu Ht]]]]. symmetry in E.
      apply app_eq_empty in E. destruct E; subst. auto.
  - rewrite orb_true_iff, IHa, IHb. split.
    + intros [H|H]; [apply LAltL|apply LAltR]; exact H.
    + intros H. inversion H; subst; auto.
  - split; [constructor|reflexivity].
Qed.

Lemma star_cons_gen r w :
  lang r w -> forall a c s, r = RStar a -> w = String c s ->
  exists s1 s2, s = s1 ++ s2 /\ lang a (String c s1) /\ lang (RStar a) s2.
Proof.
  induction 1 as [| | | | | |a0 u t Hu _ Ht IHt]; intros a' c' s' Er Ew; try discriminate.
  inversion Er; subst a0. destruct u as [|c0 u'].
  - simpl in Ew. apply IHt; [reflexivity|exact Ew].
  - simpl in Ew. inversion Ew; subst. exists u', t. auto.
Qed.

Lemma star_cons a c s :
  lang (RStar a) (String c s) ->
  exists s1 s2, s = s1 ++ s2 /\ lang a (String c s1) /\ lang (RStar a) s2.
Proof. intros H. eapply star_cons_gen; eauto. Qed.

Lemma deriv_lang r : forall c s, lang (deriv c r) s <-> lang r (String c s).
Proof.
  induction r as [| |neg rs|a IHa b IHb|a IHa b IHb|a IHa]; intros c s; simpl.
  - split; intros H; inversion H.
  - split; intros H; inversion H.
  - destruct (cls_ok neg rs c) eqn:E.
    + split; intros H.
      * inversion H; subst. constructor. exact E.
      * inversion H; subst. constructor.
    + split; intros H; [inversion H|]. inversion H; subst. congruence.
  - assert (Hcat : lang (RCat (deriv c a) b) s -> lang (RCat a b) (String c s)).
    { intros H. apply cat_inv in H. destruct H as [u [t [-> [Hu Ht]]]]. apply IHa in Hu.
      change (String c (u ++ t)) with (String c u ++ t). constructor; assumption. }
    assert (Hinv : lang (RCat a b) (String c s) ->
                   (exists u t, s = u ++ t /\ lang a (String c u) /\ lang b t) \/ (lang a "" /\ lang b (String c s))).
    { intros H. apply cat_inv in H. destruct H as [u [t [Heq [Hu Ht]]]]. destruct u as [|c0 u'].
      - right. simpl in Heq. subst. auto.
      - left. simpl in Heq. inversion Heq; subst. exists u', t. auto. }
    destruct (nullable a) eqn:En.
    + split.
      * intros H. inversion H; subst; [apply Hcat; assumption|].
        match goal with Hb : lang (deriv c b) s |- _ => apply IHb in Hb end.
        change (String c s) with ("" ++ String c s). constructor; [apply nullable_lang; exact En|assumption].
      * intros H. apply Hinv in H. destruct H as [[u [t [-> [Hu Ht]]]]|[_ Hb]].
        -- apply LAltL. constructor; [apply IHa; exact Hu|exact Ht].
        -- apply LAltR. apply IHb. exact Hb.
    + split; [exact Hcat|].
      intros H. apply Hinv in H. destruct H as [[u [t [-> [Hu Ht]]]]|[Ha _]].
      * constructor; [apply IHa; exact Hu|exact Ht].
      * apply nullable_lang in Ha. congruence.
  - split; intros H.
    + inversion H; subst; [apply LAltL; apply IHa|apply LAltR; apply IHb]; assumption.
    + inversion H; subst; [apply LAltL; apply IHa|apply LAltR; apply IHb]; assumption.
  - split; intros H.
    + apply cat_inv in H. destruct H as [u [t [-> [Hu Ht]]]]. apply IHa in Hu.
      change (String c (u ++ t)) with (String c u ++ t). apply LStarS; assumption.
    + apply star_cons in H. destruct H as [u [t [-> [Hu Ht]]]]. constructor; [apply IHa; exact Hu|exact Ht].
Qed.

Theorem rx_match_lang r s : rx_match r s = true <-> lang r s.
Proof.
  revert r. induction s as [|c t IH]; intros r; simpl.
  - apply nullable_lang.
  - rewrite IH. apply deriv_lang.
Qed.
