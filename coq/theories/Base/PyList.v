(* Python list primitives with Python's index conventions made explicit.
   No totalised defaults: an out-of-range index assignment is [None]
   (Python raises IndexError), never a silently ignored write. *)
From Coq Require Import List ZArith Lia.
Import ListNotations.
Open Scope Z_scope.

Section PyList.
Context {X : Type}.

Definition zlen (l : list X) : Z := Z.of_nat (length l).

Fixpoint set_nth_nat (l : list X) (n : nat) (v : X) : option (list X) :=
  match l, n with
  | [], _ => None
  | _ :: xs, O => Some (v :: xs)
  | x :: xs, S k => match set_nth_nat xs k v with Some r => Some (x :: r) | None => None end
  end.

(* l[i] = v *)
Definition py_set_nth (l : list X) (i : Z) (v : X) : option (list X) :=
  let j := if i <? 0 then i + zlen l else i in
  if j <? 0 then None else set_nth_nat l (Z.to_nat j) v.

(* l[:n] *)
Definition py_slice_to (l : list X) (n : Z) : list X :=
  let j := if n <? 0 then Z.max 0 (n + zlen l) else n in
  firstn (Z.to_nat j) l.

(* l[n:] *)
Definition py_slice_from (l : list X) (n : Z) : list X :=
  let j := if n <? 0 then Z.max 0 (n + zlen l) else n in
  skipn (Z.to_nat j) l.

(* l.insert(i, v): clamps like CPython's ins1 *)
Definition py_insert (l : list X) (i : Z) (v : X) : list X :=
  let j := if i <? 0 then Z.max 0 (i + zlen l) else Z.min i (zlen l) in
  firstn (Z.to_nat j) l ++ v :: skipn (Z.to_nat j) l.

Lemma set_nth_nat_length l n v r : set_nth_nat l n v = Some r -> length r = length l.
Proof.
  revert n r; induction l as [|x xs IH]; intros n r H; simpl in H; [discriminate|].
  destruct n as [|k]; [inversion H; reflexivity|].
  destruct (set_nth_nat xs k v) as [r'|] eqn:E; [|discriminate].
  inversion H; subst; simpl; f_equal; eapply IH; eauto.
Qed.

Lemma set_nth_nat_some l n v : (n < length l)%nat -> exists r, set_nth_nat l n v = Some r.
Proof.
  revert n; induction l as [|x xs IH]; intros n H; simpl in *; [lia|].
  destruct n as [|k]; [eexists; reflexivity|].
  destruct (IH k) as [r Hr]; [lia|]. rewrite Hr; eexists; reflexivity.
Qed.

Lemma set_nth_nat_none l n v : (length l <= n)%nat -> set_nth_nat l n v = None.
Proof.
  revert n; induction l as [|x xs IH]; intros n H; simpl in *; [reflexivity|].
  destruct n as [|k]; [lia|]. rewrite IH; [reflexivity|lia].
Qed.

Lemma set_nth_nat_In l n v r y :
  set_nth_nat l n v = Some r -> In y r -> y = v \/ In y l.
Proof.
  revert n r; induction l as [|x xs IH]; intros n r H Hy; simpl in H; [discriminate|].
  destruct n as [|k].
  - inversion H; subst. destruct Hy as [->|Hy]; [left; reflexivity|right; right; exact Hy].
  - destruct (set_nth_nat xs k v) as [r'|] eqn:E; [|discriminate].
    inversion H; subst. destruct Hy as [->|Hy]; [right; left; reflexivity|].
    destruct (IH _ _ E Hy) as [->|Hin]; [left; reflexivity|right; right; exact Hin].
Qed.

Lemma py_set_nth_length l i v r : py_set_nth l i v = Some r -> length r = length l.
Proof.
  unfold py_set_nth; intros H.
  destruct ((if i <? 0 then i + zlen l else i) <? 0); [discriminate|].
  eapply set_nth_nat_length; eauto.
Qed.

Lemma py_set_nth_some l i v : 0 <= i < zlen l -> exists r, py_set_nth l i v = Some r.
Proof.
  unfold py_set_nth, zlen; intros H.
  destruct (i <? 0) eqn:E; [apply Z.ltb_lt in E; lia|].
  rewrite E. apply set_nth_nat_some. lia.
Qed.

Lemma py_set_nth_In l i v r y : py_set_nth l i v = Some r -> In y r -> y = v \/ In y l.
Proof.
  unfold py_set_nth; intros H.
  destruct ((if i <? 0 then i + zlen l else i) <? 0); [discriminate|].
  eapply set_nth_nat_In; eauto.
Qed.

Lemma py_slice_to_length l n : (length (py_slice_to l n) <= length l)%nat.
Proof. unfold py_slice_to. rewrite firstn_length. lia. Qed.

Lemma py_slice_to_length_le l n : 0 <= n -> zlen (py_slice_to l n) <= n.
Proof.
  unfold py_slice_to, zlen; intros H.
  destruct (n <? 0) eqn:E; [apply Z.ltb_lt in E; lia|].
  rewrite firstn_length. lia.
Qed.

Lemma firstn_In' (l : list X) k y : In y (firstn k l) -> In y l.
Proof.
  revert k; induction l as [|x xs IH]; intros k H; destruct k; simpl in *; try contradiction.
  destruct H as [->|H]; [left; reflexivity|right; eapply IH; eauto].
Qed.

Lemma py_slice_to_In l n y : In y (py_slice_to l n) -> In y l.
Proof. unfold py_slice_to. apply firstn_In'. Qed.

End PyList.
