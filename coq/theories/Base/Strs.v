(* Byte strings: Coq [string] holds the UTF-8 bytes of a Python str.  Splitting
   and joining on one ASCII character, prefix tests, ASCII upper-casing. *)
From Coq Require Import List String Ascii Bool Arith Lia.
Import ListNotations.
Local Open Scope string_scope.

Definition chr_eqb (a b : ascii) : bool := Ascii.eqb a b.

(* str.split(c) for a one-character separator: always at least one piece *)
Fixpoint split_on (c : ascii) (s : string) : list string :=
  match s with
  | EmptyString => [EmptyString]
  | String a r =>
      if chr_eqb a c then EmptyString :: split_on c r
      else match split_on c r with
           | [] => [String a EmptyString]          (* unreachable: split_on is never [] *)
           | p :: ps => String a p :: ps
           end
  end.

(* sep.join(l) *)
Fixpoint join (sep : string) (l : list string) : string :=
  match l with
  | [] => EmptyString
  | [x] => x
  | x :: r => x ++ sep ++ join sep r
  end.

Definition nonempty (s : string) : bool := match s with EmptyString => false | _ => true end.

Fixpoint str_contains_chr (c : ascii) (s : string) : bool :=
  match s with EmptyString => false | String a r => chr_eqb a c || str_contains_chr c r end.

Fixpoint ends_with_chr (c : ascii) (s : string) : bool :=
  match s with
  | EmptyString => false
  | String a EmptyString => chr_eqb a c
  | String _ r => ends_with_chr c r
  end.

Definition starts_with_chr (c : ascii) (s : string) : bool :=
  match s with String a _ => chr_eqb a c | EmptyString => false end.

Definition upper_chr (a : ascii) : ascii :=
  let n := nat_of_ascii a in
  if ((97 <=? n) && (n <=? 122))%nat then ascii_of_nat (n - 32) else a.

Fixpoint upper (s : string) : string :=
  match s with EmptyString => EmptyString | String a r => String (upper_chr a) (upper r) end.

Fixpoint mem_str (x : string) (l : list string) : bool :=
  match l with [] => false | y :: r => if String.eqb x y then true else mem_str x r end.

(* ---------------- lemmas ---------------- *)
Lemma split_on_nonnil c s : split_on c s <> [].
Proof.
  induction s as [|a r IH]; simpl; [discriminate|].
  destruct (chr_eqb a c); [discriminate|]. destruct (split_on c r); [contradiction|discriminate].
Qed.

Lemma split_on_cons c s : exists p ps, split_on c s = p :: ps.
Proof. destruct (split_on c s) as [|p ps] eqn:E; [exfalso; eapply split_on_nonnil; eauto|eauto]. Qed.

Lemma append_nil_r s : s ++ "" = s.
Proof. induction s as [|a r IH]; simpl; [reflexivity|rewrite IH; reflexivity]. Qed.

Lemma append_assoc (a b c : string) : (a ++ b) ++ c = a ++ (b ++ c).
Proof. induction a as [|x r IH]; simpl; [reflexivity|rewrite IH; reflexivity]. Qed.

(* no piece of a split contains the separator *)
Lemma split_on_no_sep c s : forall p, In p (split_on c s) -> str_contains_chr c p = false.
Proof.
  induction s as [|a r IH]; simpl; intros p Hp.
  - destruct Hp as [<-|[]]. reflexivity.
  - destruct (chr_eqb a c) eqn:E.
    + destruct Hp as [<-|Hp]; [reflexivity|apply IH; exact Hp].
    + destruct (split_on c r) as [|q qs] eqn:Eq; simpl in Hp.
      * destruct Hp as [<-|[]]. simpl. rewrite E. reflexivity.
      * destruct Hp as [<-|Hp].
        -- simpl. rewrite E. simpl. apply IH. left. reflexivity.
        -- apply IH. right. exact Hp.
Qed.

(* join inverts split *)
Lemma join_split c s : join (String c EmptyString) (split_on c s) = s.
Proof.
  induction s as [|a r IH]; simpl; [reflexivity|].
  destruct (chr_eqb a c) eqn:E.
  - apply Ascii.eqb_eq in E. subst a.
    destruct (split_on_cons c r) as [p [ps Hp]]. rewrite Hp in *. simpl. simpl in IH. rewrite IH. reflexivity.
  - destruct (split_on_cons c r) as [p [ps Hp]]. rewrite Hp in *.
    destruct ps as [|q qs]; simpl in *; rewrite IH; reflexivity.
Qed.

(* split inverts join on separator-free pieces *)
Lemma split_on_app_nosep c p s :
  str_contains_chr c p = false ->
  split_on c (p ++ String c s) = p :: split_on c s.
Proof.
  induction p as [|a r IH]; simpl; intros H.
  - unfold chr_eqb. rewrite Ascii.eqb_refl. reflexivity.
  - apply orb_false_iff in H. destruct H as [H1 H2]. rewrite H1. rewrite IH by exact H2. reflexivity.
Qed.

Lemma split_on_nosep c p : str_contains_chr c p = false -> split_on c p = [p].
Proof.
  induction p as [|a r IH]; simpl; intros H; [reflexivity|].
  apply orb_false_iff in H. destruct H as [H1 H2]. rewrite H1, IH by exact H2. reflexivity.
Qed.

Lemma split_join c l :
  l <> [] -> (forall p, In p l -> str_contains_chr c p = false) ->
  split_on c (join (String c EmptyString) l) = l.
Proof.
  induction l as [|x r IH]; intros Hn H; [contradiction|].
  destruct r as [|y r'].
  - simpl. apply split_on_nosep. apply H. left. reflexivity.
  - change (join (String c "") (x :: y :: r')) with (x ++ String c (join (String c "") (y :: r'))).
    rewrite split_on_app_nosep by (apply H; left; reflexivity).
    f_equal. apply IH; [discriminate|]. intros p Hp. apply H. right. exact Hp.
Qed.

Lemma mem_str_In x l : mem_str x l = true <-> In x l.
Proof.
  induction l as [|y r IH]; simpl; [split; [discriminate|tauto]|].
  destruct (String.eqb x y) eqn:E.
  - apply String.eqb_eq in E. subst. tauto.
  - apply String.eqb_neq in E. rewrite IH. split; [tauto|]. intros [H|H]; [congruence|exact H].
Qed.
