(* Python-level outcomes: every modelled function that mirrors code which can
   raise returns [result]; exceptions are identified by class name. *)
From Coq Require Import String.
Inductive result (X : Type) : Type :=
| Ok (x : X)
| Raise (cls : string).
Arguments Ok {X} x.
Arguments Raise {X} cls.

Definition rbind {X Y} (r : result X) (f : X -> result Y) : result Y :=
  match r with Ok x => f x | Raise c => Raise c end.

Definition is_ok {X} (r : result X) : bool := match r with Ok _ => true | Raise _ => false end.
