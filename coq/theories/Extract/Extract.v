(* Extraction of the executable models for the correspondence check.
   Directives used: ExtrOcamlBasic only (bool, option, list, prod, unit, sumbool
   map to OCaml's own; string/ascii/Z/N/positive/nat stay extracted inductives). *)
Require Extraction.
Require Import ExtrOcamlBasic.
From Coq Require Import String List.
From ClasticV Require Import Base.Sx Model.Stats Model.ChainIO Model.DispatchIO Model.DispatchMatchIO Model.MatchIO Model.WorldIO Model.StaticIO Model.MwIO Model.CookieIO Model.ErrorsIO Model.FlawIO Model.RenderIO Model.MetaIO Model.WsgiIO.
Local Open Scope string_scope.

Definition dispatch (tag : string) (s : sexp) : sexp :=
  if String.eqb tag "reservoir" then run_reservoir s
  else if String.eqb tag "stats" then run_stats s
  else if String.eqb tag "chainlab" then run_chainlab s
  else if String.eqb tag "dispatchlab" then run_dispatchlab s
  else if String.eqb tag "methodslab" then run_methodslab s
  else if String.eqb tag "normpath" then run_normpath s
  else if String.eqb tag "matchlab" then run_matchlab s
  else if String.eqb tag "routerx" then run_routerx s
  else if String.eqb tag "redirectlab" then run_redirectlab s
  else if String.eqb tag "worldlab" then run_worldlab s
  else if String.eqb tag "staticlab" then run_staticlab s
  else if String.eqb tag "gziplab" then run_gziplab s
  else if String.eqb tag "dispatchfull" then run_dispatchfull s
  else if String.eqb tag "cookielab" then run_cookielab s
  else if String.eqb tag "cookiehist" then run_cookiehist s
  else if String.eqb tag "errorlab" then run_errorlab s
  else if String.eqb tag "flawlab" then run_flawlab s
  else if String.eqb tag "renderlab" then run_renderlab s
  else if String.eqb tag "metalab" then run_metalab s
  else if String.eqb tag "wsgistack" then run_wsgistack s
  else if String.eqb tag "wsgimonitor" then run_wsgimonitor s
  else A "UNKNOWN-TAG".

Extraction Blacklist String List Nat Bool.
Extraction "model.ml" dispatch.
