From Coq Require Import List String Bool Arith Lia.
Import ListNotations.
From ClasticV Require Import Base.Py Base.FSet Gen.Tables Model.Chain.
Local Open Scope string_scope.
Local Open Scope list_scope.

(* ===================================================================== *)
(* Declarative specification of "resolvable" for one chain:
   every function's required parameters are available when it is reached;
   afterwards its provides become available to the functions inside it.  *)
Fixpoint chain_ok (fps : list (fsig * list name)) (avail : list name) : Prop :=
  match fps with
  | [] => True
  | (f, p) :: r => (forall x, In x (required f) -> In x avail) /\ chain_ok r (avail ++ p)
  end.

(* ---------- chain_argspec, characterised ---------- *)
Fixpoint needs (fps : list (fsig * list name)) (provided : list name) (x : name) : Prop :=
  match fps with
  | [] => False
  | (f, p) :: r => (In x (required f) /\ ~ In x provided) \/ needs r (provided ++ p) x
  end.

Lemma In_union x a b : In x (union a b) <-> In x a \/ In x b.
Proof. unfold union. apply in_app_iff. Qed.

Lemma In_diff x a b : In x (diff a b) <-> In x a /\ ~ In x b.
Proof.
  rewrite <- (mem_In x (diff a b)), mem_diff, andb_true_iff, negb_true_iff.
  rewrite mem_In, mem_false_In. tauto.
Qed.

Lemma In_inter x a b : In x (inter a b) <-> In x a /\ In x b.
Proof. rewrite <- !mem_In, mem_inter, andb_true_iff. tauto. Qed.

Lemma In_dedup x l : In x (dedup l) <-> In x l.
Proof. rewrite <- !mem_In, mem_dedup. tauto. Qed.

Lemma chain_argspec_req fps : forall provided opt req x,
  In x (fst (chain_argspec fps provided opt req)) <-> In x req \/ needs fps provided x.
Proof.
  induction fps as [|[f p] r IH]; intros provided opt req x; cbn [chain_argspec needs fst].
  - tauto.
  - rewrite IH, In_union, In_diff. unfold union. tauto.
Qed.

Definition some_optional (fps : list (fsig * list name)) (x : name) : Prop :=
  exists f p, In (f, p) fps /\ In x (optional f).

Lemma chain_argspec_opt fps : forall provided opt req x,
  In x (snd (chain_argspec fps provided opt req)) <-> In x opt \/ some_optional fps x.
Proof.
  induction fps as [|[f p] r IH]; intros provided opt req x; cbn [chain_argspec snd].
  - unfold some_optional. split; [tauto|]. intros [H|(f & p & [] & _)]; exact H.
  - rewrite IH, In_union. unfold some_optional. split.
    + intros [[H|H]|(f' & p' & Hin & Ho)]; [tauto| |].
      * right. exists f, p. split; [left; reflexivity|exact H].
      * right. exists f', p'. split; [right; exact Hin|exact Ho].
    + intros [H|(f' & p' & [Heq|Hin] & Ho)]; [tauto| |].
      * inversion Heq; subst. tauto.
      * right. exists f', p'. tauto.
Qed.

(* needs <-> failure of chain_ok, relative to what is pre-provided *)
Lemma chain_ok_needs fps : forall provided pre,
  chain_ok fps (pre ++ provided) <-> (forall x, needs fps provided x -> In x pre).
Proof.
  induction fps as [|[f p] r IH]; intros provided pre; cbn [chain_ok needs].
  - tauto.
  - rewrite <- app_assoc, IH. split.
    + intros [H1 H2] x [[Hr Hn]|Hn].
      * specialize (H1 x Hr). apply in_app_or in H1. tauto.
      * apply H2. exact Hn.
    + intros H. split.
      * intros x Hr. apply in_or_app.
        destruct (mem x provided) eqn:E; [right; apply mem_In; exact E|].
        left. apply H. left. split; [exact Hr|apply mem_false_In; exact E].
      * intros x Hn. apply H. right. exact Hn.
Qed.

(* ---------- make_chain ---------- *)
Definition fps_of (funcs : list (fid * fsig * list name)) (final : fid * fsig) : list (fsig * list name) :=
  map (fun x => (snd (fst x), snd x)) funcs ++ [(snd final, [])].

Lemma make_chain_unres funcs final pre :
  c_unres (make_chain funcs final pre) = [] <-> chain_ok (fps_of funcs final) (pre ++ [INNER_NAME]).
Proof.
  unfold make_chain. fold (fps_of funcs final).
  destruct (chain_argspec (fps_of funcs final) [INNER_NAME] [] []) as [reqs opts] eqn:E.
  cbn [c_unres]. rewrite chain_ok_needs.
  assert (forall x, In x reqs <-> needs (fps_of funcs final) [INNER_NAME] x) as Hreq.
  { intros x. pose proof (chain_argspec_req (fps_of funcs final) [INNER_NAME] [] [] x) as H.
    rewrite E in H. cbn [fst] in H. rewrite H. cbn [In]. tauto. }
  rewrite <- is_empty_spec, is_empty_diff. split; intros H x Hx; apply H; apply Hreq; exact Hx.
Qed.

Lemma make_chain_args funcs final pre x :
  In x (c_args (make_chain funcs final pre)) <->
  needs (fps_of funcs final) [INNER_NAME] x \/ (In x pre /\ some_optional (fps_of funcs final) x).
Proof.
  unfold make_chain. fold (fps_of funcs final).
  destruct (chain_argspec (fps_of funcs final) [INNER_NAME] [] []) as [reqs opts] eqn:E.
  cbn [c_args]. rewrite In_dedup, In_union, In_inter.
  pose proof (chain_argspec_req (fps_of funcs final) [INNER_NAME] [] [] x) as H1.
  pose proof (chain_argspec_opt (fps_of funcs final) [INNER_NAME] [] [] x) as H2.
  rewrite E in H1, H2. cbn [fst snd In] in H1, H2. tauto.
Qed.

Lemma make_chain_args_nodup funcs final pre : NoDup (c_args (make_chain funcs final pre)).
Proof.
  unfold make_chain. destruct (chain_argspec _ _ _ _) as [reqs opts]. cbn [c_args].
  generalize (union reqs (inter pre opts)). intros l.
  induction l as [|x r IH]; cbn [dedup]; [constructor|].
  destruct (mem x r) eqn:E; [exact IH|]. constructor; [|exact IH].
  rewrite In_dedup. apply mem_false_In. exact E.
Qed.

(* accepted chain: its level-0 parameters are all pre-provided *)
Lemma make_chain_args_pre funcs final pre x :
  c_unres (make_chain funcs final pre) = [] ->
  In x (c_args (make_chain funcs final pre)) -> In x pre.
Proof.
  intros Hu Hx. apply make_chain_unres in Hu. rewrite chain_ok_needs in Hu.
  apply make_chain_args in Hx. destruct Hx as [Hx|[Hx _]]; [apply Hu; exact Hx|exact Hx].
Qed.

(* ===================================================================== *)
(* make_middleware_chain: accepted iff the three phases are resolvable     *)
Definition mfps (fs : list (fid * fsig * list name)) : list (fsig * list name) :=
  map (fun x => (snd (fst x), snd x)) fs.
Definition provs (fs : list (fid * fsig * list name)) : list name := flat_map (fun x => snd x) fs.

Lemma chain_ok_app a : forall b avail,
  chain_ok (a ++ b) avail <-> chain_ok a avail /\ chain_ok b (avail ++ flat_map snd a).
Proof.
  induction a as [|[f p] r IH]; intros b avail; cbn [app chain_ok flat_map snd].
  - rewrite app_nil_r. tauto.
  - rewrite IH. rewrite <- app_assoc. tauto.
Qed.

Lemma flat_map_snd_mfps fs : flat_map snd (mfps fs) = provs fs.
Proof.
  unfold mfps, provs. induction fs as [|[[i f] p] r IH]; cbn; [reflexivity|]. rewrite IH. reflexivity.
Qed.

Lemma chain_ok_incl fps : forall a b, (forall x, In x a -> In x b) -> chain_ok fps a -> chain_ok fps b.
Proof.
  induction fps as [|[f p] r IH]; intros a b Hab; cbn [chain_ok]; [tauto|].
  intros [H1 H2]. split; [intros x Hx; apply Hab, H1, Hx|].
  eapply IH; [|exact H2]. intros x Hx. apply in_app_or in Hx. apply in_or_app.
  destruct Hx as [Hx|Hx]; [left; apply Hab; exact Hx|right; exact Hx].
Qed.

Definition req_avail_of (pre : list name) : list name := diff pre ["next"; "context"].

Record resolvable_mwc (ms : list mw) (endpoint render : fsig) (pre : list name) : Prop := {
  rs_req : chain_ok (mfps (phase_funcs PhReq ms)) (req_avail_of pre ++ [INNER_NAME]);
  rs_ep  : chain_ok (fps_of (phase_funcs PhEp ms) (FEndpoint, endpoint))
                    ((req_avail_of pre ++ provs (phase_funcs PhReq ms)) ++ [INNER_NAME]);
  rs_rn  : chain_ok (fps_of (phase_funcs PhRn ms) (FRender, render))
                    (((req_avail_of pre ++ provs (phase_funcs PhReq ms)) ++ ["context"]) ++ [INNER_NAME])
}.

Lemma required_proc args x : In x (required (mk_fsig args 0 [] [])) <-> In x args.
Proof.
  unfold required, arg_names. cbn [f_pos f_kwonly f_defaulted]. rewrite app_nil_r, In_diff. cbn [In]. tauto.
Qed.

Lemma mwc_accept_iff ms endpoint render pre :
  mem "next" (arg_names endpoint) = false ->
  mem "next" (arg_names render) = false ->
  ((exists p, make_middleware_chain ms endpoint render pre = Ok p) <-> resolvable_mwc ms endpoint render pre)
  /\ (forall c, make_middleware_chain ms endpoint render pre = Raise c -> c = "NameError").
Proof.
  intros He Hr. unfold make_middleware_chain. rewrite He, Hr.
  fold (req_avail_of pre).
  set (req_fs := phase_funcs PhReq ms).
  assert (flat_map (fun x : fid * fsig * list name => snd x) req_fs = provs req_fs) as -> by reflexivity.
  set (ep_avail := union (req_avail_of pre) (provs req_fs)).
  set (ep := make_chain (phase_funcs PhEp ms) (FEndpoint, endpoint) ep_avail).
  set (rn := make_chain (phase_funcs PhRn ms) (FRender, render) (union ep_avail ["context"])).
  set (req_args := dedup (diff (union (c_args ep) (c_args rn)) ["context"])).
  set (rq := make_chain req_fs (FProc, mk_fsig req_args 0 [] []) (req_avail_of pre)).
  pose proof (make_chain_unres (phase_funcs PhEp ms) (FEndpoint, endpoint) ep_avail) as Uep. fold ep in Uep.
  pose proof (make_chain_unres (phase_funcs PhRn ms) (FRender, render) (union ep_avail ["context"])) as Urn.
  fold rn in Urn.
  pose proof (make_chain_unres req_fs (FProc, mk_fsig req_args 0 [] []) (req_avail_of pre)) as Urq. fold rq in Urq.
  destruct (is_empty (c_unres ep)) eqn:E1; cbn [negb].
  2:{ split; [|intros c H; inversion H; reflexivity].
      split; [intros [p H]; discriminate H|].
      intros [_ H _]. apply Uep in H. rewrite <- is_empty_spec in H. congruence. }
  destruct (is_empty (c_unres rn)) eqn:E2; cbn [negb].
  2:{ split; [|intros c H; inversion H; reflexivity].
      split; [intros [p H]; discriminate H|].
      intros [_ _ H]. apply Urn in H. rewrite <- is_empty_spec in H. congruence. }
  apply is_empty_spec in E1. apply is_empty_spec in E2.
  (* the request chain: its last element process_request is always satisfied *)
  assert (chain_ok (fps_of req_fs (FProc, mk_fsig req_args 0 [] [])) (req_avail_of pre ++ [INNER_NAME])
          <-> chain_ok (mfps req_fs) (req_avail_of pre ++ [INNER_NAME])) as Hproc.
  { unfold fps_of. fold (mfps req_fs). rewrite chain_ok_app. cbn [chain_ok snd].
    split; [tauto|]. intros H. split; [exact H|]. split; [|exact I].
    intros x Hx. apply (proj1 (required_proc _ _)) in Hx. unfold req_args in Hx.
    rewrite In_dedup, In_diff, In_union in Hx. destruct Hx as [Hx Hnc].
    rewrite flat_map_snd_mfps. rewrite <- app_assoc. apply in_or_app.
    assert (In x ep_avail) as Hin.
    { destruct Hx as [Hx|Hx].
      - eapply make_chain_args_pre; [exact E1|exact Hx].
      - pose proof (make_chain_args_pre _ _ _ x E2 Hx) as H2.
        apply In_union in H2. destruct H2 as [H2|H2]; [exact H2|]. exfalso. apply Hnc. exact H2. }
    unfold ep_avail in Hin. apply In_union in Hin. destruct Hin as [Hin|Hin]; [left; exact Hin|].
    right. apply in_or_app. right. exact Hin. }
  destruct (is_empty (c_unres rq)) eqn:E3; cbn [negb].
  - apply is_empty_spec in E3. split; [|intros c H; discriminate H].
    split; [intros _|intros _; eexists; reflexivity].
    constructor.
    + apply Hproc, Urq, E3.
    + apply Uep, E1.
    + apply Urn in E2. exact E2.
  - split; [|intros c H; inversion H; reflexivity].
    split; [intros [p H]; discriminate H|].
    intros [H _ _]. apply Hproc, Urq in H. rewrite <- is_empty_spec in H. congruence.
Qed.
