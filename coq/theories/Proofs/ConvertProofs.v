(* build_converter's string operations on the text a binding group matched give exactly the token-level
   conversions of Model/Match.convert1 (C05 values_from_spans). *)
From Coq Require Import List String Ascii Bool Arith Lia.
Import ListNotations.
From ClasticV Require Import Base.Py Base.Strs Base.Rx Gen.RouteLex Model.Pattern Model.Match Model.RouteRx
     Proofs.MatchProofs Proofs.RouteRxProofs.
Local Open Scope list_scope.
Local Open Scope string_scope.
Local Open Scope nat_scope.

(* value.replace('/', '') *)
Fixpoint strip_slashes (s : string) : string :=
  match s with
  | EmptyString => ""
  | String c r => if chr_eqb c "/" then strip_slashes r else String c (strip_slashes r)
  end.

(* build_converter(converter, optional, multi)(value), transcribed: value is the text of the named group *)
Definition py_converter (b : binding) (text : string) : option value :=
  if b_multi b then
    if negb (nonempty text) && b_optional b then Some (VList [])
    else match conv_all (b_kind b) (tl (split_on "/" text)) with Some vs => Some (VList vs) | None => None end
  else
    if negb (nonempty text) && b_optional b then Some VNone
    else conv (b_kind b) (strip_slashes text).

Lemma strip_app a b : strip_slashes (a ++ b) = strip_slashes a ++ strip_slashes b.
Proof. induction a as [|c a IH]; simpl; [reflexivity|]. destruct (chr_eqb c "/"); simpl; rewrite IH; reflexivity. Qed.

Lemma strip_slashes_slashes n : strip_slashes (slashes n) = "".
Proof. induction n as [|n IH]; simpl; [reflexivity|exact IH]. Qed.

Lemma strip_clean s : str_contains_chr "/" s = false -> strip_slashes s = s.
Proof.
  induction s as [|c r IH]; simpl; [reflexivity|]. intros H. apply orb_false_elim in H. destruct H as [H1 H2].
  rewrite H1, (IH H2). reflexivity.
Qed.

Lemma concat_empty_sep l : String.concat "" l = cat_all l.
Proof.
  induction l as [|x r IH]; simpl; [reflexivity|]. destruct r as [|y r'].
  - simpl. rewrite append_nil_r. reflexivity.
  - rewrite IH. reflexivity.
Qed.

Lemma strip_render l : Forall tok_wf l -> strip_slashes (render l) = cat_all (map snd l).
Proof.
  induction 1 as [|[n s] r [_ [_ Hs]] _ IH]; simpl; [reflexivity|].
  simpl in Hs. rewrite !strip_app, strip_slashes_slashes, (strip_clean s Hs), IH. reflexivity.
Qed.

Lemma slash_led_render l : Forall tok_wf l -> slash_led (render l).
Proof.
  intros H. pose proof (slash_led_R l 0 H) as X. unfold R in X. simpl in X. rewrite append_nil_r in X. exact X.
Qed.

(* value.split('/')[1:] *)
Lemma pieces_render l : Forall tok_wf l -> T (render l) = pieces_of l.
Proof.
  induction 1 as [|[n s] r [Hn [_ Hs]] Hr IH]; [reflexivity|]. simpl in Hn, Hs.
  destruct n as [|n]; [lia|]. cbn [render fst snd slashes]. cbn [append]. rewrite T_slash.
  rewrite split_slashes. rewrite (split_seg s (render r) Hs (slash_led_render r Hr)). rewrite IH.
  cbn [pieces_of flat_map fst snd]. replace (S n - 1) with n by lia. rewrite <- app_assoc. reflexivity.
Qed.

Lemma render_nonempty l : Forall tok_wf l -> l <> [] -> nonempty (render l) = true.
Proof.
  intros H Hne. destruct l as [|[n s] r]; [congruence|]. inversion H as [|? ? [Hn _] _]; subst. simpl in Hn.
  destruct n; [lia|]. reflexivity.
Qed.

Theorem converter_on_span b l : Forall tok_wf l ->
  option_map (fun v => (b_name b, v)) (py_converter b (render l)) = convert1 (b, l).
Proof.
  intros Hwf. unfold py_converter, convert1. destruct l as [|t r].
  - simpl. destruct (b_multi b), (b_optional b); simpl; try reflexivity; destruct (conv (b_kind b) ""); reflexivity.
  - rewrite (render_nonempty (t :: r) Hwf) by discriminate. cbn [negb andb].
    destruct (b_multi b).
    + change (tl (split_on "/" (render (t :: r)))) with (T (render (t :: r))). rewrite (pieces_render _ Hwf).
      destruct (conv_all (b_kind b) (pieces_of (t :: r))); reflexivity.
    + rewrite (strip_render _ Hwf), concat_empty_sep. destruct (conv (b_kind b) (cat_all (map snd (t :: r)))); reflexivity.
Qed.

(* ---------------- BoundRoute.match_path, end to end ---------------- *)
From ClasticV Require Import Model.Backtrack Proofs.BacktrackProofs.

(* the text of a span: what lies between its start and its end *)
Definition take_prefix (a b : string) : string := substring 0 (String.length a - String.length b) a.

Lemma substring_prefix x y : substring 0 (String.length x) (x ++ y) = x.
Proof. induction x as [|c x IH]; simpl; [destruct y; reflexivity|]. rewrite IH. reflexivity. Qed.

Lemma take_prefix_app x y : take_prefix (x ++ y) y = x.
Proof.
  unfold take_prefix. rewrite length_app. replace (String.length x + String.length y - String.length y) with (String.length x) by lia.
  apply substring_prefix.
Qed.

(* groups = match.groupdict(); ret[name] = conv(groups[name]) for every binding; any conversion error: no match *)
Fixpoint convert_spans (es : list elem) (sps : list (string * string)) : option (list (string * value)) :=
  match es, sps with
  | [], _ => Some []
  | ELit _ :: r, _ :: sps' => convert_spans r sps'
  | EBind b :: r, sp :: sps' =>
      match py_converter b (take_prefix (fst sp) (snd sp)), convert_spans r sps' with
      | Some v, Some rest => Some ((b_name b, v) :: rest)
      | _, _ => None
      end
  | _ :: _, [] => None
  end.

Definition py_match_path (m : mmode) (p : pat) (path : string) : option (list (string * value)) :=
  match match_groups (groups m p) path with
  | None => None
  | Some sps => convert_spans (p_elems p) sps
  end.

Lemma R_split ts tr k : R ts tr = render (firstn k ts) ++ R (skipn k ts) tr.
Proof. unfold R. rewrite <- append_assoc, <- render_app, firstn_skipn. reflexivity. Qed.

Lemma convert_spans_assign tr es ts caps : assign es ts caps -> Forall tok_wf ts ->
  convert_spans es (spans tr es ts caps) = convert caps.
Proof.
  induction 1 as [|s r n t caps _ IH|b r ts k caps Hk Hc Hseg _ IH]; intros Hwf.
  - reflexivity.
  - cbn [spans convert_spans tl]. apply IH. inversion Hwf; assumption.
  - cbn [spans]. rewrite (firstn_length_le ts Hk). cbn [convert_spans fst snd convert].
    rewrite (R_split ts tr k) at 1. rewrite take_prefix_app.
    pose proof (converter_on_span b (firstn k ts) (Forall_firstn _ k ts Hwf)) as Hcv.
    rewrite (IH (Forall_skipn _ k ts Hwf)).
    rewrite <- Hcv. destruct (py_converter b (render (firstn k ts))) as [v|]; cbn [option_map]; [|reflexivity].
    destruct (convert caps); reflexivity.
Qed.

Theorem py_match_path_is_match_path s p m path : parse_pattern s = Ok p ->
  py_match_path m p path = match_path m p path.
Proof.
  intros Hp. unfold py_match_path, match_path. rewrite (engine_captures s p m path Hp).
  destruct (tokenise path) as [[ts tr]|] eqn:Et; [|reflexivity].
  destruct (mode_ok m p ts tr); [|reflexivity].
  destruct (gmatch (p_elems p) ts) as [caps|] eqn:Eg; [|reflexivity].
  apply convert_spans_assign; [apply gmatch_sound; exact Eg|]. destruct (tokenise_inv path ts tr Et). assumption.
Qed.
