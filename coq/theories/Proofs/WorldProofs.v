From Coq Require Import List String Ascii Bool Arith ZArith Lia.
Import ListNotations.
From ClasticV Require Import Base.Py Base.Strs Base.PyList Model.Pattern Model.Dispatch Model.World.
Local Open Scope string_scope.
Local Open Scope list_scope.

(* ---------------- add(): the insert loop is one contiguous splice ---------------- *)
Lemma py_insert_nonneg {X} (l : list X) (i : Z) (v : X) :
  (0 <= i)%Z ->
  py_insert l i v = firstn (Z.to_nat (Z.min i (zlen l))) l ++ v :: skipn (Z.to_nat (Z.min i (zlen l))) l.
Proof.
  intros H. unfold py_insert. destruct (i <? 0)%Z eqn:E; [apply Z.ltb_lt in E; lia|]. reflexivity.
Qed.

Lemma insert_all_splice {X} (news : list X) : forall (rs : list X) (j : Z),
  (0 <= j)%Z ->
  insert_all rs j news =
  firstn (Z.to_nat (Z.min j (zlen rs))) rs ++ news ++ skipn (Z.to_nat (Z.min j (zlen rs))) rs.
Proof.
  induction news as [|n r IH]; intros rs j Hj.
  - simpl. rewrite firstn_skipn. reflexivity.
  - cbn [insert_all]. rewrite IH by lia. rewrite py_insert_nonneg by exact Hj.
    set (k := Z.to_nat (Z.min j (zlen rs))).
    assert (Hk : (k <= List.length rs)%nat) by (unfold k, zlen; lia).
    assert (Hlen : zlen (firstn k rs ++ n :: skipn k rs) = (zlen rs + 1)%Z).
    { unfold zlen. rewrite app_length. simpl. rewrite firstn_length, skipn_length. lia. }
    rewrite Hlen.
    assert (Hsk : Z.to_nat (Z.min (j + 1) (zlen rs + 1)) = S k).
    { unfold k. clear - Hj. pose proof (Z.min_spec j (zlen rs)) as M1. pose proof (Z.min_spec (j + 1) (zlen rs + 1)) as M2.
      assert (0 <= zlen rs)%Z by (unfold zlen; lia). lia. }
    rewrite Hsk.
    assert (Hf : List.length (firstn k rs) = k) by (rewrite firstn_length; lia).
    replace (firstn (S k) (firstn k rs ++ n :: skipn k rs)) with (firstn k rs ++ [n]).
    2:{ rewrite firstn_app. rewrite Hf. replace (S k - k)%nat with 1%nat by lia.
        rewrite (firstn_all2 (n:=S k) (firstn k rs)) by lia. reflexivity. }
    replace (skipn (S k) (firstn k rs ++ n :: skipn k rs)) with (skipn k rs).
    2:{ rewrite skipn_app. rewrite Hf. replace (S k - k)%nat with 1%nat by lia.
        rewrite (skipn_all2 (n:=S k) (firstn k rs)) by lia. reflexivity. }
    rewrite <- app_assoc. reflexivity.
Qed.

Lemma add_index_nonneg {X} (rs : list X) index : (0 <= add_index rs index)%Z.
Proof. unfold add_index, zlen. destruct index as [i|]; [destruct (i <? 0)%Z eqn:E; [lia|apply Z.ltb_ge in E; lia]|lia]. Qed.

Theorem add_splice {X} (rs : list X) index news : add_routes rs index news = splice rs index news.
Proof. unfold add_routes, splice. apply insert_all_splice. apply add_index_nonneg. Qed.

(* contiguous, in order, everything else keeps its relative order *)
Theorem splice_shape {X} (rs : list X) index news :
  exists a b, rs = a ++ b /\ splice rs index news = a ++ news ++ b.
Proof.
  unfold splice. eexists _, _. split; [|reflexivity]. symmetry. apply firstn_skipn.
Qed.

(* ---------------- a failing operation is the identity; other applications are untouched ---------------- *)
Theorem failed_op_identity w op w' c : wstep w op = (w', WFail c) -> w' = w.
Proof.
  unfold wstep. destruct op as [env es|t e idx|t p s rb inh idx].
  - destruct (bind_entries env es []); intros H; inversion H; reflexivity.
  - destruct (wget w t) as [[env rs]|]; [|discriminate].
    destruct (bind_entry env e); intros H; inversion H; reflexivity.
  - destruct (wget w t) as [[env rs]|]; [|intros H; inversion H].
    destruct (wget w s) as [[senv srcs]|]; [|intros H; inversion H].
    destruct (all_ok _); intros H; inversion H; reflexivity.
Qed.

Lemma wget_wset_other w id v id' : id' <> id -> wget (wset w id v) id' = wget w id'.
Proof.
  intros Hne. induction w as [|[k x] r IH]; simpl.
  - destruct (Nat.eqb id id') eqn:E; [apply Nat.eqb_eq in E; congruence|reflexivity].
  - destruct (Nat.eqb k id) eqn:E1; simpl.
    + apply Nat.eqb_eq in E1. subst. destruct (Nat.eqb id id') eqn:E2; [apply Nat.eqb_eq in E2; congruence|reflexivity].
    + destruct (Nat.eqb k id'); [reflexivity|exact IH].
Qed.

Definition op_target (op : wop) : nat :=
  match op with ONew env _ => a_id env | OAdd t _ _ => t | OEmbed t _ _ _ _ _ => t end.

Theorem frame w op w' o id : wstep w op = (w', o) -> id <> op_target op -> wget w' id = wget w id.
Proof.
  unfold wstep. destruct op as [env es|t e idx|t p s rb inh idx]; simpl; intros H Hne.
  - destruct (bind_entries env es []); inversion H; subst; [apply wget_wset_other; exact Hne|reflexivity].
  - destruct (wget w t) as [[env rs]|]; [|inversion H; reflexivity].
    destruct (bind_entry env e); inversion H; subst; [apply wget_wset_other; exact Hne|reflexivity].
  - destruct (wget w t) as [[env rs]|]; [|inversion H; reflexivity].
    destruct (wget w s) as [[senv srcs]|]; [|inversion H; reflexivity].
    destruct (all_ok _); inversion H; subst; [apply wget_wset_other; exact Hne|reflexivity].
Qed.

(* embedding application A in B reads A's routes and never writes them *)
Theorem embed_source_untouched w t p s rb inh idx w' o :
  wstep w (OEmbed t p s rb inh idx) = (w', o) -> s <> t -> wget w' s = wget w s.
Proof. intros H Hne. eapply frame; [exact H|exact Hne]. Qed.

(* the successful add is the splice specification *)
Theorem add_is_splice w t e idx env rs bs :
  wget w t = Some (env, rs) -> bind_entry env e = Ok bs ->
  wstep w (OAdd t e idx) = (wset w t (env, splice rs idx bs), WOk).
Proof. intros H1 H2. unfold wstep. rewrite H1, H2, add_splice. reflexivity. Qed.

(* ---------------- entries are bound independently of each other ---------------- *)
Lemma bind_entries_acc a es : forall acc,
  bind_entries a es acc = match bind_entries a es [] with Ok l => Ok (acc ++ l) | Raise c => Raise c end.
Proof.
  induction es as [|e r IH]; intros acc; simpl.
  - rewrite app_nil_r. reflexivity.
  - destruct (bind_entry a e) as [bs|c]; [|reflexivity].
    rewrite (IH (acc ++ bs)), (IH bs).
    destruct (bind_entries a r []); [rewrite app_assoc; reflexivity|reflexivity].
Qed.

Theorem bind_entries_app a es1 es2 l :
  bind_entries a (es1 ++ es2) [] = Ok l ->
  exists l1 l2, bind_entries a es1 [] = Ok l1 /\ bind_entries a es2 [] = Ok l2 /\ l = l1 ++ l2.
Proof.
  revert l. induction es1 as [|e r IH]; intros l H.
  - exists [], l. simpl in *. auto.
  - simpl in H. destruct (bind_entry a e) as [bs|c] eqn:Eb; [|discriminate].
    rewrite bind_entries_acc in H. destruct (bind_entries a (r ++ es2) []) as [l'|] eqn:E; [|discriminate].
    inversion H; subst. destruct (IH l' eq_refl) as [l1 [l2 [H1 [H2 ->]]]].
    exists (bs ++ l1), l2. split.
    + simpl. rewrite Eb. rewrite bind_entries_acc, H1. reflexivity.
    + split; [exact H2|]. simpl. rewrite app_assoc. reflexivity.
Qed.

(* routes outside an embedding are bound exactly as without it *)
Theorem outside_embedding_unaffected a es1 sub es2 l :
  bind_entries a (es1 ++ sub :: es2) [] = Ok l ->
  exists l1 ls l2, l = l1 ++ ls ++ l2 /\ bind_entries a (es1 ++ es2) [] = Ok (l1 ++ l2) /\ bind_entry a sub = Ok ls.
Proof.
  intros H. apply bind_entries_app in H. destruct H as [l1 [l2' [H1 [H2 ->]]]].
  simpl in H2. destruct (bind_entry a sub) as [ls|] eqn:Es; [|discriminate].
  rewrite bind_entries_acc in H2. destruct (bind_entries a es2 []) as [l2|] eqn:E2; [|discriminate].
  inversion H2; subst. exists l1, ls, l2. split; [reflexivity|]. split; [|reflexivity].
  clear -H1 E2. revert l1 H1. induction es1 as [|e r IH]; intros l1 H1.
  - simpl in *. inversion H1; subst. exact E2.
  - simpl in *. destruct (bind_entry a e) as [bs|]; [|discriminate]. rewrite bind_entries_acc in H1.
    destruct (bind_entries a r []) as [lr|] eqn:Er; [|discriminate]. inversion H1; subst.
    rewrite bind_entries_acc. rewrite (IH lr eq_refl). simpl. rewrite app_assoc. reflexivity.
Qed.

(* ---------------- resources: who wins ---------------- *)
Lemma lookup_assoc_set k v l n :
  lookup n (assoc_set k v l) = if String.eqb n k then Some v else lookup n l.
Proof.
  induction l as [|[k' v'] r IH]; simpl.
  - reflexivity.
  - destruct (String.eqb k k') eqn:E1; simpl.
    + apply String.eqb_eq in E1. subst. destruct (String.eqb n k'); reflexivity.
    + destruct (String.eqb n k') eqn:E2.
      * apply String.eqb_eq in E2. subst. destruct (String.eqb k' k) eqn:E3; [|reflexivity].
        apply String.eqb_eq in E3. subst. rewrite String.eqb_refl in E1. discriminate.
      * exact IH.
Qed.

(* rightmost entry of [upd] for the name wins, else the base *)
Lemma lookup_dict_update upd : forall base n,
  lookup n (dict_update base upd) = match lookup n (rev upd) with Some v => Some v | None => lookup n base end.
Proof.
  unfold dict_update. induction upd as [|[k v] r IH]; intros base n; [reflexivity|].
  cbn [fold_left fst snd]. rewrite IH. rewrite lookup_assoc_set. simpl rev.
  assert (Happ : forall a b, lookup n (a ++ b) = match lookup n a with Some x => Some x | None => lookup n b end).
  { induction a as [|[k1 v1] a' IHa]; intros b0; simpl; [reflexivity|]. destruct (String.eqb n k1); [reflexivity|apply IHa]. }
  rewrite Happ. destruct (lookup n (rev r)); [reflexivity|]. simpl. destruct (String.eqb n k); reflexivity.
Qed.

(* what a request served by application [a] injects for name n on a bound route:
   dispatch's base params (the serving application's resources) override the route's own *)
Definition request_value (a : appenv) (b : bound) (n : name) : option nat :=
  lookup n (dict_update (b_resources b) (a_resources a)).

Theorem serving_app_wins a b n v :
  lookup n (rev (a_resources a)) = Some v -> request_value a b n = Some v.
Proof. intros H. unfold request_value. rewrite lookup_dict_update, H. reflexivity. Qed.

Theorem inner_value_visible a b n :
  lookup n (rev (a_resources a)) = None -> request_value a b n = lookup n (b_resources b).
Proof. intros H. unfold request_value. rewrite lookup_dict_update, H. reflexivity. Qed.

(* ---------------- middleware order across levels ---------------- *)
Inductive sublist {X} : list X -> list X -> Prop :=
| SL_nil : sublist [] []
| SL_skip x l1 l2 : sublist l1 l2 -> sublist l1 (x :: l2)
| SL_keep x l1 l2 : sublist l1 l2 -> sublist (x :: l1) (x :: l2).

Lemma sublist_refl {X} (l : list X) : sublist l l.
Proof. induction l; constructor; assumption. Qed.

Lemma merge_into_shape old : forall merged res,
  merge_into merged old = Ok res -> exists kept, res = merged ++ kept /\ sublist kept old.
Proof.
  induction old as [|m r IH]; intros merged res H; simpl in H.
  - inversion H; subst. exists []. rewrite app_nil_r. split; [reflexivity|constructor].
  - destruct (w_unique m && existsb (fun x => Nat.eqb (w_type x) (w_type m)) merged).
    + destruct (w_reorderable m); [|discriminate]. apply IH in H. destruct H as [k [-> Hs]].
      exists k. split; [reflexivity|constructor; exact Hs].
    + apply IH in H. destruct H as [k [-> Hs]]. exists (m :: k). rewrite <- app_assoc. split; [reflexivity|].
      apply SL_keep. exact Hs.
Qed.

(* binding a route into an inner and then an outer application: outer list, then
   (a subsequence of) the inner list, then (a subsequence of) the route's own *)
Theorem three_level_order route_mws inner_mws outer_mws l1 l2 :
  merge_mws route_mws inner_mws = Ok l1 -> merge_mws l1 outer_mws = Ok l2 ->
  exists ki kr, l2 = outer_mws ++ ki ++ kr /\ sublist ki inner_mws /\ sublist kr route_mws.
Proof.
  unfold merge_mws. intros H1 H2.
  apply merge_into_shape in H1. destruct H1 as [k1 [-> Hs1]].
  apply merge_into_shape in H2. destruct H2 as [k2 [-> Hs2]].
  (* k2 is a subsequence of inner_mws ++ k1: split it *)
  assert (Hsplit : forall (a b k : list wmw), sublist k (a ++ b) -> exists ka kb, k = ka ++ kb /\ sublist ka a /\ sublist kb b).
  { induction a as [|x a' IHa]; intros b0 k Hk.
    - exists [], k. repeat split; [constructor|exact Hk].
    - simpl in Hk. inversion Hk as [|y l1' l2' Hk'|y l1' l2' Hk']; subst.
      + destruct (IHa _ _ Hk') as [ka [kb [-> [Ha Hb]]]]. exists ka, kb. repeat split; [constructor; exact Ha|exact Hb].
      + destruct (IHa _ _ Hk') as [ka [kb [-> [Ha Hb]]]]. exists (x :: ka), kb. repeat split; [apply SL_keep; exact Ha|exact Hb]. }
  destruct (Hsplit _ _ _ Hs2) as [ki [kr [-> [Hi Hr]]]].
  exists ki, kr. split; [reflexivity|]. split; [exact Hi|].
  (* sublist is transitive *)
  assert (Htrans : forall (a b c : list wmw), sublist a b -> sublist b c -> sublist a c).
  { intros a b0 c Hab Hbc. revert a Hab. induction Hbc as [|x l1' l2' Hbc IHbc|x l1' l2' Hbc IHbc]; intros a Hab.
    - exact Hab.
    - constructor. apply IHbc. exact Hab.
    - inversion Hab; subst; [apply SL_skip; apply IHbc; assumption|apply SL_keep; apply IHbc; assumption]. }
  eapply Htrans; eauto.
Qed.

(* ---------------- prefix, slash mode, handler of a re-bound route ---------------- *)
Theorem rebind_fields b facs a prefix inh rb b' :
  rebind_bound b facs a prefix inh rb = Ok b' ->
  b_pattern b' = String.append prefix (b_pattern b) /\
  b_mode b' = (if inh then a_mode a else b_mode b) /\
  b_rerr b' = a_handler a /\ b_key b' = b_key b /\ b_methods b' = b_methods b /\
  b_apps b' = b_apps b ++ [a_id a] /\
  b_resources b' = dict_update (a_resources a) (b_resources b) /\
  merge_mws (b_mws b) (a_mws a) = Ok (b_mws b').
Proof.
  unfold rebind_bound. destruct (url_names _); [|discriminate].
  destruct (merge_mws (b_mws b) (a_mws a)) as [mws|]; [|discriminate].
  destruct (resolve_render _ _ _ _ _ _ _) as [rn fac].
  destruct (needs_ok _ _ _ _); [|discriminate]. intros H. inversion H; subst. simpl. repeat split; reflexivity.
Qed.

(* ---------------- nested merging = ONE keep-first pass over the flat list ---------------- *)
(* merge_into acc l is a left-to-right pass that appends each element of l to acc unless it is a unique type already
   present (then: skipped if reorderable, ValueError otherwise).  Embedding merges twice - the route's list into
   the inner application's, the result into the outer one's; the flat declaration merges once.  They agree. *)
Lemma merge_into_app a : forall acc b,
  merge_into acc (a ++ b) = match merge_into acc a with Ok acc' => merge_into acc' b | Raise c => Raise c end.
Proof.
  induction a as [|m r IH]; intros acc b; cbn [app merge_into]; [reflexivity|].
  destruct (w_unique m && existsb (fun x => Nat.eqb (w_type x) (w_type m)) acc).
  - destruct (w_reorderable m); [apply IH|reflexivity].
  - apply IH.
Qed.

Definition has_wtype (t : nat) (l : list wmw) : bool := existsb (fun x => Nat.eqb (w_type x) t) l.

Lemma has_wtype_app t a b : has_wtype t (a ++ b) = has_wtype t a || has_wtype t b.
Proof. unfold has_wtype. apply existsb_app. Qed.

(* every type of the accumulator and of the merged list is present in the result *)
Lemma merge_into_types l : forall acc res t, merge_into acc l = Ok res ->
  has_wtype t res = has_wtype t acc || has_wtype t l.
Proof.
  induction l as [|m r IH]; intros acc res t H; cbn [merge_into] in H.
  - inversion H; subst. cbn. rewrite orb_false_r. reflexivity.
  - destruct (w_unique m && existsb (fun x => Nat.eqb (w_type x) (w_type m)) acc) eqn:E.
    + destruct (w_reorderable m); [|discriminate]. rewrite (IH _ _ t H).
      apply andb_prop in E. destruct E as [_ E].
      unfold has_wtype. cbn [existsb].
      destruct (Nat.eqb (w_type m) t) eqn:Et; cbn [orb]; [|reflexivity].
      apply Nat.eqb_eq in Et. subst t. rewrite E. reflexivity.
    + rewrite (IH _ _ t H), has_wtype_app. cbn [has_wtype existsb]. rewrite orb_false_r, orb_assoc. reflexivity.
Qed.

(* the heart: merging [route] into [inner_acc] and the result into [outer] is merging [route] into (outer merged with inner_acc) *)
Lemma merge_nested_step outer route : forall inner_acc flat_acc,
  merge_into outer inner_acc = Ok flat_acc ->
  match merge_into inner_acc route with
  | Ok l1 => merge_into outer l1
  | Raise c => Raise c
  end = merge_into flat_acc route.
Proof.
  induction route as [|m r IH]; intros inner_acc flat_acc Hf; cbn [merge_into].
  - exact Hf.
  - pose proof (merge_into_types inner_acc outer flat_acc (w_type m) Hf) as Ht. unfold has_wtype in Ht.
    destruct (w_unique m) eqn:Eu; cbn [andb].
    + destruct (existsb (fun x => Nat.eqb (w_type x) (w_type m)) inner_acc) eqn:Ei.
      * (* skipped (or refused) already at the inner level: the flat accumulator has the type too *)
        rewrite Ht; rewrite ?Ei, ?orb_true_r. destruct (w_reorderable m); [apply IH; exact Hf|reflexivity].
      * (* kept at the inner level *)
        rewrite Ht; rewrite ?Ei, ?orb_false_r.
        destruct (existsb (fun x => Nat.eqb (w_type x) (w_type m)) outer) eqn:Eo.
        -- (* present in the outer list: dropped when merging into it *)
           destruct (w_reorderable m) eqn:Er.
           ++ apply IH. rewrite merge_into_app, Hf. cbn [merge_into]. rewrite Eu. cbn [andb].
              rewrite Ht; rewrite ?Ei, ?Eo; cbn [orb]; rewrite ?Er; reflexivity.
           ++ (* the nested merge fails when it reaches m in the second pass *)
              destruct (merge_into (inner_acc ++ [m]) r) as [l1|c] eqn:E1.
              ** destruct (merge_into_shape r (inner_acc ++ [m]) l1 E1) as [k [-> _]].
                 rewrite <- app_assoc. rewrite merge_into_app, Hf. cbn [app merge_into]. rewrite Eu. cbn [andb].
                 rewrite Ht; rewrite ?Ei, ?Eo; cbn [orb]; rewrite ?Er; reflexivity.
              ** (* both fail; the classes agree: ValueError is the only one *)
                 clear -E1. revert E1. generalize (inner_acc ++ [m]). induction r as [|x r IHr]; intros acc E1; cbn [merge_into] in E1; [discriminate|].
                 destruct (w_unique x && existsb (fun y => Nat.eqb (w_type y) (w_type x)) acc).
                 --- destruct (w_reorderable x); [apply (IHr acc); exact E1|inversion E1; reflexivity].
                 --- apply (IHr (acc ++ [x])). exact E1.
        -- apply IH. rewrite merge_into_app, Hf. cbn [merge_into]. rewrite Eu. cbn [andb]. rewrite Ht; rewrite ?Ei, ?Eo; reflexivity.
    + apply IH. rewrite merge_into_app, Hf. cbn [merge_into]. rewrite Eu. reflexivity.
Qed.

(* C10: the middleware list of a route embedded through an inner application into an outer one is the ONE flat
   keep-first pass over  outer ++ inner ++ route  (each application's own list taken as it is) - success and failure alike *)
Theorem nested_merge_is_flat route_mws inner_mws outer_mws :
  match merge_mws route_mws inner_mws with
  | Ok l1 => merge_mws l1 outer_mws
  | Raise c => Raise c
  end =
  match merge_into outer_mws inner_mws with
  | Ok acc => merge_into acc route_mws
  | Raise c => Raise "ValueError"
  end.
Proof.
  unfold merge_mws.
  destruct (merge_into outer_mws inner_mws) as [acc|c] eqn:Ef.
  - apply merge_nested_step. exact Ef.
  - (* the outer/inner merge itself fails: so does the nested one, whatever the route adds *)
    destruct (merge_into inner_mws route_mws) as [l1|c1] eqn:E1.
    + destruct (merge_into_shape route_mws inner_mws l1 E1) as [k [-> _]].
      rewrite merge_into_app, Ef.
      clear -Ef. revert Ef. generalize outer_mws. induction inner_mws as [|x r IHr]; intros acc Ef; cbn [merge_into] in Ef; [discriminate|].
      destruct (w_unique x && existsb (fun y => Nat.eqb (w_type y) (w_type x)) acc).
      * destruct (w_reorderable x); [apply (IHr acc); exact Ef|inversion Ef; reflexivity].
      * apply (IHr (acc ++ [x])). exact Ef.
    + clear -E1. revert E1. generalize inner_mws. induction route_mws as [|x r IHr]; intros acc E1; cbn [merge_into] in E1; [discriminate|].
      destruct (w_unique x && existsb (fun y => Nat.eqb (w_type y) (w_type x)) acc).
      * destruct (w_reorderable x); [apply (IHr acc); exact E1|inversion E1; reflexivity].
      * apply (IHr (acc ++ [x])). exact E1.
Qed.

(* ---------------- embedding inserts EVERY route of the embedded application, in its order ---------------- *)
Lemma all_ok_map_keys {X Y} (f : X -> result Y) (kx : X -> nat) (ky : Y -> nat) :
  (forall x y, f x = Ok y -> ky y = kx x) ->
  forall l l', all_ok (map f l) = Ok l' -> map ky l' = map kx l.
Proof.
  intros Hk. induction l as [|x r IH]; intros l' H; simpl in H.
  - inversion H. reflexivity.
  - destruct (f x) as [y|c] eqn:Ef; [|discriminate].
    destruct (all_ok (map f r)) as [ys|c]; [|discriminate]. inversion H; subst. simpl.
    rewrite (Hk x y Ef). f_equal. apply IH. reflexivity.
Qed.

Theorem embed_is_splice_of_all w t p s rb inh idx env rs senv srcs w' :
  wget w t = Some (env, rs) -> wget w s = Some (senv, srcs) ->
  wstep w (OEmbed t p s rb inh idx) = (w', WOk) ->
  exists bs, w' = wset w t (env, splice rs idx bs) /\
             map (fun x => b_key (fst x)) bs = map (fun x => b_key (fst x)) srcs /\
             List.length bs = List.length srcs.
Proof.
  intros Ht Hs. unfold wstep. rewrite Ht, Hs.
  destruct (all_ok _) as [bs|c] eqn:Ea; intros H; inversion H; subst.
  exists bs. split; [rewrite add_splice; reflexivity|].
  assert (Hk : map (fun x : bound * list (option nat) => b_key (fst x)) bs = map (fun x => b_key (fst x)) srcs).
  { eapply all_ok_map_keys; [|exact Ea]. intros x y Hf. cbn beta in Hf.
    destruct (rebind_bound (fst x) (snd x) env (rstrip_slash p) inh rb) as [b|c] eqn:Er; [|discriminate].
    inversion Hf; subst. cbn [fst]. destruct (rebind_fields _ _ _ _ _ _ _ Er) as (_ & _ & _ & Hkey & _). exact Hkey. }
  split; [exact Hk|]. rewrite <- (map_length (fun x => b_key (fst x)) bs), Hk, map_length. reflexivity.
Qed.
