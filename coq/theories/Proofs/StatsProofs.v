From Coq Require Import List ZArith String Bool Lia.
Import ListNotations.
From ClasticV Require Import Base.PyList Base.Py Base.Sx Gen.ReservoirGen Model.Stats.
Open Scope Z_scope.

(* ---------- rnd_of stays inside the requested interval ---------- *)
Lemma rnd_of_range r a b : a <= b -> a <= rnd_of r a b <= b.
Proof.
  intros H. unfold rnd_of.
  destruct (b + 1 - a <=? 0) eqn:E; [apply Z.leb_le in E; lia|].
  apply Z.leb_gt in E.
  pose proof (Z.mod_pos_bound r (b + 1 - a) ltac:(lia)). lia.
Qed.

(* every value of the interval is reached by some raw random integer *)
Lemma rnd_of_surj a b x : a <= x <= b -> exists r, rnd_of r a b = x.
Proof.
  intros H. exists (x - a). unfold rnd_of.
  destruct (b + 1 - a <=? 0) eqn:E; [apply Z.leb_le in E; lia|].
  rewrite Z.mod_small; lia.
Qed.

Ltac rs := cbn [_total_count _data _cap upd_total_count upd_data upd_cap].

(* ---------- one-step facts about the generated functions, generic in V ---------- *)
Section Generic.
Context {V : Type}.
Implicit Types (s : @rstate V).

Definition RInv s : Prop := 0 <= _cap s /\ zlen (_data s) <= _cap s /\ 0 <= _total_count s.

Lemma zlen_app (l : list V) x : zlen (l ++ [x]) = zlen l + 1.
Proof. unfold zlen. rewrite app_length. simpl. lia. Qed.

Lemma add_ok s v rnd :
  RInv s -> (forall a b, a <= b -> a <= rnd a b <= b) ->
  exists s', add s v rnd = Ok s' /\ RInv s' /\ _cap s' = _cap s /\
             _total_count s' = _total_count s + 1 /\
             (forall y, In y (_data s') -> y = v \/ In y (_data s)).
Proof.
  intros (Hc & Hl & Ht) Hr. unfold add, RInv. rs.
  destruct (zlen (_data s) <? _cap s) eqn:E.
  - apply Z.ltb_lt in E. eexists; split; [reflexivity|].
    rs. rewrite zlen_app.
    repeat split; try lia.
    intros y Hy. apply in_app_or in Hy. destruct Hy as [Hy|[->|[]]]; auto.
  - apply Z.ltb_ge in E.
    set (idx := rnd 0 (_total_count s + 1)).
    pose proof (Hr 0 (_total_count s + 1) ltac:(lia)) as Hidx. fold idx in Hidx.
    destruct (idx <? _cap s) eqn:E2.
    + apply Z.ltb_lt in E2.
      destruct (py_set_nth_some (_data s) idx v ltac:(lia)) as [l Hl'].
      rewrite Hl'. eexists; split; [reflexivity|].
      rs.
      pose proof (py_set_nth_length _ _ _ _ Hl') as Hlen.
      repeat split; try lia.
      * unfold zlen in *. rewrite Hlen. lia.
      * intros y Hy. eapply py_set_nth_In; eauto.
    + eexists; split; [reflexivity|]. rs.
      repeat split; try lia. auto.
Qed.

Lemma resize_ok_step s n :
  RInv s -> 0 <= n ->
  exists s', resize s n = Ok s' /\ RInv s' /\ _cap s' = n /\
             _total_count s' = _total_count s /\
             (forall y, In y (_data s') -> In y (_data s)).
Proof.
  intros (Hc & Hl & Ht) Hn. unfold resize, RInv. rs.
  destruct (n >=? zlen (_data s)) eqn:E.
  - eexists; split; [reflexivity|]. cbn. apply Z.geb_le in E. repeat split; try lia. auto.
  - eexists; split; [reflexivity|]. rs.
    pose proof (py_slice_to_length_le (_data s) n Hn).
    repeat split; try lia. intros y. apply py_slice_to_In.
Qed.

(* append branch: while below capacity nothing is dropped *)
Lemma add_below_cap s v rnd :
  zlen (_data s) < _cap s ->
  add s v rnd = Ok (mk_rstate (_cap s) (_data s ++ [v]) (_total_count s + 1)).
Proof.
  intros H. unfold add. rs.
  apply Z.ltb_lt in H. rewrite H. reflexivity.
Qed.

End Generic.

(* ---------- operation sequences ---------- *)
Definition Reach (ops_done : list rop) (s : @rstate Z) : Prop :=
  RInv s /\ _total_count s = count_adds ops_done /\
  (forall y, In y (_data s) -> In y (added ops_done)).

Lemma count_adds_app a b : count_adds (a ++ b) = count_adds a + count_adds b.
Proof. induction a as [|[v r|n] a IH]; cbn [count_adds app]; lia. Qed.

Lemma added_app a b : added (a ++ b) = added a ++ added b.
Proof. induction a as [|[v r|n] a IH]; simpl; congruence. Qed.

Lemma rstep_reach done s o :
  Reach done s -> resize_ok o ->
  exists s', rstep (Ok s) o = Ok s' /\ Reach (done ++ [o]) s'.
Proof.
  intros (Hinv & Htot & Hmem) Ho. destruct o as [v r|n]; simpl.
  - destruct (add_ok s v (rnd_of r) Hinv (rnd_of_range r)) as (s' & E & Hinv' & _ & Ht' & Hm').
    exists s'. split; [exact E|]. split; [exact Hinv'|].
    rewrite count_adds_app, added_app. cbn [count_adds added]. split; [lia|].
    intros y Hy. apply in_or_app. destruct (Hm' y Hy) as [->|Hin]; [right; left; reflexivity|left; auto].
  - simpl in Ho. destruct (resize_ok_step s n Hinv Ho) as (s' & E & Hinv' & _ & Ht' & Hm').
    exists s'. split; [exact E|]. split; [exact Hinv'|].
    rewrite count_adds_app, added_app. cbn [count_adds added]. rewrite app_nil_r. split; [lia|]. auto.
Qed.

Lemma fold_reach ops : forall done s,
  Reach done s -> Forall resize_ok ops ->
  exists s', fold_left rstep ops (Ok s) = Ok s' /\ Reach (done ++ ops) s'.
Proof.
  induction ops as [|o ops IH]; intros done s Hr Hf.
  - exists s. rewrite app_nil_r. split; [reflexivity|exact Hr].
  - inversion Hf as [|? ? Ho Hf']; subst.
    destruct (rstep_reach done s o Hr Ho) as (s1 & E1 & Hr1).
    destruct (IH (done ++ [o]) s1 Hr1 Hf') as (s2 & E2 & Hr2).
    exists s2. cbn [fold_left]. rewrite E1. split; [exact E2|].
    rewrite <- app_assoc in Hr2. exact Hr2.
Qed.

Lemma reservoir_main cap ops :
  0 <= cap -> Forall resize_ok ops ->
  exists s, rrun cap ops = Ok s /\
            zlen (_data s) <= _cap s /\
            _total_count s = count_adds ops /\
            (forall y, In y (_data s) -> In y (added ops)).
Proof.
  intros Hc Hf.
  assert (Reach [] (rinit cap)) as H0.
  { split; [|split]; cbn; [unfold RInv; cbn; lia|reflexivity|intros y []]. }
  destruct (fold_reach ops [] (rinit cap) H0 Hf) as (s & E & (Hi & Ht & Hm)).
  exists s. split; [exact E|]. destruct Hi as (_ & Hl & _). auto.
Qed.

(* without resizes the store fills up to capacity and then stays full:
   a store that drops values would not satisfy this *)
Fixpoint only_adds (ops : list rop) : Prop :=
  match ops with [] => True | RAdd _ _ :: r => only_adds r | RResize _ :: _ => False end.

Lemma fill_fold ops : forall s,
  RInv s -> zlen (_data s) = Z.min (_cap s) (_total_count s) -> only_adds ops ->
  exists s', fold_left rstep ops (Ok s) = Ok s' /\ RInv s' /\ _cap s' = _cap s /\
             _total_count s' = _total_count s + count_adds ops /\
             zlen (_data s') = Z.min (_cap s') (_total_count s').
Proof.
  induction ops as [|[v r|n] ops IH]; intros s Hi Hl Ho; cbn [only_adds] in Ho; try contradiction.
  - exists s. cbn [fold_left count_adds]. split; [reflexivity|]. split; [exact Hi|].
    split; [reflexivity|]. split; [lia|exact Hl].
  - cbn [fold_left rstep rbind count_adds].
    destruct (Z_lt_le_dec (zlen (_data s)) (_cap s)) as [Hlt|Hge].
    + rewrite add_below_cap by exact Hlt.
      destruct Hi as (Hi1 & Hi2 & Hi3).
      destruct (IH (mk_rstate (_cap s) (_data s ++ [v]) (_total_count s + 1)))
        as (s' & E & Hi' & Hc' & Ht' & Hl'); [| |exact Ho|].
      * unfold RInv. rs. rewrite zlen_app. lia.
      * rs. rewrite zlen_app. lia.
      * exists s'. split; [exact E|]. revert Hc' Ht'. rs. intros Hc' Ht'.
        split; [exact Hi'|]. split; [exact Hc'|]. split; [lia|exact Hl'].
    + destruct (add_ok s v (rnd_of r) Hi (rnd_of_range r)) as (s1 & E1 & Hi1 & Hc1 & Ht1 & _).
      rewrite E1.
      assert (zlen (_data s1) = zlen (_data s)) as Hsame.
      { revert E1. unfold add. rs.
        assert (zlen (_data s) <? _cap s = false) as -> by (apply Z.ltb_ge; lia).
        destruct (_ <? _cap s).
        - destruct (py_set_nth _ _ _) as [l|] eqn:El; [|discriminate].
          intros H; inversion H; subst; rs. unfold zlen. rewrite (py_set_nth_length _ _ _ _ El). reflexivity.
        - intros H; inversion H; subst; reflexivity. }
      destruct Hi as (Hia & Hib & Hic).
      destruct (IH s1) as (s' & E & Hi' & Hc' & Ht' & Hl'); [exact Hi1| |exact Ho|].
      * lia.
      * exists s'. split; [exact E|]. split; [exact Hi'|]. split; [lia|]. split; [lia|exact Hl'].
Qed.

Lemma reservoir_fill cap ops :
  0 <= cap -> only_adds ops ->
  exists s, rrun cap ops = Ok s /\ zlen (_data s) = Z.min cap (count_adds ops).
Proof.
  intros Hc Ho.
  destruct (fill_fold ops (rinit cap)) as (s & E & _ & Hcap & Ht & Hl); auto.
  - unfold RInv, rinit; rs; unfold zlen; cbn; lia.
  - unfold rinit; rs; unfold zlen; cbn; lia.
  - exists s. split; [exact E|]. revert Hcap Ht. unfold rinit. rs. intros Hcap Ht.
    rewrite Hl, Hcap, Ht. reflexivity.
Qed.

(* ================= StatsMiddleware: every request counted exactly once ================= *)
Section Assoc.
Context {X : Type}.
Implicit Types (m : list (string * X)).

Lemma lookup_update_same k v m : lookup k (update k v m) = Some v.
Proof.
  induction m as [|[k' v'] m IH]; cbn [update lookup].
  - rewrite String.eqb_refl. reflexivity.
  - destruct (String.eqb k k') eqn:E; cbn [lookup]; rewrite ?String.eqb_refl, ?E; auto.
Qed.

Lemma lookup_update_other k k2 v m : String.eqb k2 k = false -> lookup k2 (update k v m) = lookup k2 m.
Proof.
  intros H. induction m as [|[k' v'] m IH]; cbn [update lookup].
  - rewrite H. reflexivity.
  - destruct (String.eqb k k') eqn:E; cbn [lookup].
    + apply String.eqb_eq in E. subst k'. rewrite H. reflexivity.
    + destruct (String.eqb k2 k'); auto.
Qed.
End Assoc.

Definition hsum (h : hits) : Z := fold_right (fun kr acc => _total_count (snd kr) + acc) 0 h.
Definition hget (k : string) (h : hits) : Z :=
  match lookup k h with None => 0 | Some r => _total_count r end.

Lemma hsum_update k r h : hsum (update k r h) = hsum h + _total_count r - hget k h.
Proof.
  unfold hget. induction h as [|[k' r'] h IH]; cbn [update lookup hsum fold_right snd].
  - lia.
  - destruct (String.eqb k k') eqn:E; cbn [hsum fold_right snd]; fold (hsum h).
    + lia.
    + fold (hsum (update k r h)). rewrite IH. lia.
Qed.

Definition SInv (st : sstate) : Prop :=
  forall route h, lookup route st = Some h -> forall k r, lookup k h = Some r -> RInv r.

Lemma new_reservoir_inv : RInv new_reservoir.
Proof. unfold RInv, new_reservoir, default_cap, zlen; cbn; lia. Qed.

Lemma eqb_sym_false a b : String.eqb a b = false -> String.eqb b a = false.
Proof. rewrite String.eqb_sym. auto. Qed.

Lemma record_ok st rt oc r :
  SInv st ->
  exists st', record st rt oc r = Ok st' /\ SInv st' /\
    (forall route, route_total st' route =
                   if String.eqb route rt then route_total st route + 1 else route_total st route) /\
    (forall route key, key_count st' route key =
                   if String.eqb route rt && String.eqb key (status_key oc)
                   then key_count st route key + 1 else key_count st route key).
Proof.
  intros Hinv. unfold record.
  set (h := match lookup rt st with Some h => h | None => [] end).
  set (k := status_key oc).
  set (res := match lookup k h with Some x => x | None => new_reservoir end).
  assert (RInv res) as Hres.
  { unfold res. destruct (lookup k h) as [x|] eqn:E; [|apply new_reservoir_inv].
    unfold h in E. destruct (lookup rt st) as [h0|] eqn:E0; [|discriminate].
    eapply Hinv; eauto. }
  destruct (add_ok res tt (rnd_of r) Hres (rnd_of_range r)) as (res' & Ea & Hinv' & _ & Ht' & _).
  rewrite Ea. cbn [rbind]. eexists; split; [reflexivity|].
  assert (_total_count res = hget k h) as Hold.
  { unfold res, hget. destruct (lookup k h); reflexivity. }
  split; [|split].
  - intros route h' Hl k' r' Hk'.
    destruct (String.eqb route rt) eqn:E.
    + apply String.eqb_eq in E. subst route. rewrite lookup_update_same in Hl. inversion Hl; subst h'.
      destruct (String.eqb k' k) eqn:E2.
      * apply String.eqb_eq in E2. subst k'. rewrite lookup_update_same in Hk'. inversion Hk'; subst. exact Hinv'.
      * rewrite lookup_update_other in Hk' by exact E2.
        unfold h in Hk'. destruct (lookup rt st) as [h0|] eqn:E0; [|discriminate]. eapply Hinv; eauto.
    + rewrite lookup_update_other in Hl by exact E. eapply Hinv; eauto.
  - intros route. unfold route_total.
    destruct (String.eqb route rt) eqn:E.
    + apply String.eqb_eq in E. subst route. rewrite lookup_update_same.
      fold (hsum (update k res' h)). rewrite hsum_update.
      unfold h at 1 2. destruct (lookup rt st) as [h0|]; [fold (hsum h0)|cbn [hsum fold_right]];
      fold h in Hold |- *; lia.
    + rewrite lookup_update_other by exact E. reflexivity.
  - intros route key. unfold key_count.
    destruct (String.eqb route rt) eqn:E; cbn [andb].
    + apply String.eqb_eq in E. subst route. rewrite lookup_update_same.
      destruct (String.eqb key k) eqn:E2.
      * apply String.eqb_eq in E2. subst key. rewrite lookup_update_same.
        fold (hget k h) in Hold. unfold hget in Hold.
        unfold h in Hold |- *. destruct (lookup rt st) as [h0|]; [|cbn [lookup] in *]; lia.
      * rewrite lookup_update_other by exact E2.
        unfold h. destruct (lookup rt st) as [h0|]; reflexivity.
    + rewrite lookup_update_other by exact E. reflexivity.
Qed.

Lemma sfold ops : forall st,
  SInv st ->
  exists st', fold_left sstep ops (Ok st) = Ok st' /\ SInv st' /\
    (forall route, route_total st' route = reqs_since_reset ops route (route_total st route)) /\
    (forall route key, key_count st' route key =
                       keyreqs_since_reset ops route key (key_count st route key)).
Proof.
  induction ops as [|[rt oc r|] ops IH]; intros st Hinv.
  - exists st. cbn. auto.
  - cbn [fold_left sstep rbind].
    destruct (record_ok st rt oc r Hinv) as (st1 & E1 & Hinv1 & Hr1 & Hk1).
    rewrite E1. destruct (IH st1 Hinv1) as (st2 & E2 & Hinv2 & Hr2 & Hk2).
    exists st2. split; [exact E2|]. split; [exact Hinv2|]. split.
    + intros route. rewrite Hr2, Hr1. cbn [reqs_since_reset]. reflexivity.
    + intros route key. rewrite Hk2, Hk1. cbn [keyreqs_since_reset]. reflexivity.
  - cbn [fold_left sstep rbind].
    assert (SInv []) as H0 by (intros ? ? H; discriminate H).
    destruct (IH [] H0) as (st2 & E2 & Hinv2 & Hr2 & Hk2).
    exists st2. split; [exact E2|]. split; [exact Hinv2|]. split.
    + intros route. rewrite Hr2. reflexivity.
    + intros route key. rewrite Hk2. reflexivity.
Qed.

Lemma stats_main ops :
  exists st, srun ops = Ok st /\
    (forall route, route_total st route = reqs_since_reset ops route 0) /\
    (forall route key, key_count st route key = keyreqs_since_reset ops route key 0).
Proof.
  assert (SInv []) as H0 by (intros ? ? H; discriminate H).
  destruct (sfold ops [] H0) as (st & E & _ & Hr & Hk).
  exists st. split; [exact E|]. split; [exact Hr|exact Hk].
Qed.

