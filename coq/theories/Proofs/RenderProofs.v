From Coq Require Import List String Ascii Bool Arith ZArith.
Import ListNotations.
From ClasticV Require Import Base.Py Base.Strs Base.Sx Model.Render.
Local Open Scope list_scope.
Local Open Scope string_scope.

(* dev mode never raises: unknown objects degrade to their repr *)
Theorem dev_total : forall v, exists j, normalise true v = Ok j.
Proof.
  fix IH 1. intros v.
  assert (Hl : forall l, exists js, collect (map (normalise true) l) = Ok js).
  { fix IHl 1. intros l. destruct l as [|x r]; [exists []; reflexivity|].
    simpl. destruct (IH x) as [j ->]. destruct (IHl r) as [js ->]. eexists; reflexivity. }
  assert (Hk : forall kvs, exists js, collect (map (fun kv => tag_kv (fst kv) (normalise true (snd kv))) kvs) = Ok js).
  { fix IHk 1. intros kvs. destruct kvs as [|[k x] r]; [exists []; reflexivity|].
    simpl. destruct (IH x) as [j ->]. simpl. destruct (IHk r) as [js ->]. eexists; reflexivity. }
  destruct v; simpl; try (eexists; reflexivity).
  - destruct (Hk kvs) as [js ->]. eexists; reflexivity.
  - destruct (Hl l) as [js ->]. eexists; reflexivity.
  - destruct (Hl l) as [js ->]. eexists; reflexivity.
  - destruct (Hl l) as [js ->]. eexists; reflexivity.
  - destruct (Hk kvs) as [js ->]. eexists; reflexivity.
  - apply IH.
  - apply IH.
Qed.

(* render_basic accepts every value, for every request whose format parameter is absent, json or html *)
Theorem basic_total v f best : f <> FOther -> exists r, render_basic v f best = Ok r.
Proof.
  intros Hf. unfold render_basic.
  destruct v; try (eexists; reflexivity);
    (simpl is_sized; cbv iota; simpl negb; cbv iota;
     destruct f; try contradiction;
     match goal with
     | |- context [String.eqb ?m "text/html"] => destruct (String.eqb m "text/html")
     | _ => idtac
     end; try (eexists; reflexivity);
     match goal with |- context [normalise true ?x] => destruct (dev_total x) as [j ->]; eexists; reflexivity end).
Qed.

(* labels of text results *)
Theorem text_labels s :
  (guess_json s = true -> label_text s = RText "application/json" s) /\
  (guess_json s = false -> contains_str "<html" (substring 0 168 s) = true -> label_text s = RText "text/html" s) /\
  (guess_json s = false -> contains_str "<html" (substring 0 168 s) = false -> label_text s = RText "text/plain" s).
Proof. unfold label_text. repeat split; intros; repeat match goal with H : _ = _ |- _ => rewrite H end; reflexivity. Qed.

Theorem text_results s f best :
  render_basic (PStr s) f best = Ok (label_text s) /\ render_basic (PBytes s) f best = Ok (label_text s).
Proof. split; reflexivity. Qed.

(* mappings and sequences: JSON unless HTML is asked for by the format parameter or negotiated *)
Theorem sized_json v best : is_sized v = true -> (forall s, v <> PStr s) -> (forall s, v <> PBytes s) ->
  exists j, normalise true v = Ok j /\ render_basic v FJson best = Ok (RJson j) /\
            render_basic v FAbsent None = Ok (RJson j) /\ render_basic v FHtml best = Ok RTable.
Proof.
  intros Hs H1 H2. destruct (dev_total v) as [j Hj]. exists j. split; [exact Hj|].
  destruct v; try discriminate; try (exfalso; eapply H1; reflexivity); try (exfalso; eapply H2; reflexivity);
    unfold render_basic; simpl is_sized; simpl negb; cbv iota; simpl String.eqb; cbv iota; rewrite Hj; auto.
Qed.

Theorem unsized_text v f best : is_sized v = false -> render_basic v f best = Ok RStr.
Proof. intros H. destruct v; try discriminate; reflexivity. Qed.

(* JSON-native data goes to the encoder unchanged *)
Fixpoint to_json (v : pyval) : option jsonval :=
  match v with
  | PStr s => Some (JStr s)
  | PInt z => Some (JNum (string_of_Z z))
  | PFloat lx => Some (JNum lx)
  | PBool b => Some (JBool b)
  | PNone => Some JNull
  | PList l => match (fix go (l : list pyval) : option (list jsonval) :=
                        match l with [] => Some [] | x :: r => match to_json x, go r with Some a, Some b => Some (a :: b) | _, _ => None end end) l with
               | Some js => Some (JArr js) | None => None end
  | PDict kvs => match (fix go (l : list (string * pyval)) : option (list (string * jsonval)) :=
                          match l with [] => Some [] | (k, x) :: r => match to_json x, go r with Some a, Some b => Some ((k, a) :: b) | _, _ => None end end) kvs with
                 | Some js => Some (JObj js) | None => None end
  | _ => None
  end.

Theorem normalise_identity : forall dev v j, to_json v = Some j -> normalise dev v = Ok j.
Proof.
  intros dev. fix IH 1. intros v j H. destruct v; simpl in H; try discriminate; try (inversion H; reflexivity).
  - (* dict *)
    simpl.
    assert (Hk : forall kvs js,
      (fix go (l : list (string * pyval)) : option (list (string * jsonval)) :=
         match l with [] => Some [] | (k, x) :: r => match to_json x, go r with Some a, Some b => Some ((k, a) :: b) | _, _ => None end end) kvs = Some js ->
      collect (map (fun kv => tag_kv (fst kv) (normalise dev (snd kv))) kvs) = Ok js).
    { fix IHk 1. intros l js Hl. destruct l as [|[k x] r]; [inversion Hl; reflexivity|].
      simpl in Hl. destruct (to_json x) as [a|] eqn:Ea; [|discriminate].
      match type of Hl with match ?g with _ => _ end = _ => destruct g as [b|] eqn:Eb end; [|discriminate].
      inversion Hl; subst. simpl. rewrite (IH x a Ea). simpl. rewrite (IHk r b Eb). reflexivity. }
    match type of H with match ?g with _ => _ end = _ => destruct g as [js|] eqn:Eg end; [|discriminate].
    inversion H; subst. rewrite (Hk kvs js Eg). reflexivity.
  - (* list *)
    simpl.
    assert (Hl : forall l js,
      (fix go (l : list pyval) : option (list jsonval) :=
         match l with [] => Some [] | x :: r => match to_json x, go r with Some a, Some b => Some (a :: b) | _, _ => None end end) l = Some js ->
      collect (map (normalise dev) l) = Ok js).
    { fix IHl 1. intros l0 js Hl0. destruct l0 as [|x r]; [inversion Hl0; reflexivity|].
      simpl in Hl0. destruct (to_json x) as [a|] eqn:Ea; [|discriminate].
      match type of Hl0 with match ?g with _ => _ end = _ => destruct g as [b|] eqn:Eb end; [|discriminate].
      inversion Hl0; subst. simpl. rewrite (IH x a Ea). rewrite (IHl r b Eb). reflexivity. }
    match type of H with match ?g with _ => _ end = _ => destruct g as [js|] eqn:Eg end; [|discriminate].
    inversion H; subst. rewrite (Hl l js Eg). reflexivity.
Qed.
