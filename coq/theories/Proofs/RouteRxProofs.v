(* The language of the assembled route regex is the token-level matcher's
   acceptance (C05 regex_language). *)
From Coq Require Import List String Ascii Bool Arith Lia.
Import ListNotations.
From ClasticV Require Import Base.Py Base.Strs Base.Rx Gen.RouteLex Model.Pattern Model.Match Model.RouteRx
     Proofs.MatchProofs.
Local Open Scope list_scope.
Local Open Scope string_scope.
Local Open Scope nat_scope.

(* ---------------- strings of slashes, rendered tokens ---------------- *)
Fixpoint slashes (n : nat) : string := match n with O => "" | S k => String "/" (slashes k) end.

Fixpoint render (ts : list token) : string :=
  match ts with
  | [] => ""
  | t :: r => slashes (fst t) ++ snd t ++ render r
  end.

Definition tok_wf (t : token) : Prop :=
  1 <= fst t /\ nonempty (snd t) = true /\ str_contains_chr "/" (snd t) = false.

Definition strict_ok (m : mmode) (ts : list token) : Prop :=
  m = MStrict -> Forall (fun t => fst t = 1) ts.

Lemma slashes_snoc n : slashes n ++ "/" = slashes (S n).
Proof. induction n as [|n IH]; simpl; [reflexivity|]. f_equal. exact IH. Qed.

Lemma slashes_add a b : slashes a ++ slashes b = slashes (a + b).
Proof. induction a as [|a IH]; simpl; [reflexivity|]. f_equal. exact IH. Qed.

Lemma render_app a b : render (a ++ b)%list = render a ++ render b.
Proof.
  induction a as [|t r IH]; simpl; [reflexivity|].
  rewrite IH. rewrite !append_assoc. reflexivity.
Qed.

Lemma contains_app c a b : str_contains_chr c (a ++ b) = str_contains_chr c a || str_contains_chr c b.
Proof. induction a as [|x a IH]; simpl; [reflexivity|]. rewrite IH. apply orb_assoc. Qed.

(* ---------------- languages of the building blocks ---------------- *)
Lemma cls_single n c : cls_ok false [(n, n)] c = true <-> nat_of_ascii c = n.
Proof.
  unfold cls_ok, in_ranges. simpl. rewrite orb_false_r.
  destruct (n <=? nat_of_ascii c) eqn:E1; destruct (nat_of_ascii c <=? n) eqn:E2; simpl;
    try apply Nat.leb_le in E1; try apply Nat.leb_le in E2; try apply Nat.leb_gt in E1; try apply Nat.leb_gt in E2;
    split; intros H; try discriminate; try lia; reflexivity.
Qed.

Lemma lang_single n w : lang (RCls false [(n, n)]) w <-> exists c, nat_of_ascii c = n /\ w = String c "".
Proof.
  split.
  - intros H. inversion H; subst. eexists. split; [apply cls_single; eassumption|reflexivity].
  - intros [c [Hc ->]]. constructor. apply cls_single. exact Hc.
Qed.

Lemma lang_slash w : lang slash_rx w <-> w = "/".
Proof.
  unfold slash_rx. rewrite lang_single. split.
  - intros [c [Hc ->]]. f_equal. rewrite <- (ascii_nat_embedding c). rewrite Hc. reflexivity.
  - intros ->. exists "/"%char. split; reflexivity.
Qed.

Lemma lang_eps w : lang REps w <-> w = "".
Proof. split; [intros H; inversion H; reflexivity|intros ->; constructor]. Qed.

Lemma lang_cat a b w : lang (RCat a b) w <-> exists u t, w = u ++ t /\ lang a u /\ lang b t.
Proof. split; [apply cat_inv|]. intros [u [t [-> [Hu Ht]]]]. constructor; assumption. Qed.

Lemma lang_alt a b w : lang (RAlt a b) w <-> lang a w \/ lang b w.
Proof.
  split; [intros H; inversion H; subst; auto|]. intros [H|H]; [apply LAltL|apply LAltR]; exact H.
Qed.

Lemma lang_lit s w : lang (lit_rx s) w <-> w = s.
Proof.
  revert w. induction s as [|c r IH]; intros w; simpl.
  - apply lang_eps.
  - rewrite lang_cat. split.
    + intros [u [t [-> [Hu Ht]]]]. apply lang_single in Hu. destruct Hu as [c' [Hc ->]].
      apply IH in Ht. subst t. simpl. f_equal.
      rewrite <- (ascii_nat_embedding c'), <- (ascii_nat_embedding c). rewrite Hc. reflexivity.
    + intros ->. exists (String c ""), r. split; [reflexivity|]. split; [|apply IH; reflexivity].
      apply lang_single. exists c. split; reflexivity.
Qed.

(* star = concatenation of a list of words *)
Fixpoint cat_all (l : list string) : string :=
  match l with [] => "" | x :: r => x ++ cat_all r end.

Lemma star_list_gen r w : lang r w -> forall a, r = RStar a -> exists l, Forall (lang a) l /\ w = cat_all l.
Proof.
  induction 1 as [| | | | | a0 |a0 u t Hu _ Ht IHt]; intros a' Er; try discriminate.
  - exists []. split; [constructor|reflexivity].
  - inversion Er; subst a0. destruct (IHt a' eq_refl) as [l [Hl ->]].
    exists (u :: l). split; [constructor; assumption|reflexivity].
Qed.

Lemma lang_star a w : lang (RStar a) w <-> exists l, Forall (lang a) l /\ w = cat_all l.
Proof.
  split; [intros H; eapply star_list_gen; eauto|].
  intros [l [Hl ->]]. induction Hl as [|x r Hx Hr IH]; simpl; [constructor|]. constructor; assumption.
Qed.

Lemma lang_star_slash w : lang (RStar slash_rx) w <-> exists n, w = slashes n.
Proof.
  rewrite lang_star. split.
  - intros [l [Hl ->]]. induction Hl as [|x r Hx Hr [n IH]]; [exists 0; reflexivity|].
    apply lang_slash in Hx. subst x. exists (S n). simpl. f_equal. exact IH.
  - intros [n ->]. exists (repeat "/" n). split.
    + apply Forall_forall. intros x Hx. apply repeat_spec in Hx. subst x. apply lang_slash. reflexivity.
    + induction n as [|n IH]; simpl; [reflexivity|]. f_equal. exact IH.
Qed.

Lemma lang_sep m w : lang (sep_rx m) w <-> exists n, 1 <= n /\ (m = MStrict -> n = 1) /\ w = slashes n.
Proof.
  destruct m; simpl.
  - rewrite lang_slash. split.
    + intros ->. exists 1. repeat split; auto.
    + intros [n [_ [H ->]]]. rewrite (H eq_refl). reflexivity.
  - unfold RPlus. rewrite lang_cat. split.
    + intros [u [t [-> [Hu Ht]]]]. apply lang_slash in Hu. apply lang_star_slash in Ht. destruct Ht as [n ->]. subst u.
      exists (S n). split; [lia|]. split; [discriminate|reflexivity].
    + intros [n [Hn [_ ->]]]. destruct n as [|n]; [lia|]. exists "/", (slashes n). split; [reflexivity|].
      split; [apply lang_slash; reflexivity|apply lang_star_slash; eauto].
Qed.

Lemma avoids_sound c r s : lang r s -> avoids c r = true -> str_contains_chr c s = false.
Proof.
  induction 1 as [|neg rs c' Hc|a b s t _ IHs _ IHt|a b s _ IH|a b s _ IH|a|a s t _ IHs _ IHt]; simpl; intros Ha.
  - reflexivity.
  - rewrite orb_false_r. apply negb_true_iff in Ha. unfold chr_eqb.
    destruct (Ascii.eqb c' c) eqn:E; [|reflexivity]. apply Ascii.eqb_eq in E. subst c'. congruence.
  - apply andb_prop in Ha. destruct Ha as [H1 H2]. rewrite contains_app, IHs, IHt by assumption. reflexivity.
  - apply andb_prop in Ha. destruct Ha as [H1 H2]. apply IH. exact H1.
  - apply andb_prop in Ha. destruct Ha as [H1 H2]. apply IH. exact H2.
  - reflexivity.
  - rewrite contains_app, IHs, IHt by assumption. reflexivity.
Qed.

(* ---------------- tokenise and render are inverse ---------------- *)
Ltac fl := repeat f_equal; try lia; try reflexivity.
Definition R (ts : list token) (tr : nat) : string := render ts ++ slashes tr.

(* the pieces after the first one *)
Definition T (x : string) : list string := tl (split_on "/" x).

Definition slash_led (x : string) : Prop := x = "" \/ exists y, x = String "/" y.

Lemma slash_led_split x : slash_led x -> split_on "/" x = "" :: T x.
Proof.
  unfold T. intros [->|[y ->]]; [reflexivity|]. simpl. reflexivity.
Qed.

Lemma T_slash y : T (String "/" y) = split_on "/" y.
Proof. reflexivity. Qed.

Lemma split_seg s rest : str_contains_chr "/" s = false -> slash_led rest ->
  split_on "/" (s ++ rest) = s :: T rest.
Proof.
  intros Hs [->|[y ->]].
  - rewrite append_nil_r. unfold T. simpl. apply split_on_nosep. exact Hs.
  - rewrite T_slash. apply split_on_app_nosep. exact Hs.
Qed.

Lemma split_slashes n x : split_on "/" (slashes n ++ x) = (repeat "" n ++ split_on "/" x)%list.
Proof. induction n as [|n IH]; simpl; [reflexivity|]. f_equal. exact IH. Qed.

Lemma tok_pieces_empties n : forall ps run,
  tok_pieces (repeat "" n ++ ps)%list run = tok_pieces ps (run + n).
Proof.
  induction n as [|n IH]; intros ps run; simpl; [f_equal; lia|].
  rewrite IH. f_equal. lia.
Qed.

Lemma slash_led_R ts tr : Forall tok_wf ts -> slash_led (R ts tr).
Proof.
  unfold R. intros H. destruct ts as [|[n s] r].
  - simpl. destruct tr; [left; reflexivity|right; simpl; eauto].
  - inversion H as [|? ? [Hn _] _]; subst. simpl in Hn. right. destruct n as [|n]; [lia|]. simpl. eauto.
Qed.

Lemma T_R ts tr : Forall tok_wf ts -> forall run,
  tok_pieces (T (R ts tr)) run =
  match ts with
  | [] => ([], run + tr)
  | (n, s) :: r => ((run + n, s) :: r, tr)
  end.
Proof.
  induction 1 as [|[n s] r [Hn [Hne Hns]] Hr IH]; intros run.
  - unfold R. simpl. destruct tr as [|tr].
    + simpl. fl.
    + simpl. rewrite T_slash. rewrite <- (append_nil_r (slashes tr)). rewrite split_slashes. simpl.
      replace (repeat "" tr ++ [""])%list with (repeat "" (S tr)).
      * rewrite <- (app_nil_r (repeat "" (S tr))). rewrite tok_pieces_empties. simpl. fl.
      * change [""] with (repeat "" 1). rewrite <- repeat_app. fl.
  - simpl in Hn, Hne, Hns. destruct n as [|n]; [lia|].
    unfold R. cbn [render fst snd slashes]. cbn [append]. rewrite T_slash.
    rewrite !append_assoc. rewrite split_slashes.
    change (s ++ render r ++ slashes tr) with (s ++ R r tr).
    rewrite split_seg by (try exact Hns; apply slash_led_R; exact Hr).
    rewrite tok_pieces_empties. cbn [tok_pieces]. rewrite Hne.
    rewrite (IH 0). destruct r as [|[n' s'] r'].
    + simpl. fl.
    + simpl. fl.
Qed.

Theorem tokenise_render ts tr : Forall tok_wf ts -> tokenise (R ts tr) = Some (ts, tr).
Proof.
  intros H. unfold tokenise. rewrite (slash_led_split _ (slash_led_R ts tr H)).
  rewrite (T_R ts tr H 0). destruct ts as [|[n s] r]; reflexivity.
Qed.

(* the other direction: a tokenised path is the rendering of its tokens *)
Fixpoint J (ps : list string) : string :=
  match ps with [] => "" | p :: r => String "/" (p ++ J r) end.

Lemma join_J x r : join "/" (x :: r) = x ++ J r.
Proof.
  revert x. induction r as [|y r IH]; intros x; simpl; [rewrite append_nil_r; reflexivity|].
  f_equal. specialize (IH y). simpl in IH. rewrite IH. reflexivity.
Qed.

Lemma tok_pieces_render ps : forall run ts tr,
  tok_pieces ps run = (ts, tr) ->
  (forall p, In p ps -> str_contains_chr "/" p = false) ->
  slashes run ++ J ps = match ts with
                        | [] => slashes tr
                        | t :: r => slashes (fst t) ++ snd t ++ R r tr
                        end /\
  Forall tok_wf ts /\ (forall t, In t ts -> 1 <= fst t) /\
  match ts with [] => True | t :: _ => run < fst t end.
Proof.
  induction ps as [|p r IH]; intros run ts tr H Hns.
  - simpl in H. inversion H; subst. simpl. rewrite append_nil_r. repeat split; auto. intros t [].
  - cbn [tok_pieces] in H. destruct (nonempty p) eqn:Ep.
    + destruct (tok_pieces r 0) as [ts' tr'] eqn:Et. inversion H; subst ts tr. clear H.
      destruct (IH 0 ts' tr' Et (fun q Hq => Hns q (or_intror Hq))) as [Hj [Hwf [Hge _]]].
      cbn [J fst snd]. split; [|split; [|split]].
      * rewrite <- slashes_snoc. rewrite !append_assoc. cbn [append]. f_equal. f_equal. f_equal.
        simpl in Hj. rewrite Hj. unfold R. destruct ts' as [|t0 r0]; [reflexivity|].
        cbn [render]. rewrite !append_assoc. reflexivity.
      * constructor; [|exact Hwf]. repeat split; simpl; [lia|exact Ep|apply Hns; left; reflexivity].
      * intros t [<-|Ht]; [simpl; lia|apply Hge; exact Ht].
      * simpl. lia.
    + destruct p; [|discriminate]. cbn [J]. cbn [append].
      destruct (IH (S run) ts tr H (fun q Hq => Hns q (or_intror Hq))) as [Hj [Hwf [Hge Hlt]]].
      split; [|split; [exact Hwf|split; [exact Hge|]]].
      * rewrite <- Hj. rewrite <- slashes_snoc. rewrite append_assoc. reflexivity.
      * destruct ts; [exact I|lia].
Qed.

Theorem tokenise_inv path ts tr : tokenise path = Some (ts, tr) -> path = R ts tr /\ Forall tok_wf ts.
Proof.
  unfold tokenise. destruct (split_on "/" path) as [|p0 ps] eqn:Es; [discriminate|].
  destruct p0; [|discriminate]. intros H. inversion H as [Ht]. clear H.
  assert (Hp : path = J ps).
  { rewrite <- (join_split "/" path). rewrite Es. rewrite join_J. reflexivity. }
  assert (Hns : forall p, In p ps -> str_contains_chr "/" p = false).
  { intros p Hin. apply (split_on_no_sep "/" path). rewrite Es. right. exact Hin. }
  destruct (tok_pieces_render ps 0 ts tr Ht Hns) as [Hj [Hwf _]].
  split; [|exact Hwf]. rewrite Hp. simpl in Hj. rewrite Hj. unfold R.
  destruct ts as [|t r]; [reflexivity|]. cbn [render]. rewrite !append_assoc. reflexivity.
Qed.

(* ---------------- one binding group ---------------- *)
Definition X (m : mmode) (b : binding) : rx := RCat (sep_rx m) (b_rx b).

Lemma X_token m b n s :
  1 <= n -> (m = MStrict -> n = 1) -> seg_ok b (n, s) = true -> lang (X m b) (slashes n ++ s).
Proof.
  intros Hn Hm Hs. unfold X. constructor.
  - apply lang_sep. exists n. auto.
  - apply rx_match_lang. exact Hs.
Qed.

Lemma X_inv m b w : bind_ok b = true -> lang (X m b) w ->
  exists n s, w = slashes n ++ s /\ tok_wf (n, s) /\ (m = MStrict -> n = 1) /\ seg_ok b (n, s) = true.
Proof.
  unfold bind_ok, X. intros Hb H. apply andb_prop in Hb. destruct Hb as [_ Hb]. apply andb_prop in Hb. destruct Hb as [Hb Hav]. apply andb_prop in Hb. destruct Hb as [_ Hnn].
  apply lang_cat in H. destruct H as [u [s [-> [Hu Hs]]]]. apply lang_sep in Hu. destruct Hu as [n [Hn [Hm ->]]].
  exists n, s. split; [reflexivity|]. split; [|split; [exact Hm|]].
  - repeat split; simpl; [exact Hn| |eapply avoids_sound; eauto].
    destruct s; [|reflexivity]. apply nullable_lang in Hs. rewrite Hs in Hnn. discriminate.
  - unfold seg_ok. simpl. apply rx_match_lang. exact Hs.
Qed.

Lemma star_tokens m b l :
  Forall tok_wf l -> strict_ok m l -> (forall t, In t l -> seg_ok b t = true) -> lang (RStar (X m b)) (render l).
Proof.
  intros Hwf Hst Hok. induction l as [|[n s] r IH]; simpl; [constructor|].
  inversion Hwf as [|? ? [Hn _] Hwf']; subst. simpl in Hn.
  rewrite <- append_assoc. constructor.
  - apply X_token; [exact Hn| |apply Hok; left; reflexivity].
    intros Hm. specialize (Hst Hm). inversion Hst; subst. assumption.
  - apply IH; [exact Hwf'| |intros t Ht; apply Hok; right; exact Ht].
    intros Hm. specialize (Hst Hm). inversion Hst; subst. assumption.
Qed.

Lemma star_tokens_inv m b w : bind_ok b = true -> lang (RStar (X m b)) w ->
  exists l, w = render l /\ Forall tok_wf l /\ strict_ok m l /\ (forall t, In t l -> seg_ok b t = true).
Proof.
  intros Hb H. apply lang_star in H. destruct H as [ws [Hws ->]].
  induction Hws as [|x r Hx Hr [l [El [Hwf [Hst Hok]]]]].
  - exists []. split; [reflexivity|]. split; [constructor|]. split; [intros _; constructor|intros t []].
  - destruct (X_inv m b x Hb Hx) as [n [s [-> [Hw [Hm Hs]]]]].
    exists ((n, s) :: l). simpl. rewrite El. split; [rewrite append_assoc; reflexivity|].
    split; [constructor; assumption|]. split.
    + intros E. constructor; [simpl; auto|apply Hst; exact E].
    + intros t [<-|Ht]; [exact Hs|apply Hok; exact Ht].
Qed.

Lemma opstr_cases b : bind_ok b = true ->
  b_opstr b = "" \/ b_opstr b = "?" \/ b_opstr b = "*" \/ b_opstr b = "+".
Proof.
  unfold bind_ok. intros H. apply andb_prop in H. destruct H as [_ H]. apply andb_prop in H. destruct H as [H _]. apply andb_prop in H. destruct H as [H _].
  apply mem_str_In in H. simpl in H. intuition.
Qed.

Lemma bind_lang m b l : bind_ok b = true ->
  Forall tok_wf l -> strict_ok m l -> (forall t, In t l -> seg_ok b t = true) -> count_ok b (List.length l) ->
  lang (bind_rx m b) (render l).
Proof.
  intros Hb Hwf Hst Hok [Hmin Hmax].
  pose proof (star_tokens m b l Hwf Hst Hok) as Hstar.
  unfold bind_rx, arity_rx, op_min, op_unbounded in *. fold (X m b).
  destruct (opstr_cases b Hb) as [E|[E|[E|E]]]; rewrite E in *; simpl in *.
  - (* exactly one *)
    specialize (Hmax eq_refl). destruct l as [|[n s] [|t2 r]]; simpl in *; try lia.
    rewrite append_nil_r. inversion Hwf as [|? ? [Hn _] _]; subst. simpl in Hn.
    apply X_token; [exact Hn| |apply Hok; left; reflexivity].
    intros Hm. specialize (Hst Hm). inversion Hst; subst. assumption.
  - (* zero or one *)
    specialize (Hmax eq_refl). destruct l as [|[n s] [|t2 r]]; simpl in *; try lia.
    + apply LAltR. constructor.
    + apply LAltL. rewrite append_nil_r. inversion Hwf as [|? ? [Hn _] _]; subst. simpl in Hn.
      apply X_token; [exact Hn| |apply Hok; left; reflexivity].
      intros Hm. specialize (Hst Hm). inversion Hst; subst. assumption.
  - exact Hstar.
  - (* one or more *)
    destruct l as [|[n s] r]; simpl in *; [lia|].
    unfold RPlus. rewrite <- append_assoc. inversion Hwf as [|? ? [Hn _] Hwf']; subst. simpl in Hn. constructor.
    + apply X_token; [exact Hn| |apply Hok; left; reflexivity].
      intros Hm. specialize (Hst Hm). inversion Hst; subst. assumption.
    + apply star_tokens; [exact Hwf'| |intros t Ht; apply Hok; right; exact Ht].
      intros Hm. specialize (Hst Hm). inversion Hst; subst. assumption.
Qed.

Lemma bind_inv m b w : bind_ok b = true -> lang (bind_rx m b) w ->
  exists l, w = render l /\ Forall tok_wf l /\ strict_ok m l /\ (forall t, In t l -> seg_ok b t = true) /\
            count_ok b (List.length l).
Proof.
  intros Hb H. unfold bind_rx, arity_rx, count_ok, op_min, op_unbounded in *. fold (X m b) in H.
  assert (One : forall w, lang (X m b) w -> exists l, w = render l /\ Forall tok_wf l /\ strict_ok m l /\
                   (forall t, In t l -> seg_ok b t = true) /\ List.length l = 1).
  { intros w0 H0. destruct (X_inv m b w0 Hb H0) as [n [s [-> [Hw [Hm Hs]]]]]. exists [(n, s)]. simpl.
    rewrite append_nil_r. repeat split; auto.
    - intros E. constructor; [simpl; auto|constructor].
    - intros t [<-|[]]. exact Hs. }
  destruct (opstr_cases b Hb) as [E|[E|[E|E]]]; rewrite E in *; simpl in *.
  - destruct (One w H) as [l [-> [Hwf [Hst [Hok Hl]]]]]. exists l. repeat split; auto; lia.
  - apply lang_alt in H. destruct H as [H|H].
    + destruct (One w H) as [l [-> [Hwf [Hst [Hok Hl]]]]]. exists l. repeat split; auto; lia.
    + apply lang_eps in H. subst w. exists []. simpl. split; [reflexivity|]. split; [constructor|]. split; [intros _; constructor|].
      split; [intros t []|]. split; [lia|intros _; lia].
  - destruct (star_tokens_inv m b w Hb H) as [l [-> [Hwf [Hst Hok]]]]. exists l. repeat split; auto; try lia; try discriminate.
  - unfold RPlus in H. apply lang_cat in H. destruct H as [u [t [-> [Hu Ht]]]].
    destruct (One u Hu) as [l1 [-> [Hwf1 [Hst1 [Hok1 Hl1]]]]].
    destruct (star_tokens_inv m b t Hb Ht) as [l2 [-> [Hwf2 [Hst2 Hok2]]]].
    exists (l1 ++ l2)%list. rewrite render_app. split; [reflexivity|]. split; [apply Forall_app; auto|]. split.
    + intros Em. apply Forall_app. auto.
    + split; [intros t Ht'; apply in_app_or in Ht'; destruct Ht'; auto|]. rewrite app_length. split; [lia|discriminate].
Qed.

(* ---------------- the element sequence ---------------- *)
Lemma lit_no_slash s : all_chr is_lit_chr s = true -> str_contains_chr "/" s = false.
Proof.
  induction s as [|c r IH]; simpl; [reflexivity|]. intros H. apply andb_prop in H. destruct H as [Hc Hr].
  rewrite (IH Hr). rewrite orb_false_r. unfold chr_eqb. destruct (Ascii.eqb c "/") eqn:E; [|reflexivity].
  apply Ascii.eqb_eq in E. subst c. vm_compute in Hc. discriminate.
Qed.

Lemma in_firstn {A} k (l : list A) x : In x (firstn k l) -> In x l.
Proof. intros H. rewrite <- (firstn_skipn k l). apply in_or_app. left. exact H. Qed.
Lemma in_skipn {A} k (l : list A) x : In x (skipn k l) -> In x l.
Proof. intros H. rewrite <- (firstn_skipn k l). apply in_or_app. right. exact H. Qed.
Lemma Forall_firstn {A} (P : A -> Prop) k l : Forall P l -> Forall P (firstn k l).
Proof. rewrite !Forall_forall. intros H x Hx. apply H. eapply in_firstn; eauto. Qed.
Lemma Forall_skipn {A} (P : A -> Prop) k l : Forall P l -> Forall P (skipn k l).
Proof. rewrite !Forall_forall. intros H x Hx. apply H. eapply in_skipn; eauto. Qed.

Lemma elems_complete m es ts caps : assign es ts caps -> forallb elem_ok es = true ->
  Forall tok_wf ts -> strict_ok m ts -> lang (elems_rx m es) (render ts).
Proof.
  induction 1 as [|s r n t caps _ IH|b r ts k caps Hk Hc Hseg _ IH]; intros Hok Hwf Hst.
  - simpl. constructor.
  - simpl in Hok. apply andb_prop in Hok. destruct Hok as [_ Hok].
    inversion Hwf as [|? ? [Hn _] Hwf']; subst. simpl in Hn.
    cbn [elems_rx render fst snd]. rewrite <- append_assoc. constructor.
    + constructor; [|apply lang_lit; reflexivity]. apply lang_sep. exists n. split; [exact Hn|]. split; [|reflexivity].
      intros Hm. specialize (Hst Hm). inversion Hst; subst. assumption.
    + apply IH; [exact Hok|exact Hwf'|]. intros Hm. specialize (Hst Hm). inversion Hst; subst. assumption.
  - simpl in Hok. apply andb_prop in Hok. destruct Hok as [Hb Hok].
    cbn [elems_rx]. rewrite <- (firstn_skipn k ts) at 1. rewrite render_app.
    constructor.
    + apply bind_lang; [exact Hb|apply Forall_firstn; exact Hwf| |exact Hseg|].
      * intros Hm. apply Forall_firstn. apply Hst. exact Hm.
      * rewrite firstn_length_le by exact Hk. exact Hc.
    + apply IH; [exact Hok|apply Forall_skipn; exact Hwf|]. intros Hm. apply Forall_skipn. apply Hst. exact Hm.
Qed.

Lemma elems_sound m es : forallb elem_ok es = true -> forall w, lang (elems_rx m es) w ->
  exists ts caps, w = render ts /\ Forall tok_wf ts /\ strict_ok m ts /\ assign es ts caps.
Proof.
  induction es as [|e r IH]; intros Hok w H.
  - simpl in H. apply lang_eps in H. subst w. exists [], []. split; [reflexivity|]. split; [constructor|].
    split; [intros _; constructor|constructor].
  - simpl in Hok. apply andb_prop in Hok. destruct Hok as [He Hok]. destruct e as [s|b]; cbn [elems_rx] in H.
    + apply lang_cat in H. destruct H as [u [w' [-> [Hu Hw']]]].
      apply lang_cat in Hu. destruct Hu as [u1 [u2 [-> [Hu1 Hu2]]]].
      apply lang_sep in Hu1. destruct Hu1 as [n [Hn [Hm ->]]]. apply lang_lit in Hu2. subst u2.
      destruct (IH Hok w' Hw') as [ts [caps [-> [Hwf [Hst Has]]]]].
      simpl in He. apply andb_prop in He. destruct He as [Hne Hlit].
      exists ((n, s) :: ts), caps. cbn [render fst snd]. split; [rewrite append_assoc; reflexivity|].
      split; [constructor; [|exact Hwf]; repeat split; simpl; auto; apply lit_no_slash; exact Hlit|].
      split; [intros E; constructor; [simpl; auto|apply Hst; exact E]|]. constructor. exact Has.
    + apply lang_cat in H. destruct H as [u [w' [-> [Hu Hw']]]].
      simpl in He. destruct (bind_inv m b u He Hu) as [l [-> [Hwf1 [Hst1 [Hok1 Hc]]]]].
      destruct (IH Hok w' Hw') as [ts [caps [-> [Hwf [Hst Has]]]]].
      exists (l ++ ts)%list, ((b, l) :: caps). rewrite render_app. split; [reflexivity|].
      split; [apply Forall_app; auto|]. split; [intros E; apply Forall_app; auto|].
      assert (E1 : firstn (List.length l) (l ++ ts)%list = l).
      { rewrite firstn_app, Nat.sub_diag, firstn_all. simpl. apply app_nil_r. }
      assert (E2 : skipn (List.length l) (l ++ ts)%list = ts).
      { rewrite skipn_app, Nat.sub_diag, skipn_all. reflexivity. }
      rewrite <- E1 at 2. apply A_bind; [rewrite app_length; lia|exact Hc|rewrite E1; exact Hok1|rewrite E2; exact Has].
Qed.

(* ---------------- the whole expression ---------------- *)
Theorem route_rx_language m p path : pat_ok p = true ->
  (lang (route_rx m p) path <-> accepts m p path = true).
Proof.
  intros Hp. unfold pat_ok in Hp. unfold route_rx, accepts. split.
  - intros H. apply lang_cat in H. destruct H as [w1 [w2 [-> [H1 H2]]]].
    destruct (elems_sound m (p_elems p) Hp w1 H1) as [ts [caps [-> [Hwf [Hst Has]]]]].
    assert (Htr : exists tr, w2 = slashes tr /\ (m = MStrict -> tr = if p_trailing p then 1 else 0)).
    { destruct m; simpl in H2.
      - destruct (p_trailing p).
        + apply lang_slash in H2. subst w2. exists 1. split; [reflexivity|auto].
        + apply lang_eps in H2. subst w2. exists 0. split; [reflexivity|auto].
      - apply lang_star_slash in H2. destruct H2 as [tr ->]. exists tr. split; [reflexivity|discriminate]. }
    destruct Htr as [tr [-> Htr]]. fold (R ts tr). rewrite (tokenise_render ts tr Hwf).
    destruct (gmatch_complete _ _ _ Has) as [caps' ->]. rewrite andb_true_r.
    destruct m; simpl; [|reflexivity]. rewrite (Htr eq_refl), Nat.eqb_refl, andb_true_r.
    apply forallb_forall. intros t Ht. apply Nat.eqb_eq. specialize (Hst eq_refl). rewrite Forall_forall in Hst. apply Hst. exact Ht.
  - destruct (tokenise path) as [[ts tr]|] eqn:Et; [|discriminate]. intros H. apply andb_prop in H. destruct H as [Hm Hg].
    destruct (gmatch (p_elems p) ts) as [caps|] eqn:Eg; [|discriminate]. apply gmatch_sound in Eg.
    destruct (tokenise_inv path ts tr Et) as [-> Hwf]. unfold R. constructor.
    + apply (elems_complete m _ _ _ Eg Hp Hwf). intros E. subst m. simpl in Hm. apply andb_prop in Hm. destruct Hm as [Hm _].
      rewrite forallb_forall in Hm. apply Forall_forall. intros t Ht. apply Nat.eqb_eq. apply Hm. exact Ht.
    + destruct m; simpl in *.
      * apply andb_prop in Hm. destruct Hm as [_ Hm]. apply Nat.eqb_eq in Hm. subst tr.
        destruct (p_trailing p); [apply lang_slash; reflexivity|apply lang_eps; reflexivity].
      * apply lang_star_slash. eauto.
Qed.

Theorem route_rx_decides m p path : pat_ok p = true -> rx_match (route_rx m p) path = accepts m p path.
Proof.
  intros Hp. destruct (accepts m p path) eqn:E.
  - apply rx_match_lang. apply route_rx_language; assumption.
  - destruct (rx_match (route_rx m p) path) eqn:E2; [|reflexivity].
    apply rx_match_lang in E2. apply route_rx_language in E2; [congruence|exact Hp].
Qed.

(* ---------------- every accepted pattern satisfies pat_ok ---------------- *)
Lemma type_table_clean :
  forallb (fun e => star_free_null (snd e) && (negb (nullable (snd e)) && avoids "/" (snd e))) TYPE_TABLE = true.
Proof. vm_compute. reflexivity. Qed.

Lemma assoc_type_in ty l kd r : assoc_type ty l = Some (kd, r) -> exists ty', In (ty', kd, r) l.
Proof.
  induction l as [|[[k kd'] r'] t IH]; simpl; [discriminate|].
  destruct (String.eqb ty k); [intros H; inversion H; subst; eauto|]. intros H. destruct (IH H) as [ty' Hin]. eauto.
Qed.

Lemma assoc_in_keys {V} k (l : list (string * V)) v : assoc k l = Some v -> In k (map fst l).
Proof.
  induction l as [|[k' v'] t IH]; simpl; [discriminate|].
  destruct (String.eqb k k') eqn:E; [apply String.eqb_eq in E; subst; auto|auto].
Qed.

Lemma forallb_rev {A} (f : A -> bool) l : forallb f (rev l) = forallb f l.
Proof.
  destruct (forallb f l) eqn:E.
  - rewrite forallb_forall in *. intros x Hx. apply E. apply in_rev. exact Hx.
  - destruct (forallb f (rev l)) eqn:E2; [|reflexivity]. rewrite forallb_forall in E2.
    assert (forallb f l = true) by (apply forallb_forall; intros x Hx; apply E2; apply -> in_rev; exact Hx). congruence.
Qed.

Lemma parse_parts_pat_ok parts : forall acc p,
  parse_parts parts acc = Ok p -> forallb elem_ok acc = true -> forallb elem_ok (p_elems p) = true.
Proof.
  induction parts as [|part rest IH]; intros acc p H Hacc.
  - simpl in H. inversion H; subst. simpl. rewrite forallb_rev. exact Hacc.
  - cbn [parse_parts] in H.
    destruct part as [|c part'].
    + destruct rest as [|r0 rest'].
      * inversion H; subst. simpl. rewrite forallb_rev. exact Hacc.
      * simpl in H. discriminate.
    + assert (Hgo : (if starts_with_chr "<" (String c part') then
                       match split_binding (String c part') with
                       | None => Raise "OutsideModel"
                       | Some (nm, op0, ty0) =>
                           if mem_str nm (bound_names acc) then Raise "InvalidPattern" else
                           let op := if String.eqb op0 ":" then "" else op0 in
                           let ty := if String.eqb ty0 "" then "unicode" else ty0 in
                           match assoc_type ty TYPE_TABLE with
                           | None => Raise "InvalidPattern"
                           | Some (kd, r) =>
                               match assoc op OP_ARITY, assoc op OP_OPTIONALITY with
                               | Some mu, Some opt => parse_parts rest (EBind (mk_binding nm op mu opt kd r) :: acc)
                               | _, _ => Raise "InvalidPattern"
                               end
                           end
                       end
                     else if nonempty (String c part') && all_chr is_lit_chr (String c part') then parse_parts rest (ELit (String c part') :: acc)
                     else Raise "OutsideModel") = Ok p).
      { destruct rest; exact H. }
      clear H. cbv zeta in Hgo. destruct (starts_with_chr "<" (String c part')).
      * destruct (split_binding (String c part')) as [[[nm op0] ty0]|]; [|discriminate].
        destruct (mem_str nm (bound_names acc)) eqn:Em; [discriminate|].
        destruct (assoc_type (if String.eqb ty0 "" then "unicode" else ty0) TYPE_TABLE) as [[kd r]|] eqn:Et; [|discriminate].
        destruct (assoc (if String.eqb op0 ":" then "" else op0) OP_ARITY) as [mu|] eqn:Ea; [|discriminate].
        destruct (assoc (if String.eqb op0 ":" then "" else op0) OP_OPTIONALITY) as [opt|] eqn:Eo; [|discriminate].
        apply IH in Hgo; [exact Hgo|]. cbn [forallb elem_ok]. rewrite Hacc, andb_true_r.
        unfold bind_ok. cbn [b_opstr b_rx].
        apply assoc_type_in in Et. destruct Et as [ty' Hin].
        pose proof type_table_clean as Hc. rewrite forallb_forall in Hc. specialize (Hc _ Hin). simpl in Hc.
        apply andb_prop in Hc. destruct Hc as [Hc1 Hc2]. rewrite Hc1. cbn [andb]. rewrite <- andb_assoc, Hc2, andb_true_r.
        apply assoc_in_keys in Ea. apply mem_str_In.
        destruct (String.eqb op0 ":") eqn:Eop.
        -- left. reflexivity.
        -- vm_compute in Ea. destruct Ea as [E|[E|[E|[E|[E|[]]]]]]; subst op0; simpl; auto. discriminate.
      * destruct (nonempty (String c part') && all_chr is_lit_chr (String c part')) eqn:El; [|discriminate].
        apply IH in Hgo; [exact Hgo|]. cbn [forallb elem_ok]. rewrite El, Hacc. reflexivity.
Qed.

Theorem parse_pat_ok s p : parse_pattern s = Ok p -> pat_ok p = true.
Proof.
  unfold parse_pattern, pat_ok. destruct (negb (starts_with_chr "/" s)); [discriminate|].
  destruct (has_double_slash s); [discriminate|].
  destruct (split_on "/" s) as [|x parts]; [discriminate|]. intros H.
  eapply parse_parts_pat_ok; eauto.
Qed.

(* the composed statement: for every pattern the model accepts and every path, the assembled regular
   expression matches the whole path exactly when the path's segments can be assigned to the elements *)
Theorem regex_language s p m path : parse_pattern s = Ok p ->
  (rx_match (route_rx m p) path = true <->
   exists ts tr caps, tokenise path = Some (ts, tr) /\ mode_ok m p ts tr = true /\ assign (p_elems p) ts caps).
Proof.
  intros Hp. rewrite (route_rx_decides m p path (parse_pat_ok s p Hp)). unfold accepts. split.
  - destruct (tokenise path) as [[ts tr]|]; [|discriminate]. intros H. apply andb_prop in H. destruct H as [Hm Hg].
    destruct (gmatch (p_elems p) ts) as [caps|] eqn:Eg; [|discriminate]. exists ts, tr, caps. split; [reflexivity|].
    split; [exact Hm|apply gmatch_sound; exact Eg].
  - intros [ts [tr [caps [-> [Hm Ha]]]]]. rewrite Hm. destruct (gmatch_complete _ _ _ Ha) as [caps' ->]. reflexivity.
Qed.
