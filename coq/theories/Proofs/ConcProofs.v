From Coq Require Import List Arith Lia Permutation.
Import ListNotations.
From ClasticV Require Import Model.Conc.

Section ConcProofs.
Variable frozen local : Type.
Variable app : frozen.
Notation tstate := (tstate frozen local).
Notation tstep := (tstep frozen local app).
Notation gstep := (gstep frozen local app).
Notation run := (run frozen local app).
Notation lproj := (lproj frozen local).
Notation ladv := (ladv frozen local app).
Notation replace_nth := (replace_nth frozen local).
Notation all_ids := (all_ids frozen local).

Lemma tstep_local c (t : tstate) : lproj (snd (tstep c t)) = ladv (lproj t).
Proof.
  unfold Conc.tstep, Conc.lproj, Conc.ladv. simpl. destruct (t_rem frozen local t) as [|[|f] r] eqn:E; simpl; rewrite ?E; reflexivity.
Qed.

Lemma nth_replace_same (l : list tstate) : forall i x t, nth_error l i = Some t -> nth_error (replace_nth l i x) i = Some x.
Proof. induction l as [|y r IH]; intros [|k] x t H; simpl in *; try discriminate; [reflexivity|eapply IH; eauto]. Qed.

Lemma nth_replace_other (l : list tstate) : forall i j x, i <> j -> nth_error (replace_nth l i x) j = nth_error l j.
Proof.
  induction l as [|y r IH]; intros [|k] [|m] x H; simpl; try reflexivity; try contradiction.
  apply IH. intros E. apply H. subst. reflexivity.
Qed.

(* one scheduler step advances the local computation of the chosen thread by one of ITS steps and leaves every other thread alone *)
Lemma gstep_proj st i j t0 :
  nth_error (snd st) j = Some t0 ->
  exists t, nth_error (snd (gstep st i)) j = Some t /\
            lproj t = (if Nat.eqb i j then ladv (lproj t0) else lproj t0).
Proof.
  intros H. unfold Conc.gstep. destruct (nth_error (snd st) i) as [ti|] eqn:Ei.
  - destruct (tstep (fst st) ti) as [c' t'] eqn:Et. simpl.
    destruct (Nat.eqb i j) eqn:E.
    + apply Nat.eqb_eq in E. subst j. rewrite H in Ei. inversion Ei; subst ti.
      exists t'. split; [eapply nth_replace_same; eauto|].
      pose proof (tstep_local (fst st) t0) as X. rewrite Et in X. exact X.
    + apply Nat.eqb_neq in E. exists t0. split; [rewrite nth_replace_other by exact E; exact H|reflexivity].
  - exists t0. split; [exact H|]. destruct (Nat.eqb i j) eqn:E; [|reflexivity].
    apply Nat.eqb_eq in E. subst. congruence.
Qed.

Lemma iter_shift {X} (f : X -> X) n x : Nat.iter (S n) f x = Nat.iter n f (f x).
Proof. induction n as [|k IH]; [reflexivity|]. simpl in *. rewrite IH. reflexivity. Qed.

(* for every number of threads and EVERY schedule: what a thread has computed is the result of running that many
   of its own steps alone - it depends on how often it was scheduled, never on the interleaving or on the other threads *)
Theorem interleaving_irrelevant sched : forall st j t0,
  nth_error (snd st) j = Some t0 ->
  exists t, nth_error (snd (run sched st)) j = Some t /\
            lproj t = Nat.iter (count_occ Nat.eq_dec sched j) ladv (lproj t0).
Proof.
  induction sched as [|i r IH]; intros st j t0 H.
  - exists t0. split; [exact H|reflexivity].
  - simpl. destruct (gstep_proj st i j t0 H) as [t1 [H1 P1]].
    destruct (IH (gstep st i) j t1 H1) as [t [Ht Pt]]. exists t. split; [exact Ht|].
    rewrite Pt, P1. destruct (Nat.eq_dec i j) as [->|Hne].
    + rewrite Nat.eqb_refl. rewrite iter_shift. reflexivity.
    + destruct (Nat.eqb i j) eqn:E; [apply Nat.eqb_eq in E; contradiction|reflexivity].
Qed.

(* ---------------- request ids ---------------- *)
Definition ids_inv (st : gstate frozen local) : Prop :=
  NoDup (all_ids (snd st)) /\ (forall x, In x (all_ids (snd st)) -> x < fst st).

Lemma all_ids_replace (l : list tstate) : forall i t t' extra,
  nth_error l i = Some t -> t_ids frozen local t' = t_ids frozen local t ++ extra ->
  Permutation (all_ids (replace_nth l i t')) (extra ++ all_ids l).
Proof.
  unfold Conc.all_ids. induction l as [|y r IH]; intros [|k] t t' extra H He; simpl in *; try discriminate.
  - inversion H; subst y. rewrite He. rewrite <- app_assoc.
    apply Permutation_trans with (l' := (extra ++ t_ids frozen local t) ++ flat_map (t_ids frozen local) r).
    + rewrite <- !app_assoc. apply Permutation_app_swap_app.
    + rewrite <- app_assoc. apply Permutation_refl.
  - apply Permutation_trans with (l' := t_ids frozen local y ++ extra ++ flat_map (t_ids frozen local) r).
    + apply Permutation_app_head. eapply IH; eauto.
    + apply Permutation_app_swap_app.
Qed.

Lemma gstep_ids st i : ids_inv st -> ids_inv (gstep st i).
Proof.
  intros [Hn Hlt]. unfold Conc.gstep. destruct (nth_error (snd st) i) as [t|] eqn:Ei; [|split; assumption].
  unfold Conc.tstep. destruct (t_rem frozen local t) as [|[|f] r] eqn:Er.
  - simpl. assert (P : Permutation (all_ids (replace_nth (snd st) i t)) ([] ++ all_ids (snd st))).
    { eapply all_ids_replace; [exact Ei|rewrite app_nil_r; reflexivity]. }
    simpl in P. split.
    + eapply Permutation_NoDup; [apply Permutation_sym; exact P|exact Hn].
    + intros x Hx. apply Hlt. eapply Permutation_in; [exact P|exact Hx].
  - simpl. set (t' := mk_t frozen local r (t_loc frozen local t) (t_ids frozen local t ++ [fst st])).
    assert (P : Permutation (all_ids (replace_nth (snd st) i t')) ([fst st] ++ all_ids (snd st))).
    { eapply all_ids_replace; [exact Ei|reflexivity]. }
    simpl in P. split.
    + eapply Permutation_NoDup; [apply Permutation_sym; exact P|]. constructor; [|exact Hn].
      intros Hin. apply Hlt in Hin. cbn [fst snd] in *. lia.
    + intros x Hx. eapply Permutation_in in Hx; [|exact P]. cbn [fst snd] in *. destruct Hx as [<-|Hx]; [lia|]. apply Hlt in Hx. lia.
  - simpl. set (t' := mk_t frozen local r (f app (t_loc frozen local t)) (t_ids frozen local t)).
    assert (P : Permutation (all_ids (replace_nth (snd st) i t')) ([] ++ all_ids (snd st))).
    { eapply all_ids_replace; [exact Ei|simpl; rewrite app_nil_r; reflexivity]. }
    simpl in P. split.
    + eapply Permutation_NoDup; [apply Permutation_sym; exact P|exact Hn].
    + intros x Hx. apply Hlt. eapply Permutation_in; [exact P|exact Hx].
Qed.

(* under every schedule the identifiers handed out are pairwise distinct *)
Theorem ids_unique sched : forall st, ids_inv st -> ids_inv (run sched st).
Proof.
  induction sched as [|i r IH]; intros st H; [exact H|]. simpl. apply IH. apply gstep_ids. exact H.
Qed.

Theorem ids_unique_from_start sched c (ts : list tstate) :
  (forall t, In t ts -> t_ids frozen local t = []) -> NoDup (all_ids (snd (run sched (c, ts)))).
Proof.
  intros H. apply (ids_unique sched (c, ts)). unfold ids_inv. simpl.
  assert (E : all_ids ts = []).
  { unfold Conc.all_ids. induction ts as [|t r IH]; [reflexivity|]. simpl. rewrite (H t) by (left; reflexivity).
    apply IH. intros x Hx. apply H. right. exact Hx. }
  rewrite E. split; [constructor|intros x []].
Qed.
End ConcProofs.
