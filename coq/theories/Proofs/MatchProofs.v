From Coq Require Import List String Ascii Bool Arith ZArith Lia.
Import ListNotations.
From ClasticV Require Import Base.Py Base.Strs Base.Rx Gen.RouteLex Model.Pattern Model.Match.
Local Open Scope string_scope.
Local Open Scope list_scope.
Local Open Scope nat_scope.

(* ---------------- declarative assignment of tokens to pattern elements ---------------- *)
Definition count_ok (b : binding) (k : nat) : Prop :=
  op_min b <= k /\ (op_unbounded b = false -> k <= 1).

Inductive assign : list elem -> list token -> list capture -> Prop :=
| A_nil : assign [] [] []
| A_lit s r n t caps : assign r t caps -> assign (ELit s :: r) ((n, s) :: t) caps
| A_bind b r ts k caps :
    k <= List.length ts -> count_ok b k ->
    (forall t, In t (firstn k ts) -> seg_ok b t = true) ->
    assign r (skipn k ts) caps ->
    assign (EBind b :: r) ts ((b, firstn k ts) :: caps).

Definition counts (caps : list capture) : list nat := map (fun c => List.length (snd c)) caps.

(* lexicographic >= on count vectors of equal length *)
Fixpoint lex_ge (a b : list nat) : Prop :=
  match a, b with
  | x :: a', y :: b' => y < x \/ (x = y /\ lex_ge a' b')
  | [], [] => True
  | _, _ => False
  end.

(* ---------------- valid_prefix ---------------- *)
Lemma valid_prefix_le b ts : valid_prefix b ts <= List.length ts.
Proof. induction ts as [|t r IH]; simpl; [lia|]. destruct (seg_ok b t); simpl; lia. Qed.

Lemma valid_prefix_ok b ts : forall k, k <= valid_prefix b ts -> forall t, In t (firstn k ts) -> seg_ok b t = true.
Proof.
  induction ts as [|t0 r IH]; intros k Hk t Hin.
  - destruct k; simpl in Hin; contradiction.
  - simpl in Hk. destruct (seg_ok b t0) eqn:E.
    + destruct k as [|k']; simpl in Hin; [contradiction|]. destruct Hin as [<-|Hin]; [exact E|].
      eapply IH; [|exact Hin]. lia.
    + assert (k = 0) by lia. subst. simpl in Hin. contradiction.
Qed.

Lemma valid_prefix_max b ts : forall k, k <= List.length ts ->
  (forall t, In t (firstn k ts) -> seg_ok b t = true) -> k <= valid_prefix b ts.
Proof.
  induction ts as [|t0 r IH]; intros k Hk H.
  - simpl in Hk. lia.
  - destruct k as [|k']; [lia|]. simpl in *. rewrite (H t0) by (left; reflexivity).
    apply le_n_S. apply IH; [lia|]. intros t Ht. apply H. right. exact Ht.
Qed.

(* ---------------- try_down ---------------- *)
Ltac mk_wit j c := exists j, c; split; [lia|]; split; [lia|]; split; [assumption|]; split; [reflexivity|].

Lemma try_down_spec k kmin b ts cont res :
  try_down k kmin b ts cont = Some res <->
  exists j caps, j <= k /\ kmin <= j /\ cont (skipn j ts) = Some caps /\ res = (b, firstn j ts) :: caps /\
                 forall j', j < j' -> j' <= k -> kmin <= j' -> cont (skipn j' ts) = None.
Proof.
  induction k as [|k IH].
  - cbn [try_down]. destruct (kmin <=? 0) eqn:E.
    + apply Nat.leb_le in E. destruct (cont (skipn 0 ts)) as [caps|] eqn:Ec.
      * split.
        -- intros H. inversion H; subst. mk_wit 0 caps. intros; lia.
        -- intros [j [caps' [Hj [Hm [Hc [-> _]]]]]]. assert (j = 0) by lia. subst. rewrite Ec in Hc. inversion Hc. reflexivity.
      * split; [discriminate|]. intros [j [caps' [Hj [Hm [Hc _]]]]]. assert (j = 0) by lia. subst. congruence.
    + apply Nat.leb_gt in E. split; [discriminate|]. intros [j [caps' [Hj [Hm _]]]]. lia.
  - cbn [try_down].
    destruct (kmin <=? S k) eqn:E.
    + apply Nat.leb_le in E. destruct (cont (skipn (S k) ts)) as [caps|] eqn:Ec.
      * split.
        -- intros H. inversion H; subst. mk_wit (S k) caps. intros; lia.
        -- intros [j [caps' [Hj [Hm [Hc [-> Hn]]]]]].
           destruct (Nat.eq_dec j (S k)) as [->|Hne]; [rewrite Ec in Hc; inversion Hc; reflexivity|].
           rewrite (Hn (S k)) in Ec by lia. discriminate.
      * rewrite IH. split.
        -- intros [j [caps' [Hj [Hm [Hc [-> Hn]]]]]]. mk_wit j caps'.
           intros j' H1 H2 H3. destruct (Nat.eq_dec j' (S k)) as [->|Hne]; [exact Ec|apply Hn; lia].
        -- intros [j [caps' [Hj [Hm [Hc [-> Hn]]]]]].
           destruct (Nat.eq_dec j (S k)) as [->|Hne]; [congruence|].
           mk_wit j caps'. intros j' H1 H2 H3. apply Hn; lia.
    + apply Nat.leb_gt in E. rewrite IH. split.
      * intros [j [caps' [Hj [Hm [Hc [-> Hn]]]]]]. mk_wit j caps'. intros j' H1 H2 H3.
        destruct (Nat.eq_dec j' (S k)) as [->|Hne]; [lia|apply Hn; lia].
      * intros [j [caps' [Hj [Hm [Hc [-> Hn]]]]]].
        destruct (Nat.eq_dec j (S k)) as [->|Hne]; [lia|].
        mk_wit j caps'. intros j' H1 H2 H3. apply Hn; lia.
Qed.

Definition kmax_of (b : binding) (ts : list token) : nat :=
  if op_unbounded b then valid_prefix b ts else Nat.min 1 (valid_prefix b ts).

Lemma kmax_ok b ts k :
  k <= kmax_of b ts /\ op_min b <= k <->
  (k <= List.length ts /\ count_ok b k /\ forall t, In t (firstn k ts) -> seg_ok b t = true).
Proof.
  unfold kmax_of, count_ok. pose proof (valid_prefix_le b ts) as Hle. split.
  - intros [Hk Hm]. destruct (op_unbounded b) eqn:Eu.
    + repeat split; [lia|exact Hm|discriminate|apply valid_prefix_ok; exact Hk].
    + repeat split; [lia|exact Hm|intros _; lia|apply valid_prefix_ok; lia].
  - intros [Hk [[Hm Hb] Hs]]. pose proof (valid_prefix_max b ts k Hk Hs) as Hv. split; [|exact Hm].
    destruct (op_unbounded b); [exact Hv|]. specialize (Hb eq_refl). lia.
Qed.

(* ---------------- soundness, completeness, greediness ---------------- *)
Theorem gmatch_sound es : forall ts caps, gmatch es ts = Some caps -> assign es ts caps.
Proof.
  induction es as [|e r IH]; intros ts caps H.
  - simpl in H. destruct ts; [inversion H; constructor|discriminate].
  - destruct e as [s|b].
    + simpl in H. destruct ts as [|[n seg] t]; [discriminate|].
      destruct (String.eqb seg s) eqn:E; [|discriminate]. apply String.eqb_eq in E. subst. constructor. apply IH. exact H.
    + cbn [gmatch] in H. fold (kmax_of b ts) in H. apply try_down_spec in H.
      destruct H as [j [caps' [Hj [Hm [Hc [-> _]]]]]].
      assert (Hok := proj1 (kmax_ok b ts j) (conj Hj Hm)). destruct Hok as [H1 [H2 H3]].
      constructor; auto.
Qed.

Theorem gmatch_complete es : forall ts caps, assign es ts caps -> exists caps', gmatch es ts = Some caps'.
Proof.
  induction es as [|e r IH]; intros ts caps H.
  - inversion H; subst. exists []. reflexivity.
  - inversion H as [|s r0 n t caps0 Hr|b r0 ts0 k caps0 Hk Hc Hs Hr]; subst.
    + simpl. rewrite String.eqb_refl. eapply IH; eauto.
    + cbn [gmatch]. fold (kmax_of b ts).
      destruct (IH _ _ Hr) as [c1 Hc1].
      assert (Hkm := proj2 (kmax_ok b ts k) (conj Hk (conj Hc Hs))). destruct Hkm as [Hk1 Hk2].
      destruct (try_down (kmax_of b ts) (op_min b) b ts (gmatch r)) as [res|] eqn:E; [eauto|].
      exfalso.
      (* some j in [k, kmax] succeeds: take the largest; contradiction with None *)
      assert (Hex : forall m, m <= kmax_of b ts ->
                (forall j, m < j -> j <= kmax_of b ts -> op_min b <= j -> gmatch r (skipn j ts) = None) ->
                k <= m -> False).
      { induction m as [|m IHm]; intros Hm Hn Hkm.
        - assert (k = 0) by lia. subst k.
          assert (try_down (kmax_of b ts) (op_min b) b ts (gmatch r) = Some ((b, firstn 0 ts) :: c1)) as X.
          { apply try_down_spec. mk_wit 0 c1. intros; apply Hn; lia. }
          congruence.
        - destruct (Nat.eq_dec k (S m)) as [->|Hne].
          + assert (try_down (kmax_of b ts) (op_min b) b ts (gmatch r) = Some ((b, firstn (S m) ts) :: c1)) as X.
            { apply try_down_spec. mk_wit (S m) c1. intros; apply Hn; lia. }
            congruence.
          + destruct (gmatch r (skipn (S m) ts)) as [c2|] eqn:E2.
            * assert (try_down (kmax_of b ts) (op_min b) b ts (gmatch r) = Some ((b, firstn (S m) ts) :: c2)) as X.
              { apply try_down_spec. mk_wit (S m) c2. intros; apply Hn; lia. }
              congruence.
            * apply IHm; [lia| |lia]. intros j H1 H2 H3.
              destruct (Nat.eq_dec j (S m)) as [->|Hne2]; [exact E2|apply Hn; lia]. }
      apply (Hex (kmax_of b ts)); [lia| |exact Hk1]. intros; lia.
Qed.

Lemma counts_cons b l caps : counts ((b, l) :: caps) = List.length l :: counts caps.
Proof. reflexivity. Qed.

Theorem gmatch_greedy es : forall ts caps caps',
  gmatch es ts = Some caps -> assign es ts caps' -> lex_ge (counts caps) (counts caps').
Proof.
  induction es as [|e r IH]; intros ts caps caps' H Ha.
  - inversion Ha; subst. simpl in H. inversion H. exact I.
  - inversion Ha as [|s r0 n t caps0 Hr|b r0 ts0 k caps0 Hk Hc Hs Hr]; subst.
    + simpl in H. rewrite String.eqb_refl in H. eapply IH; eauto.
    + cbn [gmatch] in H. fold (kmax_of b ts) in H. apply try_down_spec in H.
      destruct H as [j [c1 [Hj [Hm [Hc1 [-> Hn]]]]]].
      assert (Hkm := proj2 (kmax_ok b ts k) (conj Hk (conj Hc Hs))). destruct Hkm as [Hk1 Hk2].
      unfold counts. cbn [map snd lex_ge]. fold (counts c1). fold (counts caps0). rewrite !firstn_length.
      assert (Hjl : j <= List.length ts).
      { pose proof (valid_prefix_le b ts). unfold kmax_of in Hj. destruct (op_unbounded b); lia. }
      rewrite !Nat.min_l by lia.
      destruct (Nat.lt_trichotomy k j) as [Hlt|[->|Hgt]].
      * left. exact Hlt.
      * right. split; [reflexivity|]. eapply IH; eauto.
      * exfalso. destruct (gmatch_complete _ _ _ Hr) as [c2 Hc2]. rewrite (Hn k) in Hc2 by lia. discriminate.
Qed.

(* the captures partition the token list: every token is taken by a literal or by exactly one binding *)
Definition is_lit (e : elem) : bool := match e with ELit _ => true | _ => false end.

Theorem assign_partition es : forall ts caps, assign es ts caps ->
  List.length ts = List.length (filter is_lit es) + list_sum (counts caps).
Proof.
  induction es as [|e r IH]; intros ts caps H.
  - inversion H; subst. reflexivity.
  - inversion H as [|s r0 n t caps0 Hr|b r0 ts0 k caps0 Hk Hc Hs Hr]; subst.
    + pose proof (IH _ _ Hr) as E. simpl. rewrite E. reflexivity.
    + pose proof (IH _ _ Hr) as E. unfold counts. cbn [filter is_lit map snd list_sum]. fold (counts caps0).
      rewrite firstn_length, Nat.min_l by lia. rewrite skipn_length in E. change (list_sum (k :: counts caps0)) with (k + list_sum (counts caps0)). lia.
Qed.

(* ---------------- shapes of converted values ---------------- *)
Theorem convert1_shape b ts name v :
  convert1 (b, ts) = Some (name, v) ->
  name = b_name b /\
  (ts = [] -> b_optional b = true -> v = (if b_multi b then VList [] else VNone)) /\
  (b_multi b = true -> exists l, v = VList l /\ (ts <> [] -> List.length l = List.length (pieces_of ts))) /\
  (b_multi b = false -> ts <> [] -> conv (b_kind b) (String.concat "" (map snd ts)) = Some v).
Proof.
  unfold convert1. destruct ts as [|t r].
  - destruct (b_optional b) eqn:Eo.
    + intros H. inversion H; subst. split; [reflexivity|]. split; [auto|]. split.
      * intros Hm. rewrite Hm. exists []. split; [reflexivity|]. intros X; contradiction.
      * intros _ X. contradiction.
    + destruct (b_multi b) eqn:Em.
      * intros H. inversion H; subst. split; [reflexivity|]. split; [intros _ X; discriminate|]. split.
        -- intros _. exists []. split; [reflexivity|]. intros X; contradiction.
        -- discriminate.
      * destruct (conv (b_kind b) "") eqn:Ec; [|discriminate]. intros H. inversion H; subst.
        split; [reflexivity|]. split; [intros _ X; discriminate|]. split; [discriminate|]. intros _ X. contradiction.
  - destruct (b_multi b) eqn:Em.
    + destruct (conv_all (b_kind b) (pieces_of (t :: r))) as [vs|] eqn:Ec; [|discriminate].
      intros H. inversion H; subst. split; [reflexivity|]. split; [discriminate|]. split; [|discriminate].
      intros _. exists vs. split; [reflexivity|]. intros _.
      clear H. revert vs Ec. generalize (pieces_of (t :: r)) as l. induction l as [|s l IH]; intros vs Ec; simpl in Ec.
      * inversion Ec. reflexivity.
      * destruct (conv (b_kind b) s); [|discriminate]. destruct (conv_all (b_kind b) l) as [vs'|]; [|discriminate].
        inversion Ec; subst. simpl. f_equal. apply IH. reflexivity.
    + destruct (conv (b_kind b) (String.concat "" (map snd (t :: r)))) eqn:Ec; [|discriminate].
      intros H. inversion H; subst. split; [reflexivity|]. split; [discriminate|]. split; [discriminate|]. intros _ _. reflexivity.
Qed.

(* ---------------- slash tolerance ---------------- *)
(* gmatch never looks at the slash counts: only conversion of multi bindings does (pieces_of) *)
Definition same_segs (a b : list token) : Prop := map snd a = map snd b.

Lemma valid_prefix_segs b : forall ts ts', same_segs ts ts' -> valid_prefix b ts = valid_prefix b ts'.
Proof.
  induction ts as [|t r IH]; intros ts' H; destruct ts' as [|t' r']; try discriminate; [reflexivity|].
  unfold same_segs in H. simpl in H. inversion H as [[H1 H2]]. simpl. unfold seg_ok. rewrite H1.
  destruct (rx_match (b_rx b) (snd t')); [f_equal; apply IH; exact H2|reflexivity].
Qed.

Lemma same_segs_skipn k : forall ts ts', same_segs ts ts' -> same_segs (skipn k ts) (skipn k ts').
Proof.
  unfold same_segs. induction k as [|k IH]; intros ts ts' H; [exact H|].
  destruct ts as [|t r], ts' as [|t' r']; try discriminate; [reflexivity|].
  simpl in *. inversion H. apply IH. assumption.
Qed.

Lemma same_segs_firstn k : forall ts ts', same_segs ts ts' -> same_segs (firstn k ts) (firstn k ts').
Proof.
  unfold same_segs. induction k as [|k IH]; intros ts ts' H; [reflexivity|].
  destruct ts as [|t r], ts' as [|t' r']; try discriminate; [reflexivity|].
  simpl in *. inversion H. f_equal. apply IH. assumption.
Qed.

Inductive caps_same : list capture -> list capture -> Prop :=
| CS_nil : caps_same [] []
| CS_cons b l l' c c' : same_segs l l' -> caps_same c c' -> caps_same ((b, l) :: c) ((b, l') :: c').

Lemma try_down_segs b (cont cont' : list token -> option (list capture)) :
  (forall ts ts', same_segs ts ts' ->
     match cont ts, cont' ts' with Some c, Some c' => caps_same c c' | None, None => True | _, _ => False end) ->
  forall k kmin ts ts', same_segs ts ts' ->
  match try_down k kmin b ts cont, try_down k kmin b ts' cont' with
  | Some c, Some c' => caps_same c c' | None, None => True | _, _ => False end.
Proof.
  intros Hc. induction k as [|k IH]; intros kmin ts ts' Hs; cbn [try_down].
  - destruct (kmin <=? 0); [|exact I].
    pose proof (Hc _ _ (same_segs_skipn 0 _ _ Hs)) as H0.
    destruct (cont (skipn 0 ts)), (cont' (skipn 0 ts')); try contradiction; [|exact I].
    constructor; [apply same_segs_firstn; exact Hs|exact H0].
  - destruct (kmin <=? S k).
    + pose proof (Hc _ _ (same_segs_skipn (S k) _ _ Hs)) as H0.
      destruct (cont (skipn (S k) ts)), (cont' (skipn (S k) ts')); try contradiction.
      * constructor; [apply same_segs_firstn; exact Hs|exact H0].
      * apply IH. exact Hs.
    + apply IH. exact Hs.
Qed.

Theorem gmatch_ignores_slash_counts es : forall ts ts', same_segs ts ts' ->
  match gmatch es ts, gmatch es ts' with
  | Some c, Some c' => caps_same c c' | None, None => True | _, _ => False end.
Proof.
  induction es as [|e r IH]; intros ts ts' Hs.
  - destruct ts, ts'; try discriminate; simpl; constructor.
  - destruct e as [s|b].
    + destruct ts as [|[n seg] t], ts' as [|[n' seg'] t']; try discriminate; simpl; [exact I|].
      unfold same_segs in Hs. simpl in Hs. inversion Hs as [[H1 H2]]. subst.
      destruct (String.eqb seg' s); [apply IH; exact H2|exact I].
    + cbn [gmatch]. rewrite (valid_prefix_segs b ts ts' Hs). apply try_down_segs; [exact IH|exact Hs].
Qed.

(* a capture whose tokens all have exactly one leading slash converts like its collapsed form;
   single (non-multi) bindings never depend on slash counts at all *)
Lemma pieces_of_single_slashes ts : (forall t, In t ts -> fst t = 1) -> pieces_of ts = map snd ts.
Proof.
  induction ts as [|t r IH]; intros H; [reflexivity|]. simpl. rewrite (H t) by (left; reflexivity). simpl.
  f_equal. apply IH. intros t' Ht. apply H. right. exact Ht.
Qed.

Theorem convert1_single_ignores_slashes b l l' :
  b_multi b = false -> same_segs l l' -> convert1 (b, l) = convert1 (b, l').
Proof.
  intros Hm Hs. unfold convert1. rewrite Hm. unfold same_segs in Hs.
  destruct l as [|t r], l' as [|t' r']; try discriminate; [reflexivity|]. rewrite Hs. reflexivity.
Qed.

(* ---------------- int conversion ---------------- *)
Lemma py_int_sign_space s : py_int (String "+" (String " " s)) = None /\ py_int (String "-" (String " " s)) = None.
Proof.
  unfold py_int. split; simpl; destruct (drop_spaces s) as [t n]; reflexivity.
Qed.

(* ---------------- captures only contain tokens of the path ---------------- *)
Lemma assign_caps_incl es : forall ts caps, assign es ts caps ->
  forall c t, In c caps -> In t (snd c) -> In t ts.
Proof.
  induction es as [|e r IH]; intros ts caps H c t Hc Ht.
  - inversion H; subst. contradiction.
  - inversion H as [|s r0 n t0 caps0 Hr|b r0 ts0 k caps0 Hk Hco Hs Hr]; subst.
    + right. eapply IH; eauto.
    + destruct Hc as [<-|Hc].
      * simpl in Ht. rewrite <- (firstn_skipn k ts). apply in_or_app. left. exact Ht.
      * rewrite <- (firstn_skipn k ts). apply in_or_app. right. eapply IH; eauto.
Qed.

Lemma convert1_same b l l' :
  same_segs l l' -> pieces_of l = pieces_of l' -> convert1 (b, l) = convert1 (b, l').
Proof.
  intros Hs Hp. unfold convert1. unfold same_segs in Hs.
  destruct l as [|t r], l' as [|t' r']; try discriminate; [reflexivity|]. rewrite Hs, Hp. reflexivity.
Qed.

Definition unit_runs (ts : list token) : Prop := forall t, In t ts -> fst t = 1.

Lemma convert_same c : forall c', caps_same c c' ->
  (forall x, In x c -> b_multi (fst x) = true -> unit_runs (snd x)) ->
  (forall x, In x c' -> unit_runs (snd x)) ->
  convert c = convert c'.
Proof.
  induction c as [|[b l] r IH]; intros c' Hs H1 H2; inversion Hs as [|b0 l0 l' r0 r' Hl Hr]; subst; [reflexivity|].
  cbn [convert]. rewrite (IH r' Hr).
  2:{ intros x Hx. apply H1. right. exact Hx. }
  2:{ intros x Hx. apply H2. right. exact Hx. }
  destruct (b_multi b) eqn:Em.
  - rewrite (convert1_same b l l' Hl); [reflexivity|].
    rewrite (pieces_of_single_slashes l) by (apply (H1 (b, l)); [left; reflexivity|exact Em]).
    rewrite (pieces_of_single_slashes l') by (apply (H2 (b, l')); left; reflexivity).
    exact Hl.
  - rewrite (convert1_single_ignores_slashes b l l' Em Hl). reflexivity.
Qed.

(* repeated slashes do not matter as long as none falls inside the span of a multi binding *)
Definition multi_clean (es : list elem) (ts : list token) : Prop :=
  forall caps, gmatch es ts = Some caps ->
  forall x, In x caps -> b_multi (fst x) = true -> unit_runs (snd x).

Theorem tolerant_tokens_invariant es ts ts' :
  same_segs ts ts' -> unit_runs ts' -> multi_clean es ts ->
  match gmatch es ts with Some c => convert c | None => None end =
  match gmatch es ts' with Some c => convert c | None => None end.
Proof.
  intros Hs Hu Hm. pose proof (gmatch_ignores_slash_counts es ts ts' Hs) as H.
  destruct (gmatch es ts) as [c|] eqn:E1, (gmatch es ts') as [c'|] eqn:E2; try contradiction; [|reflexivity].
  apply convert_same; [exact H|exact (Hm c E1)|].
  intros x Hx t Ht. apply Hu. eapply assign_caps_incl; [apply gmatch_sound; exact E2|exact Hx|exact Ht].
Qed.

(* ---------------- tokenise and normalize_path (translated from the source) ---------------- *)
From ClasticV Require Import Gen.NormPathGen.

Lemma tok_pieces_segs ps : forall run, map snd (fst (tok_pieces ps run)) = filter nonempty ps.
Proof.
  induction ps as [|p r IH]; intros run; simpl; [reflexivity|].
  destruct (nonempty p) eqn:E.
  - destruct (tok_pieces r 0) as [ts tr] eqn:Et. simpl. f_equal. specialize (IH 0). rewrite Et in IH. exact IH.
  - apply IH.
Qed.

Lemma tok_pieces_clean segs : forallb nonempty segs = true ->
  forall run, tok_pieces segs run =
    match segs with [] => ([], run) | s :: r => ((S run, s) :: map (fun x => (1, x)) r, 0) end.
Proof.
  induction segs as [|s r IH]; intros H run; [reflexivity|].
  simpl in H. apply andb_prop in H. destruct H as [H1 H2]. simpl. rewrite H1.
  rewrite (IH H2 0). destruct r as [|s' r']; reflexivity.
Qed.

Lemma tok_pieces_clean_trailing segs : forallb nonempty segs = true ->
  forall run, tok_pieces (segs ++ [""]) run =
    match segs with [] => ([], S run) | s :: r => ((S run, s) :: map (fun x => (1, x)) r, 1) end.
Proof.
  induction segs as [|s r IH]; intros H run; [reflexivity|].
  simpl in H. apply andb_prop in H. destruct H as [H1 H2].
  change ((s :: r) ++ [""]) with (s :: (r ++ [""])). cbn [tok_pieces]. rewrite H1.
  rewrite (IH H2 0). destruct r as [|s' r']; reflexivity.
Qed.

Lemma filter_nonempty_all ps : forallb nonempty (filter nonempty ps) = true.
Proof. induction ps as [|p r IH]; simpl; [reflexivity|]. destruct (nonempty p) eqn:E; simpl; [rewrite E|]; exact IH. Qed.

Lemma join_cons_sep c x y r :
  join (String c "") (x :: y :: r) = (x ++ String c (join (String c "") (y :: r)))%string.
Proof. reflexivity. Qed.

Lemma segs_no_slash path : forall p, In p (filter nonempty (split_on "/" path)) -> str_contains_chr "/" p = false.
Proof. intros p Hp. apply filter_In in Hp. destruct Hp as [Hp _]. eapply split_on_no_sep; eauto. Qed.

(* the tokens of the normalised path: same segments, single slashes *)
Theorem tokenise_normalized path b ts tr :
  tokenise path = Some (ts, tr) ->
  exists ts' tr', tokenise (normalize_path path b) = Some (ts', tr') /\ same_segs ts ts' /\ unit_runs ts'.
Proof.
  unfold tokenise. destruct (split_on "/" path) as [|p0 ps] eqn:Es; [discriminate|].
  destruct p0; [|discriminate]. intros H. inversion H as [Ht]. clear H.
  unfold normalize_path. rewrite Es. cbn [filter nonempty].
  set (segs := filter nonempty ps).
  assert (Hsegs : map snd ts = segs).
  { pose proof (tok_pieces_segs ps 0) as X. rewrite Ht in X. exact X. }
  assert (Hns : forall p, In p segs -> str_contains_chr "/" p = false).
  { intros p Hp. apply (segs_no_slash path). rewrite Es. cbn [filter nonempty]. exact Hp. }
  destruct segs as [|s0 sr] eqn:Eseg.
  - (* no segment at all: "/" *)
    cbn [is_nil]. exists [], 1. split; [reflexivity|]. split; [|intros t []].
    unfold same_segs. rewrite Hsegs. reflexivity.
  - cbn [is_nil]. cbn [List.app].
    set (l := if b then (s0 :: sr) ++ [""] else s0 :: sr).
    replace (if b then "" :: s0 :: sr ++ [""] else "" :: s0 :: sr) with ("" :: l) by (unfold l; destruct b; reflexivity).
    assert (Hsp : split_on "/" (join "/" ("" :: l)) = "" :: l).
    { apply split_join; [discriminate|]. intros p [<-|Hp]; [reflexivity|].
      unfold l in Hp. destruct b; [apply in_app_or in Hp; destruct Hp as [Hp|[<-|[]]]; [apply Hns; exact Hp|reflexivity]|apply Hns; exact Hp]. }
    rewrite Hsp.
    assert (Hall : forallb nonempty (s0 :: sr) = true).
    { rewrite <- Eseg. apply filter_nonempty_all. }
    destruct b; unfold l.
    + (* trailing "" piece *)
      assert (Htok : tok_pieces (s0 :: sr ++ [""]) 0 = ((1, s0) :: map (fun x => (1, x)) sr, 1)).
      { exact (tok_pieces_clean_trailing (s0 :: sr) Hall 0). }
      change ((s0 :: sr) ++ [""]) with (s0 :: sr ++ [""]). rewrite Htok. eexists _, _. split; [reflexivity|]. split.
      * unfold same_segs. rewrite Hsegs. simpl. f_equal. rewrite map_map. simpl. rewrite map_id. reflexivity.
      * intros t [<-|Ht']; [reflexivity|]. apply in_map_iff in Ht'. destruct Ht' as [x [<- _]]. reflexivity.
    + rewrite (tok_pieces_clean _ Hall 0). eexists _, _. split; [reflexivity|]. split.
      * unfold same_segs. rewrite Hsegs. simpl. f_equal. rewrite map_map. simpl. rewrite map_id. reflexivity.
      * intros t [<-|Ht']; [reflexivity|]. apply in_map_iff in Ht'. destruct Ht' as [x [<- _]]. reflexivity.
Qed.

(* in the tolerant modes a route matches a path exactly as it matches the
   normalised path, with the same bindings (partial: no slash run inside a multi binding, F3) *)
Theorem tolerant_normalized p path b ts tr :
  tokenise path = Some (ts, tr) -> multi_clean (p_elems p) ts ->
  match_path MTolerant p path = match_path MTolerant p (normalize_path path b).
Proof.
  intros Ht Hm. destruct (tokenise_normalized path b ts tr Ht) as [ts' [tr' [Ht' [Hs Hu]]]].
  unfold match_path. rewrite Ht, Ht'. cbn [mode_ok].
  apply tolerant_tokens_invariant; assumption.
Qed.

(* ---------------- strict mode ---------------- *)
Theorem strict_exact p path r :
  match_path MStrict p path = Some r ->
  exists ts tr, tokenise path = Some (ts, tr) /\ unit_runs ts /\ tr = (if p_trailing p then 1 else 0).
Proof.
  unfold match_path. destruct (tokenise path) as [[ts tr]|]; [|discriminate].
  cbn [mode_ok]. destruct (forallb (fun t => fst t =? 1) ts) eqn:E1; [|discriminate].
  destruct (tr =? (if p_trailing p then 1 else 0)) eqn:E2; [|discriminate]. simpl. intros _.
  exists ts, tr. split; [reflexivity|]. split.
  - intros t Ht. rewrite forallb_forall in E1. apply Nat.eqb_eq. apply E1. exact Ht.
  - apply Nat.eqb_eq. exact E2.
Qed.

(* ---------------- invalid patterns ---------------- *)
Theorem invalid_no_leading_slash s : starts_with_chr "/" s = false -> parse_pattern s = Raise "InvalidPattern".
Proof. unfold parse_pattern. intros ->. reflexivity. Qed.

Theorem invalid_double_slash s : has_double_slash s = true -> parse_pattern s = Raise "InvalidPattern".
Proof. unfold parse_pattern. intros ->. destruct (negb (starts_with_chr "/" s)); reflexivity. Qed.

Definition elem_wf (e : elem) : Prop :=
  match e with
  | ELit s => nonempty s = true /\ all_chr is_lit_chr s = true
  | EBind b => exists ty, assoc_type ty TYPE_TABLE = Some (b_kind b, b_rx b) /\
                          assoc (b_opstr b) OP_ARITY = Some (b_multi b) /\
                          assoc (b_opstr b) OP_OPTIONALITY = Some (b_optional b)
  end.

Lemma parse_parts_ok parts : forall acc p,
  parse_parts parts acc = Ok p ->
  NoDup (bound_names acc) -> Forall elem_wf acc ->
  NoDup (bound_names (rev (p_elems p))) /\ Forall elem_wf (p_elems p).
Proof.
  induction parts as [|part rest IH]; intros acc p H Hnd Hwf.
  - simpl in H. inversion H; subst. simpl. rewrite rev_involutive. split; [exact Hnd|]. apply Forall_rev. exact Hwf.
  - cbn [parse_parts] in H.
    assert (Hlast : rest = [] -> part = "" -> NoDup (bound_names (rev (p_elems (mk_pat (rev acc) true)))) /\ Forall elem_wf (p_elems (mk_pat (rev acc) true))).
    { intros _ _. simpl. rewrite rev_involutive. split; [exact Hnd|]. apply Forall_rev. exact Hwf. }
    destruct part as [|c part'].
    + destruct rest as [|r0 rest'].
      * inversion H; subst. apply Hlast; reflexivity.
      * simpl in H. discriminate.
    + assert (Hgo : (if starts_with_chr "<" (String c part') then
                       match split_binding (String c part') with
                       | None => Raise "OutsideModel"
                       | Some (nm, op0, ty0) =>
                           if mem_str nm (bound_names acc) then Raise "InvalidPattern" else
                           let op := if String.eqb op0 ":" then "" else op0 in
                           let ty := if String.eqb ty0 "" then "unicode" else ty0 in
                           match assoc_type ty TYPE_TABLE with
                           | None => Raise "InvalidPattern"
                           | Some (kd, r) =>
                               match assoc op OP_ARITY, assoc op OP_OPTIONALITY with
                               | Some mu, Some opt => parse_parts rest (EBind (mk_binding nm op mu opt kd r) :: acc)
                               | _, _ => Raise "InvalidPattern"
                               end
                           end
                       end
                     else if nonempty (String c part') && all_chr is_lit_chr (String c part') then parse_parts rest (ELit (String c part') :: acc)
                     else Raise "OutsideModel") = Ok p).
      { destruct rest; exact H. }
      clear H. cbv zeta in Hgo. destruct (starts_with_chr "<" (String c part')).
      * destruct (split_binding (String c part')) as [[[nm op0] ty0]|]; [|discriminate].
        destruct (mem_str nm (bound_names acc)) eqn:Em; [discriminate|].
        destruct (assoc_type (if String.eqb ty0 "" then "unicode" else ty0) TYPE_TABLE) as [[kd r]|] eqn:Et; [|discriminate].
        destruct (assoc (if String.eqb op0 ":" then "" else op0) OP_ARITY) as [mu|] eqn:Ea; [|discriminate].
        destruct (assoc (if String.eqb op0 ":" then "" else op0) OP_OPTIONALITY) as [opt|] eqn:Eo; [|discriminate].
        apply IH in Hgo; [exact Hgo| |].
        -- simpl. constructor; [|exact Hnd]. intros Hin. apply mem_str_In in Hin. congruence.
        -- constructor; [|exact Hwf]. cbn [elem_wf b_kind b_rx b_opstr b_multi b_optional]. eexists. split; [eassumption|]. split; assumption.
      * destruct (nonempty (String c part') && all_chr is_lit_chr (String c part')) eqn:El; [|discriminate].
        apply andb_prop in El. apply IH in Hgo; [exact Hgo|exact Hnd|]. constructor; [exact El|exact Hwf].
Qed.

Lemma bound_names_rev es : forall x, In x (bound_names (rev es)) <-> In x (bound_names es).
Proof.
  intros x. unfold bound_names. rewrite !in_flat_map. split; intros [e [He Hx]]; exists e; split; auto;
    [apply in_rev; exact He|apply -> in_rev; exact He].
Qed.

(* an accepted pattern has none of the listed defects *)
Theorem parse_ok_wellformed s p :
  parse_pattern s = Ok p ->
  starts_with_chr "/" s = true /\ has_double_slash s = false /\
  Forall elem_wf (p_elems p) /\ NoDup (bound_names (rev (p_elems p))).
Proof.
  unfold parse_pattern. destruct (starts_with_chr "/" s); [|discriminate]. simpl.
  destruct (has_double_slash s); [discriminate|].
  destruct (split_on "/" s) as [|x parts]; [discriminate|]. intros H.
  apply parse_parts_ok in H; [|constructor|constructor]. tauto.
Qed.

(* one-step rejection lemmas: a duplicate binding, an unknown type or an unknown
   operator at the head of the remaining parts is InvalidPattern whatever came before *)
Theorem duplicate_binding_rejected part rest acc nm op ty :
  starts_with_chr "<" part = true -> split_binding part = Some (nm, op, ty) ->
  In nm (bound_names acc) -> parse_parts (part :: rest) acc = Raise "InvalidPattern".
Proof.
  intros Hs Hb Hin. apply mem_str_In in Hin. cbn [parse_parts].
  destruct part as [|c part']; [discriminate|].
  assert (X : forall (A : result pat), (match rest with [] => A | _ :: _ => A end) = A) by (intros; destruct rest; reflexivity).
  destruct rest; rewrite Hs, Hb, Hin; reflexivity.
Qed.

Theorem unknown_type_rejected part rest acc nm op ty :
  starts_with_chr "<" part = true -> split_binding part = Some (nm, op, ty) ->
  assoc_type (if String.eqb ty "" then "unicode" else ty) TYPE_TABLE = None ->
  exists c, parse_parts (part :: rest) acc = Raise c /\ c = "InvalidPattern".
Proof.
  intros Hs Hb Ht. cbn [parse_parts]. destruct part as [|c part']; [discriminate|].
  exists "InvalidPattern". split; [|reflexivity].
  destruct rest; rewrite Hs, Hb; destruct (mem_str nm (bound_names acc)); try reflexivity; rewrite Ht; reflexivity.
Qed.

Theorem unknown_operator_rejected part rest acc nm op ty :
  starts_with_chr "<" part = true -> split_binding part = Some (nm, op, ty) ->
  assoc (if String.eqb op ":" then "" else op) OP_ARITY = None ->
  parse_parts (part :: rest) acc = Raise "InvalidPattern".
Proof.
  intros Hs Hb Ho. cbn [parse_parts]. destruct part as [|c part']; [discriminate|].
  destruct rest; rewrite Hs, Hb; destruct (mem_str nm (bound_names acc)); try reflexivity;
    destruct (assoc_type (if String.eqb ty "" then "unicode" else ty) TYPE_TABLE) as [[kd r]|]; try reflexivity;
    rewrite Ho; reflexivity.
Qed.
