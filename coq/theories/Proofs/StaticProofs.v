From Coq Require Import List String Ascii Bool Arith Lia.
Import ListNotations.
From ClasticV Require Import Base.Py Base.Strs Model.Static Gen.StaticGuards.
Local Open Scope string_scope.
Local Open Scope list_scope.

Definition is_ord (c : string) : bool := negb (is_skip c) && negb (is_dd c).

(* ---------------- shape of normpath's component list ---------------- *)
(* the stack (reversed result) is: ordinary components on top of a run of ".." (none if absolute) *)
Definition sok (absolute : bool) (stack : list string) : Prop :=
  exists o d, stack = o ++ d /\ forallb is_ord o = true /\ forallb is_dd d = true /\ (absolute = true -> d = []).

Lemma norm_loop_shape absolute comps : forall stack,
  sok absolute stack -> exists stack', norm_loop absolute comps stack = rev stack' /\ sok absolute stack'.
Proof.
  induction comps as [|c r IH]; intros stack Hs.
  - exists stack. split; [reflexivity|exact Hs].
  - cbn [norm_loop]. destruct (is_skip c) eqn:Esk; [apply IH; exact Hs|].
    destruct Hs as [o [d [-> [Ho [Hd Ha]]]]].
    destruct (is_dd c) eqn:Edd; cbn [negb orb].
    + (* c = ".." *)
      destruct o as [|top o'].
      * (* no ordinary component on the stack *)
        cbn [app]. destruct d as [|dt d'].
        -- (* empty stack *)
           destruct absolute; cbn [negb andb orb].
           ++ apply IH. exists [], []. repeat split; auto.
           ++ apply IH. exists [], [c]. repeat split; auto; [simpl; rewrite Edd; reflexivity|discriminate].
        -- (* top of the stack is ".." : push *)
           assert (Hdt : is_dd dt = true) by (simpl in Hd; apply andb_prop in Hd; tauto).
           destruct absolute; [specialize (Ha eq_refl); discriminate|].
           cbn [negb andb orb]. rewrite Hdt.
           apply IH. exists [], (c :: dt :: d'). repeat split; auto; [simpl; rewrite Edd; exact Hd|discriminate].
      * (* an ordinary component on top: pop it *)
        assert (Htop : is_dd top = false).
        { simpl in Ho. apply andb_prop in Ho. destruct Ho as [H1 _]. unfold is_ord in H1. apply andb_prop in H1.
          destruct H1 as [_ H1]. destruct (is_dd top); [discriminate|reflexivity]. }
        cbn [app]. rewrite Htop. rewrite andb_false_r. cbn [orb].
        apply IH. exists o', d. repeat split; auto. simpl in Ho. apply andb_prop in Ho. tauto.
    + (* an ordinary component: push *)
      apply IH. exists (c :: o), d. repeat split; auto. simpl. rewrite Ho. unfold is_ord. rewrite Esk, Edd. reflexivity.
Qed.

Theorem norm_comps_shape p :
  exists d o, norm_comps p = d ++ o /\ forallb is_dd d = true /\ forallb is_ord o = true /\
              (initial_slashes p <> 0 -> d = []).
Proof.
  unfold norm_comps.
  destruct (norm_loop_shape (negb (Nat.eqb (initial_slashes p) 0)) (split_on "/" p) []) as [st [Heq [o [d [-> [Ho [Hd Ha]]]]]]].
  { exists [], []. repeat split; auto. }
  rewrite Heq. rewrite rev_app_distr. exists (rev d), (rev o). split; [reflexivity|].
  assert (Hrev : forall f (l : list string), forallb f l = true -> forallb f (rev l) = true).
  { intros f l H. rewrite forallb_forall in *. intros x Hx. apply H. apply in_rev. exact Hx. }
  split; [apply Hrev; exact Hd|]. split; [apply Hrev; exact Ho|].
  intros Hn. rewrite Ha; [reflexivity|]. destruct (Nat.eqb (initial_slashes p) 0) eqn:E; [apply Nat.eqb_eq in E; contradiction|reflexivity].
Qed.

(* ---------------- confinement ---------------- *)
Lemma prefix_dd_join c r : is_dd c = true -> prefix_str ".." (join "/" (c :: r)) = true.
Proof.
  unfold is_dd. intros H. apply String.eqb_eq in H. subst. destruct r; reflexivity.
Qed.

Lemma first_file_spec isfile cands full :
  first_file isfile cands = Some full -> In full cands /\ isfile full = true.
Proof.
  induction cands as [|c r IH]; simpl; [discriminate|].
  destruct (isfile c) eqn:E; intros H.
  - inversion H; subst. auto.
  - apply IH in H. tauto.
Qed.

Lemma slashes_starts n s : n <> 0 -> starts_with_chr "/" (slashes n ++ s)%string = true.
Proof. destruct n; [contradiction|reflexivity]. Qed.

(* whatever the request path: a file that is found is "root/rel" with rel made
   of ordinary components only (no "..", no ".", no empty component, not
   absolute), so without symbolic links it denotes a node below that root *)
Theorem confined isfile roots path full :
  find_file isfile roots path = Ok (Some full) ->
  exists sr, In sr roots /\ full = pjoin sr (normpath path) /\ isfile full = true /\
  (normpath path = "." \/
   (normpath path = join "/" (norm_comps path) /\ norm_comps path <> [] /\ forallb is_ord (norm_comps path) = true)).
Proof.
  unfold find_file. destruct (starts_with_chr "/" (normpath path)) eqn:Es; [discriminate|].
  destruct (prefix_str ".." (normpath path)) eqn:Ep; [discriminate|].
  intros H. inversion H as [Hf]. apply first_file_spec in Hf. destruct Hf as [Hin Hfile].
  apply in_map_iff in Hin. destruct Hin as [sr [Hfull Hsr]].
  exists sr. split; [exact Hsr|]. split; [symmetry; exact Hfull|]. split; [exact Hfile|].
  destruct path as [|c0 p0] eqn:Epath; [left; reflexivity|]. rewrite <- Epath in *.
  assert (Hnp : normpath path = match (slashes (initial_slashes path) ++ join "/" (norm_comps path))%string with
                                | EmptyString => "." | r => r end).
  { rewrite Epath. unfold normpath. cbv zeta.
    destruct (slashes (initial_slashes (String c0 p0)) ++ join "/" (norm_comps (String c0 p0)))%string; reflexivity. }
  destruct (Nat.eq_dec (initial_slashes path) 0) as [Hz|Hnz].
  - rewrite Hz in Hnp. simpl in Hnp.
    destruct (join "/" (norm_comps path)) as [|jc jr] eqn:Ej; [left; exact Hnp|].
    right. split; [rewrite Hnp; reflexivity|].
    destruct (norm_comps_shape path) as [d [o [Hc [Hd [Ho _]]]]].
    destruct d as [|dc dr].
    + simpl in Hc. rewrite Hc in *. split; [|exact Ho]. intros Hnil. rewrite Hnil in Ej. discriminate.
    + exfalso. rewrite Hnp in Ep. rewrite Hc in Ej. simpl in Hd. apply andb_prop in Hd. destruct Hd as [Hdc _].
      change ((dc :: dr) ++ o) with (dc :: (dr ++ o)) in Ej. rewrite <- Ej in Ep. rewrite prefix_dd_join in Ep by exact Hdc. discriminate.
  - exfalso. rewrite Hnp in Es.
    destruct (slashes (initial_slashes path) ++ join "/" (norm_comps path))%string eqn:Er.
    + destruct (initial_slashes path); [contradiction|discriminate].
    + rewrite <- Er in Es. rewrite slashes_starts in Es by exact Hnz. discriminate.
Qed.

(* a path whose normal form is absolute or starts with ".." is refused *)
Theorem escaping_refused isfile roots path :
  starts_with_chr "/" (normpath path) = true \/ prefix_str ".." (normpath path) = true ->
  find_file isfile roots path = Raise "ValueError".
Proof.
  unfold find_file. intros [H|H].
  - rewrite H. reflexivity.
  - destruct (starts_with_chr "/" (normpath path)); [reflexivity|]. rewrite H. reflexivity.
Qed.

(* ---------------- completeness: every regular file is served at its relative path ---------------- *)
Lemma norm_loop_ord absolute cs : forall stack,
  forallb is_ord cs = true -> norm_loop absolute cs stack = rev stack ++ cs.
Proof.
  induction cs as [|c r IH]; intros stack H; simpl.
  - rewrite app_nil_r. reflexivity.
  - simpl in H. apply andb_prop in H. destruct H as [Hc Hr]. unfold is_ord in Hc. apply andb_prop in Hc. destruct Hc as [H1 H2].
    destruct (is_skip c); [discriminate|]. destruct (is_dd c); [discriminate|]. cbn [negb orb].
    rewrite IH by exact Hr. simpl. rewrite <- app_assoc. reflexivity.
Qed.

Definition clean_comp (c : string) : bool := is_ord c && negb (str_contains_chr "/" c).

Lemma join_head_char c r : nonempty c = true ->
  exists a t, c = String a t /\ exists t', join "/" (c :: r) = String a t'.
Proof.
  destruct c as [|a t]; [discriminate|]. intros _. exists a, t. split; [reflexivity|].
  destruct r; simpl; eexists; reflexivity.
Qed.

Lemma prefix_dd_app c s : is_ord c = true -> prefix_str ".." c = false -> prefix_str ".." (c ++ s)%string = false.
Proof.
  intros Ho Hp. destruct c as [|a [|b t]].
  - unfold is_ord, is_skip in Ho. simpl in Ho. discriminate.
  - (* one character, not "." *)
    cbn [append prefix_str]. destruct (Ascii.eqb "." a) eqn:E; [|reflexivity]. apply Ascii.eqb_eq in E. subst.
    unfold is_ord, is_skip in Ho. simpl in Ho. discriminate.
  - cbn [append prefix_str] in *. exact Hp.
Qed.

Lemma normpath_id p : p <> "" -> initial_slashes p = 0 -> join "/" (norm_comps p) = p -> normpath p = p.
Proof.
  intros Hne Hi Hj. destruct p as [|a t]; [contradiction|]. unfold normpath. cbv zeta. rewrite Hi, Hj. reflexivity.
Qed.

Theorem complete isfile roots cs :
  cs <> [] -> forallb clean_comp cs = true ->
  prefix_str ".." (hd "" cs) = false ->
  find_file isfile roots (join "/" cs) = Ok (first_file isfile (map (fun sr => pjoin sr (join "/" cs)) roots)).
Proof.
  intros Hne Hclean Hdd.
  assert (Hord : forallb is_ord cs = true).
  { rewrite forallb_forall in *. intros x Hx. apply Hclean in Hx. unfold clean_comp in Hx. apply andb_prop in Hx. tauto. }
  assert (Hns : forall p, In p cs -> str_contains_chr "/" p = false).
  { intros p Hp. rewrite forallb_forall in Hclean. apply Hclean in Hp. unfold clean_comp in Hp. apply andb_prop in Hp.
    destruct Hp as [_ Hp]. destruct (str_contains_chr "/" p); [discriminate|reflexivity]. }
  destruct cs as [|c r]; [contradiction|].
  assert (Hc : is_ord c = true) by (simpl in Hord; apply andb_prop in Hord; tauto).
  assert (Hnc : nonempty c = true).
  { destruct c; [unfold is_ord, is_skip in Hc; simpl in Hc; discriminate|reflexivity]. }
  destruct (join_head_char c r Hnc) as [a [t [Hca [t' Hj]]]].
  assert (Ha : a <> "/"%char).
  { intros ->. specialize (Hns c (or_introl eq_refl)). subst c. simpl in Hns. discriminate. }
  assert (Hinit : initial_slashes (join "/" (c :: r)) = 0).
  { rewrite Hj. unfold initial_slashes.
    destruct a as [b0 b1 b2 b3 b4 b5 b6 b7]; destruct b0, b1, b2, b3, b4, b5, b6, b7; try reflexivity. exfalso. apply Ha. reflexivity. }
  assert (Hnorm : norm_comps (join "/" (c :: r)) = c :: r).
  { unfold norm_comps. rewrite Hinit. simpl negb. rewrite split_join; [|discriminate|exact Hns].
    rewrite norm_loop_ord by exact Hord. reflexivity. }
  assert (Hnp : normpath (join "/" (c :: r)) = join "/" (c :: r)).
  { apply normpath_id; [rewrite Hj; discriminate|exact Hinit|rewrite Hnorm; reflexivity]. }
  unfold find_file. rewrite Hnp.
  assert (Hs : starts_with_chr "/" (join "/" (c :: r)) = false).
  { rewrite Hj. simpl. unfold chr_eqb. destruct (Ascii.eqb a "/") eqn:E; [apply Ascii.eqb_eq in E; contradiction|reflexivity]. }
  rewrite Hs.
  assert (Hp : prefix_str ".." (join "/" (c :: r)) = false).
  { simpl in Hdd. destruct r as [|c2 r2]; [exact Hdd|]. change (join "/" (c :: c2 :: r2)) with (c ++ "/" ++ join "/" (c2 :: r2))%string.
    apply prefix_dd_app; assumption. }
  rewrite Hp. reflexivity.
Qed.

(* ---------------- faults: never an exception, only 200/304/403/404 ---------------- *)
Theorem guards_all_true : GUARDS = mk_guards true true true true true true.
Proof. reflexivity. Qed.

Theorem faults_total isfile roots path cond a :
  match get_file_response GUARDS isfile roots path cond a with SEscape _ => False | _ => True end.
Proof.
  rewrite guards_all_true. unfold get_file_response.
  destruct (find_file isfile roots path) as [[full|]|c]; simpl; try exact I.
  unfold build_file_response, guarded; simpl.
  destruct cond; [destruct (f_mtime1 a) as [[|]|]; try exact I|];
    (destruct (f_isfile a); simpl; [|exact I]; destruct (f_open a); [|exact I]; destruct (f_mtime2 a); [|exact I];
     destruct (f_size a); [|exact I]; destruct (f_has_ext_type a); [exact I|]; destruct (f_peek a); exact I).
Qed.

(* 200 only with the file find_file selected; a conditional request whose date is not older than the file gets 304 *)
Theorem serve_faithful g isfile roots path cond a full :
  get_file_response g isfile roots path cond a = S200 full -> find_file isfile roots path = Ok (Some full).
Proof.
  unfold get_file_response. destruct (find_file isfile roots path) as [[f|]|c]; try (destruct (g_find g); discriminate); try discriminate.
  unfold build_file_response, guarded.
  assert (Hrest : (if negb (f_isfile a) then S404 else
      match f_open a with Some _ => match f_mtime2 a with Some _ => match f_size a with Some _ =>
        if f_has_ext_type a then S200 f else match f_peek a with Some _ => S200 f | None => if g_peek g then S403 else SEscape "peek" end
        | None => if g_size g then S403 else SEscape "getsize" end | None => if g_mtime2 g then S403 else SEscape "getmtime" end
        | None => if g_open g then S403 else SEscape "open" end) = S200 full -> Ok (Some f) = Ok (Some full)).
  { destruct (f_isfile a); simpl; [|discriminate]. destruct (f_open a); [|destruct (g_open g); discriminate].
    destruct (f_mtime2 a); [|destruct (g_mtime2 g); discriminate]. destruct (f_size a); [|destruct (g_size g); discriminate].
    destruct (f_has_ext_type a); [intros H; inversion H; reflexivity|].
    destruct (f_peek a); [intros H; inversion H; reflexivity|destruct (g_peek g); discriminate]. }
  destruct cond; [|exact Hrest]. destruct (f_mtime1 a) as [[|]|]; [discriminate|exact Hrest|destruct (g_mtime1 g); discriminate].
Qed.

Theorem conditional_304 g isfile roots path a full :
  find_file isfile roots path = Ok (Some full) -> f_mtime1 a = Some true ->
  get_file_response g isfile roots path true a = S304.
Proof. intros H1 H2. unfold get_file_response, build_file_response. rewrite H1, H2. reflexivity. Qed.
