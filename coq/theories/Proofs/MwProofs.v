From Coq Require Import List String Bool Arith ZArith.
Import ListNotations.
From ClasticV Require Import Base.Py Base.Strs Model.Mw.
Local Open Scope string_scope.
Local Open Scope list_scope.

Section Transparency.
Variable compress decompress : string -> string.
Hypothesis zlib_lossless : forall x, decompress (compress x) = x.

Definition transparent (f : inner -> inner) : Prop := forall i, observe decompress (f i) = observe decompress i.

Lemma decoded_add_vary r v : decoded decompress (add_vary r v) = decoded decompress r.
Proof. reflexivity. Qed.

Theorem gzip_transparent q : transparent (gzip_mw compress q).
Proof.
  intros [r|e]; [|reflexivity]. unfold gzip_mw. destruct (r_kind r); [|reflexivity].
  destruct (r_cenc r) as [ce|] eqn:Ec; simpl; [reflexivity|].
  destruct (q_accepts_gzip q); simpl; [|reflexivity].
  destruct (q_msie q && negb (r_texty r)); [reflexivity|].
  destruct (r_streamed r); [reflexivity|].
  destruct (Nat.leb (String.length (r_body r)) (String.length (compress (r_body r)))); [reflexivity|].
  simpl. unfold decoded. simpl. rewrite Ec. rewrite zlib_lossless. reflexivity.
Qed.

Theorem cache_transparent : transparent (cache_mw false).
Proof. intros [r|e]; [|reflexivity]. unfold cache_mw. destruct (r_kind r); [|reflexivity]. destruct (r_streamed r); reflexivity. Qed.

Theorem stats_transparent : transparent (fun i => fst (stats_mw i)).
Proof. intros [r|e]; reflexivity. Qed.

Theorem profile_transparent t : transparent (profile_mw t).
Proof. intros i; reflexivity. Qed.

Theorem cookie_transparent s : transparent (cookie_mw s).
Proof. intros [r|e]; [|reflexivity]. unfold cookie_mw. destruct s; reflexivity. Qed.

Theorem passthrough_transparent : transparent passthrough_mw.
Proof. intros i; reflexivity. Qed.

(* any stack of transparent middlewares is transparent (outermost first) *)
Theorem stack_transparent fs : Forall transparent fs -> transparent (fun i => fold_right (fun f x => f x) i fs).
Proof.
  induction 1 as [|f r Hf Hr IH]; intros i; simpl; [reflexivity|]. rewrite Hf. apply IH.
Qed.

(* gzip headers *)
Theorem gzip_headers q r r' :
  gzip_mw compress q (IResp r) = IResp r' -> r_kind r = KFull ->
  In "Accept-Encoding" (r_vary r') /\
  (r_cenc r = None -> r_cenc r' = Some "gzip" ->
     r_clen r' = Some (String.length (r_body r')) /\ r_body r' = compress (r_body r) /\ q_accepts_gzip q = true) /\
  (q_accepts_gzip q = false -> r_body r' = r_body r /\ r_cenc r' = r_cenc r).
Proof.
  unfold gzip_mw. intros H Hk. rewrite Hk in H.
  assert (Hv : In "Accept-Encoding" (r_vary (add_vary r "Accept-Encoding"))).
  { unfold add_vary. simpl. destruct (mem_str "Accept-Encoding" (r_vary r)) eqn:E; [apply mem_str_In; exact E|apply in_or_app; right; left; reflexivity]. }
  destruct (r_cenc r) as [ce|] eqn:Ec; simpl in H.
  - inversion H; subst. split; [exact Hv|]. split; [discriminate|]. intros _. simpl. auto.
  - destruct (q_accepts_gzip q) eqn:Ea; simpl in H.
    + destruct (q_msie q && negb (r_texty r)).
      { inversion H; subst. split; [exact Hv|]. split; [simpl; rewrite Ec; discriminate|discriminate]. }
      destruct (r_streamed r).
      { inversion H; subst. split; [exact Hv|]. split; [simpl; rewrite Ec; discriminate|discriminate]. }
      destruct (Nat.leb (String.length (r_body r)) (String.length (compress (r_body r)))).
      { inversion H; subst. split; [exact Hv|]. split; [simpl; rewrite Ec; discriminate|discriminate]. }
      inversion H; subst. split; [exact Hv|]. split; [|discriminate]. intros _ _. simpl. auto.
    + inversion H; subst. split; [exact Hv|]. split; [simpl; rewrite Ec; discriminate|]. intros _. simpl. auto.
Qed.

(* responses without the Response mixins (HTTPException) and raised exceptions pass untouched *)
Theorem base_untouched q r : r_kind r = KBase ->
  gzip_mw compress q (IResp r) = IResp r /\ cache_mw false (IResp r) = IResp r /\ fst (stats_mw (IResp r)) = IResp r.
Proof. intros H. unfold gzip_mw, cache_mw. rewrite H. auto. Qed.

Theorem raise_untouched q e :
  gzip_mw compress q (IRaise e) = IRaise e /\ cache_mw false (IRaise e) = IRaise e /\ fst (stats_mw (IRaise e)) = IRaise e
  /\ cookie_mw true (IRaise e) = IRaise e.
Proof. auto. Qed.
End Transparency.
