From Coq Require Import List String Bool Arith ZArith Lia.
Import ListNotations.
From ClasticV Require Import Base.Py Base.FSet Base.Sx Gen.Tables Model.Chain Model.Exec Proofs.ChainProofs.
Local Open Scope string_scope.
Local Open Scope list_scope.

(* a trace is free of framework calling errors *)
Definition fw_event (ev : event) : Prop :=
  match ev with ArgError _ | Unbound _ _ => True | _ => False end.
Definition clean (tr : list event) : Prop := forall ev, In ev tr -> ~ fw_event ev.

Lemma clean_nil : clean [].
Proof. intros ev []. Qed.

Lemma clean_app a b : clean a -> clean b -> clean (a ++ b).
Proof. intros Ha Hb ev H. apply in_app_or in H. destruct H; [apply Ha|apply Hb]; assumption. Qed.

Lemma clean_cons ev tr : ~ fw_event ev -> clean tr -> clean (ev :: tr).
Proof. intros H1 H2 e [<-|H]; [exact H1|apply H2; exact H]. Qed.

Definition in_scope (e : env) (n : name) : Prop := n = INNER_NAME \/ In n (map fst e).

Lemma lookup_env_some n e : In n (map fst e) -> exists v, lookup_env n e = Some v.
Proof.
  induction e as [|[k v] r IH]; cbn [map fst In lookup_env]; [tauto|].
  intros [->|H]; [rewrite String.eqb_refl; eauto|].
  destruct (String.eqb n k); [eauto|apply IH; exact H].
Qed.

Lemma lookup_scope_some n e : in_scope e n -> exists v, lookup_scope n e = Some v.
Proof.
  unfold in_scope, lookup_scope. intros [->|H]; [rewrite String.eqb_refl; eauto|].
  destruct (String.eqb n INNER_NAME); [eauto|apply lookup_env_some; exact H].
Qed.

Lemma bind_kwargs_ok look e ns :
  (forall n, In n ns -> exists v, look n e = Some v) ->
  exists kws, bind_kwargs look e ns = inl kws /\ map fst kws = ns.
Proof.
  induction ns as [|n r IH]; intros H; cbn [bind_kwargs].
  - exists []. split; reflexivity.
  - destruct (H n (or_introl eq_refl)) as [v Hv]. rewrite Hv.
    destruct IH as (kws & E & Hm); [intros m Hm; apply H; right; exact Hm|].
    rewrite E. exists ((n, v) :: kws). split; [reflexivity|]. cbn. rewrite Hm. reflexivity.
Qed.

Lemma same_names_refl a : same_names a a = true.
Proof.
  unfold same_names. assert (subset a a = true) as -> by (apply subset_spec; auto). reflexivity.
Qed.

(* a final function is safe when it never emits framework errors for keyword
   sets that contain what the last level passes *)
Definition final_safe (final : final_fn) (ok_kws : env -> Prop) : Prop :=
  forall f kws, ok_kws kws -> clean (snd (final f kws)).

Definition is_mw_fid (f : fid) : Prop := match f with FMw _ _ => True | _ => False end.

(* [funcs ++ [fin]] laid out by build_levels with parameters [p :: map snd funcs] *)
Lemma exec_safe sc final ok_kws (fin : fid * fsig * list name) :
  final_safe final ok_kws ->
  forall funcs p sofar e,
  (forall x, In x (sofar ++ p) -> in_scope e x) ->
  chain_ok (mfps (funcs ++ [fin])) (sofar ++ p) ->
  (forall x, In x funcs -> is_mw_fid (fst (fst x))) ->
  (forall x, In x (funcs ++ [fin]) -> f_posonly (snd (fst x)) = 0) ->
  (forall kws, map fst kws = inter (arg_names (snd (fst fin))) (sofar ++ p ++ provs funcs) ->
               ok_kws kws) ->
  clean (snd (exec_chain sc final (build_levels (funcs ++ [fin]) (p :: map (fun x => snd x) funcs) sofar) e)).
Proof.
  intros Hfinal. induction funcs as [|[[id sg] gv] fr IH]; intros p sofar e Hscope Hok Hmw Hpo Hkws.
  - (* only the final function *)
    destruct fin as [[fid_ fsg] fgv]. cbn [app build_levels map exec_chain lv_kwargs lv_func lv_sig union].
    cbn [mfps map app chain_ok fst snd] in Hok. destruct Hok as [Hreq _].
    destruct (bind_kwargs_ok lookup_scope e (inter (arg_names fsg) (sofar ++ p))) as (kws & E & Hm).
    { intros n Hn. apply lookup_scope_some, Hscope. apply In_inter in Hn. tauto. }
    unfold union. rewrite E.
    assert (sig_accepts fsg (inter (arg_names fsg) (sofar ++ p)) = true) as Hacc.
    { unfold sig_accepts. rewrite !andb_true_iff. split; [split|].
      - apply subset_spec. intros x Hx. apply In_inter. split; [|apply Hreq; exact Hx].
        unfold required in Hx. apply In_diff in Hx. tauto.
      - apply subset_spec. intros x Hx. apply In_inter in Hx. tauto.
      - unfold posonly_names. pose proof (Hpo (fid_, fsg, fgv) (or_introl eq_refl)) as Hp0.
        cbn [fst snd] in Hp0. rewrite Hp0. cbn [firstn].
        apply forallb_forall. intros; reflexivity. }
    rewrite Hacc. cbn [negb]. apply Hfinal. apply Hkws. cbn [fst snd provs flat_map]. rewrite app_nil_r. exact Hm.
  - cbn [app build_levels map exec_chain lv_kwargs lv_func lv_sig lv_gives snd].
    cbn [mfps map app chain_ok fst snd] in Hok. destruct Hok as [Hreq Hrest]. fold (mfps (fr ++ [fin])) in Hrest.
    unfold union.
    destruct (bind_kwargs_ok lookup_scope e (inter (arg_names sg) (sofar ++ p))) as (kws & E & Hm).
    { intros n Hn. apply lookup_scope_some, Hscope. apply In_inter in Hn. tauto. }
    rewrite E.
    assert (sig_accepts sg (inter (arg_names sg) (sofar ++ p)) = true) as Hacc.
    { unfold sig_accepts. rewrite !andb_true_iff. split; [split|].
      - apply subset_spec. intros x Hx. apply In_inter. split; [|apply Hreq; exact Hx].
        unfold required in Hx. apply In_diff in Hx. tauto.
      - apply subset_spec. intros x Hx. apply In_inter in Hx. tauto.
      - unfold posonly_names. pose proof (Hpo (id, sg, gv) (or_introl eq_refl)) as Hp0.
        cbn [fst snd] in Hp0. rewrite Hp0. cbn [firstn].
        apply forallb_forall. intros; reflexivity. }
    rewrite Hacc. cbn [negb].
    (* the remaining levels are non-empty: fr ++ [fin] *)
    destruct (build_levels (fr ++ [fin]) (gv :: map (fun x => snd x) fr) (sofar ++ p)) as [|nxt rest] eqn:Eb.
    { destruct fr as [|[[a b] c] fr']; cbn in Eb; [destruct fin as [[? ?] ?]|]; discriminate Eb. }
    assert (lv_params nxt = gv) as Hnp.
    { destruct fr as [|[[a b] c] fr']; cbn in Eb; [destruct fin as [[? ?] ?]|]; inversion Eb; reflexivity. }
    pose proof (Hmw (id, sg, gv) (or_introl eq_refl)) as Hid. cbn [fst] in Hid.
    destruct id as [ph i| | |]; try contradiction.
    destruct (s_mw sc ph i) as [post|x|r].
    + rewrite Hnp, same_names_refl. rewrite <- Eb.
      match goal with |- context [exec_chain sc final ?L ?E] =>
        pose proof (IH gv (sofar ++ p) E) as IH'; destruct (exec_chain sc final L E) as [o tr] end.
      cbn [snd] in *. apply clean_cons; [intros []|]. apply clean_app; [|apply clean_cons; [intros []|apply clean_nil]].
      apply IH'.
      * intros x Hx. apply in_app_or in Hx. destruct Hx as [Hx|Hx].
        -- destruct (Hscope x Hx) as [->|Hin]; [left; reflexivity|].
           right. rewrite map_app. apply in_or_app. right. exact Hin.
        -- right. rewrite map_app, map_map. cbn [fst]. rewrite map_id. apply in_or_app. left. exact Hx.
      * exact Hrest.
      * intros y Hy. apply Hmw. right. exact Hy.
      * intros y Hy. apply Hpo. right. exact Hy.
      * intros kws' Hk. apply Hkws. rewrite Hk. cbn [provs flat_map snd]. fold (provs fr).
        rewrite <- !app_assoc. reflexivity.
    + cbn [snd]. apply clean_cons; [intros []|]. apply clean_cons; [intros []|apply clean_nil].
    + cbn [snd]. apply clean_cons; [intros []|]. apply clean_cons; [intros []|apply clean_nil].
Qed.

(* ---------- one chain produced by make_chain, called with the right keywords ---------- *)
Lemma mfps_app_final funcs (final : fid * fsig) :
  mfps (funcs ++ [(fst final, snd final, [])]) = fps_of funcs final.
Proof. unfold mfps, fps_of. rewrite map_app. reflexivity. Qed.

Lemma make_chain_ok_args funcs final pre :
  chain_ok (fps_of funcs final) ([INNER_NAME] ++ c_args (make_chain funcs final pre)).
Proof.
  apply chain_ok_incl with (a := c_args (make_chain funcs final pre) ++ [INNER_NAME]).
  - intros x Hx. apply in_app_or in Hx. apply in_or_app. tauto.
  - apply chain_ok_needs. intros x Hx. apply make_chain_args. left. exact Hx.
Qed.

Lemma make_chain_levels funcs final pre :
  c_levels (make_chain funcs final pre) =
  build_levels (funcs ++ [(fst final, snd final, [])])
               (c_args (make_chain funcs final pre) :: map (fun x => snd x) funcs) [INNER_NAME].
Proof. unfold make_chain. destruct (chain_argspec _ _ _ _) as [reqs opts]. reflexivity. Qed.

Lemma build_levels_head fs p ps sofar lv rest :
  build_levels fs (p :: ps) sofar = lv :: rest -> lv_params lv = p.
Proof. destruct fs as [|[[a b] c] fr]; cbn; intros H; inversion H; reflexivity. Qed.

Lemma build_levels_nonempty f fs p ps sofar : build_levels (f :: fs) (p :: ps) sofar <> [].
Proof. destruct f as [[a b] c]. cbn. discriminate. Qed.

Lemma build_levels_app_nonempty funcs x p ps sofar : build_levels (funcs ++ [x]) (p :: ps) sofar <> [].
Proof. destruct funcs as [|f fr]; cbn [app]; apply build_levels_nonempty. Qed.

Lemma chain_clean sc fn ok_kws funcs (final : fid * fsig) pre ekws :
  final_safe fn ok_kws ->
  same_names (c_args (make_chain funcs final pre)) (map fst ekws) = true ->
  (forall x, In x funcs -> is_mw_fid (fst (fst x))) ->
  (forall x, In x funcs -> f_posonly (snd (fst x)) = 0) -> f_posonly (snd final) = 0 ->
  (forall kws, map fst kws = inter (arg_names (snd final))
                                   ([INNER_NAME] ++ c_args (make_chain funcs final pre) ++ provs funcs) ->
               ok_kws kws) ->
  clean (snd (call_chain sc fn (c_levels (make_chain funcs final pre)) ekws)).
Proof.
  intros Hfin Hsame Hmw Hpo Hpof Hkws. rewrite make_chain_levels.
  set (args := c_args (make_chain funcs final pre)) in *.
  unfold call_chain.
  destruct (build_levels (funcs ++ [(fst final, snd final, [])]) (args :: map (fun x => snd x) funcs) [INNER_NAME])
    as [|lv rest] eqn:Eb.
  { exfalso. eapply build_levels_app_nonempty; exact Eb. }
  rewrite (build_levels_head _ _ _ _ _ _ Eb), Hsame. rewrite <- Eb.
  apply exec_safe with (ok_kws := ok_kws); auto.
  - intros x Hx. cbn [app] in Hx. destruct Hx as [<-|Hx]; [left; reflexivity|].
    right. unfold same_names in Hsame. apply andb_prop in Hsame. destruct Hsame as [H1 _].
    rewrite subset_spec in H1. apply H1. exact Hx.
  - rewrite mfps_app_final. apply make_chain_ok_args.
  - intros x Hx. apply in_app_or in Hx. destruct Hx as [Hx|[<-|[]]]; [apply Hpo; exact Hx|exact Hpof].
Qed.

Lemma ep_final_safe sc : final_safe (ep_final sc) (fun _ => True).
Proof.
  intros f kws _. unfold ep_final. cbn [snd].
  apply clean_cons; [intros []|]. apply clean_cons; [intros []|apply clean_nil].
Qed.

Lemma rn_final_safe sc : final_safe (rn_final sc) (fun _ => True).
Proof.
  intros f kws _. unfold rn_final. cbn [snd].
  apply clean_cons; [intros []|]. apply clean_cons; [intros []|apply clean_nil].
Qed.

(* ---------- facts about phase_funcs ---------- *)
Lemma phase_funcs_mw ph ms x : In x (phase_funcs ph ms) -> is_mw_fid (fst (fst x)).
Proof.
  unfold phase_funcs. rewrite in_flat_map. intros (m & _ & H).
  destruct ph; [destruct (m_request m)|destruct (m_endpoint m)|destruct (m_render m)];
    cbn in H; try contradiction; destruct H as [<-|[]]; exact I.
Qed.

Definition mw_sigs (m : mw) : list fsig :=
  (match m_request m with Some f => [f] | None => [] end) ++
  (match m_endpoint m with Some f => [f] | None => [] end) ++
  (match m_render m with Some f => [f] | None => [] end).

Definition no_posonly (ms : list mw) (endpoint render : fsig) : Prop :=
  (forall m f, In m ms -> In f (mw_sigs m) -> f_posonly f = 0) /\
  f_posonly endpoint = 0 /\ f_posonly render = 0.

Lemma phase_funcs_posonly ph ms x :
  (forall m f, In m ms -> In f (mw_sigs m) -> f_posonly f = 0) ->
  In x (phase_funcs ph ms) -> f_posonly (snd (fst x)) = 0.
Proof.
  intros Hp. unfold phase_funcs. rewrite in_flat_map. intros (m & Hm & H).
  destruct ph.
  - destruct (m_request m) as [f|] eqn:E; cbn in H; [|contradiction]. destruct H as [<-|[]]. cbn.
    apply (Hp m f Hm). unfold mw_sigs. rewrite E. left. reflexivity.
  - destruct (m_endpoint m) as [f|] eqn:E; cbn in H; [|contradiction]. destruct H as [<-|[]]. cbn.
    apply (Hp m f Hm). unfold mw_sigs. rewrite E. apply in_or_app. right. apply in_or_app. left. left. reflexivity.
  - destruct (m_render m) as [f|] eqn:E; cbn in H; [|contradiction]. destruct H as [<-|[]]. cbn.
    apply (Hp m f Hm). unfold mw_sigs. rewrite E. apply in_or_app. right. apply in_or_app. right. left. reflexivity.
Qed.

(* ---------- the whole request: inject -> request chain -> process_request -> ep / rn chains ---------- *)
Lemma run_clean sc ms endpoint render pre pl inj :
  make_middleware_chain ms endpoint render pre = Ok pl ->
  no_posonly ms endpoint render ->
  ~ In "context" (provs (phase_funcs PhReq ms)) ->
  (forall x, In x (req_avail_of pre) -> In x (map fst inj)) ->
  clean (snd (run sc pl inj)).
Proof.
  intros Hb (Hpm & Hpe & Hpr) Hctx Hinj. revert Hb. unfold make_middleware_chain.
  destruct (mem "next" (arg_names endpoint)); [discriminate|].
  destruct (mem "next" (arg_names render)); [discriminate|].
  fold (req_avail_of pre).
  set (req_fs := phase_funcs PhReq ms).
  assert (flat_map (fun x : fid * fsig * list name => snd x) req_fs = provs req_fs) as -> by reflexivity.
  set (ep_avail := union (req_avail_of pre) (provs req_fs)).
  set (ep := make_chain (phase_funcs PhEp ms) (FEndpoint, endpoint) ep_avail).
  set (rn := make_chain (phase_funcs PhRn ms) (FRender, render) (union ep_avail ["context"])).
  set (req_args := dedup (diff (union (c_args ep) (c_args rn)) ["context"])).
  set (procsig := mk_fsig req_args 0 [] []).
  set (rq := make_chain req_fs (FProc, procsig) (req_avail_of pre)).
  destruct (is_empty (c_unres ep)) eqn:E1; cbn [negb]; [|discriminate].
  destruct (is_empty (c_unres rn)) eqn:E2; cbn [negb]; [|discriminate].
  destruct (is_empty (c_unres rq)) eqn:E3; cbn [negb]; [|discriminate].
  apply is_empty_spec in E1, E2, E3.
  intros Hpl. inversion Hpl; subst pl; clear Hpl.
  unfold run. cbn [p_req].
  destruct (c_levels rq) as [|lv0 rest0] eqn:Erq.
  { unfold rq in Erq. rewrite make_chain_levels in Erq. exfalso.
    eapply build_levels_app_nonempty; exact Erq. }
  assert (lv_params lv0 = c_args rq) as Hp0.
  { unfold rq in Erq. rewrite make_chain_levels in Erq. eapply build_levels_head; exact Erq. }
  rewrite <- Erq. rewrite Hp0.
  set (kws := filter (fun kv : name * value => mem (fst kv) (c_args rq)) inj).
  (* process_request is safe for keyword sets covering req_args *)
  set (pl := mk_plan (c_levels rq) (c_levels ep) (c_levels rn) req_args (c_args ep) (c_args rn)).
  assert (final_safe (proc sc pl) (fun k => forall x, In x req_args -> In x (map fst k))) as Hproc.
  { intros f k Hk. unfold proc. cbn [p_ep_kwargs p_rn_kwargs p_ep p_rn pl].
    assert (forall x, In x (c_args ep) -> In x req_args) as Hep_in.
    { intros x Hx. unfold req_args. rewrite In_dedup, In_diff, In_union. split; [left; exact Hx|].
      intros [<-|[]]. pose proof (make_chain_args_pre _ _ _ _ E1 Hx) as Hin. unfold ep_avail in Hin.
      apply In_union in Hin. destruct Hin as [Hin|Hin]; [|apply Hctx; exact Hin].
      unfold req_avail_of in Hin. apply In_diff in Hin. destruct Hin as [_ Hn]. apply Hn. right. left. reflexivity. }
    destruct (bind_kwargs_ok lookup_env k (c_args ep)) as (ekws & Ee & Hme).
    { intros n Hn. apply lookup_env_some, Hk, Hep_in, Hn. }
    rewrite Ee.
    pose proof (chain_clean sc (ep_final sc) (fun _ => True) (phase_funcs PhEp ms) (FEndpoint, endpoint)
                            ep_avail ekws (ep_final_safe sc)) as Cep.
    fold ep in Cep. rewrite Hme, same_names_refl in Cep.
    specialize (Cep eq_refl (phase_funcs_mw _ _) (fun x Hx => phase_funcs_posonly _ _ x Hpm Hx) Hpe (fun _ _ => I)).
    destruct (call_chain sc (ep_final sc) (c_levels ep) ekws) as [o1 t1]. cbn [snd] in Cep.
    destruct o1 as [[|] tag|x]; cbn [snd]; try exact Cep.
    destruct (bind_kwargs_ok lookup_env (("context", VS tag) :: k) (c_args rn)) as (rkws & Er & Hmr).
    { intros n Hn. apply lookup_env_some. cbn [map fst In].
      destruct (String.eqb n "context") eqn:En; [apply String.eqb_eq in En; left; congruence|].
      right. apply Hk. unfold req_args. rewrite In_dedup, In_diff, In_union. split; [right; exact Hn|].
      intros [<-|[]]. rewrite String.eqb_refl in En. discriminate. }
    rewrite Er.
    pose proof (chain_clean sc (rn_final sc) (fun _ => True) (phase_funcs PhRn ms) (FRender, render)
                            (union ep_avail ["context"]) rkws (rn_final_safe sc)) as Crn.
    fold rn in Crn. rewrite Hmr, same_names_refl in Crn.
    specialize (Crn eq_refl (phase_funcs_mw _ _) (fun x Hx => phase_funcs_posonly _ _ x Hpm Hx) Hpr (fun _ _ => I)).
    destruct (call_chain sc (rn_final sc) (c_levels rn) rkws) as [o2 t2]. cbn [snd] in *.
    apply clean_app; assumption. }
  pose proof (chain_clean sc (proc sc pl) _ req_fs (FProc, procsig) (req_avail_of pre) kws Hproc) as Crq.
  fold rq in Crq. apply Crq; clear Crq.
  - (* inject passes exactly the level-0 parameters *)
    unfold same_names. rewrite andb_true_iff. split; apply subset_spec; intros x Hx.
    + apply in_map_iff.
      assert (In x (map fst inj)) as Hin.
      { apply Hinj. eapply make_chain_args_pre; [exact E3|exact Hx]. }
      apply in_map_iff in Hin. destruct Hin as ([k v] & <- & Hkv). exists (k, v). split; [reflexivity|].
      unfold kws. apply filter_In. split; [exact Hkv|]. cbn [fst]. apply mem_In. exact Hx.
    + apply in_map_iff in Hx. destruct Hx as ([k v] & <- & Hkv). unfold kws in Hkv.
      apply filter_In in Hkv. destruct Hkv as [_ Hm]. apply mem_In in Hm. exact Hm.
  - apply phase_funcs_mw.
  - intros x Hx. unfold req_fs in Hx. eapply phase_funcs_posonly; [exact Hpm|exact Hx].
  - reflexivity.
  - (* what the last level passes to process_request covers req_args *)
    intros k Hk x Hx. rewrite Hk. apply In_inter. cbn [snd]. split.
    + unfold arg_names, procsig. cbn [f_pos f_kwonly]. rewrite app_nil_r. exact Hx.
    + pose proof (make_chain_ok_args req_fs (FProc, procsig) (req_avail_of pre)) as Hok. fold rq in Hok.
      unfold fps_of in Hok. rewrite chain_ok_app in Hok. destruct Hok as [_ Hlast].
      cbn [chain_ok snd] in Hlast. destruct Hlast as [Hlast _].
      specialize (Hlast x). fold (mfps req_fs) in Hlast. rewrite flat_map_snd_mfps in Hlast.
      rewrite <- app_assoc in Hlast. apply Hlast. apply required_proc. exact Hx.
Qed.
