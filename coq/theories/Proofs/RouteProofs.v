From Coq Require Import List String Bool Arith ZArith Lia.
Import ListNotations.
From ClasticV Require Import Base.Py Base.FSet Base.Sx Gen.Tables Model.Chain Model.Exec
     Proofs.ChainProofs Proofs.ExecProofs.
Local Open Scope string_scope.
Local Open Scope list_scope.

(* ---------- obligations on the tables regenerated from route.py ---------- *)
Lemma reserved_minus_next_context : diff RESERVED_ARGS ["next"; "context"] = REQUEST_BUILTINS.
Proof. reflexivity. Qed.

Lemma reserved_has_next_context : In "next" RESERVED_ARGS /\ In "context" RESERVED_ARGS.
Proof. split; apply mem_In; reflexivity. Qed.

Lemma inner_name_next : INNER_NAME = "next".
Proof. reflexivity. Qed.

(* ---------- NoDup helpers ---------- *)
Lemma NoDup_app_disjoint {X} (a b : list X) x : NoDup (a ++ b) -> In x a -> In x b -> False.
Proof.
  induction a as [|y r IH]; cbn; [tauto|]. intros H [->|Hx] Hb.
  - inversion H; subst. apply H2. apply in_or_app. right. exact Hb.
  - inversion H; subst. apply IH; assumption.
Qed.

Lemma NoDup_app_r {X} (a b : list X) : NoDup (a ++ b) -> NoDup b.
Proof. induction a as [|y r IH]; cbn; [tauto|]. intros H. inversion H; subst. apply IH; assumption. Qed.

Lemma check_middlewares_ok ms src :
  check_middlewares ms src = Ok tt -> check_each ms = Ok tt /\ NoDup (all_offers src ms).
Proof.
  unfold check_middlewares. destruct (check_each ms) as [[]|c]; cbn [rbind]; [|discriminate].
  destruct (has_dup (all_offers src ms)) eqn:E; [discriminate|].
  intros _. split; [reflexivity|apply has_dup_NoDup; exact E].
Qed.

(* every name a middleware offers appears in all_offers *)
Lemma provs_in_offers ph ms x : In x (provs (phase_funcs ph ms)) -> In x (flat_map mw_offers ms).
Proof.
  unfold provs, phase_funcs. rewrite !in_flat_map. intros ([[i f] p] & Hin & Hx).
  apply in_flat_map in Hin. destruct Hin as (m & Hm & Hin). exists m. split; [exact Hm|].
  unfold mw_offers. cbn [snd] in Hx.
  destruct ph; [destruct (m_request m)|destruct (m_endpoint m)|destruct (m_render m)];
    cbn in Hin; try contradiction; destruct Hin as [Heq|[]]; inversion Heq; subst;
    apply in_or_app; [left|right; apply in_or_app; left|right; apply in_or_app; right]; exact Hx.
Qed.

(* ---------- the declarative availability table of C01 ---------- *)
Definition base (c : route_cfg) : list name := r_url c ++ REQUEST_BUILTINS ++ r_resources c.

Record resolvable (c : route_cfg) : Prop := {
  (* request middlewares: URL bindings, built-ins, resources, next, earlier request provides *)
  res_req : chain_ok (mfps (phase_funcs PhReq (r_mws c))) (base c ++ ["next"]);
  (* endpoint middlewares and the endpoint: additionally every request provide *)
  res_ep : chain_ok (fps_of (phase_funcs PhEp (r_mws c)) (FEndpoint, r_endpoint c))
                    ((base c ++ provs (phase_funcs PhReq (r_mws c))) ++ ["next"]);
  (* render middlewares and render: additionally the context *)
  res_rn : chain_ok (fps_of (phase_funcs PhRn (r_mws c)) (FRender, r_render c))
                    (((base c ++ provs (phase_funcs PhReq (r_mws c))) ++ ["context"]) ++ ["next"])
}.

Lemma chain_ok_equiv fps a b : (forall x, In x a <-> In x b) -> chain_ok fps a <-> chain_ok fps b.
Proof. intros H. split; apply chain_ok_incl; intros x; apply H. Qed.

Lemma req_avail_base c :
  NoDup (src_offers c) ->
  forall x, In x (req_avail_of (dedup (src_offers c))) <-> In x (base c).
Proof.
  intros Hnd x. unfold req_avail_of, base, src_offers in *.
  rewrite In_diff, In_dedup. rewrite !in_app_iff.
  rewrite <- reserved_minus_next_context, In_diff.
  destruct reserved_has_next_context as [Hn Hc].
  split.
  - intros [[H|[H|H]] Hne]; tauto.
  - intros [H|[[H Hne]|H]]; [|tauto|].
    + split; [tauto|]. intros [<-|[<-|[]]].
      * eapply (NoDup_app_disjoint (r_url c)); [exact Hnd|exact H|]. apply in_or_app. left. exact Hn.
      * eapply (NoDup_app_disjoint (r_url c)); [exact Hnd|exact H|]. apply in_or_app. left. exact Hc.
    + split; [tauto|]. apply NoDup_app_r in Hnd. intros [<-|[<-|[]]].
      * eapply (NoDup_app_disjoint RESERVED_ARGS); [exact Hnd|exact Hn|exact H].
      * eapply (NoDup_app_disjoint RESERVED_ARGS); [exact Hnd|exact Hc|exact H].
Qed.

Lemma NoDup_app_l {X} (a b : list X) : NoDup (a ++ b) -> NoDup a.
Proof.
  induction a as [|y r IH]; cbn; [constructor|]. intros H. inversion H; subst. constructor.
  - intros Hin. apply H2. apply in_or_app. left. exact Hin.
  - apply IH. assumption.
Qed.

Lemma app_equiv_l {X} (a b c : list X) :
  (forall x, In x a <-> In x b) -> forall x, In x (a ++ c) <-> In x (b ++ c).
Proof. intros H x. rewrite !in_app_iff, H. tauto. Qed.

Lemma resolvable_iff c :
  NoDup (src_offers c) ->
  resolvable_mwc (r_mws c) (r_endpoint c) (r_render c) (dedup (src_offers c)) <-> resolvable c.
Proof.
  intros Hnd. pose proof (req_avail_base c Hnd) as Hb.
  split; intros [H1 H2 H3]; constructor.
  - eapply chain_ok_equiv; [|exact H1]. intros x. symmetry. apply app_equiv_l, Hb.
  - eapply chain_ok_equiv; [|exact H2]. intros x. symmetry. apply app_equiv_l, app_equiv_l, Hb.
  - eapply chain_ok_equiv; [|exact H3]. intros x. symmetry. apply app_equiv_l, app_equiv_l, app_equiv_l, Hb.
  - eapply chain_ok_equiv; [|exact H1]. intros x. apply app_equiv_l, Hb.
  - eapply chain_ok_equiv; [|exact H2]. intros x. apply app_equiv_l, app_equiv_l, Hb.
  - eapply chain_ok_equiv; [|exact H3]. intros x.
    apply app_equiv_l, app_equiv_l, app_equiv_l, Hb.
Qed.

(* ---------- C01 at route level ---------- *)
Lemma route_accept_iff c :
  check_middlewares (r_mws c) (src_offers c) = Ok tt ->
  mem "next" (arg_names (r_endpoint c)) = false ->
  mem "next" (arg_names (r_render c)) = false ->
  has_cycle (dep_edges (r_mws c) (r_endpoint c)) = false ->
  ((exists p, build_route c = Ok p) <-> resolvable c) /\
  (forall cls, build_route c = Raise cls -> cls = "NameError").
Proof.
  intros Hchk He Hr Hcy. unfold build_route. rewrite Hchk, Hcy. cbn [rbind].
  destruct (check_middlewares_ok _ _ Hchk) as [_ Hnd].
  unfold all_offers in Hnd. apply NoDup_app_l in Hnd.
  destruct (mwc_accept_iff (r_mws c) (r_endpoint c) (r_render c) (dedup (src_offers c)) He Hr) as [Hiff Hcls].
  rewrite <- (resolvable_iff c Hnd), <- Hiff.
  destruct (make_middleware_chain _ _ _ _) as [p|cls0] eqn:E; cbn [rbind].
  - split; [split; intros _; eexists; reflexivity|]. intros cls H. discriminate H.
  - split; [split; intros [p H]; discriminate H|]. intros cls H. inversion H; subst. apply Hcls. reflexivity.
Qed.

(* ---------- C01: no request can fail on a framework call ---------- *)
Lemma route_run_clean c pl sc inj :
  build_route c = Ok pl ->
  no_posonly (r_mws c) (r_endpoint c) (r_render c) ->
  (forall x, In x (base c) -> In x (map fst inj)) ->
  clean (snd (run sc pl inj)).
Proof.
  unfold build_route. intros Hb Hpo Hinj.
  destruct (check_middlewares (r_mws c) (src_offers c)) as [[]|] eqn:Hchk; cbn [rbind] in Hb; [|discriminate].
  destruct (make_middleware_chain _ _ _ _) as [p|] eqn:E; cbn [rbind] in Hb; [|discriminate].
  destruct (has_cycle _); [discriminate|]. inversion Hb; subst p; clear Hb.
  destruct (check_middlewares_ok _ _ Hchk) as [_ Hnd]. unfold all_offers in Hnd.
  eapply run_clean; [exact E|exact Hpo| |].
  - intros Hin. apply provs_in_offers in Hin.
    eapply (NoDup_app_disjoint (src_offers c)); [exact Hnd| |exact Hin].
    unfold src_offers. apply in_or_app. right. apply in_or_app. left. apply reserved_has_next_context.
  - intros x Hx. apply Hinj. apply (req_avail_base c); [eapply NoDup_app_l; exact Hnd|exact Hx].
Qed.

Lemma base_env_dom c x : In x (base c) -> In x (map fst (base_env c)).
Proof.
  unfold base, base_env. rewrite !map_app, !map_map. cbn [fst]. rewrite !map_id. tauto.
Qed.

(* ---------- C04 ---------- *)
Lemma conflict_rejected c :
  has_dup (all_offers (src_offers c) (r_mws c)) = true ->
  exists cls, build_route c = Raise cls /\ (check_each (r_mws c) = Ok tt -> cls = "NameError").
Proof.
  intros Hd. unfold build_route, check_middlewares.
  destruct (check_each (r_mws c)) as [[]|cls]; cbn [rbind].
  - rewrite Hd. cbn [rbind]. exists "NameError". split; reflexivity.
  - exists cls. split; [reflexivity|]. intros H; discriminate H.
Qed.

Lemma accept_disjoint c p : build_route c = Ok p -> NoDup (all_offers (src_offers c) (r_mws c)).
Proof.
  unfold build_route. destruct (check_middlewares (r_mws c) (src_offers c)) as [[]|] eqn:E; cbn [rbind]; [|discriminate].
  intros _. apply (check_middlewares_ok _ _ E).
Qed.

Lemma check_each_first_error ms m :
  In m ms -> check_middleware m <> Ok tt ->
  exists cls, check_each ms = Raise cls /\ (cls = "TypeError" \/ cls = "IndexError").
Proof.
  assert (forall o, check_func o = Ok tt \/ check_func o = Raise "TypeError" \/ check_func o = Raise "IndexError") as Hf.
  { intros [f|]; cbn [check_func]; [|tauto]. destruct (arg_names f) as [|a r]; [tauto|].
    destruct (String.eqb a "next"); tauto. }
  assert (forall m', check_middleware m' = Ok tt \/ check_middleware m' = Raise "TypeError"
                     \/ check_middleware m' = Raise "IndexError") as Hm.
  { intros m'. unfold check_middleware.
    destruct (Hf (m_request m')) as [E|[E|E]]; rewrite E; cbn [rbind]; [|tauto|tauto].
    destruct (Hf (m_endpoint m')) as [E'|[E'|E']]; rewrite E'; cbn [rbind]; [|tauto|tauto]. apply Hf. }
  induction ms as [|m0 r IH]; intros Hin Hbad; [contradiction|]. cbn [check_each].
  destruct (Hm m0) as [E|[E|E]]; rewrite E; cbn [rbind].
  - destruct Hin as [->|Hin]; [congruence|]. apply IH; assumption.
  - eexists; split; [reflexivity|tauto].
  - eexists; split; [reflexivity|tauto].
Qed.

Lemma bad_middleware_rejected c m :
  In m (r_mws c) -> check_middleware m <> Ok tt ->
  exists cls, build_route c = Raise cls /\ (cls = "TypeError" \/ cls = "IndexError").
Proof.
  intros Hin Hbad. destruct (check_each_first_error _ _ Hin Hbad) as (cls & E & Hc).
  exists cls. split; [|exact Hc]. unfold build_route, check_middlewares. rewrite E. reflexivity.
Qed.

Lemma next_misplaced_rejected c :
  check_middlewares (r_mws c) (src_offers c) = Ok tt ->
  mem "next" (arg_names (r_endpoint c)) = true \/ mem "next" (arg_names (r_render c)) = true ->
  build_route c = Raise "NameError".
Proof.
  intros Hchk H. unfold build_route. rewrite Hchk. cbn [rbind]. unfold make_middleware_chain.
  destruct H as [H|H].
  - rewrite H. reflexivity.
  - destruct (mem "next" (arg_names (r_endpoint c))); [reflexivity|]. rewrite H. reflexivity.
Qed.

(* a function's required names are available or provided inside its own chain *)
Lemma chain_ok_member fps : forall avail f p x,
  chain_ok fps avail -> In (f, p) fps -> In x (required f) -> In x avail \/ In x (flat_map snd fps).
Proof.
  induction fps as [|[f0 p0] r IH]; intros avail f p x Hok Hin Hx; [contradiction|].
  cbn [chain_ok] in Hok. destruct Hok as [H1 H2]. cbn [flat_map snd].
  destruct Hin as [Heq|Hin].
  - inversion Heq; subst. left. apply H1. exact Hx.
  - destruct (IH _ _ _ _ H2 Hin Hx) as [H|H].
    + apply in_app_or in H. destruct H as [H|H]; [left; exact H|right; apply in_or_app; left; exact H].
    + right. apply in_or_app. right. exact H.
Qed.

Lemma flat_map_snd_fps_of funcs final : flat_map snd (fps_of funcs final) = provs funcs.
Proof.
  unfold fps_of. rewrite flat_map_app. fold (mfps funcs). rewrite flat_map_snd_mfps. cbn. apply app_nil_r.
Qed.

(* context is never available outside the render phase *)
Lemma context_only_render c p :
  build_route c = Ok p ->
  (forall f pr, In (f, pr) (mfps (phase_funcs PhReq (r_mws c))) -> ~ In "context" (required f)) /\
  (forall f pr, In (f, pr) (fps_of (phase_funcs PhEp (r_mws c)) (FEndpoint, r_endpoint c)) ->
                ~ In "context" (required f)).
Proof.
  intros Hb. pose proof (accept_disjoint _ _ Hb) as Hnd.
  assert (exists q, build_route c = Ok q) as Hex by eauto.
  revert Hb. unfold build_route.
  destruct (check_middlewares (r_mws c) (src_offers c)) as [[]|] eqn:Hchk; cbn [rbind]; [|discriminate].
  destruct (make_middleware_chain _ _ _ _) as [q|] eqn:E; cbn [rbind]; [|discriminate]. intros _.
  assert (mem "next" (arg_names (r_endpoint c)) = false /\ mem "next" (arg_names (r_render c)) = false) as [He Hr].
  { revert E. unfold make_middleware_chain. destruct (mem "next" (arg_names (r_endpoint c))); [discriminate|].
    destruct (mem "next" (arg_names (r_render c))); [discriminate|]. tauto. }
  destruct (mwc_accept_iff (r_mws c) (r_endpoint c) (r_render c) (dedup (src_offers c)) He Hr) as [Hiff _].
  assert (resolvable c) as [R1 R2 _].
  { apply resolvable_iff; [unfold all_offers in Hnd; eapply NoDup_app_l; exact Hnd|]. apply Hiff. eauto. }
  assert (forall ph, ~ In "context" (provs (phase_funcs ph (r_mws c)))) as Hnp.
  { intros ph Hin. apply provs_in_offers in Hin. unfold all_offers in Hnd.
    eapply (NoDup_app_disjoint (src_offers c)); [exact Hnd| |exact Hin].
    unfold src_offers. apply in_or_app. right. apply in_or_app. left. apply reserved_has_next_context. }
  assert (~ In "context" (base c)) as Hnb.
  { unfold base. unfold all_offers in Hnd. apply NoDup_app_l in Hnd. unfold src_offers in Hnd.
    destruct reserved_has_next_context as [_ Hc].
    rewrite !in_app_iff. intros [H|[H|H]].
    - eapply (NoDup_app_disjoint (r_url c)); [exact Hnd|exact H|]. apply in_or_app. left. exact Hc.
    - revert H. apply mem_false_In. reflexivity.
    - apply NoDup_app_r in Hnd. eapply (NoDup_app_disjoint RESERVED_ARGS); [exact Hnd|exact Hc|exact H]. }
  split.
  - intros f pr Hin Hx. destruct (chain_ok_member _ _ _ _ _ R1 Hin Hx) as [H|H].
    + apply in_app_or in H. destruct H as [H|[H|[]]]; [tauto|discriminate H].
    + rewrite flat_map_snd_mfps in H. apply (Hnp PhReq). exact H.
  - intros f pr Hin Hx. destruct (chain_ok_member _ _ _ _ _ R2 Hin Hx) as [H|H].
    + apply in_app_or in H. destruct H as [H|[H|[]]]; [|discriminate H].
      apply in_app_or in H. destruct H as [H|H]; [tauto|apply (Hnp PhReq); exact H].
    + rewrite flat_map_snd_fps_of in H. apply (Hnp PhEp). exact H.
Qed.

(* application level *)
Lemma reserved_resource_rejected a r :
  In r RESERVED_ARGS -> In r (a_resources a) -> build_app a = Raise "NameError".
Proof.
  intros H1 H2. unfold build_app.
  assert (existsb (fun r0 => mem r0 (a_resources a)) RESERVED_ARGS = true) as ->; [|reflexivity].
  apply existsb_exists. exists r. split; [exact H1|apply mem_In; exact H2].
Qed.

Lemma app_accept a pn pr :
  build_app a = Ok (pn, pr) ->
  (forall r, In r RESERVED_ARGS -> ~ In r (a_resources a)) /\
  check_middlewares (a_mws a) [] = Ok tt /\
  build_route (null_cfg a) = Ok pn /\
  exists merged, merge_middlewares (a_route_mws a) (a_mws a) = Ok merged /\
    build_route (mk_route_cfg (a_route_url a) (dedup (a_resources a ++ a_route_resources a)) merged
                              (a_endpoint a) (a_render a)) = Ok pr.
Proof.
  unfold build_app.
  destruct (existsb (fun r0 => mem r0 (a_resources a)) RESERVED_ARGS) eqn:E; [discriminate|].
  destruct (check_middlewares (a_mws a) []) as [[]|] eqn:E1; cbn [rbind]; [|discriminate].
  destruct (build_route (null_cfg a)) as [pn'|] eqn:E2; cbn [rbind]; [|discriminate].
  destruct (merge_middlewares _ _) as [merged|] eqn:E3; cbn [rbind]; [|discriminate].
  destruct (build_route (mk_route_cfg _ _ merged _ _)) as [pr'|] eqn:E4; cbn [rbind]; [|discriminate].
  intros H. inversion H; subst. split; [|split; [reflexivity|split; [reflexivity|eauto]]].
  intros r Hr Hin. assert (existsb (fun r0 => mem r0 (a_resources a)) RESERVED_ARGS = true) as Hx.
  { apply existsb_exists. exists r. split; [exact Hr|apply mem_In; exact Hin]. }
  congruence.
Qed.

(* ===================================================================== *)
(* C02: the keyword list of every generated call is exactly
   (declared parameters) /\ (names a source offers at that position)       *)
Fixpoint kw_exact (lvls : list level) (fs : list (fid * fsig * list name)) (pre provided : list name) : Prop :=
  match lvls, fs with
  | lv :: lr, (id, sg, gv) :: fr =>
      lv_func lv = id /\ lv_sig lv = sg /\ lv_gives lv = gv /\
      (forall x, In x (lv_kwargs lv) <-> In x (arg_names sg) /\ (In x pre \/ In x provided)) /\
      kw_exact lr fr pre (provided ++ gv)
  | [], [] => True
  | _, _ => False
  end.

Lemma needs_suffix done : forall rest prov x,
  needs rest (prov ++ flat_map snd done) x -> needs (done ++ rest) prov x.
Proof.
  induction done as [|[f p] r IH]; intros rest prov x; cbn [app flat_map snd needs].
  - rewrite app_nil_r. tauto.
  - intros H. right. apply IH. rewrite <- app_assoc. exact H.
Qed.

Lemma arg_names_split f x : In x (arg_names f) -> In x (required f) \/ In x (optional f).
Proof.
  intros H. unfold required, optional. rewrite In_diff, In_inter.
  destruct (mem x (f_defaulted f)) eqn:E; [right|left]; split; auto.
  - apply mem_In; exact E.
  - apply mem_false_In; exact E.
Qed.

Lemma kw_exact_build (full : list (fsig * list name)) pre args :
  (forall x, In x args -> In x pre) ->
  (forall x, needs full [INNER_NAME] x -> In x args) ->
  (forall x, In x pre -> some_optional full x -> In x args) ->
  forall funcs fin done p sofar,
  full = mfps (done ++ funcs ++ [fin]) ->
  (forall x, In x (sofar ++ p) <-> In x ([INNER_NAME] ++ provs done) \/ In x args) ->
  kw_exact (build_levels (funcs ++ [fin]) (p :: map (fun x => snd x) funcs) sofar)
           (funcs ++ [fin]) pre ([INNER_NAME] ++ provs done).
Proof.
  intros Hap Hneeds Hopt. induction funcs as [|[[id sg] gv] fr IH]; intros fin done p sofar Hfull Hsc.
  - destruct fin as [[id sg] gv]. cbn [app build_levels map kw_exact lv_func lv_sig lv_gives lv_kwargs].
    split; [reflexivity|]. split; [reflexivity|]. split; [reflexivity|]. split; [|exact I].
    intros x. unfold union. rewrite In_inter. split.
    + intros [Ha Hx]. split; [exact Ha|]. apply Hsc in Hx.
      destruct Hx as [Hx|Hx]; [right; exact Hx|left; apply Hap; exact Hx].
    + intros [Ha Hs]. split; [exact Ha|]. apply Hsc.
      destruct Hs as [Hs|Hs]; [|left; exact Hs].
      destruct (mem x ([INNER_NAME] ++ provs done)) eqn:Ep; [left; apply mem_In; exact Ep|]. right.
      apply mem_false_In in Ep.
      destruct (arg_names_split _ _ Ha) as [Hr|Ho].
      * apply Hneeds. rewrite Hfull. unfold mfps. rewrite map_app. apply needs_suffix.
        fold (mfps done). rewrite flat_map_snd_mfps. cbn [app map needs fst snd]. left. tauto.
      * apply Hopt; [exact Hs|]. exists sg, gv. split; [|exact Ho]. rewrite Hfull. unfold mfps.
        rewrite map_app. apply in_or_app. right. left. reflexivity.
  - cbn [app build_levels map kw_exact lv_func lv_sig lv_gives lv_kwargs snd].
    split; [reflexivity|]. split; [reflexivity|]. split; [reflexivity|]. split.
    + intros x. unfold union. rewrite In_inter. split.
      * intros [Ha Hx]. split; [exact Ha|]. apply Hsc in Hx.
        destruct Hx as [Hx|Hx]; [right; exact Hx|left; apply Hap; exact Hx].
      * intros [Ha Hs]. split; [exact Ha|]. apply Hsc.
        destruct Hs as [Hs|Hs]; [|left; exact Hs].
        destruct (mem x ([INNER_NAME] ++ provs done)) eqn:Ep; [left; apply mem_In; exact Ep|]. right.
        apply mem_false_In in Ep.
        destruct (arg_names_split _ _ Ha) as [Hr|Ho].
        -- apply Hneeds. rewrite Hfull. unfold mfps. rewrite map_app. apply needs_suffix.
           fold (mfps done). rewrite flat_map_snd_mfps. cbn [app map needs fst snd]. left. tauto.
        -- apply Hopt; [exact Hs|]. exists sg, gv. split; [|exact Ho]. rewrite Hfull. unfold mfps.
           rewrite map_app. apply in_or_app. right. left. reflexivity.
    + assert (provs (done ++ [(id, sg, gv)]) = provs done ++ gv) as Hpv.
      { unfold provs. rewrite flat_map_app. cbn. rewrite app_nil_r. reflexivity. }
      match goal with |- kw_exact _ _ _ ?P =>
        replace P with ([INNER_NAME] ++ provs (done ++ [(id, sg, gv)])) end.
      2:{ rewrite Hpv. cbn [app]. reflexivity. }
      apply IH.
      * rewrite Hfull. f_equal. rewrite <- app_assoc. reflexivity.
      * intros x. unfold union. rewrite Hpv. rewrite in_app_iff, Hsc, !in_app_iff. tauto.
Qed.

Lemma make_chain_kw_exact funcs (final : fid * fsig) pre :
  c_unres (make_chain funcs final pre) = [] ->
  kw_exact (c_levels (make_chain funcs final pre)) (funcs ++ [(fst final, snd final, [])]) pre [INNER_NAME].
Proof.
  intros Hu. rewrite make_chain_levels.
  pose proof (kw_exact_build (fps_of funcs final) pre (c_args (make_chain funcs final pre))) as H.
  specialize (H (fun x Hx => make_chain_args_pre _ _ _ x Hu Hx)).
  specialize (H (fun x Hx => proj2 (make_chain_args funcs final pre x) (or_introl Hx))).
  specialize (H (fun x Hp Ho => proj2 (make_chain_args funcs final pre x) (or_intror (conj Hp Ho)))).
  specialize (H funcs (fst final, snd final, []) [] (c_args (make_chain funcs final pre)) [INNER_NAME]).
  cbn [app provs flat_map] in H. apply H.
  - symmetry. apply mfps_app_final.
  - intros x. cbn [app In]. tauto.
Qed.

Lemma plan_kw_exact ms endpoint render pre pl :
  make_middleware_chain ms endpoint render pre = Ok pl ->
  let ra := req_avail_of pre in
  let ea := union ra (provs (phase_funcs PhReq ms)) in
  kw_exact (p_ep pl) (phase_funcs PhEp ms ++ [(FEndpoint, endpoint, [])]) ea [INNER_NAME] /\
  kw_exact (p_rn pl) (phase_funcs PhRn ms ++ [(FRender, render, [])]) (union ea ["context"]) [INNER_NAME] /\
  kw_exact (p_req pl) (phase_funcs PhReq ms ++ [(FProc, mk_fsig (p_pr_params pl) 0 [] [], [])]) ra [INNER_NAME] /\
  (forall x, In x (p_ep_kwargs pl) -> In x ea) /\
  (forall x, In x (p_rn_kwargs pl) -> In x (union ea ["context"])) /\
  (forall x, In x (p_pr_params pl) <-> (In x (p_ep_kwargs pl) \/ In x (p_rn_kwargs pl)) /\ x <> "context").
Proof.
  unfold make_middleware_chain.
  destruct (mem "next" (arg_names endpoint)); [discriminate|].
  destruct (mem "next" (arg_names render)); [discriminate|].
  fold (req_avail_of pre).
  set (req_fs := phase_funcs PhReq ms).
  assert (flat_map (fun x : fid * fsig * list name => snd x) req_fs = provs req_fs) as -> by reflexivity.
  set (ep_avail := union (req_avail_of pre) (provs req_fs)).
  set (ep := make_chain (phase_funcs PhEp ms) (FEndpoint, endpoint) ep_avail).
  set (rn := make_chain (phase_funcs PhRn ms) (FRender, render) (union ep_avail ["context"])).
  set (req_args := dedup (diff (union (c_args ep) (c_args rn)) ["context"])).
  set (rq := make_chain req_fs (FProc, mk_fsig req_args 0 [] []) (req_avail_of pre)).
  destruct (is_empty (c_unres ep)) eqn:E1; cbn [negb]; [|discriminate].
  destruct (is_empty (c_unres rn)) eqn:E2; cbn [negb]; [|discriminate].
  destruct (is_empty (c_unres rq)) eqn:E3; cbn [negb]; [|discriminate].
  apply is_empty_spec in E1, E2, E3.
  intros Hpl. inversion Hpl; subst pl; clear Hpl. cbn [p_ep p_rn p_req p_pr_params p_ep_kwargs p_rn_kwargs].
  split; [apply (make_chain_kw_exact _ (FEndpoint, endpoint) _ E1)|].
  split; [apply (make_chain_kw_exact _ (FRender, render) _ E2)|].
  split; [apply (make_chain_kw_exact _ (FProc, mk_fsig req_args 0 [] []) _ E3)|].
  split; [intros x Hx; eapply make_chain_args_pre; [exact E1|exact Hx]|].
  split; [intros x Hx; eapply make_chain_args_pre; [exact E2|exact Hx]|].
  intros x. unfold req_args. rewrite In_dedup, In_diff, In_union. cbn [In]. split.
  - intros [H Hn]. split; [exact H|]. intros ->. apply Hn. left. reflexivity.
  - intros [H Hn]. split; [exact H|]. intros [<-|[]]. apply Hn. reflexivity.
Qed.

(* ===================================================================== *)
(* C03: traces are properly nested; merge order                            *)
Inductive nested : list event -> Prop :=
| nested_nil : nested []
| nested_wrap f kw o inner rest :
    nested inner -> nested rest -> nested (Enter f kw :: inner ++ Leave f o :: rest)
| nested_fw ev rest : fw_event ev -> nested rest -> nested (ev :: rest).

Lemma nested_app a b : nested a -> nested b -> nested (a ++ b).
Proof.
  intros Ha Hb. induction Ha as [|f kw o inner rest Hi IHi Hr IHr|ev rest Hf Hr IHr]; cbn [app].
  - exact Hb.
  - rewrite <- app_assoc. cbn [app]. constructor; assumption.
  - apply nested_fw; assumption.
Qed.

Lemma nested_single f kw o : nested [Enter f kw; Leave f o].
Proof. apply (nested_wrap f kw o [] []); constructor. Qed.

Definition final_nested (final : final_fn) : Prop := forall f kws, nested (snd (final f kws)).

Lemma exec_nested sc final : final_nested final ->
  forall lvls e, nested (snd (exec_chain sc final lvls e)).
Proof.
  intros Hf. induction lvls as [|lv rest IH]; intros e; cbn [exec_chain snd]; [constructor|].
  destruct (bind_kwargs lookup_scope e (lv_kwargs lv)) as [kws|n]; cbn [snd].
  2:{ apply nested_fw; [exact I|constructor]. }
  destruct (negb (sig_accepts (lv_sig lv) (lv_kwargs lv))); cbn [snd].
  { apply nested_fw; [exact I|constructor]. }
  destruct rest as [|nxt rest']; [apply Hf|].
  destruct (lv_func lv) as [ph i| | |]; cbn [snd]; try constructor.
  destruct (s_mw sc ph i) as [post|x|r]; cbn [snd]; try apply nested_single.
  destruct (same_names (lv_gives lv) (lv_params nxt)).
  - specialize (IH (map (fun n => (n, provided_value ph i n)) (lv_gives lv) ++ e)).
    destruct (exec_chain sc final (nxt :: rest') _) as [o tr]. cbn [snd] in *.
    apply (nested_wrap _ _ _ tr []); [exact IH|constructor].
  - cbn [snd]. apply (nested_wrap _ _ _ [ArgError (lv_func nxt)] []); [|constructor].
    apply nested_fw; [exact I|constructor].
Qed.

Lemma call_nested sc final : final_nested final ->
  forall lvls kws, nested (snd (call_chain sc final lvls kws)).
Proof.
  intros Hf lvls kws. unfold call_chain. destruct lvls as [|lv r]; [constructor|].
  destruct (same_names _ _); [apply exec_nested; exact Hf|].
  cbn [snd]. apply nested_fw; [exact I|constructor].
Qed.

Lemma ep_final_nested sc : final_nested (ep_final sc).
Proof. intros f kws. unfold ep_final. cbn [snd]. apply nested_single. Qed.
Lemma rn_final_nested sc : final_nested (rn_final sc).
Proof. intros f kws. unfold rn_final. cbn [snd]. apply nested_single. Qed.

Lemma proc_nested sc pl : final_nested (proc sc pl).
Proof.
  intros f kws. unfold proc.
  destruct (bind_kwargs lookup_env kws (p_ep_kwargs pl)) as [ekws|n]; cbn [snd].
  2:{ apply nested_fw; [exact I|constructor]. }
  pose proof (call_nested sc (ep_final sc) (ep_final_nested sc) (p_ep pl) ekws) as H1.
  destruct (call_chain sc (ep_final sc) (p_ep pl) ekws) as [o1 t1]. cbn [snd] in H1.
  destruct o1 as [[|] tag|x]; cbn [snd]; try exact H1.
  destruct (bind_kwargs lookup_env _ (p_rn_kwargs pl)) as [rkws|n]; cbn [snd].
  2:{ apply nested_app; [exact H1|]. apply nested_fw; [exact I|constructor]. }
  pose proof (call_nested sc (rn_final sc) (rn_final_nested sc) (p_rn pl) rkws) as H2.
  destruct (call_chain sc (rn_final sc) (p_rn pl) rkws) as [o2 t2]. cbn [snd] in *.
  apply nested_app; assumption.
Qed.

Lemma run_nested sc pl inj : nested (snd (run sc pl inj)).
Proof.
  unfold run. destruct (p_req pl) as [|lv r] eqn:E; [constructor|].
  rewrite <- E. apply call_nested. apply proc_nested.
Qed.

(* the functions entered, in order of entry *)
Fixpoint enters (tr : list event) : list fid :=
  match tr with
  | [] => []
  | Enter f _ :: r => f :: enters r
  | _ :: r => enters r
  end.

Lemma enters_app a b : enters (a ++ b) = enters a ++ enters b.
Proof. induction a as [|[f kw|f o|f|f n] r IH]; cbn [app enters]; rewrite ?IH; reflexivity. Qed.

Fixpoint is_prefix (a b : list fid) : Prop :=
  match a, b with
  | [], _ => True
  | x :: r, y :: s => x = y /\ is_prefix r s
  | _ :: _, [] => False
  end.

Lemma is_prefix_refl a : is_prefix a a.
Proof. induction a; cbn; auto. Qed.

(* functions of one chain are entered in list order, outermost first, and a
   layer that does not call next() (or fails) cuts off everything inside it *)
Lemma exec_order sc final :
  (forall f kws, enters (snd (final f kws)) = [f] \/ enters (snd (final f kws)) = []) ->
  forall lvls e, is_prefix (enters (snd (exec_chain sc final lvls e))) (map lv_func lvls).
Proof.
  intros Hf. induction lvls as [|lv rest IH]; intros e; cbn [exec_chain snd map]; [exact I|].
  destruct (bind_kwargs lookup_scope e (lv_kwargs lv)) as [kws|n]; cbn [snd enters]; [|exact I].
  destruct (negb (sig_accepts (lv_sig lv) (lv_kwargs lv))); cbn [snd enters]; [exact I|].
  destruct rest as [|nxt rest'].
  { destruct (Hf (lv_func lv) kws) as [-> | ->]; cbn; auto. }
  destruct (lv_func lv) as [ph i| | |] eqn:Ef; cbn [snd enters]; try exact I.
  destruct (s_mw sc ph i) as [post|x|r]; cbn [snd enters is_prefix]; auto.
  destruct (same_names (lv_gives lv) (lv_params nxt)).
  - specialize (IH (map (fun n => (n, provided_value ph i n)) (lv_gives lv) ++ e)).
    destruct (exec_chain sc final (nxt :: rest') _) as [o tr]. cbn [snd enters] in *.
    split; [reflexivity|]. rewrite enters_app. cbn [enters]. rewrite app_nil_r. exact IH.
  - cbn [snd enters app]. split; [reflexivity|exact I].
Qed.

(* ---------- merge_middlewares ---------- *)
Fixpoint sublist {X} (a b : list X) : Prop :=   (* a is a subsequence of b *)
  match a, b with
  | [], _ => True
  | _ :: _, [] => False
  | x :: r, y :: s => (x = y /\ sublist r s) \/ sublist a s
  end.

Lemma sublist_nil {X} (b : list X) : sublist [] b.
Proof. destruct b; exact I. Qed.

Lemma sublist_skip {X} (a : list X) y s : sublist a s -> sublist a (y :: s).
Proof. destruct a; cbn; auto. Qed.

Lemma merge_into_shape old : forall merged res,
  merge_into merged old = Ok res -> exists kept, res = merged ++ kept /\ sublist kept old.
Proof.
  induction old as [|m r IH]; intros merged res; cbn [merge_into].
  - intros H. inversion H; subst. exists []. rewrite app_nil_r. split; [reflexivity|exact I].
  - destruct (m_unique m && existsb (fun x => Nat.eqb (m_id x) (m_id m)) merged).
    + destruct (m_reorderable m); [|discriminate]. intros H.
      destruct (IH _ _ H) as (kept & -> & Hs). exists kept. split; [reflexivity|].
      apply sublist_skip. exact Hs.
    + intros H. destruct (IH _ _ H) as (kept & -> & Hs). exists (m :: kept).
      rewrite <- app_assoc. split; [reflexivity|]. cbn. left. split; [reflexivity|exact Hs].
Qed.

(* new (the binding application's list) comes first and keeps its order; the
   old list (inner levels / route) follows as a subsequence *)
Lemma merge_shape old new res :
  merge_middlewares old new = Ok res -> exists kept, res = new ++ kept /\ sublist kept old.
Proof. apply merge_into_shape. Qed.

Definition has_type (ms : list mw) (t : nat) : bool := existsb (fun x => Nat.eqb (m_id x) t) ms.

Lemma existsb_app' {X} (f : X -> bool) a b : existsb f (a ++ b) = existsb f a || existsb f b.
Proof. induction a; cbn; [reflexivity|]. rewrite IHa, orb_assoc. reflexivity. Qed.

(* a unique type already present is never added again *)
Lemma merge_into_unique_once old : forall merged res t,
  merge_into merged old = Ok res ->
  (forall m, In m old -> m_id m = t -> m_unique m = true) ->
  has_type merged t = true ->
  filter (fun x => Nat.eqb (m_id x) t) res = filter (fun x => Nat.eqb (m_id x) t) merged.
Proof.
  induction old as [|m r IH]; intros merged res t; cbn [merge_into].
  - intros H _ _. inversion H; reflexivity.
  - intros H Hu Ht.
    destruct (Nat.eqb (m_id m) t) eqn:Em.
    + apply Nat.eqb_eq in Em. rewrite (Hu m (or_introl eq_refl) Em) in H. cbn [andb] in H.
      unfold has_type in Ht. rewrite <- Em in Ht. rewrite Ht in H.
      destruct (m_reorderable m); [|discriminate].
      apply (IH _ _ t H); [intros m' Hm'; apply Hu; right; exact Hm'|]. unfold has_type. rewrite <- Em. exact Ht.
    + destruct (m_unique m && existsb (fun x => Nat.eqb (m_id x) (m_id m)) merged).
      * destruct (m_reorderable m); [|discriminate].
        apply (IH _ _ t H); [intros m' Hm'; apply Hu; right; exact Hm'|exact Ht].
      * rewrite (IH _ _ t H); [|intros m' Hm'; apply Hu; right; exact Hm'|].
        -- rewrite filter_app. cbn [filter]. rewrite Em. apply app_nil_r.
        -- unfold has_type. rewrite existsb_app'. unfold has_type in Ht. rewrite Ht. reflexivity.
Qed.

(* ValueError exactly when a unique, non-reorderable type would be included twice *)
Lemma merge_into_error old : forall merged c,
  merge_into merged old = Raise c -> c = "ValueError" /\
  exists m, In m old /\ m_unique m = true /\ m_reorderable m = false.
Proof.
  induction old as [|m r IH]; intros merged c; cbn [merge_into]; [discriminate|].
  destruct (m_unique m && existsb (fun x => Nat.eqb (m_id x) (m_id m)) merged) eqn:E.
  - destruct (m_reorderable m) eqn:Er.
    + intros H. destruct (IH _ _ H) as (-> & m' & Hin & Hu & Hr). split; [reflexivity|].
      exists m'. split; [right; exact Hin|tauto].
    + intros H. inversion H; subst. split; [reflexivity|]. exists m. apply andb_prop in E.
      split; [left; reflexivity|]. split; [tauto|exact Er].
  - intros H. destruct (IH _ _ H) as (-> & m' & Hin & Hu & Hr). split; [reflexivity|].
    exists m'. split; [right; exact Hin|tauto].
Qed.
