From Coq Require Import List String Ascii Bool Arith.
Import ListNotations.
From ClasticV Require Import Base.Py Base.Strs Model.Errors Model.Flaw Proofs.ErrorsProofs.
Local Open Scope list_scope.
Local Open Scope string_scope.

Definition contains (a s : string) : Prop := exists pre post, s = pre ++ a ++ post.

Lemma contains_app_l a s t : contains a s -> contains a (s ++ t).
Proof. intros [p [q ->]]. exists p, (q ++ t). rewrite !append_assoc. reflexivity. Qed.
Lemma contains_app_r a s t : contains a t -> contains a (s ++ t).
Proof. intros [p [q ->]]. exists (s ++ p), q. rewrite !append_assoc. reflexivity. Qed.
Lemma contains_refl a : contains a a.
Proof. exists "", "". simpl. rewrite append_nil_r. reflexivity. Qed.

Lemma concat_contains a l x : In x l -> contains a x -> contains a (String.concat "" l).
Proof.
  induction l as [|y r IH]; intros Hin Hc; [contradiction|].
  assert (E : String.concat "" (y :: r) = y ++ String.concat "" r).
  { destruct r; simpl; [rewrite append_nil_r; reflexivity|reflexivity]. }
  rewrite E. destruct Hin as [->|Hin]; [apply contains_app_l; exact Hc|apply contains_app_r; apply IH; assumption].
Qed.

(* a top-level reference: the page contains the escaped value *)
Theorem top_ref_contained c ns name :
  In (NRef name) ns -> contains (html_escape (ref_value c None name)) (render_nodes c ns).
Proof.
  intros Hin. unfold render_nodes. eapply concat_contains.
  - apply in_map. exact Hin.
  - simpl. apply contains_refl.
Qed.

(* a file of a list section whose body references "." : the page contains the escaped name *)
Lemma render_list_ref c dot body :
  In (NRef ".") body ->
  contains (html_escape (match dot with Some d => d | None => "" end))
           ((fix render_list (ns : list node) (dot : option string) : string :=
               match ns with [] => "" | x :: r => render c dot x ++ render_list r dot end) body dot).
Proof.
  induction body as [|x r IH]; intros Hin; [contradiction|].
  destruct Hin as [->|Hin].
  - apply contains_app_l. simpl. apply contains_refl.
  - apply contains_app_r. apply IH. exact Hin.
Qed.

Theorem file_contained c ns body els f :
  In (NSection "mon_files" body els) ns -> In (NRef ".") body -> In f (c_mon_files c) ->
  contains (html_escape f) (render_nodes c ns).
Proof.
  intros Hs Hb Hf. unfold render_nodes. eapply concat_contains; [apply in_map; exact Hs|].
  cbn [render]. simpl String.eqb. cbv iota.
  destruct (c_mon_files c) as [|f0 fr] eqn:E; [contradiction|].
  eapply concat_contains; [apply in_map; exact Hf|]. apply (render_list_ref c (Some f) body Hb).
Qed.

Theorem all_file_contained c ns body els f :
  In (NSection "all_mon_files" body els) ns -> In (NRef ".") body -> In f (c_all_mon_files c) ->
  contains (html_escape f) (render_nodes c ns).
Proof.
  intros Hs Hb Hf. unfold render_nodes. eapply concat_contains; [apply in_map; exact Hs|].
  cbn [render]. simpl String.eqb. cbv iota.
  destruct (c_all_mon_files c) as [|f0 fr] eqn:E; [contradiction|].
  eapply concat_contains; [apply in_map; exact Hf|]. apply (render_list_ref c (Some f) body Hb).
Qed.

Lemma html_escape_app a b : html_escape (a ++ b) = html_escape a ++ html_escape b.
Proof. induction a as [|c r IH]; simpl; [reflexivity|]. rewrite IH, append_assoc. reflexivity. Qed.

(* last line "Type: message": the escaped type and the escaped message are both on the page
   whenever the escaped last line is *)
Theorem names_exception page t m :
  contains (html_escape (t ++ ":" ++ m)) page -> contains (html_escape t) page /\ contains (html_escape m) page.
Proof.
  intros [p [q ->]]. rewrite !html_escape_app. split.
  - exists p, (html_escape ":" ++ html_escape m ++ q). rewrite !append_assoc. reflexivity.
  - exists (p ++ html_escape t ++ html_escape ":"), q. rewrite !append_assoc. reflexivity.
Qed.

Lemma render_list_ref_gen c dot l name :
  In (NRef name) l ->
  contains (html_escape (ref_value c dot name))
           ((fix render_list (ns : list node) (dot : option string) : string :=
               match ns with [] => "" | x :: r => render c dot x ++ render_list r dot end) l dot).
Proof.
  induction l as [|x r IH]; intros Hin; [contradiction|].
  destruct Hin as [->|Hin].
  - apply contains_app_l. simpl. apply contains_refl.
  - apply contains_app_r. apply IH. exact Hin.
Qed.

(* a reference in the else-body of the parsed_err section, when parsing did not succeed *)
Theorem else_ref_contained c ns body els name :
  In (NSection "parsed_err" body els) ns -> In (NRef name) els -> c_parsed c = None ->
  contains (html_escape (ref_value c None name)) (render_nodes c ns).
Proof.
  intros Hs He Hp. unfold render_nodes. eapply concat_contains; [apply in_map; exact Hs|].
  cbn [render]. simpl String.eqb. cbv iota. rewrite Hp. destruct els as [|e0 er]; [contradiction|].
  apply (render_list_ref_gen c None (e0 :: er) name He).
Qed.

(* ---------------- the page's markup does not depend on the inserted texts ---------------- *)
Section node_induction.
Variable P : node -> Prop.
Hypothesis Ht : forall s, P (NText s).
Hypothesis Hr : forall n, P (NRef n).
Hypothesis Hs : forall name body els, Forall P body -> Forall P els -> P (NSection name body els).
Fixpoint node_ind' (n : node) : P n :=
  match n with
  | NText s => Ht s
  | NRef x => Hr x
  | NSection nm b e =>
      Hs nm b e
         ((fix go (l : list node) : Forall P l :=
             match l with [] => Forall_nil P | x :: r => Forall_cons x (node_ind' x) (go r) end) b)
         ((fix go (l : list node) : Forall P l :=
             match l with [] => Forall_nil P | x :: r => Forall_cons x (node_ind' x) (go r) end) e)
  end.
End node_induction.

(* two start-up failures have the same SHAPE when both or neither parsed as a traceback and the two file lists
   have the same lengths; the texts themselves are arbitrary *)
Definition same_shape (c c' : fctx) : Prop :=
  (match c_parsed c, c_parsed c' with Some _, Some _ | None, None => True | _, _ => False end) /\
  List.length (c_mon_files c) = List.length (c_mon_files c') /\
  List.length (c_all_mon_files c) = List.length (c_all_mon_files c').

Definition render_list (c : fctx) (ns : list node) (dot : option string) : string :=
  (fix render_list (ns : list node) (dot : option string) : string :=
      match ns with [] => "" | x :: r => render c dot x ++ render_list r dot end) ns dot.

Lemma render_list_skel c c' ns :
  Forall (fun n => forall d d', skeleton (render c d n) = skeleton (render c' d' n)) ns ->
  forall d d', skeleton (render_list c ns d) = skeleton (render_list c' ns d').
Proof.
  induction 1 as [|x r Hx Hr IH]; intros d d'; [reflexivity|].
  cbn [render_list]. rewrite !skeleton_app. fold (render_list c r d). fold (render_list c' r d').
  rewrite (Hx d d'), (IH d d'). reflexivity.
Qed.

Lemma concat_map_skel {X} (f g : X -> string) : forall (l l' : list X),
  List.length l = List.length l' ->
  (forall x y, skeleton (f x) = skeleton (g y)) ->
  skeleton (String.concat "" (map f l)) = skeleton (String.concat "" (map g l')).
Proof.
  assert (Hc : forall (h : X -> string) l, skeleton (String.concat "" (map h l)) =
                 String.concat "" (map (fun x => skeleton (h x)) l)).
  { intros h l. induction l as [|a [|b r] IH]; [reflexivity|cbn; reflexivity|].
    cbn [map String.concat] in *. rewrite !skeleton_app. cbn [skeleton]. rewrite IH. reflexivity. }
  induction l as [|a r IH]; intros [|b r'] Hl Hfg; try discriminate; [reflexivity|].
  rewrite !Hc. cbn [map]. injection Hl as Hl.
  destruct r as [|a2 r2]; destruct r' as [|b2 r2']; try discriminate.
  - cbn. apply Hfg.
  - cbn [String.concat map]. cbn [append]. rewrite (Hfg a b). f_equal.
    specialize (IH (b2 :: r2') Hl Hfg). rewrite !Hc in IH. exact IH.
Qed.

Theorem render_skeleton c c' : same_shape c c' ->
  forall n d d', skeleton (render c d n) = skeleton (render c' d' n).
Proof.
  intros (Hp & Hm & Ha). induction n as [s|name|name body els Hb He] using node_ind'; intros d d'.
  - reflexivity.
  - cbn [render]. rewrite !escape_clean. reflexivity.
  - pose proof (render_list_skel c c' body Hb) as Lb. pose proof (render_list_skel c c' els He) as Le.
    cbn [render]. fold (render_list c body). fold (render_list c els). fold (render_list c' body). fold (render_list c' els).
    destruct (String.eqb name "parsed_err").
    + destruct (c_parsed c), (c_parsed c'); try contradiction; destruct els; first [apply Lb | apply Le].
    + set (items := if String.eqb name "mon_files" then c_mon_files c
                    else if String.eqb name "all_mon_files" then c_all_mon_files c else []).
      set (items' := if String.eqb name "mon_files" then c_mon_files c'
                     else if String.eqb name "all_mon_files" then c_all_mon_files c' else []).
      assert (Hl : List.length items = List.length items').
      { unfold items, items'. destruct (String.eqb name "mon_files"); [exact Hm|].
        destruct (String.eqb name "all_mon_files"); [exact Ha|reflexivity]. }
      destruct items as [|i r]; destruct items' as [|i' r']; try discriminate.
      * apply Le.
      * apply (concat_map_skel (fun it => render_list c body (Some it)) (fun it => render_list c' body (Some it))
                               (i :: r) (i' :: r') Hl). intros x y. apply Lb.
Qed.

Lemma skeleton_concat {X} (h : X -> string) l :
  skeleton (String.concat "" (map h l)) = String.concat "" (map (fun x => skeleton (h x)) l).
Proof.
  induction l as [|a [|b r] IH]; [reflexivity|cbn; reflexivity|].
  cbn [map String.concat] in *. rewrite !skeleton_app. cbn [skeleton]. rewrite IH. reflexivity.
Qed.

(* the markup skeleton of the whole page is a function of the shape alone: whatever the error text, the last line,
   the exception type and message, the file names are, they cannot add, remove or alter a tag *)
Theorem page_skeleton c c' ns : same_shape c c' ->
  skeleton (render_nodes c ns) = skeleton (render_nodes c' ns).
Proof.
  intros Hs. unfold render_nodes. rewrite !skeleton_concat. f_equal. apply map_ext. intros n.
  apply render_skeleton. exact Hs.
Qed.
