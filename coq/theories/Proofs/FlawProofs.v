From Coq Require Import List String Ascii Bool Arith.
Import ListNotations.
From ClasticV Require Import Base.Py Base.Strs Model.Errors Model.Flaw Proofs.ErrorsProofs.
Local Open Scope list_scope.
Local Open Scope string_scope.

Definition contains (a s : string) : Prop := exists pre post, s = pre ++ a ++ post.

Lemma contains_app_l a s t : contains a s -> contains a (s ++ t).
Proof. intros [p [q ->]]. exists p, (q ++ t). rewrite !append_assoc. reflexivity. Qed.
Lemma contains_app_r a s t : contains a t -> contains a (s ++ t).
Proof. intros [p [q ->]]. exists (s ++ p), q. rewrite !append_assoc. reflexivity. Qed.
Lemma contains_refl a : contains a a.
Proof. exists "", "". simpl. rewrite append_nil_r. reflexivity. Qed.

Lemma concat_contains a l x : In x l -> contains a x -> contains a (String.concat "" l).
Proof.
  induction l as [|y r IH]; intros Hin Hc; [contradiction|].
  assert (E : String.concat "" (y :: r) = y ++ String.concat "" r).
  { destruct r; simpl; [rewrite append_nil_r; reflexivity|reflexivity]. }
  rewrite E. destruct Hin as [->|Hin]; [apply contains_app_l; exact Hc|apply contains_app_r; apply IH; assumption].
Qed.

(* a top-level reference: the page contains the escaped value *)
Theorem top_ref_contained c ns name :
  In (NRef name) ns -> contains (html_escape (ref_value c None name)) (render_nodes c ns).
Proof.
  intros Hin. unfold render_nodes. eapply concat_contains.
  - apply in_map. exact Hin.
  - simpl. apply contains_refl.
Qed.

(* a file of a list section whose body references "." : the page contains the escaped name *)
Lemma render_list_ref c dot body :
  In (NRef ".") body ->
  contains (html_escape (match dot with Some d => d | None => "" end))
           ((fix render_list (ns : list node) (dot : option string) : string :=
               match ns with [] => "" | x :: r => render c dot x ++ render_list r dot end) body dot).
Proof.
  induction body as [|x r IH]; intros Hin; [contradiction|].
  destruct Hin as [->|Hin].
  - apply contains_app_l. simpl. apply contains_refl.
  - apply contains_app_r. apply IH. exact Hin.
Qed.

Theorem file_contained c ns body els f :
  In (NSection "mon_files" body els) ns -> In (NRef ".") body -> In f (c_mon_files c) ->
  contains (html_escape f) (render_nodes c ns).
Proof.
  intros Hs Hb Hf. unfold render_nodes. eapply concat_contains; [apply in_map; exact Hs|].
  cbn [render]. simpl String.eqb. cbv iota.
  destruct (c_mon_files c) as [|f0 fr] eqn:E; [contradiction|].
  eapply concat_contains; [apply in_map; exact Hf|]. apply (render_list_ref c (Some f) body Hb).
Qed.

Theorem all_file_contained c ns body els f :
  In (NSection "all_mon_files" body els) ns -> In (NRef ".") body -> In f (c_all_mon_files c) ->
  contains (html_escape f) (render_nodes c ns).
Proof.
  intros Hs Hb Hf. unfold render_nodes. eapply concat_contains; [apply in_map; exact Hs|].
  cbn [render]. simpl String.eqb. cbv iota.
  destruct (c_all_mon_files c) as [|f0 fr] eqn:E; [contradiction|].
  eapply concat_contains; [apply in_map; exact Hf|]. apply (render_list_ref c (Some f) body Hb).
Qed.

Lemma html_escape_app a b : html_escape (a ++ b) = html_escape a ++ html_escape b.
Proof. induction a as [|c r IH]; simpl; [reflexivity|]. rewrite IH, append_assoc. reflexivity. Qed.

(* last line "Type: message": the escaped type and the escaped message are both on the page
   whenever the escaped last line is *)
Theorem names_exception page t m :
  contains (html_escape (t ++ ":" ++ m)) page -> contains (html_escape t) page /\ contains (html_escape m) page.
Proof.
  intros [p [q ->]]. rewrite !html_escape_app. split.
  - exists p, (html_escape ":" ++ html_escape m ++ q). rewrite !append_assoc. reflexivity.
  - exists (p ++ html_escape t ++ html_escape ":"), q. rewrite !append_assoc. reflexivity.
Qed.

Lemma render_list_ref_gen c dot l name :
  In (NRef name) l ->
  contains (html_escape (ref_value c dot name))
           ((fix render_list (ns : list node) (dot : option string) : string :=
               match ns with [] => "" | x :: r => render c dot x ++ render_list r dot end) l dot).
Proof.
  induction l as [|x r IH]; intros Hin; [contradiction|].
  destruct Hin as [->|Hin].
  - apply contains_app_l. simpl. apply contains_refl.
  - apply contains_app_r. apply IH. exact Hin.
Qed.

(* a reference in the else-body of the parsed_err section, when parsing did not succeed *)
Theorem else_ref_contained c ns body els name :
  In (NSection "parsed_err" body els) ns -> In (NRef name) els -> c_parsed c = None ->
  contains (html_escape (ref_value c None name)) (render_nodes c ns).
Proof.
  intros Hs He Hp. unfold render_nodes. eapply concat_contains; [apply in_map; exact Hs|].
  cbn [render]. simpl String.eqb. cbv iota. rewrite Hp. destruct els as [|e0 er]; [contradiction|].
  apply (render_list_ref_gen c None (e0 :: er) name He).
Qed.
