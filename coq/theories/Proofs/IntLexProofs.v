(* int(): on the int lexeme class the conversion fails EXACTLY for "sign, then space" and for more than 4300 digits
   (C05 int_failures_exact). *)
From Coq Require Import List String Ascii Bool Arith ZArith Lia.
Import ListNotations.
From ClasticV Require Import Base.Py Base.Strs Base.Rx Gen.RouteLex Model.Pattern Model.Match Model.RouteRx Proofs.RouteRxProofs.
Local Open Scope list_scope.
Local Open Scope string_scope.
Local Open Scope nat_scope.

Definition INT_RX : rx :=
  RCat (ROpt (RCls false [(43, 43); (45, 45)])) (RCat (RStar (RCls false [(32, 32)])) (RPlus (RCls false [(48, 57)]))).

Fixpoint spaces (n : nat) : string := match n with O => "" | S k => String " " (spaces k) end.

Definition is_digit (c : ascii) : bool := let n := nat_of_ascii c in (48 <=? n) && (n <=? 57).

Definition is_sign (sg : string) : Prop := sg = "" \/ sg = "+" \/ sg = "-".

Lemma cls_pos rs c : cls_ok false rs c = in_ranges c rs.
Proof. unfold cls_ok. destruct (in_ranges c rs); reflexivity. Qed.

Lemma in_range1 a b c : in_ranges c [(a, b)] = (a <=? nat_of_ascii c) && (nat_of_ascii c <=? b).
Proof. unfold in_ranges. simpl. apply orb_false_r. Qed.

Lemma in_range2 a b a' b' c : in_ranges c [(a, b); (a', b')] =
  (a <=? nat_of_ascii c) && (nat_of_ascii c <=? b) || (a' <=? nat_of_ascii c) && (nat_of_ascii c <=? b').
Proof. unfold in_ranges. simpl. rewrite orb_false_r. reflexivity. Qed.

Lemma lang_cls_single_range a b w :
  lang (RCls false [(a, b)]) w <-> exists c, a <= nat_of_ascii c <= b /\ w = String c "".
Proof.
  split.
  - intros H. inversion H as [|neg rs c Hc| | | | |]; subst. exists c. split; [|reflexivity].
    rewrite cls_pos, in_range1 in Hc.
    apply andb_prop in Hc. destruct Hc as [H1 H2]. apply Nat.leb_le in H1. apply Nat.leb_le in H2. lia.
  - intros [c [[H1 H2] ->]]. constructor. rewrite cls_pos, in_range1.
    apply Nat.leb_le in H1. apply Nat.leb_le in H2. rewrite H1, H2. reflexivity.
Qed.

Lemma ascii_of_code c n : nat_of_ascii c = n -> c = ascii_of_nat n.
Proof. intros <-. symmetry. apply ascii_nat_embedding. Qed.

Lemma lang_sign w : lang (ROpt (RCls false [(43, 43); (45, 45)])) w <-> is_sign w.
Proof.
  unfold ROpt, is_sign. rewrite lang_alt, lang_eps. split.
  - intros [->|H]; [auto|]. inversion H as [|neg rs c Hc| | | | |]; subst. right.
    rewrite cls_pos, in_range2 in Hc. apply orb_prop in Hc.
    destruct Hc as [Hc|Hc]; apply andb_prop in Hc; destruct Hc as [H1 H2]; apply Nat.leb_le in H1; apply Nat.leb_le in H2.
    + left. f_equal. apply (ascii_of_code c 43). lia.
    + right. f_equal. apply (ascii_of_code c 45). lia.
  - intros [-> | [-> | ->]]; [left; reflexivity|right; constructor; reflexivity|right; constructor; reflexivity].
Qed.

Lemma lang_spaces w : lang (RStar (RCls false [(32, 32)])) w <-> exists n, w = spaces n.
Proof.
  rewrite lang_star. split.
  - intros [l [Hl ->]]. induction Hl as [|x r Hx Hr [n IH]]; [exists 0; reflexivity|].
    apply lang_cls_single_range in Hx. destruct Hx as [c [Hc ->]]. exists (S n). simpl. rewrite IH. f_equal.
    apply (ascii_of_code c 32). lia.
  - intros [n ->]. exists (repeat " " n). split.
    + apply Forall_forall. intros x Hx. apply repeat_spec in Hx. subst x. constructor. reflexivity.
    + induction n as [|n IH]; simpl; [reflexivity|]. f_equal. exact IH.
Qed.

Lemma lang_digits_star w : lang (RStar (RCls false [(48, 57)])) w <-> all_chr is_digit w = true.
Proof.
  rewrite lang_star. split.
  - intros [l [Hl ->]]. induction Hl as [|x r Hx Hr IH]; [reflexivity|].
    apply lang_cls_single_range in Hx. destruct Hx as [c [Hc ->]]. simpl. rewrite IH, andb_true_r.
    unfold is_digit. destruct Hc as [H1 H2]. apply Nat.leb_le in H1. apply Nat.leb_le in H2. rewrite H1, H2. reflexivity.
  - intros H. induction w as [|c r IH].
    + exists []. split; [constructor|reflexivity].
    + simpl in H. apply andb_prop in H. destruct H as [Hc Hr]. destruct (IH Hr) as [l [Hl El]].
      exists (String c "" :: l). split; [|simpl; rewrite El; reflexivity]. constructor; [|exact Hl].
      apply lang_cls_single_range. exists c. split; [|reflexivity]. unfold is_digit in Hc. apply andb_prop in Hc.
      destruct Hc as [H1 H2]. apply Nat.leb_le in H1. apply Nat.leb_le in H2. lia.
Qed.

Lemma lang_int s : lang INT_RX s <->
  exists sg n ds, s = sg ++ spaces n ++ ds /\ is_sign sg /\ all_chr is_digit ds = true /\ ds <> "".
Proof.
  unfold INT_RX, RPlus. split.
  - intros H. apply lang_cat in H. destruct H as [sg [t [-> [Hsg Ht]]]]. apply lang_sign in Hsg.
    apply lang_cat in Ht. destruct Ht as [sp [t' [-> [Hsp Ht']]]]. apply lang_spaces in Hsp. destruct Hsp as [n ->].
    apply lang_cat in Ht'. destruct Ht' as [d [ds' [-> [Hd Hds]]]]. apply lang_cls_single_range in Hd. destruct Hd as [c [Hc ->]].
    apply lang_digits_star in Hds. exists sg, n, (String c ds'). split; [reflexivity|]. split; [exact Hsg|]. split; [|discriminate].
    simpl. rewrite Hds, andb_true_r. unfold is_digit. destruct Hc as [H1 H2]. apply Nat.leb_le in H1. apply Nat.leb_le in H2. rewrite H1, H2. reflexivity.
  - intros [sg [n [ds [-> [Hsg [Hd Hne]]]]]]. constructor; [apply lang_sign; exact Hsg|]. constructor; [apply lang_spaces; eauto|].
    destruct ds as [|c r]; [congruence|]. simpl in Hd. apply andb_prop in Hd. destruct Hd as [Hc Hr].
    change (String c r) with (String c "" ++ r). constructor; [|apply lang_digits_star; exact Hr].
    apply lang_cls_single_range. exists c. split; [|reflexivity]. unfold is_digit in Hc. apply andb_prop in Hc.
    destruct Hc as [H1 H2]. apply Nat.leb_le in H1. apply Nat.leb_le in H2. lia.
Qed.

(* ---- py_int on such a text ---- *)
Lemma digits_Z_total ds : all_chr is_digit ds = true -> forall acc, exists z, digits_Z ds acc = Some z.
Proof.
  induction ds as [|c r IH]; intros H acc; simpl; [eauto|].
  simpl in H. apply andb_prop in H. destruct H as [Hc Hr]. unfold is_digit in Hc. apply andb_prop in Hc. destruct Hc as [H1 H2].
  apply Nat.leb_le in H1. apply Nat.leb_le in H2.
  assert (E : ((48 <=? Z.of_nat (nat_of_ascii c)) && (Z.of_nat (nat_of_ascii c) <=? 57))%Z = true).
  { apply andb_true_intro. split; apply Z.leb_le; lia. }
  rewrite E. apply IH. exact Hr.
Qed.

Lemma drop_spaces_digits n ds : ds <> "" -> all_chr is_digit ds = true -> drop_spaces (spaces n ++ ds) = (ds, n).
Proof.
  intros Hne Hd. induction n as [|n IH]; simpl.
  - destruct ds as [|c r]; [congruence|]. simpl in Hd. apply andb_prop in Hd. destruct Hd as [Hc _].
    destruct (Ascii.eqb c " ") eqn:E.
    + apply Ascii.eqb_eq in E. subst c. vm_compute in Hc. discriminate.
    + simpl. destruct c as [[] [] [] [] [] [] [] []]; try reflexivity. simpl in E. discriminate.
  - rewrite IH. reflexivity.
Qed.

Lemma digit_not_sign c r : all_chr is_digit (String c r) = true -> c <> "+"%char /\ c <> "-"%char /\ c <> " "%char.
Proof.
  simpl. intros H. apply andb_prop in H. destruct H as [Hc _]. repeat split; intros ->; vm_compute in Hc; discriminate.
Qed.

Definition tail_int (ds : string) : option Z :=
  if nonempty ds && (String.length ds <=? MAX_INT_DIGITS) then digits_Z ds 0%Z else None.

Lemma py_int_shape sg n ds : is_sign sg -> ds <> "" -> all_chr is_digit ds = true ->
  py_int (sg ++ spaces n ++ ds) =
  if (negb (String.eqb sg "")) && negb (n =? 0) then None
  else match tail_int ds with
       | Some z => Some (if String.eqb sg "-" then (- z)%Z else z)
       | None => None
       end.
Proof.
  intros Hsg Hne Hd. unfold py_int, tail_int.
  destruct Hsg as [-> | [-> | ->]]; cbn [append String.eqb Ascii.eqb Bool.eqb negb andb].
  - (* no sign *)
    assert (E : match spaces n ++ ds with
                | String "+" r => (Some true, r)
                | String "-" r => (Some false, r)
                | _ => (None, spaces n ++ ds)
                end = (None (A:=bool), spaces n ++ ds)).
    { destruct n as [|n]; simpl.
      - destruct ds as [|c r]; [congruence|]. destruct (digit_not_sign c r Hd) as [H1 [H2 _]].
        destruct c as [[] [] [] [] [] [] [] []]; try reflexivity; exfalso; [apply H1|apply H2]; reflexivity.
      - reflexivity. }
    rewrite E. rewrite (drop_spaces_digits n ds Hne Hd).
    destruct (nonempty ds && (String.length ds <=? MAX_INT_DIGITS)); [|destruct n; reflexivity].
    destruct (digits_Z ds 0%Z); reflexivity.
  - rewrite (drop_spaces_digits n ds Hne Hd). destruct n as [|n]; [|reflexivity]. simpl.
    destruct (nonempty ds && (String.length ds <=? MAX_INT_DIGITS)); [|reflexivity].
    destruct (digits_Z ds 0%Z); reflexivity.
  - rewrite (drop_spaces_digits n ds Hne Hd). destruct n as [|n]; [|reflexivity]. simpl.
    destruct (nonempty ds && (String.length ds <=? MAX_INT_DIGITS)); [|reflexivity].
    destruct (digits_Z ds 0%Z); reflexivity.
Qed.

Theorem int_failures_exact s : rx_match INT_RX s = true ->
  exists sg n ds, s = sg ++ spaces n ++ ds /\ is_sign sg /\ all_chr is_digit ds = true /\ ds <> "" /\
    (py_int s = None <-> (sg <> "" /\ 0 < n) \/ MAX_INT_DIGITS < String.length ds).
Proof.
  intros H. apply rx_match_lang in H. apply lang_int in H. destruct H as [sg [n [ds [-> [Hsg [Hd Hne]]]]]].
  exists sg, n, ds. split; [reflexivity|]. split; [exact Hsg|]. split; [exact Hd|]. split; [exact Hne|].
  rewrite (py_int_shape sg n ds Hsg Hne Hd). unfold tail_int.
  assert (Hn : nonempty ds = true) by (destruct ds; [congruence|reflexivity]). rewrite Hn. cbn [andb].
  destruct (digits_Z_total ds Hd 0%Z) as [z Hz]. rewrite Hz.
  destruct (String.eqb sg "") eqn:Es; cbn [negb andb].
  - apply String.eqb_eq in Es. destruct (Nat.leb_spec (String.length ds) MAX_INT_DIGITS) as [Hl|Hl].
    + split; [discriminate|]. intros [[Hc _]|Hc]; [congruence|lia].
    + split; [intros _; right; exact Hl|reflexivity].
  - apply String.eqb_neq in Es. destruct (n =? 0) eqn:En; cbn [negb].
    + apply Nat.eqb_eq in En. subst n. destruct (Nat.leb_spec (String.length ds) MAX_INT_DIGITS) as [Hl|Hl].
      * split; [discriminate|]. intros [[_ Hc]|Hc]; lia.
      * split; [intros _; right; exact Hl|reflexivity].
    + apply Nat.eqb_neq in En. split; [intros _; left; split; [exact Es|lia]|reflexivity].
Qed.

Lemma int_rx_is_generated : assoc_type "int" TYPE_TABLE = Some (KInt, INT_RX).
Proof. reflexivity. Qed.
