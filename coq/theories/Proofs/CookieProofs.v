From Coq Require Import List String Bool Arith ZArith Lia.
Import ListNotations.
From ClasticV Require Import Base.Py Base.Strs Model.Cookie.
Local Open Scope string_scope.
Local Open Scope list_scope.

Section CookieProofs.
Variable V T secret : Type.
Variable mac : secret -> list (string * string) -> T.
Variable tag_eqb : T -> T -> bool.
Variable enc_val : V -> string.
Variable dec_val : string -> option V.
Variable as_time : V -> option Z.
Variable of_time : Z -> V.

Hypothesis tag_eqb_spec : forall a b, tag_eqb a b = true <-> a = b.
Hypothesis dec_enc : forall v, dec_val (enc_val v) = Some v.
Hypothesis time_roundtrip : forall n, as_time (of_time n) = Some n.
(* symbolic unforgeability: a tag determines the key and the items it was computed over *)
Hypothesis mac_injective : forall k its k' its', mac k its = mac k' its' -> k = k' /\ its = its'.

Notation unserialize := (unserialize V T secret mac tag_eqb dec_val as_time).
Notation serialize := (serialize V T secret mac enc_val).
Notation dict := (dict V).

Lemma all_some_map_some {X} (l : list X) : all_some (map Some l) = Some l.
Proof. induction l as [|x r IH]; simpl; [reflexivity|rewrite IH; reflexivity]. Qed.

Lemma decode_encode (d : dict) : decode_items V dec_val (map (fun kv => (fst kv, enc_val (snd kv))) d) = Some d.
Proof. induction d as [|[k v] r IH]; simpl; [reflexivity|]. rewrite dec_enc, IH. reflexivity. Qed.

Lemma tag_refl t : tag_eqb t t = true.
Proof. apply tag_eqb_spec. reflexivity. Qed.

(* what the server serialized comes back as stored: whole if it carries no expiry,
   without the _expires entry if the expiry has not passed, empty afterwards *)
Theorem roundtrip sk now (d : dict) :
  unserialize sk now (serialize sk d) =
  match dlookup V "_expires" d with
  | None => d
  | Some e => match as_time e with
              | Some n => if (n <? now)%Z then [] else dremove V "_expires" d
              | None => []
              end
  end.
Proof.
  unfold Cookie.unserialize, Cookie.serialize. rewrite all_some_map_some, tag_refl, decode_encode. reflexivity.
Qed.

(* a non-empty cookie is only ever presented for a well-formed string whose tag
   is the MAC, under the server's key, of exactly the received items *)
Theorem only_signed sk now r :
  unserialize sk now r <> [] ->
  exists t its, r = RParsed T (Some t) (map Some its) false /\ t = mac sk its.
Proof.
  destruct r as [| |tag items kr]; simpl; try (intros H; exfalso; apply H; reflexivity).
  destruct kr; [intros H; exfalso; apply H; reflexivity|].
  destruct (all_some items) as [its|] eqn:Ea; [|intros H; exfalso; apply H; reflexivity].
  destruct tag as [t|]; [|intros H; exfalso; apply H; reflexivity].
  destruct (tag_eqb t (mac sk its)) eqn:Et; [|intros H; exfalso; apply H; reflexivity].
  intros _. exists t, its. split; [|apply tag_eqb_spec; exact Et]. f_equal.
  clear -Ea. revert its Ea. induction items as [|[x|] r IH]; intros its Ea; simpl in Ea.
  - inversion Ea. reflexivity.
  - destruct (all_some r) as [xs|]; [|discriminate]. inversion Ea; subst. simpl. f_equal. apply IH. reflexivity.
  - discriminate.
Qed.

(* a tag made with another key, or over other items, yields an empty cookie *)
Theorem forged_is_empty sk now sk' its' its :
  (sk', its') <> (sk, its) ->
  unserialize sk now (RParsed T (Some (mac sk' its')) (map Some its) false) = [].
Proof.
  intros Hne. simpl. rewrite all_some_map_some.
  destruct (tag_eqb (mac sk' its') (mac sk its)) eqn:E; [|reflexivity].
  apply tag_eqb_spec in E. apply mac_injective in E. destruct E; subst. exfalso. apply Hne. reflexivity.
Qed.

Theorem malformed_is_empty sk now tag items :
  unserialize sk now (RAbsent T) = [] /\ unserialize sk now (RNoSeparator T) = [] /\
  unserialize sk now (RParsed T None items false) = [] /\ unserialize sk now (RParsed T tag items true) = [] /\
  (In None items -> unserialize sk now (RParsed T tag items false) = []).
Proof.
  repeat split; try reflexivity.
  - simpl. destruct (all_some items); reflexivity.
  - intros Hin. simpl. assert (all_some items = None) as ->; [|reflexivity].
    induction items as [|[x|] r IH]; simpl; [contradiction| |reflexivity].
    destruct Hin as [Hd|Hin]; [discriminate|]. rewrite IH by exact Hin. reflexivity.
Qed.

(* the middleware: with a numeric expiry every response re-stamps the cookie; the
   next request is presented exactly what was stored (minus the stamp), or nothing once the stamp has passed *)
Lemma dlookup_dset_same k v (d : dict) : dlookup V k (dset V k v d) = Some v.
Proof.
  unfold dset. induction (dremove V k d) as [|[k' v'] r IH]; simpl.
  - rewrite String.eqb_refl. reflexivity.
  - rewrite IH. reflexivity.
Qed.

Lemma dremove_dset k v (d : dict) : dremove V k (dset V k v d) = dremove V k d.
Proof.
  unfold dset, dremove. rewrite filter_app. simpl. rewrite String.eqb_refl. simpl. rewrite app_nil_r.
  induction d as [|[k' v'] r IH]; simpl; [reflexivity|].
  destruct (String.eqb k' k) eqn:E; simpl; [exact IH|]. rewrite E. simpl. f_equal. exact IH.
Qed.

Theorem stamped_then_presented sk now secs incoming ops now' given stored :
  mw_request V T secret mac tag_eqb dec_val as_time of_time sk (ENumeric secs) now incoming ops = (given, Some stored) ->
  dlookup V "_expires" (fst (apply_ops V ops given)) = None ->
  unserialize sk now' (serialize sk stored) =
  if (now + secs <? now')%Z then [] else dremove V "_expires" (fst (apply_ops V ops given)).
Proof.
  unfold mw_request. intros H Hn.
  set (g := Cookie.unserialize V T secret mac tag_eqb dec_val as_time sk now incoming) in *.
  destruct (apply_ops V ops g) as [after modified] eqn:Ea.
  assert (given = g) by (destruct (dlookup V "_expires" after); inversion H; reflexivity). subst given.
  rewrite Ea in Hn. simpl in Hn. rewrite Hn in H. inversion H; subst stored. clear H.
  rewrite roundtrip. rewrite dlookup_dset_same, time_roundtrip. rewrite dremove_dset. rewrite Ea. reflexivity.
Qed.

(* ---------------- whole histories refine a plain dictionary ---------------- *)
Notation E := "_expires".
Local Arguments String.eqb : simpl never.
Notation received := (received T).
Notation run_history := (run_history V T secret mac tag_eqb enc_val dec_val as_time of_time).
Notation spec_history := (spec_history V T).

Lemma dlookup_app k (a b : dict) :
  dlookup V k (a ++ b) = match dlookup V k b with Some x => Some x | None => dlookup V k a end.
Proof.
  induction a as [|[k' v'] r IH]; simpl; [destruct (dlookup V k b); reflexivity|].
  rewrite IH. destruct (dlookup V k b); [reflexivity|]. reflexivity.
Qed.

Lemma dlookup_dremove_same k (d : dict) : dlookup V k (dremove V k d) = None.
Proof.
  induction d as [|[k' v'] r IH]; simpl; [reflexivity|].
  destruct (String.eqb k' k) eqn:Ek; simpl; [exact IH|]. rewrite IH.
  rewrite String.eqb_sym, Ek. reflexivity.
Qed.

Lemma dlookup_dremove_other k k' (d : dict) : k <> k' -> dlookup V k (dremove V k' d) = dlookup V k d.
Proof.
  intros Hne. induction d as [|[k2 v2] r IH]; simpl; [reflexivity|].
  destruct (String.eqb k2 k') eqn:Ek; simpl.
  - rewrite IH. apply String.eqb_eq in Ek. subst k2.
    destruct (dlookup V k r); [reflexivity|]. apply String.eqb_neq in Hne. rewrite Hne. reflexivity.
  - rewrite IH. reflexivity.
Qed.

Lemma dremove_absent k (d : dict) : dlookup V k d = None -> dremove V k d = d.
Proof.
  induction d as [|[k' v'] r IH]; simpl; [reflexivity|].
  destruct (dlookup V k r) eqn:El; [discriminate|].
  destruct (String.eqb k k') eqn:Ek; [discriminate|]. intros _.
  rewrite String.eqb_sym, Ek. simpl. f_equal. apply IH. reflexivity.
Qed.

Definition spares (o : cop V) : Prop := op_key V o <> Some E.

Lemma apply_op_spares (d : dict) o : spares o -> dlookup V E d = None -> dlookup V E (apply_op V d o) = None.
Proof.
  unfold spares. destruct o as [k v|k|]; simpl; intros Hs Hd; [| |reflexivity].
  - unfold dset. rewrite dlookup_app. simpl.
    destruct (String.eqb E k) eqn:Ek; [apply String.eqb_eq in Ek; subst k; exfalso; apply Hs; reflexivity|].
    rewrite dlookup_dremove_other; [exact Hd|]. intros He. apply Hs. rewrite He. reflexivity.
  - rewrite dlookup_dremove_other; [exact Hd|]. intros He. apply Hs. rewrite He. reflexivity.
Qed.

Definition ops_step := (fun (acc : dict * bool) (o : cop V) =>
               match o with
               | CDel _ k => match dlookup V k (fst acc) with
                           | Some _ => (apply_op V (fst acc) o, true)
                           | None => acc
                           end
               | _ => (apply_op V (fst acc) o, true)
               end).

Lemma apply_ops_fold ops d : apply_ops V ops d = fold_left ops_step ops (d, false).
Proof. reflexivity. Qed.

Lemma fold_spares ops : forall acc, Forall spares ops -> dlookup V E (fst acc) = None ->
  dlookup V E (fst (fold_left ops_step ops acc)) = None.
Proof.
  induction ops as [|o r IH]; intros acc Hf Hd; [exact Hd|]. inversion Hf as [|? ? Ho Hr]; subst. simpl.
  apply IH; [exact Hr|]. unfold ops_step.
  destruct o as [k v|k|]; simpl.
  - apply (apply_op_spares (fst acc) (CSet V k v)); assumption.
  - destruct (dlookup V k (fst acc)); [|exact Hd]. simpl. apply (apply_op_spares (fst acc) (CDel V k)); assumption.
  - reflexivity.
Qed.

Lemma fold_flag_mono ops : forall acc, snd acc = true -> snd (fold_left ops_step ops acc) = true.
Proof.
  induction ops as [|o r IH]; intros acc Ha; [exact Ha|]. simpl. apply IH. unfold ops_step.
  destruct o as [k v|k|]; simpl; try reflexivity. destruct (dlookup V k (fst acc)); [reflexivity|exact Ha].
Qed.

Lemma fold_unmodified ops : forall acc, snd (fold_left ops_step ops acc) = false -> fold_left ops_step ops acc = acc.
Proof.
  induction ops as [|o r IH]; intros acc Hs; [reflexivity|]. simpl in *.
  assert (Hstep : ops_step acc o = acc \/ snd (ops_step acc o) = true).
  { unfold ops_step. destruct o as [k v|k|]; simpl; auto. destruct (dlookup V k (fst acc)); simpl; auto. }
  destruct Hstep as [He|Ht].
  - rewrite He in *. apply IH. exact Hs.
  - rewrite (fold_flag_mono r _ Ht) in Hs. discriminate.
Qed.

(* a cookie the server did not sign *)
Definition unsigned (sk : secret) (r : received) : Prop :=
  ~ exists its, r = RParsed T (Some (mac sk its)) (map Some its) false.

Lemma unsigned_empty sk now r : unsigned sk r -> unserialize sk now r = [].
Proof.
  intros Hu. destruct (unserialize sk now r) eqn:Eu; [reflexivity|]. exfalso. apply Hu.
  destruct (only_signed sk now r) as [t [its [Hr Ht]]]; [rewrite Eu; discriminate|].
  exists its. subst t. exact Hr.
Qed.

(* honest steps leave the reserved key alone; tampering steps present something the server never signed *)
Fixpoint wf_history (sk : secret) (h : list (hstep V T)) : Prop :=
  match h with
  | [] => True
  | HReq _ _ _ ops :: r => Forall spares ops /\ wf_history sk r
  | HTamper _ _ x :: r => unsigned sk x /\ wf_history sk r
  end.

Definition jar_inv (sk : secret) (ex : expiry) (jar : received) (s : spec_state V) : Prop :=
  (forall now, unserialize sk now jar = spec_given V now s) /\
  dlookup V E (fst s) = None /\
  (match ex with ENumeric _ => True | _ => snd s = None end).

Lemma spec_given_spares now (s : spec_state V) : dlookup V E (fst s) = None -> dlookup V E (spec_given V now s) = None.
Proof.
  unfold spec_given. destruct (snd s) as [st|]; [|auto]. destruct (st <? now)%Z; auto.
Qed.

Lemma client_step_inv sk ex jar s now ops :
  jar_inv sk ex jar s -> Forall spares ops ->
  let g := spec_given V now s in
  let s' := (fst (apply_ops V ops g), match ex with ENumeric secs => Some (now + secs)%Z | _ => None end) in
  snd (client_step V T secret mac tag_eqb enc_val dec_val as_time of_time sk ex jar now ops) = g /\
  jar_inv sk ex (fst (client_step V T secret mac tag_eqb enc_val dec_val as_time of_time sk ex jar now ops)) s'.
Proof.
  intros [J1 [J2 J3]] Hops g s'. unfold client_step, mw_request.
  fold (unserialize sk now jar). rewrite (J1 now). fold g.
  assert (Hg : dlookup V E g = None) by (apply spec_given_spares; exact J2).
  destruct (apply_ops V ops g) as [after modified] eqn:Ea.
  assert (Hafter : dlookup V E after = None).
  { change after with (fst (after, modified)). rewrite <- Ea. rewrite apply_ops_fold. apply fold_spares; assumption. }
  assert (Hs' : s' = (after, match ex with ENumeric secs => Some (now + secs)%Z | _ => None end)).
  { unfold s'; try rewrite Ea; reflexivity. }
  assert (Hplain : forall now', unserialize sk now' (serialize sk after) = after).
  { intros now'. rewrite roundtrip, Hafter. reflexivity. }
  assert (Hunmod : modified = false -> after = g /\ forall now', spec_given V now' s = g -> True).
  { intros ->. rewrite apply_ops_fold in Ea. pose proof (fold_unmodified ops (g, false)) as Hf. rewrite Ea in Hf.
    specialize (Hf eq_refl). inversion Hf. split; [reflexivity|trivial]. }
  destruct ex as [| |secs].
  - (* session *) simpl. split; [destruct modified; reflexivity|]. rewrite Hs'.
    split; [|split; [exact Hafter|reflexivity]]. intros now'. unfold spec_given. simpl.
    destruct modified; simpl.
    + apply Hplain.
    + destruct (Hunmod eq_refl) as [-> _]. rewrite (J1 now'). unfold g, spec_given. rewrite J3. reflexivity.
  - (* never *) simpl. split; [destruct modified; reflexivity|]. rewrite Hs'.
    split; [|split; [exact Hafter|reflexivity]]. intros now'. unfold spec_given. simpl.
    destruct modified; simpl.
    + apply Hplain.
    + destruct (Hunmod eq_refl) as [-> _]. rewrite (J1 now'). unfold g, spec_given. rewrite J3. reflexivity.
  - (* numeric: every response re-stamps *)
    rewrite Hafter. simpl. split; [reflexivity|]. rewrite Hs'.
    split; [|split; [exact Hafter|exact I]]. intros now'. unfold spec_given. cbn [fst snd].
    rewrite roundtrip, dlookup_dset_same, time_roundtrip, dremove_dset, (dremove_absent _ _ Hafter). reflexivity.
Qed.

(* C16 over whole histories: whatever the client does - any number of requests with any operations, clock
   readings in any order, any tampering in between - the endpoint is given exactly what the plain
   dictionary specification holds *)
Theorem history_refines_dict sk ex h : forall jar s,
  jar_inv sk ex jar s -> wf_history sk h ->
  run_history sk ex jar h = spec_history ex s h.
Proof.
  induction h as [|st r IH]; intros jar s Hinv Hwf; [reflexivity|].
  destruct st as [now ops|x]; simpl in Hwf; destruct Hwf as [Hst Hr].
  - simpl. pose proof (client_step_inv sk ex jar s now ops Hinv Hst) as [Hg Hinv'].
    destruct (client_step V T secret mac tag_eqb enc_val dec_val as_time of_time sk ex jar now ops) as [jar' given] eqn:Ec.
    simpl in Hg, Hinv'. subst given. f_equal. apply IH; assumption.
  - simpl. apply IH; [|exact Hr]. split; [|split; [reflexivity|destruct ex; exact I || reflexivity]].
    intros now. rewrite (unsigned_empty sk now x Hst). reflexivity.
Qed.

Lemma fresh_client_inv sk ex : jar_inv sk ex (RAbsent T) ([], None).
Proof. split; [reflexivity|split; [reflexivity|destruct ex; exact I || reflexivity]]. Qed.

Corollary fresh_history_refines_dict sk ex h :
  wf_history sk h -> run_history sk ex (RAbsent T) h = spec_history ex ([], None) h.
Proof. apply history_refines_dict. apply fresh_client_inv. Qed.
End CookieProofs.
