From Coq Require Import List String Bool Arith ZArith Lia.
Import ListNotations.
From ClasticV Require Import Base.Py Base.Strs Model.Cookie.
Local Open Scope string_scope.
Local Open Scope list_scope.

Section CookieProofs.
Variable V T secret : Type.
Variable mac : secret -> list (string * string) -> T.
Variable tag_eqb : T -> T -> bool.
Variable enc_val : V -> string.
Variable dec_val : string -> option V.
Variable as_time : V -> option Z.
Variable of_time : Z -> V.

Hypothesis tag_eqb_spec : forall a b, tag_eqb a b = true <-> a = b.
Hypothesis dec_enc : forall v, dec_val (enc_val v) = Some v.
Hypothesis time_roundtrip : forall n, as_time (of_time n) = Some n.
(* symbolic unforgeability: a tag determines the key and the items it was computed over *)
Hypothesis mac_injective : forall k its k' its', mac k its = mac k' its' -> k = k' /\ its = its'.

Notation unserialize := (unserialize V T secret mac tag_eqb dec_val as_time).
Notation serialize := (serialize V T secret mac enc_val).
Notation dict := (dict V).

Lemma all_some_map_some {X} (l : list X) : all_some (map Some l) = Some l.
Proof. induction l as [|x r IH]; simpl; [reflexivity|rewrite IH; reflexivity]. Qed.

Lemma decode_encode (d : dict) : decode_items V dec_val (map (fun kv => (fst kv, enc_val (snd kv))) d) = Some d.
Proof. induction d as [|[k v] r IH]; simpl; [reflexivity|]. rewrite dec_enc, IH. reflexivity. Qed.

Lemma tag_refl t : tag_eqb t t = true.
Proof. apply tag_eqb_spec. reflexivity. Qed.

(* what the server serialized comes back as stored: whole if it carries no expiry,
   without the _expires entry if the expiry has not passed, empty afterwards *)
Theorem roundtrip sk now (d : dict) :
  unserialize sk now (serialize sk d) =
  match dlookup V "_expires" d with
  | None => d
  | Some e => match as_time e with
              | Some n => if (n <? now)%Z then [] else dremove V "_expires" d
              | None => []
              end
  end.
Proof.
  unfold Cookie.unserialize, Cookie.serialize. rewrite all_some_map_some, tag_refl, decode_encode. reflexivity.
Qed.

(* a non-empty cookie is only ever presented for a well-formed string whose tag
   is the MAC, under the server's key, of exactly the received items *)
Theorem only_signed sk now r :
  unserialize sk now r <> [] ->
  exists t its, r = RParsed T (Some t) (map Some its) false /\ t = mac sk its.
Proof.
  destruct r as [| |tag items kr]; simpl; try (intros H; exfalso; apply H; reflexivity).
  destruct kr; [intros H; exfalso; apply H; reflexivity|].
  destruct (all_some items) as [its|] eqn:Ea; [|intros H; exfalso; apply H; reflexivity].
  destruct tag as [t|]; [|intros H; exfalso; apply H; reflexivity].
  destruct (tag_eqb t (mac sk its)) eqn:Et; [|intros H; exfalso; apply H; reflexivity].
  intros _. exists t, its. split; [|apply tag_eqb_spec; exact Et]. f_equal.
  clear -Ea. revert its Ea. induction items as [|[x|] r IH]; intros its Ea; simpl in Ea.
  - inversion Ea. reflexivity.
  - destruct (all_some r) as [xs|]; [|discriminate]. inversion Ea; subst. simpl. f_equal. apply IH. reflexivity.
  - discriminate.
Qed.

(* a tag made with another key, or over other items, yields an empty cookie *)
Theorem forged_is_empty sk now sk' its' its :
  (sk', its') <> (sk, its) ->
  unserialize sk now (RParsed T (Some (mac sk' its')) (map Some its) false) = [].
Proof.
  intros Hne. simpl. rewrite all_some_map_some.
  destruct (tag_eqb (mac sk' its') (mac sk its)) eqn:E; [|reflexivity].
  apply tag_eqb_spec in E. apply mac_injective in E. destruct E; subst. exfalso. apply Hne. reflexivity.
Qed.

Theorem malformed_is_empty sk now tag items :
  unserialize sk now (RAbsent T) = [] /\ unserialize sk now (RNoSeparator T) = [] /\
  unserialize sk now (RParsed T None items false) = [] /\ unserialize sk now (RParsed T tag items true) = [] /\
  (In None items -> unserialize sk now (RParsed T tag items false) = []).
Proof.
  repeat split; try reflexivity.
  - simpl. destruct (all_some items); reflexivity.
  - intros Hin. simpl. assert (all_some items = None) as ->; [|reflexivity].
    induction items as [|[x|] r IH]; simpl; [contradiction| |reflexivity].
    destruct Hin as [Hd|Hin]; [discriminate|]. rewrite IH by exact Hin. reflexivity.
Qed.

(* the middleware: with a numeric expiry every response re-stamps the cookie; the
   next request is presented exactly what was stored (minus the stamp), or nothing once the stamp has passed *)
Lemma dlookup_dset_same k v (d : dict) : dlookup V k (dset V k v d) = Some v.
Proof.
  unfold dset. induction (dremove V k d) as [|[k' v'] r IH]; simpl.
  - rewrite String.eqb_refl. reflexivity.
  - rewrite IH. reflexivity.
Qed.

Lemma dremove_dset k v (d : dict) : dremove V k (dset V k v d) = dremove V k d.
Proof.
  unfold dset, dremove. rewrite filter_app. simpl. rewrite String.eqb_refl. simpl. rewrite app_nil_r.
  induction d as [|[k' v'] r IH]; simpl; [reflexivity|].
  destruct (String.eqb k' k) eqn:E; simpl; [exact IH|]. rewrite E. simpl. f_equal. exact IH.
Qed.

Theorem stamped_then_presented sk now secs incoming ops now' given stored :
  mw_request V T secret mac tag_eqb dec_val as_time of_time sk (ENumeric secs) now incoming ops = (given, Some stored) ->
  dlookup V "_expires" (fst (apply_ops V ops given)) = None ->
  unserialize sk now' (serialize sk stored) =
  if (now + secs <? now')%Z then [] else dremove V "_expires" (fst (apply_ops V ops given)).
Proof.
  unfold mw_request. intros H Hn.
  set (g := Cookie.unserialize V T secret mac tag_eqb dec_val as_time sk now incoming) in *.
  destruct (apply_ops V ops g) as [after modified] eqn:Ea.
  assert (given = g) by (destruct (dlookup V "_expires" after); inversion H; reflexivity). subst given.
  rewrite Ea in Hn. simpl in Hn. rewrite Hn in H. inversion H; subst stored. clear H.
  rewrite roundtrip. rewrite dlookup_dset_same, time_roundtrip. rewrite dremove_dset. rewrite Ea. reflexivity.
Qed.
End CookieProofs.
