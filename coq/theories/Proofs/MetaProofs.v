From Coq Require Import List String Ascii Bool Arith.
Import ListNotations.
From ClasticV Require Import Base.Py Base.Strs Model.Render Model.Meta.
Local Open Scope list_scope.
Local Open Scope string_scope.

Section MetaProofs.
Variable V : Type.
Variable repr : V -> string.
Variables (needle marker trailer : string) (maxlen : nat).
Notation info := (resource_info V repr needle marker trailer maxlen).
Notation secret := (is_secret needle).

(* two hosts whose resources differ only in the VALUES of secret-named entries show the same thing *)
Theorem noninterference (r1 r2 : list (string * V)) :
  map fst r1 = map fst r2 ->
  (forall i k v1 v2, nth_error r1 i = Some (k, v1) -> nth_error r2 i = Some (k, v2) -> secret k = false -> v1 = v2) ->
  info r1 = info r2.
Proof.
  revert r2. induction r1 as [|[k v] r IH]; intros r2 Hk Hv; destruct r2 as [|[k2 v2] r2']; try discriminate; [reflexivity|].
  simpl in Hk. inversion Hk as [[Hk1 Hk2]]. subst k2. unfold resource_info in *. simpl.
  f_equal.
  - destruct (secret k) eqn:E; [reflexivity|]. rewrite (Hv 0 k v v2 eq_refl eq_refl E). reflexivity.
  - apply IH; [exact Hk2|]. intros i k' a b Ha Hb Hs. apply (Hv (S i) k' a b Ha Hb Hs).
Qed.

(* every secret-named resource is listed with the marker, every other one with its truncated repr *)
Theorem marker_and_visible res k v :
  In (k, v) res ->
  In (k, if secret k then marker else trunc trailer maxlen (repr v)) (info res).
Proof.
  intros H. unfold resource_info. apply in_map_iff. exists (k, v). split; [reflexivity|exact H].
Qed.

Theorem secret_value_not_consulted (res : list (string * V)) k v v' (pre post : list (string * V)) :
  res = (pre ++ (k, v) :: post)%list -> secret k = true ->
  info res = info (pre ++ (k, v') :: post)%list.
Proof.
  intros -> Hs. unfold resource_info. rewrite !map_app. simpl. rewrite Hs. reflexivity.
Qed.
End MetaProofs.
