(* C06 composed with C05: routing decided from the DECLARED patterns.  The match bit of the dispatch model is no
   longer an input: it is computed by the pattern model (Model/Match.match_path) on the request path. *)
From Coq Require Import List String Bool Arith ZArith Lia.
Import ListNotations.
From ClasticV Require Import Base.Py Base.Strs Gen.Tables Model.Pattern Model.Match Model.Dispatch
     Proofs.DispatchProofs Proofs.MatchProofs.
Local Open Scope string_scope.
Local Open Scope list_scope.

Record route_decl := mk_route_decl {
  rd_pat : pat;                              (* the parsed pattern *)
  rd_methods : option (list string);         (* normalised method set *)
  rd_mode : smode;                           (* effective slash mode *)
  rd_out : exec_out;                         (* what executing the route yields *)
  rd_rerr : rerr
}.

Definition mmode_of (m : smode) : mmode := match m with SStrict => MStrict | _ => MTolerant end.

Definition droute_for (path : string) (d : route_decl) : droute :=
  mk_droute (match match_path (mmode_of (rd_mode d)) (rd_pat d) path with Some _ => true | None => false end)
            (rd_methods d) (p_trailing (rd_pat d)) (rd_mode d) (rd_out d) (rd_rerr d).

Definition serve_decls (h : handler) (meth path : string) (canon : bool) (ds : list route_decl) : lres :=
  loop h meth canon (map (droute_for path) ds) 0 (mk_dstate [] []).

(* a route that answers has a pattern that matches the path (with bindings) and admits the method *)
Lemma stop_matches h meth canon path d l :
  verdict_of h meth canon (droute_for path d) = VStop l ->
  (exists bindings, match_path (mmode_of (rd_mode d)) (rd_pat d) path = Some bindings) /\ admits (rd_methods d) meth = true.
Proof.
  unfold verdict_of, droute_for. cbn [d_match d_methods].
  destruct (match_path (mmode_of (rd_mode d)) (rd_pat d) path) as [b|]; cbn [negb]; [|discriminate].
  destruct (admits (rd_methods d) meth); cbn [negb]; [|discriminate].
  intros _. split; [eexists; reflexivity|reflexivity].
Qed.

(* a route whose pattern does not match the path, or that does not admit the method, never answers *)
Lemma no_match_no_stop h meth canon path d :
  match_path (mmode_of (rd_mode d)) (rd_pat d) path = None \/ admits (rd_methods d) meth = false ->
  is_stop (verdict_of h meth canon (droute_for path d)) = false.
Proof.
  unfold verdict_of, droute_for. cbn [d_match d_methods]. intros [H|H].
  - rewrite H. reflexivity.
  - destruct (match_path _ _ _); cbn [negb]; [|reflexivity]. rewrite H. reflexivity.
Qed.

(* FIRST MATCH IN ORDER, from the patterns: the request is answered by route k whenever k's verdict stops and
   every earlier route either does not match the path, does not admit the method, or fails softly; and then k's
   pattern is assigned the path's segments (C05 soundness) and k admits the method *)
Theorem first_answerer_from_patterns h meth canon path ds k l :
  nth_error (map (verdict_of h meth canon) (map (droute_for path) ds)) k = Some (VStop l) ->
  (forall k', k' < k -> exists v, nth_error (map (verdict_of h meth canon) (map (droute_for path) ds)) k' = Some v /\ is_stop v = false) ->
  serve_decls h meth path canon ds = l k /\
  exists d bindings ts tr caps,
    nth_error ds k = Some d /\
    match_path (mmode_of (rd_mode d)) (rd_pat d) path = Some bindings /\
    tokenise path = Some (ts, tr) /\ gmatch (p_elems (rd_pat d)) ts = Some caps /\ assign (p_elems (rd_pat d)) ts caps /\
    admits (rd_methods d) meth = true.
Proof.
  intros Hk Hb. split; [apply first_answerer; assumption|].
  rewrite map_map in Hk. rewrite nth_error_map in Hk.
  destruct (nth_error ds k) as [d|] eqn:Ed; [|discriminate]. cbn [option_map] in Hk.
  assert (Hv : verdict_of h meth canon (droute_for path d) = VStop l) by congruence. clear Hk.
  destruct (stop_matches h meth canon path d l Hv) as [[b Hm] Ha].
  exists d, b. pose proof Hm as Hm0. unfold match_path in Hm.
  destruct (tokenise path) as [[ts tr]|] eqn:Et; [|discriminate].
  destruct (mode_ok _ _ _ _); [|discriminate].
  destruct (gmatch (p_elems (rd_pat d)) ts) as [caps|] eqn:Eg; [|discriminate].
  exists ts, tr, caps. repeat split; try reflexivity; try assumption.
  - apply gmatch_sound. exact Eg.
Qed.

(* no declared pattern matches the path: 404 from the catch-all, whatever the methods and outcomes *)
Theorem no_pattern_matches_404 h meth canon path ds :
  (forall d, In d ds -> match_path (mmode_of (rd_mode d)) (rd_pat d) path = None) ->
  serve_decls h meth path canon ds = LHttp (List.length ds) 404%Z [].
Proof.
  intros H. unfold serve_decls. rewrite <- (map_length (droute_for path) ds). apply no_match_404.
  intros r Hr. apply in_map_iff in Hr. destruct Hr as (d & <- & Hd). unfold droute_for. cbn [d_match]. rewrite (H d Hd). reflexivity.
Qed.

(* the match bit of the dispatch loop is what the regex ENGINE and the converters of the real route compute
   (C05_match_path_end_to_end): routing is decided from the assembled regular expressions themselves *)
From ClasticV Require Import Model.RouteRx Model.Backtrack Proofs.ConvertProofs.

Theorem match_bit_is_the_engine s path d : parse_pattern s = Ok (rd_pat d) ->
  d_match (droute_for path d) =
  match py_match_path (mmode_of (rd_mode d)) (rd_pat d) path with Some _ => true | None => false end.
Proof.
  intros Hp. unfold droute_for. cbn [d_match]. rewrite (py_match_path_is_match_path s _ _ path Hp). reflexivity.
Qed.
