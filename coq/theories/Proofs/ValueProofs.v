(* C02: every keyword a function of the route receives carries the value of that name's source.
   [src] assigns to every name the value of its one source; the theorem says that under an injected
   environment that agrees with [src], and middlewares that hand to next() the values [src] says they
   provide, EVERY Enter event of EVERY request carries [src n] for each keyword n it passes - for any
   scripts (raise / early return / swallow / replace), at every level of the three chains. *)
From Coq Require Import List String Bool Arith ZArith Lia.
Import ListNotations.
From ClasticV Require Import Base.Py Base.FSet Base.Sx Gen.Tables Model.Chain Model.Exec Proofs.ChainProofs Proofs.ExecProofs
     Proofs.OnionProofs.
Local Open Scope string_scope.
Local Open Scope list_scope.

Section Values.
Variable sc : scripts.
Variable src : name -> value.
Hypothesis src_next : src INNER_NAME = VNext.

Definition vals_ok (e : env) : Prop := forall n v, In (n, v) e -> v = src n.
Definition events_ok (tr : list event) : Prop := forall f kws, In (Enter f kws) tr -> vals_ok kws.

Lemma vals_ok_app a b : vals_ok a -> vals_ok b -> vals_ok (a ++ b).
Proof. intros Ha Hb n v H. apply in_app_or in H. destruct H; [apply Ha|apply Hb]; assumption. Qed.

Lemma events_ok_app a b : events_ok a -> events_ok b -> events_ok (a ++ b).
Proof. intros Ha Hb f k H. apply in_app_or in H. destruct H; [eapply Ha|eapply Hb]; eassumption. Qed.

Lemma events_ok_nil : events_ok [].
Proof. intros f k []. Qed.

Lemma lookup_env_in n e v : lookup_env n e = Some v -> In (n, v) e.
Proof.
  induction e as [|[k w] r IH]; cbn [lookup_env]; [discriminate|].
  destruct (String.eqb n k) eqn:E.
  - intros H. inversion H; subst. apply String.eqb_eq in E. subst. left. reflexivity.
  - intros H. right. apply IH. exact H.
Qed.

Lemma lookup_scope_ok e n v : vals_ok e -> lookup_scope n e = Some v -> v = src n.
Proof.
  unfold lookup_scope. intros He. destruct (String.eqb n INNER_NAME) eqn:E.
  - intros H. inversion H; subst. apply String.eqb_eq in E. subst. symmetry. exact src_next.
  - intros H. apply He. apply lookup_env_in. exact H.
Qed.

Lemma bind_kwargs_vals (look : name -> env -> option value) e :
  (forall n v, look n e = Some v -> v = src n) ->
  forall ns kws, bind_kwargs look e ns = inl kws -> vals_ok kws.
Proof.
  intros Hl. induction ns as [|n r IH]; intros kws H; cbn [bind_kwargs] in H.
  - inversion H; subst. intros ? ? [].
  - destruct (look n e) as [v|] eqn:Ev; [|discriminate].
    destruct (bind_kwargs look e r) as [k|m]; [|discriminate]. inversion H; subst.
    intros n' v' [Hd|Hin]; [inversion Hd; subst; apply Hl; exact Ev|eapply IH; [reflexivity|exact Hin]].
Qed.

(* every middleware level hands to next() what [src] says it provides *)
Definition levels_ok (lvls : list level) : Prop :=
  forall lv ph i n, In lv lvls -> lv_func lv = FMw ph i -> In n (lv_gives lv) -> src n = provided_value ph i n.

Definition final_ok (final : final_fn) : Prop :=
  forall f kws, vals_ok kws -> events_ok (snd (final f kws)).

Lemma exec_values final : final_ok final ->
  forall lvls e, vals_ok e -> levels_ok lvls -> events_ok (snd (exec_chain sc final lvls e)).
Proof.
  intros Hfin. induction lvls as [|lv rest IH]; intros e He Hl; cbn [exec_chain]; [apply events_ok_nil|].
  destruct (bind_kwargs lookup_scope e (lv_kwargs lv)) as [kws|n] eqn:Eb.
  2:{ cbn [snd]. intros f k [H|[]]. discriminate. }
  assert (Hk : vals_ok kws).
  { eapply bind_kwargs_vals; [|exact Eb]. intros n v. apply lookup_scope_ok. exact He. }
  destruct (sig_accepts (lv_sig lv) (lv_kwargs lv)); cbn [negb].
  2:{ cbn [snd]. intros f k [H|[]]. discriminate. }
  destruct rest as [|nxt rest'].
  - apply Hfin. exact Hk.
  - destruct (lv_func lv) as [ph i| | |] eqn:Ef; try (cbn [snd]; apply events_ok_nil).
    destruct (s_mw sc ph i) as [p|x|r].
    + destruct (same_names (lv_gives lv) (lv_params nxt)).
      * set (e' := map (fun n => (n, provided_value ph i n)) (lv_gives lv) ++ e).
        assert (He' : vals_ok e').
        { apply vals_ok_app; [|exact He]. intros n v Hin. apply in_map_iff in Hin. destruct Hin as (m & Hm & Hi).
          inversion Hm; subst. symmetry. eapply Hl; [left; reflexivity|exact Ef|exact Hi]. }
        specialize (IH e' He').
        destruct (exec_chain sc final (nxt :: rest') e') as [o tr]. cbn [snd] in *.
        intros f k [H|H]; [inversion H; subst; exact Hk|].
        apply in_app_or in H. destruct H as [H|[H|[]]]; [|discriminate].
        eapply IH; [|exact H]. intros l ph' i' n Hin. apply Hl. right. exact Hin.
      * cbn [snd]. intros f k [H|[H|[H|[]]]]; try discriminate. inversion H; subst. exact Hk.
    + cbn [snd]. intros f k [H|[H|[]]]; [inversion H; subst; exact Hk|discriminate].
    + cbn [snd]. intros f k [H|[H|[]]]; [inversion H; subst; exact Hk|discriminate].
Qed.

Lemma call_values final lvls kws : final_ok final -> vals_ok kws -> levels_ok lvls ->
  events_ok (snd (call_chain sc final lvls kws)).
Proof.
  intros Hf Hk Hl. unfold call_chain. destruct lvls as [|lv rest]; [apply events_ok_nil|].
  destruct (same_names (lv_params lv) (map fst kws)).
  - apply exec_values; assumption.
  - cbn [snd]. intros f k [H|[]]. discriminate.
Qed.

Lemma ep_final_ok : final_ok (ep_final sc).
Proof. intros f kws Hk g k. unfold ep_final. cbn [snd]. intros [H|[H|[]]]; [inversion H; subst; exact Hk|discriminate]. Qed.
Lemma rn_final_ok : final_ok (rn_final sc).
Proof. intros f kws Hk g k. unfold rn_final. cbn [snd]. intros [H|[H|[]]]; [inversion H; subst; exact Hk|discriminate]. Qed.

(* a non-Response value can only come from the endpoint itself: middlewares return Responses or pass through *)
Lemma exec_ctx_from_final final : 
  (forall f kws tag, fst (final f kws) = OVal false tag -> s_ep sc = ECtx tag) ->
  forall lvls e tag, fst (exec_chain sc final lvls e) = OVal false tag -> s_ep sc = ECtx tag.
Proof.
  intros Hfin. induction lvls as [|lv rest IH]; intros e tag; cbn [exec_chain]; [cbn; discriminate|].
  destruct (bind_kwargs lookup_scope e (lv_kwargs lv)) as [kws|n]; [|cbn; discriminate].
  destruct (sig_accepts (lv_sig lv) (lv_kwargs lv)); cbn [negb]; [|cbn; discriminate].
  destruct rest as [|nxt rest']; [apply Hfin|].
  destruct (lv_func lv) as [ph i| | |]; try (cbn; discriminate).
  destruct (s_mw sc ph i) as [p|x|r]; try (cbn; discriminate).
  destruct (same_names (lv_gives lv) (lv_params nxt)).
  - match goal with |- context [exec_chain sc final (nxt :: rest') ?E] =>
      specialize (IH E); destruct (exec_chain sc final (nxt :: rest') E) as [o tr] end.
    cbn [fst] in *. destruct p as [|x|r|r]; destruct o as [[|] t|x']; cbn [apply_post]; try discriminate; intros H; apply IH; exact H.
  - cbn [fst]. destruct p; cbn; discriminate.
Qed.

Lemma call_ctx_from_endpoint lvls kws tag :
  fst (call_chain sc (ep_final sc) lvls kws) = OVal false tag -> s_ep sc = ECtx tag.
Proof.
  unfold call_chain. destruct lvls as [|lv rest]; [cbn; discriminate|].
  destruct (same_names (lv_params lv) (map fst kws)); [|cbn; discriminate].
  apply exec_ctx_from_final. intros f k t. unfold ep_final. cbn [fst]. destruct (s_ep sc); intros H; inversion H; reflexivity.
Qed.

Hypothesis src_context : forall tag, s_ep sc = ECtx tag -> src "context" = VS tag.

Lemma proc_ok pl : levels_ok (p_ep pl) -> levels_ok (p_rn pl) -> final_ok (proc sc pl).
Proof.
  intros Hle Hlr f kws Hk. unfold proc.
  destruct (bind_kwargs lookup_env kws (p_ep_kwargs pl)) as [ekws|n] eqn:Ee.
  2:{ cbn [snd]. intros g k [H|[]]. discriminate. }
  assert (Hek : vals_ok ekws).
  { eapply bind_kwargs_vals; [|exact Ee]. intros n v H. apply Hk. apply lookup_env_in. exact H. }
  pose proof (call_values (ep_final sc) (p_ep pl) ekws ep_final_ok Hek Hle) as H1.
  pose proof (call_ctx_from_endpoint (p_ep pl) ekws) as Hc.
  destruct (call_chain sc (ep_final sc) (p_ep pl) ekws) as [o1 t1]. cbn [fst snd] in *.
  destruct o1 as [[|] tag|x]; cbn [snd]; try exact H1.
  assert (Hk' : vals_ok (("context", VS tag) :: kws)).
  { intros n v [Hd|Hin]; [inversion Hd; subst; symmetry; apply src_context; apply Hc; reflexivity|apply Hk; exact Hin]. }
  destruct (bind_kwargs lookup_env (("context", VS tag) :: kws) (p_rn_kwargs pl)) as [rkws|n] eqn:Er.
  2:{ cbn [snd]. apply events_ok_app; [exact H1|]. intros g k [H|[]]. discriminate. }
  assert (Hrk : vals_ok rkws).
  { eapply bind_kwargs_vals; [|exact Er]. intros n v H. apply Hk'. apply lookup_env_in. exact H. }
  pose proof (call_values (rn_final sc) (p_rn pl) rkws rn_final_ok Hrk Hlr) as H2.
  destruct (call_chain sc (rn_final sc) (p_rn pl) rkws) as [o2 t2]. cbn [snd] in *.
  apply events_ok_app; assumption.
Qed.

(* the whole request *)
Theorem run_values pl inj :
  vals_ok inj -> levels_ok (p_req pl) -> levels_ok (p_ep pl) -> levels_ok (p_rn pl) ->
  events_ok (snd (run sc pl inj)).
Proof.
  intros Hi Hq He Hr. unfold run. destruct (p_req pl) as [|lv rest] eqn:Eq; [apply events_ok_nil|].
  rewrite <- Eq. apply call_values; [apply proc_ok; assumption| |rewrite Eq; exact Hq].
  intros n v Hin. apply filter_In in Hin. destruct Hin as [Hin _]. apply Hi. exact Hin.
Qed.
End Values.

(* ================= the sources of a bound route ================= *)
From ClasticV Require Import Proofs.RouteProofs.

Definition prov_entries (fs : list (fid * fsig * list name)) : env :=
  flat_map (fun x => match fid_of x with
                     | FMw ph i => map (fun n => (n, provided_value ph i n)) (snd x)
                     | _ => []
                     end) fs.

Definition ctx_value (sc : scripts) : value := match s_ep sc with ECtx t => VS t | _ => VS "" end.

(* name -> the value of its one source, for route [c] under scripts [sc]: next, the render context, URL bindings,
   built-ins, resources, and what each middleware function hands to next() *)
Definition src_table (c : route_cfg) (sc : scripts) : env :=
  [(INNER_NAME, VNext); ("context", ctx_value sc)] ++ base_env c ++
  prov_entries (phase_funcs PhReq (r_mws c)) ++ prov_entries (phase_funcs PhEp (r_mws c)) ++
  prov_entries (phase_funcs PhRn (r_mws c)).

Definition src_of (c : route_cfg) (sc : scripts) (n : name) : value :=
  match lookup_env n (src_table c sc) with Some v => v | None => VS "" end.

Lemma lookup_env_nodup n v (t : env) : NoDup (map fst t) -> In (n, v) t -> lookup_env n t = Some v.
Proof.
  induction t as [|[k w] r IH]; cbn [map fst lookup_env In]; [tauto|].
  intros Hn [Hd|Hin].
  - inversion Hd; subst. rewrite String.eqb_refl. reflexivity.
  - inversion Hn as [|? ? Hk Hr]; subst. destruct (String.eqb n k) eqn:E.
    + apply String.eqb_eq in E. subst. exfalso. apply Hk. apply (in_map fst) in Hin. exact Hin.
    + apply IH; assumption.
Qed.

Lemma prov_entries_keys ph ms : map fst (prov_entries (phase_funcs ph ms)) = provs (phase_funcs ph ms).
Proof.
  unfold prov_entries, provs. induction (phase_funcs ph ms) as [|x r IH] eqn:E in |- *; [reflexivity|].
  cbn [flat_map]. rewrite map_app, IH. f_equal.
Abort.

Lemma phase_funcs_fid ph ms x : In x (phase_funcs ph ms) -> exists i, fid_of x = FMw ph i.
Proof.
  unfold phase_funcs. rewrite in_flat_map. intros (m & _ & H).
  destruct ph; [destruct (m_request m)|destruct (m_endpoint m)|destruct (m_render m)];
    cbn in H; try contradiction; destruct H as [<-|[]]; eexists; reflexivity.
Qed.

Lemma prov_entries_keys fs : (forall x, In x fs -> exists ph i, fid_of x = FMw ph i) ->
  map fst (prov_entries fs) = provs fs.
Proof.
  unfold prov_entries, provs. induction fs as [|x r IH]; intros H; [reflexivity|].
  cbn [flat_map]. rewrite map_app, IH by (intros y Hy; apply H; right; exact Hy). f_equal.
  destruct (H x (or_introl eq_refl)) as (ph & i & ->). rewrite map_map. cbn [fst]. apply map_id.
Qed.

Lemma prov_keys ph ms : map fst (prov_entries (phase_funcs ph ms)) = provs (phase_funcs ph ms).
Proof.
  apply prov_entries_keys. intros x Hx. destruct (phase_funcs_fid ph ms x Hx) as [i Hi]. exists ph, i. exact Hi.
Qed.

(* counting: the names handed on by the functions of the three phases occur among the middlewares' offers *)
Definition cnt (l : list name) (x : name) : nat := count_occ string_dec l x.

Lemma cnt_app a b x : cnt (a ++ b) x = cnt a x + cnt b x.
Proof. unfold cnt. apply count_occ_app. Qed.

Lemma provs_cons_phase ph m ms :
  provs (phase_funcs ph (m :: ms)) =
  (match ph with
   | PhReq => match m_request m with Some _ => m_provides m | None => [] end
   | PhEp => match m_endpoint m with Some _ => m_ep_provides m | None => [] end
   | PhRn => match m_render m with Some _ => m_rn_provides m | None => [] end
   end) ++ provs (phase_funcs ph ms).
Proof.
  unfold provs, phase_funcs. cbn [flat_map]. rewrite flat_map_app. f_equal.
  destruct ph; [destruct (m_request m)|destruct (m_endpoint m)|destruct (m_render m)]; cbn; rewrite ?app_nil_r; reflexivity.
Qed.

Lemma provs_count ms x :
  cnt (provs (phase_funcs PhReq ms) ++ provs (phase_funcs PhEp ms) ++ provs (phase_funcs PhRn ms)) x
  <= cnt (flat_map mw_offers ms) x.
Proof.
  induction ms as [|m r IH]; [cbn; lia|].
  rewrite !provs_cons_phase. cbn [flat_map]. unfold mw_offers at 1.
  rewrite !cnt_app in *. 
  assert (H1 : cnt (match m_request m with Some _ => m_provides m | None => [] end) x <= cnt (m_provides m) x)
    by (destruct (m_request m); [lia|cbn; lia]).
  assert (H2 : cnt (match m_endpoint m with Some _ => m_ep_provides m | None => [] end) x <= cnt (m_ep_provides m) x)
    by (destruct (m_endpoint m); [lia|cbn; lia]).
  assert (H3 : cnt (match m_render m with Some _ => m_rn_provides m | None => [] end) x <= cnt (m_rn_provides m) x)
    by (destruct (m_render m); [lia|cbn; lia]).
  lia.
Qed.

Lemma base_env_keys c : map fst (base_env c) = r_url c ++ REQUEST_BUILTINS ++ r_resources c.
Proof. unfold base_env. rewrite !map_app, !map_map. cbn [fst]. rewrite !map_id. reflexivity. Qed.

Lemma src_table_nodup c sc : NoDup (all_offers (src_offers c) (r_mws c)) -> NoDup (map fst (src_table c sc)).
Proof.
  intros Hn. apply (NoDup_count_occ string_dec). intros x.
  pose proof (proj1 (NoDup_count_occ string_dec _) Hn x) as Hx.
  unfold src_table. rewrite !map_app, base_env_keys, !prov_keys. cbn [map fst].
  unfold all_offers, src_offers in Hx.
  change (count_occ string_dec ?l x) with (cnt l x) in *.
  pose proof (provs_count (r_mws c) x) as Hp.
  rewrite !cnt_app in *.
  match goal with |- ?a + _ <= 1 =>
    assert (Hr : a + cnt REQUEST_BUILTINS x = cnt RESERVED_ARGS x);
    [unfold cnt, INNER_NAME, REQUEST_BUILTINS, RESERVED_ARGS; cbn [count_occ fst];
     repeat (destruct (string_dec _ x)); lia|];
    set (A := a) in * end.
  clearbody A. lia.
Qed.

Lemma build_levels_In fs : forall ps sofar lv, In lv (build_levels fs ps sofar) ->
  exists x, In x fs /\ lv_func lv = fid_of x /\ lv_gives lv = snd x.
Proof.
  induction fs as [|[[id sg] gv] fr IH]; intros ps sofar lv H; [destruct H|].
  destruct ps as [|p pr]; [destruct H|]. cbn [build_levels] in H. destruct H as [<-|H].
  - exists (id, sg, gv). split; [left; reflexivity|split; reflexivity].
  - destruct (IH _ _ _ H) as (x & Hx & H1 & H2). exists x. split; [right; exact Hx|split; assumption].
Qed.

Lemma prov_entries_In fs x ph i n :
  In x fs -> fid_of x = FMw ph i -> In n (snd x) -> In (n, provided_value ph i n) (prov_entries fs).
Proof.
  intros Hx Hf Hn. unfold prov_entries. apply in_flat_map. exists x. split; [exact Hx|]. rewrite Hf.
  apply in_map_iff. exists n. split; [reflexivity|exact Hn].
Qed.

Section Built.
Variable c : route_cfg.
Variable sc : scripts.
Hypothesis Hnodup : NoDup (all_offers (src_offers c) (r_mws c)).

Lemma src_of_in n v : In (n, v) (src_table c sc) -> src_of c sc n = v.
Proof.
  intros H. unfold src_of. rewrite (lookup_env_nodup n v (src_table c sc)); [reflexivity|apply src_table_nodup; exact Hnodup|exact H].
Qed.

Lemma src_of_next : src_of c sc INNER_NAME = VNext.
Proof. apply src_of_in. left. reflexivity. Qed.

Lemma src_of_context tag : s_ep sc = ECtx tag -> src_of c sc "context" = VS tag.
Proof. intros H. apply src_of_in. right. left. unfold ctx_value. rewrite H. reflexivity. Qed.

Lemma base_env_vals : vals_ok (src_of c sc) (base_env c).
Proof.
  intros n v H. symmetry. apply src_of_in. unfold src_table. apply in_or_app. right. apply in_or_app. left. exact H.
Qed.

Lemma chain_levels_ok ph final pre :
  (forall ph' i, fst final <> FMw ph' i) ->
  levels_ok (src_of c sc) (c_levels (make_chain (phase_funcs ph (r_mws c)) final pre)).
Proof.
  intros Hfin lv ph' i n Hin Hf Hn. rewrite make_chain_levels in Hin.
  destruct (build_levels_In _ _ _ _ Hin) as (x & Hx & H1 & H2).
  apply in_app_or in Hx. destruct Hx as [Hx|[<-|[]]].
  2:{ exfalso. rewrite H1 in Hf. unfold fid_of in Hf. cbn [fst] in Hf. exact (Hfin _ _ Hf). }
  rewrite H1 in Hf. rewrite H2 in Hn.
  destruct (phase_funcs_fid ph (r_mws c) x Hx) as [j Hj]. rewrite Hj in Hf. inversion Hf; subst ph' j.
  apply src_of_in. unfold src_table. apply in_or_app. right. apply in_or_app. right.
  pose proof (prov_entries_In _ x ph i n Hx Hj Hn) as Hp.
  destruct ph; [apply in_or_app; left|apply in_or_app; right; apply in_or_app; left|apply in_or_app; right; apply in_or_app; right]; exact Hp.
Qed.
End Built.

(* C02, values: in every accepted route, for every script assignment, every function is entered with, for each keyword
   it is passed, exactly the value of that name's one source - URL value, built-in, resource object, the render context
   the endpoint returned, next, or what the providing middleware handed to next() for this request *)
Theorem value_is_source c pl sc :
  build_route c = Ok pl ->
  events_ok (src_of c sc) (snd (run sc pl (base_env c))).
Proof.
  intros Hb. pose proof (accept_disjoint c pl Hb) as Hn.
  unfold build_route in Hb.
  destruct (check_middlewares (r_mws c) (src_offers c)) as [[]|]; cbn [rbind] in Hb; [|discriminate].
  destruct (make_middleware_chain _ _ _ _) as [p|] eqn:E; cbn [rbind] in Hb; [|discriminate].
  destruct (has_cycle _); [discriminate|]. inversion Hb; subst p; clear Hb.
  revert E. unfold make_middleware_chain.
  destruct (mem "next" (arg_names (r_endpoint c))); [discriminate|].
  destruct (mem "next" (arg_names (r_render c))); [discriminate|].
  set (ep := make_chain (phase_funcs PhEp (r_mws c)) _ _).
  set (rn := make_chain (phase_funcs PhRn (r_mws c)) _ _).
  set (rq := make_chain (phase_funcs PhReq (r_mws c)) _ _).
  destruct (is_empty (c_unres ep)); cbn [negb]; [|discriminate].
  destruct (is_empty (c_unres rn)); cbn [negb]; [|discriminate].
  destruct (is_empty (c_unres rq)); cbn [negb]; [|discriminate].
  intros Hpl. inversion Hpl; subst pl; clear Hpl.
  apply run_values; cbn [p_req p_ep p_rn].
  - apply src_of_next. exact Hn.
  - intros tag. apply src_of_context. exact Hn.
  - apply base_env_vals. exact Hn.
  - apply chain_levels_ok; [exact Hn|]. cbn [fst]. intros ? ? H. discriminate.
  - apply chain_levels_ok; [exact Hn|]. cbn [fst]. intros ? ? H. discriminate.
  - apply chain_levels_ok; [exact Hn|]. cbn [fst]. intros ? ? H. discriminate.
Qed.

(* what [src_of] is, source by source *)
Theorem src_of_spec c pl sc :
  build_route c = Ok pl ->
  src_of c sc "next" = VNext /\
  (forall tag, s_ep sc = ECtx tag -> src_of c sc "context" = VS tag) /\
  (forall n, In n (r_url c) -> src_of c sc n = VS ("U:" ++ n)) /\
  (forall n, In n REQUEST_BUILTINS -> src_of c sc n = VS ("B:" ++ n)) /\
  (forall n, In n (r_resources c) -> src_of c sc n = VS ("R:" ++ n)) /\
  (forall ph x i n, In x (phase_funcs ph (r_mws c)) -> fid_of x = FMw ph i -> In n (snd x) ->
                    src_of c sc n = provided_value ph i n).
Proof.
  intros Hb. pose proof (accept_disjoint c pl Hb) as Hn.
  split; [apply (src_of_next c sc Hn)|]. split; [intros tag; apply src_of_context; exact Hn|].
  assert (Hbase : forall n v, In (n, v) (base_env c) -> src_of c sc n = v).
  { intros n v H. apply src_of_in; [exact Hn|]. unfold src_table. apply in_or_app. right. apply in_or_app. left. exact H. }
  split; [|split; [|split]].
  - intros n H. apply Hbase. unfold base_env. apply in_or_app. left. apply in_map_iff. exists n. split; [reflexivity|exact H].
  - intros n H. apply Hbase. unfold base_env. apply in_or_app. right. apply in_or_app. left.
    apply in_map_iff. exists n. split; [reflexivity|exact H].
  - intros n H. apply Hbase. unfold base_env. apply in_or_app. right. apply in_or_app. right.
    apply in_map_iff. exists n. split; [reflexivity|exact H].
  - intros ph x i n Hx Hf Hi. apply src_of_in; [exact Hn|]. unfold src_table. apply in_or_app. right. apply in_or_app. right.
    pose proof (prov_entries_In _ x ph i n Hx Hf Hi) as Hp.
    destruct ph; [apply in_or_app; left|apply in_or_app; right; apply in_or_app; left|apply in_or_app; right; apply in_or_app; right]; exact Hp.
Qed.
