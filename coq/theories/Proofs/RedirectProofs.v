From Coq Require Import List String Ascii Bool Arith Lia.
Import ListNotations.
From ClasticV Require Import Base.Py Base.Strs Gen.NormPathGen Model.Pattern Model.Match Model.Redirect
     Model.Dispatch Proofs.MatchProofs Proofs.DispatchProofs.
Local Open Scope string_scope.
Local Open Scope nat_scope.

(* ---------------- percent-encoding ---------------- *)
Definition enc (c : ascii) : string :=
  let n := nat_of_ascii c in String "%" (String (hex_digit (n / 16)) (String (hex_digit (n mod 16)) "")).

(* all 256 bytes: decoding the escape of a byte gives the byte back *)
Lemma enc_roundtrip c : forall r, unquote (enc c ++ r) = String c (unquote r).
Proof.
  intros r. destruct c as [b0 b1 b2 b3 b4 b5 b6 b7].
  destruct b0, b1, b2, b3, b4, b5, b6, b7; reflexivity.
Qed.

Lemma safe_not_percent c : always_safe c || path_safe c = true -> Ascii.eqb c "%" = false.
Proof.
  destruct c as [b0 b1 b2 b3 b4 b5 b6 b7].
  destruct b0, b1, b2, b3, b4, b5, b6, b7; vm_compute; intros H; try reflexivity; discriminate.
Qed.

Theorem quote_path_roundtrip s : unquote (quote_path s) = s.
Proof.
  induction s as [|c r IH]; [reflexivity|].
  unfold quote_path in *. cbn [quote_with].
  destruct (always_safe c || path_safe c) eqn:E.
  - cbn [unquote]. rewrite (safe_not_percent c E). rewrite IH. reflexivity.
  - change (String "%" (String (hex_digit (nat_of_ascii c / 16)) (String (hex_digit (nat_of_ascii c mod 16)) (quote_with path_safe r))))
      with (enc c ++ quote_with path_safe r).
    rewrite enc_roundtrip, IH. reflexivity.
Qed.

(* the encoded path consists of unreserved characters, '/', and '%': in
   particular no '?' and no '#', so it is the path component of the Location *)
Definition path_out_ok (c : ascii) : bool := always_safe c || Ascii.eqb c "/" || Ascii.eqb c "%".

Lemma enc_ok c : all_chr path_out_ok (enc c) = true.
Proof.
  destruct c as [b0 b1 b2 b3 b4 b5 b6 b7].
  destruct b0, b1, b2, b3, b4, b5, b6, b7; reflexivity.
Qed.

Lemma all_chr_app f a b : all_chr f (a ++ b) = all_chr f a && all_chr f b.
Proof. induction a as [|c r IH]; simpl; [reflexivity|]. rewrite IH. apply andb_assoc. Qed.

Theorem quote_path_clean s : all_chr path_out_ok (quote_path s) = true.
Proof.
  induction s as [|c r IH]; [reflexivity|]. unfold quote_path in *. cbn [quote_with].
  destruct (always_safe c || path_safe c) eqn:E.
  - cbn [all_chr]. rewrite IH. unfold path_out_ok. unfold path_safe in E.
    destruct (always_safe c); simpl in *; [reflexivity|]. rewrite E. reflexivity.
  - change (String "%" (String (hex_digit (nat_of_ascii c / 16)) (String (hex_digit (nat_of_ascii c mod 16)) (quote_with path_safe r))))
      with (enc c ++ quote_with path_safe r).
    rewrite all_chr_app, enc_ok, IH. reflexivity.
Qed.

Lemma all_chr_not_contains f c s : all_chr f s = true -> f c = false -> str_contains_chr c s = false.
Proof.
  induction s as [|a r IH]; intros H Hc; [reflexivity|]. simpl in *. apply andb_prop in H. destruct H as [H1 H2].
  rewrite (IH H2 Hc). unfold chr_eqb. destruct (Ascii.eqb a c) eqn:E; [|reflexivity].
  apply Ascii.eqb_eq in E. subst. congruence.
Qed.

Theorem quote_path_no_delims s :
  str_contains_chr "?" (quote_path s) = false /\ str_contains_chr "#" (quote_path s) = false.
Proof. split; apply (all_chr_not_contains path_out_ok); try apply quote_path_clean; reflexivity. Qed.

Lemma split_at_app c a b : str_contains_chr c a = false -> split_at c (a ++ String c b) = (a, Some b).
Proof.
  induction a as [|x r IH]; simpl; intros H.
  - rewrite Ascii.eqb_refl. reflexivity.
  - apply orb_false_iff in H. destruct H as [H1 H2]. unfold chr_eqb in H1. rewrite H1. rewrite IH by exact H2. reflexivity.
Qed.

(* requesting the Location yields exactly the normalised path, and the query component is the encoded query *)
Theorem location_splits root path query :
  str_contains_chr "?" root = false ->
  split_at "?" (location root path query) = (root ++ quote_path (normalize_path path true), Some (quote_query query)) /\
  unquote (quote_path (normalize_path path true)) = normalize_path path true.
Proof.
  intros Hr. split; [|apply quote_path_roundtrip]. unfold location.
  replace (root ++ quote_path (normalize_path path true) ++ "?" ++ quote_query query)
    with ((root ++ quote_path (normalize_path path true)) ++ String "?" (quote_query query)).
  - apply split_at_app.
    assert (forall a b, str_contains_chr "?" (a ++ b) = str_contains_chr "?" a || str_contains_chr "?" b) as Happ.
    { induction a as [|x r IH]; intros b0; simpl; [reflexivity|]. rewrite IH. apply orb_assoc. }
    rewrite Happ, Hr. apply quote_path_no_delims.
  - rewrite append_assoc. reflexivity.
Qed.

(* a query made of URL-legal characters is passed through unchanged *)
Theorem quote_query_identity q :
  all_chr (fun c => always_safe c || query_safe c) q = true -> quote_query q = q.
Proof.
  induction q as [|c r IH]; intros H; [reflexivity|]. simpl in H. apply andb_prop in H. destruct H as [H1 H2].
  unfold quote_query in *. cbn [quote_with]. rewrite H1, IH by exact H2. reflexivity.
Qed.

(* ---------------- normalize_path (translated from route.py) ---------------- *)
Lemma normalize_shape path b :
  let segs := filter nonempty (split_on "/" path) in
  normalize_path path b =
  match segs with [] => "/" | _ => join "/" ("" :: (if b then segs ++ [""] else segs))%list end.
Proof.
  unfold normalize_path. destruct (filter nonempty (split_on "/" path)) as [|s0 sr]; [reflexivity|].
  cbn [is_nil]. destruct b; reflexivity.
Qed.

Lemma filter_nonempty_idem l : forallb nonempty l = true -> filter nonempty l = l.
Proof.
  induction l as [|x r IH]; intros H; [reflexivity|]. simpl in H. apply andb_prop in H. destruct H as [H1 H2].
  simpl. rewrite H1, IH by exact H2. reflexivity.
Qed.

Lemma filter_nonempty_app l1 l2 : filter nonempty (l1 ++ l2)%list = (filter nonempty l1 ++ filter nonempty l2)%list.
Proof. apply filter_app. Qed.

Theorem normalize_segments path b :
  filter nonempty (split_on "/" (normalize_path path b)) = filter nonempty (split_on "/" path).
Proof.
  rewrite normalize_shape. cbv zeta.
  destruct (filter nonempty (split_on "/" path)) as [|s0 sr] eqn:E; [reflexivity|].
  assert (Hns : forall p, In p (s0 :: sr) -> str_contains_chr "/" p = false).
  { intros p Hp. apply (segs_no_slash path). rewrite E. exact Hp. }
  assert (Hall : forallb nonempty (s0 :: sr) = true) by (rewrite <- E; apply filter_nonempty_all).
  assert (Hce : forall l, filter nonempty ("" :: l) = filter nonempty l) by reflexivity.
  rewrite split_join.
  - rewrite Hce. destruct b.
    + rewrite filter_nonempty_app. rewrite (filter_nonempty_idem _ Hall). simpl. rewrite app_nil_r. reflexivity.
    + apply filter_nonempty_idem. exact Hall.
  - discriminate.
  - intros p [<-|Hp]; [reflexivity|]. destruct b; [apply in_app_or in Hp; destruct Hp as [Hp|[<-|[]]]; [apply Hns; exact Hp|reflexivity]|apply Hns; exact Hp].
Qed.

Theorem normalize_idempotent path b : normalize_path (normalize_path path b) b = normalize_path path b.
Proof.
  rewrite (normalize_shape (normalize_path path b) b). cbv zeta. rewrite normalize_segments.
  rewrite <- normalize_shape. reflexivity.
Qed.

(* the canonical form is a fixed point: following the redirect never redirects again *)
Theorem normalized_is_canonical path : canonical (normalize_path path true) = true.
Proof. unfold canonical. rewrite normalize_idempotent. apply String.eqb_refl. Qed.

(* ---------------- when a redirect is issued (dispatch model) ---------------- *)
Lemma stop_redirect h meth canon r l i j :
  verdict_of h meth canon r = VStop l -> l i = LRedirect j ->
  i = j /\ d_match r = true /\ admits (d_methods r) meth = true /\ d_branch r = true /\ canon = false /\ d_mode r = SRedirect.
Proof.
  unfold verdict_of.
  destruct (d_match r); simpl; [|discriminate].
  destruct (admits (d_methods r) meth); simpl; [|discriminate].
  assert (Hexec : match d_out r with
          | XResp t => VStop (fun i => LResp i t) | XReroute => VStop (fun i => LReroute i)
          | XHttp c true => VStop (fun i => LHttp i c []) | XHttp c false => VSoft c
          | XNonResp => VStop (fun i => uncaught h i "TypeError") | XRaise e0 => VStop (fun i => uncaught h i e0) end = VStop l ->
          l i = LRedirect j -> False).
  { destruct (d_out r) as [t|c b| |e0|]; intros Hv Hl; try (inversion Hv; subst; try discriminate).
    - destruct b; inversion Hv; subst. discriminate.
    - unfold uncaught in Hl. destruct h; discriminate.
    - unfold uncaught in Hl. destruct h; discriminate. }
  destruct (d_branch r) eqn:Eb; simpl.
  - destruct canon; simpl.
    + intros Hv Hl. exfalso. eapply Hexec; eauto.
    + destruct (d_mode r) eqn:Em.
      * discriminate.
      * intros Hv Hl. inversion Hv; subst. inversion Hl; subst. repeat split; reflexivity.
      * intros Hv Hl. exfalso. eapply Hexec; eauto.
  - intros Hv Hl. exfalso. eapply Hexec; eauto.
Qed.

Theorem redirect_only_if h meth canon rs : forall i st j,
  loop h meth canon rs i st = LRedirect j ->
  exists r, nth_error rs (j - i) = Some r /\ i <= j /\
    d_match r = true /\ admits (d_methods r) meth = true /\ d_branch r = true /\ canon = false /\ d_mode r = SRedirect.
Proof.
  induction rs as [|r rest IH]; intros i st j H.
  - simpl in H. unfold null_out in H. destruct (rev (ds_excs st)) as [|[? ?] ?]; [destruct (ds_allowed st)|]; discriminate.
  - rewrite loop_step in H.
    assert (Hrest : forall st', loop h meth canon rest (S i) st' = LRedirect j ->
                    exists r0, nth_error (r :: rest) (j - i) = Some r0 /\ i <= j /\
                    d_match r0 = true /\ admits (d_methods r0) meth = true /\ d_branch r0 = true /\ canon = false /\ d_mode r0 = SRedirect).
    { intros st' H'. apply IH in H'. destruct H' as [r0 [Hn [Hle Hrest]]]. exists r0. split; [|split; [lia|exact Hrest]].
      replace (j - i) with (S (j - S i)) by lia. exact Hn. }
    destruct (verdict_of h meth canon r) as [| |c|l] eqn:Ev; try (eapply Hrest; eassumption).
    destruct (stop_redirect _ _ _ _ _ _ _ Ev H) as [-> Hprops]. exists r. rewrite Nat.sub_diag. split; [reflexivity|]. split; [lia|exact Hprops].
Qed.
