(* C03: every trace free of framework calling errors IS the documented onion - each layer's outcome is its
   script applied to exactly what its next() produced, layers complete in reverse order, a layer that does
   not call next cuts off everything inside it, and the render chain runs iff the endpoint side returned a
   non-Response. *)
From Coq Require Import List String Bool Arith ZArith Lia.
Import ListNotations.
From ClasticV Require Import Base.Py Base.FSet Base.Sx Gen.Tables Model.Chain Model.Exec Proofs.ChainProofs Proofs.ExecProofs Proofs.RouteProofs.
Local Open Scope string_scope.
Local Open Scope list_scope.

Section Onion.
Variable sc : scripts.
(* what the innermost function of a chain does: its outcome and its own trace *)
Variable Fin : fid -> outcome -> list event -> Prop.

Inductive onion : list fid -> outcome -> list event -> Prop :=
| on_final f o tr : Fin f o tr -> onion [f] o tr
| on_raise ph i g rest kws x :
    s_mw sc ph i = MRaiseBefore x ->
    onion (FMw ph i :: g :: rest) (OExc x) [Enter (FMw ph i) kws; Leave (FMw ph i) (OExc x)]
| on_early ph i g rest kws r :
    s_mw sc ph i = MReturnEarly r ->
    onion (FMw ph i :: g :: rest) (OVal true r) [Enter (FMw ph i) kws; Leave (FMw ph i) (OVal true r)]
| on_layer ph i g rest kws p o tr :
    s_mw sc ph i = MCallNext p ->
    onion (g :: rest) o tr ->
    onion (FMw ph i :: g :: rest) (apply_post p o)
          (Enter (FMw ph i) kws :: tr ++ [Leave (FMw ph i) (apply_post p o)]).
End Onion.

Lemma clean_tail ev tr : clean (ev :: tr) -> clean tr.
Proof. intros H e He. apply H. right. exact He. Qed.
Lemma clean_head ev tr : clean (ev :: tr) -> ~ fw_event ev.
Proof. intros H. apply H. left. reflexivity. Qed.
Lemma clean_app_l a b : clean (a ++ b) -> clean a.
Proof. intros H e He. apply H. apply in_or_app. left. exact He. Qed.
Lemma clean_app_r a b : clean (a ++ b) -> clean b.
Proof. intros H e He. apply H. apply in_or_app. right. exact He. Qed.

Lemma onion_mono sc (F G : fid -> outcome -> list event -> Prop) :
  (forall f o tr, F f o tr -> G f o tr) -> forall fs o tr, onion sc F fs o tr -> onion sc G fs o tr.
Proof.
  intros HFG fs o tr H. induction H.
  - apply on_final. apply HFG. assumption.
  - apply on_raise; assumption.
  - apply on_early; assumption.
  - apply on_layer; assumption.
Qed.

Lemma exec_onion sc final (Fin : fid -> outcome -> list event -> Prop) :
  (forall f kws, clean (snd (final f kws)) -> Fin f (fst (final f kws)) (snd (final f kws))) ->
  forall lvls e, lvls <> [] ->
  (forall lv, In lv (removelast lvls) -> is_mw_fid (lv_func lv)) ->
  clean (snd (exec_chain sc final lvls e)) ->
  onion sc Fin (map lv_func lvls) (fst (exec_chain sc final lvls e)) (snd (exec_chain sc final lvls e)).
Proof.
  intros Hfin. induction lvls as [|lv rest IH]; intros e Hne Hmw Hclean; [contradiction Hne; reflexivity|].
  cbn [exec_chain] in *.
  destruct (bind_kwargs lookup_scope e (lv_kwargs lv)) as [kws|n].
  2:{ exfalso. cbn [snd] in Hclean. apply (clean_head _ _ Hclean). exact I. }
  destruct (sig_accepts (lv_sig lv) (lv_kwargs lv)); cbn [negb] in *.
  2:{ exfalso. cbn [snd] in Hclean. apply (clean_head _ _ Hclean). exact I. }
  destruct rest as [|nxt rest'].
  - cbn [map]. apply on_final. apply Hfin. exact Hclean.
  - assert (Hf : is_mw_fid (lv_func lv)) by (apply Hmw; cbn; left; reflexivity).
    destruct (lv_func lv) as [ph i| | |] eqn:Ef; try contradiction.
    cbn [map]. rewrite Ef.
    destruct (s_mw sc ph i) as [p|x|r] eqn:Es.
    + destruct (same_names (lv_gives lv) (lv_params nxt)).
      2:{ exfalso. cbn [snd] in Hclean. apply clean_tail in Hclean. cbn [app] in Hclean. apply (clean_head _ _ Hclean). exact I. }
      set (e' := map (fun n => (n, provided_value ph i n)) (lv_gives lv) ++ e) in *.
      specialize (IH e').
      destruct (exec_chain sc final (nxt :: rest') e') as [o tr] eqn:Ex.
      cbn [fst snd] in *. apply on_layer; [exact Es|].
      apply IH.
      * discriminate.
      * intros l Hl. apply Hmw. cbn [removelast]. right. exact Hl.
      * apply clean_tail in Hclean. apply clean_app_l in Hclean. exact Hclean.
    + cbn [fst snd]. apply on_raise. exact Es.
    + cbn [fst snd]. apply on_early. exact Es.
Qed.

Lemma call_onion sc final (Fin : fid -> outcome -> list event -> Prop) lvls kws :
  (forall f k, clean (snd (final f k)) -> Fin f (fst (final f k)) (snd (final f k))) ->
  lvls <> [] ->
  (forall lv, In lv (removelast lvls) -> is_mw_fid (lv_func lv)) ->
  clean (snd (call_chain sc final lvls kws)) ->
  onion sc Fin (map lv_func lvls) (fst (call_chain sc final lvls kws)) (snd (call_chain sc final lvls kws)).
Proof.
  intros Hfin Hne Hmw Hclean. unfold call_chain in *. destruct lvls as [|lv rest]; [contradiction Hne; reflexivity|].
  destruct (same_names (lv_params lv) (map fst kws)).
  - apply exec_onion; assumption.
  - exfalso. cbn [snd] in Hclean. apply (clean_head _ _ Hclean). exact I.
Qed.

(* ---------- the functions of a built chain ---------- *)
Definition fid_of (x : fid * fsig * list name) : fid := fst (fst x).

Lemma build_levels_funcs fs : forall ps sofar, List.length fs <= List.length ps ->
  map lv_func (build_levels fs ps sofar) = map fid_of fs.
Proof.
  induction fs as [|[[id sg] gv] fr IH]; intros ps sofar Hl; [reflexivity|].
  destruct ps as [|p pr]; [cbn in Hl; lia|]. cbn [build_levels map lv_func fid_of fst]. f_equal.
  apply IH. cbn in Hl. lia.
Qed.

Lemma chain_funcs funcs final pre :
  map lv_func (c_levels (make_chain funcs final pre)) = map fid_of funcs ++ [fst final].
Proof.
  rewrite make_chain_levels, build_levels_funcs.
  - rewrite map_app. reflexivity.
  - cbn [List.length]. rewrite app_length, map_length. cbn. lia.
Qed.

Lemma removelast_map {A B} (f : A -> B) l : removelast (map f l) = map f (removelast l).
Proof. induction l as [|a [|b r] IH]; cbn in *; [reflexivity|reflexivity|]. f_equal. exact IH. Qed.

Lemma chain_levels_mw funcs final pre :
  (forall x, In x funcs -> is_mw_fid (fid_of x)) ->
  forall lv, In lv (removelast (c_levels (make_chain funcs final pre))) -> is_mw_fid (lv_func lv).
Proof.
  intros Hmw lv Hin. apply (in_map lv_func) in Hin. rewrite <- removelast_map, chain_funcs in Hin.
  rewrite removelast_last in Hin. apply in_map_iff in Hin. destruct Hin as (x & Hx & Hi). rewrite <- Hx.
  apply Hmw. exact Hi.
Qed.

Lemma chain_levels_nonempty funcs final pre : c_levels (make_chain funcs final pre) <> [].
Proof.
  intros H. pose proof (chain_funcs funcs final pre) as Hc. rewrite H in Hc. cbn in Hc.
  destruct (map fid_of funcs); discriminate.
Qed.

(* ---------- the three phases ---------- *)
Definition ep_outcome (sc : scripts) : outcome :=
  match s_ep sc with ECtx t => OVal false t | EResp t => OVal true t | ERaise x => OExc x end.
Definition rn_outcome (sc : scripts) : outcome :=
  match s_rn sc with RResp t => OVal true t | RNon t => OVal false t | RRaise x => OExc x end.

Definition ep_shape (sc : scripts) : fid -> outcome -> list event -> Prop :=
  fun f o tr => o = ep_outcome sc /\ exists kws, tr = [Enter f kws; Leave f o].
Definition rn_shape (sc : scripts) : fid -> outcome -> list event -> Prop :=
  fun f o tr => o = rn_outcome sc /\ exists kws, tr = [Enter f kws; Leave f o].

(* process_request: the endpoint onion, then - iff it produced a non-Response value - the render onion *)
Definition proc_shape (sc : scripts) (ms : list mw) : fid -> outcome -> list event -> Prop :=
  fun _ o tr =>
  exists o1 t1,
    onion sc (ep_shape sc) (map fid_of (phase_funcs PhEp ms) ++ [FEndpoint]) o1 t1 /\
    match o1 with
    | OVal false _ =>
        exists t2, onion sc (rn_shape sc) (map fid_of (phase_funcs PhRn ms) ++ [FRender]) o t2 /\ tr = t1 ++ t2
    | _ => o = o1 /\ tr = t1
    end.

Lemma ep_final_shape sc f kws : ep_shape sc f (fst (ep_final sc f kws)) (snd (ep_final sc f kws)).
Proof. unfold ep_shape, ep_final, ep_outcome. cbn [fst snd]. split; [reflexivity|]. exists kws. reflexivity. Qed.
Lemma rn_final_shape sc f kws : rn_shape sc f (fst (rn_final sc f kws)) (snd (rn_final sc f kws)).
Proof. unfold rn_shape, rn_final, rn_outcome. cbn [fst snd]. split; [reflexivity|]. exists kws. reflexivity. Qed.

Theorem run_onion sc ms endpoint render pre pl inj :
  make_middleware_chain ms endpoint render pre = Ok pl ->
  clean (snd (run sc pl inj)) ->
  onion sc (proc_shape sc ms) (map fid_of (phase_funcs PhReq ms) ++ [FProc])
        (fst (run sc pl inj)) (snd (run sc pl inj)).
Proof.
  unfold make_middleware_chain.
  destruct (mem "next" (arg_names endpoint)); [discriminate|].
  destruct (mem "next" (arg_names render)); [discriminate|].
  set (req_fs := phase_funcs PhReq ms).
  set (ep_avail := union _ _).
  set (ep := make_chain (phase_funcs PhEp ms) (FEndpoint, endpoint) ep_avail).
  set (rn := make_chain (phase_funcs PhRn ms) (FRender, render) (union ep_avail ["context"])).
  set (req_args := dedup (diff (union (c_args ep) (c_args rn)) ["context"])).
  set (rq := make_chain req_fs (FProc, mk_fsig req_args 0 [] []) _).
  destruct (is_empty (c_unres ep)); cbn [negb]; [|discriminate].
  destruct (is_empty (c_unres rn)); cbn [negb]; [|discriminate].
  destruct (is_empty (c_unres rq)); cbn [negb]; [|discriminate].
  intros Hpl. inversion Hpl; subst pl; clear Hpl.
  unfold run. cbn [p_req].
  destruct (c_levels rq) as [|lv0 rest0] eqn:Erq; [exfalso; eapply chain_levels_nonempty; exact Erq|].
  rewrite <- Erq. intros Hclean.
  pose proof (chain_funcs req_fs (FProc, mk_fsig req_args 0 [] []) (diff pre ["next"; "context"])) as Hfs.
  fold rq in Hfs. cbn [fst] in Hfs. rewrite <- Hfs.
  apply call_onion; [| rewrite Erq; discriminate | apply chain_levels_mw; intros x Hx; apply (phase_funcs_mw PhReq ms); exact Hx | exact Hclean].
  (* process_request *)
  clear Hclean. intros f k. unfold proc. cbn [p_ep_kwargs p_rn_kwargs p_ep p_rn].
  destruct (bind_kwargs lookup_env k (c_args ep)) as [ekws|n].
  2:{ intros Hc. exfalso. cbn [snd] in Hc. apply (clean_head _ _ Hc). exact I. }
  pose proof (call_onion sc (ep_final sc) (ep_shape sc) (c_levels ep) ekws
                (fun f0 k0 _ => ep_final_shape sc f0 k0) (chain_levels_nonempty _ _ _)
                (chain_levels_mw _ _ _ (fun x Hx => phase_funcs_mw PhEp ms x Hx))) as Hep.
  assert (Hfe : map lv_func (c_levels ep) = map fid_of (phase_funcs PhEp ms) ++ [FEndpoint]) by (unfold ep; rewrite chain_funcs; reflexivity).
  rewrite Hfe in Hep.
  destruct (call_chain sc (ep_final sc) (c_levels ep) ekws) as [o1 t1].
  cbn [fst snd] in Hep.
  destruct o1 as [[|] tag|x].
  - intros Hc. cbn [fst snd] in *. exists (OVal true tag), t1. split; [apply Hep; exact Hc|split; reflexivity].
  - destruct (bind_kwargs lookup_env (("context", VS tag) :: k) (c_args rn)) as [rkws|n].
    2:{ intros Hc. exfalso. cbn [snd] in Hc. apply clean_app_r in Hc. apply (clean_head _ _ Hc). exact I. }
    pose proof (call_onion sc (rn_final sc) (rn_shape sc) (c_levels rn) rkws
                  (fun f0 k0 _ => rn_final_shape sc f0 k0) (chain_levels_nonempty _ _ _)
                  (chain_levels_mw _ _ _ (fun x Hx => phase_funcs_mw PhRn ms x Hx))) as Hrn.
    assert (Hfr : map lv_func (c_levels rn) = map fid_of (phase_funcs PhRn ms) ++ [FRender]) by (unfold rn; rewrite chain_funcs; reflexivity).
    rewrite Hfr in Hrn.
    destruct (call_chain sc (rn_final sc) (c_levels rn) rkws) as [o2 t2].
    cbn [fst snd] in *. intros Hc. exists (OVal false tag), t1. split; [apply Hep; apply clean_app_l in Hc; exact Hc|].
    exists t2. split; [apply Hrn; apply clean_app_r in Hc; exact Hc|reflexivity].
  - intros Hc. cbn [fst snd] in *. exists (OExc x), t1. split; [apply Hep; exact Hc|split; reflexivity].
Qed.

(* with the hypotheses under which construction succeeds (run_clean), no cleanliness premise is left *)
Theorem trace_is_onion sc ms endpoint render pre pl inj :
  make_middleware_chain ms endpoint render pre = Ok pl ->
  no_posonly ms endpoint render ->
  ~ In "context" (provs (phase_funcs PhReq ms)) ->
  (forall x, In x (req_avail_of pre) -> In x (map fst inj)) ->
  onion sc (proc_shape sc ms) (map fid_of (phase_funcs PhReq ms) ++ [FProc])
        (fst (run sc pl inj)) (snd (run sc pl inj)).
Proof.
  intros Hb Hp Hc Hi. eapply run_onion; [exact Hb|]. eapply run_clean; eassumption.
Qed.

(* ---------- consequences read off the onion ---------- *)
(* transparent next(): when every layer passes through, the chain's outcome is exactly the innermost function's *)
Lemma transparent_chain sc (Fin : fid -> outcome -> list event -> Prop) fs o tr :
  onion sc Fin fs o tr ->
  (forall ph i, In (FMw ph i) (removelast fs) -> s_mw sc ph i = MCallNext PPass) ->
  exists f tr', Fin f o tr' /\ last fs f = f.
Proof.
  intros H. induction H as [f o tr Hf|ph i g rest kws x Hs|ph i g rest kws r Hs|ph i g rest kws p o tr Hs Hin IH]; intros Hall.
  - exists f, tr. split; [exact Hf|reflexivity].
  - rewrite (Hall ph i) in Hs; [discriminate|cbn; left; reflexivity].
  - rewrite (Hall ph i) in Hs; [discriminate|cbn; left; reflexivity].
  - rewrite (Hall ph i) in Hs; [|cbn; left; reflexivity]. inversion Hs; subst p. cbn [apply_post].
    destruct IH as (f & tr' & Hf & Hl).
    { intros ph' i' Hi. apply Hall. cbn [removelast]. right. exact Hi. }
    exists f, tr'. split; [exact Hf|]. cbn [last]. exact Hl.
Qed.

(* a layer that does not call next() cuts off everything inside it: nothing inside it is ever entered *)
Fixpoint entered (tr : list event) : list fid :=
  match tr with
  | [] => []
  | Enter f _ :: r => f :: entered r
  | _ :: r => entered r
  end.

Lemma entered_app a b : entered (a ++ b) = entered a ++ entered b.
Proof. induction a as [|[f k|f o|f|f n] r IH]; cbn; [reflexivity| |exact IH|exact IH|exact IH]. rewrite IH. reflexivity. Qed.

Lemma onion_entered_prefix sc (Fin : fid -> outcome -> list event -> Prop) fs o tr :
  (forall f o tr, Fin f o tr -> entered tr = [f]) ->
  onion sc Fin fs o tr -> exists k, entered tr = firstn k fs /\ 0 < k.
Proof.
  intros HF H. induction H as [f o tr Hf|ph i g rest kws x Hs|ph i g rest kws r Hs|ph i g rest kws p o tr Hs Hin IH].
  - exists 1. rewrite (HF _ _ _ Hf). split; [reflexivity|lia].
  - exists 1. split; [reflexivity|lia].
  - exists 1. split; [reflexivity|lia].
  - destruct IH as (k & Hk & Hpos). exists (S k). cbn [entered]. rewrite entered_app. cbn [entered]. rewrite app_nil_r, Hk.
    split; [reflexivity|lia].
Qed.

(* ---------- at the level of a bound route ---------- *)
Theorem route_trace_is_onion c pl sc inj :
  build_route c = Ok pl ->
  no_posonly (r_mws c) (r_endpoint c) (r_render c) ->
  (forall x, In x (base c) -> In x (map fst inj)) ->
  onion sc (proc_shape sc (r_mws c)) (map fid_of (phase_funcs PhReq (r_mws c)) ++ [FProc])
        (fst (run sc pl inj)) (snd (run sc pl inj)).
Proof.
  intros Hb Hpo Hinj. pose proof (route_run_clean c pl sc inj Hb Hpo Hinj) as Hclean.
  unfold build_route in Hb.
  destruct (check_middlewares (r_mws c) (src_offers c)) as [[]|]; cbn [rbind] in Hb; [|discriminate].
  destruct (make_middleware_chain _ _ _ _) as [p|] eqn:E; cbn [rbind] in Hb; [|discriminate].
  destruct (has_cycle _); [discriminate|]. inversion Hb; subst p; clear Hb.
  eapply run_onion; [exact E|exact Hclean].
Qed.

(* the render phase runs iff the endpoint side produced a non-Response value without raising:
   read off [proc_shape] - stated here for the events of a process_request trace *)
Theorem render_skipped_iff sc ms f o tr :
  proc_shape sc ms f o tr ->
  exists o1 t1, onion sc (ep_shape sc) (map fid_of (phase_funcs PhEp ms) ++ [FEndpoint]) o1 t1 /\
  ((exists tag, o1 = OVal false tag) <->
   (exists t2, onion sc (rn_shape sc) (map fid_of (phase_funcs PhRn ms) ++ [FRender]) o t2 /\ tr = t1 ++ t2 /\ t2 <> [])) /\
  ((forall tag, o1 <> OVal false tag) -> o = o1 /\ tr = t1).
Proof.
  intros (o1 & t1 & Hep & Hm). exists o1, t1. split; [exact Hep|]. split.
  - split.
    + intros [tag ->]. destruct Hm as (t2 & Hrn & Ht). exists t2. split; [exact Hrn|split; [exact Ht|]].
      intros ->. inversion Hrn as [f0 o0 tr0 Hf| | |]; subst.
      destruct Hf as [_ [k Hk]]. discriminate.
    + intros (t2 & Hrn & Ht & Hne). destruct o1 as [[|] tag|x].
      * destruct Hm as [_ Ht1]. exfalso. rewrite Ht1 in Ht. apply Hne.
        assert (List.length t1 = List.length (t1 ++ t2)) as Hl by (rewrite <- Ht; reflexivity).
        rewrite app_length in Hl. destruct t2; [reflexivity|cbn in Hl; lia].
      * exists tag. reflexivity.
      * destruct Hm as [_ Ht1]. exfalso. rewrite Ht1 in Ht. apply Hne.
        assert (List.length t1 = List.length (t1 ++ t2)) as Hl by (rewrite <- Ht; reflexivity).
        rewrite app_length in Hl. destruct t2; [reflexivity|cbn in Hl; lia].
  - intros Hno. destruct o1 as [[|] tag|x]; [exact Hm| |exact Hm]. exfalso. apply (Hno tag). reflexivity.
Qed.
