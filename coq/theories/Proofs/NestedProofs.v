(* C03/C10 at the level of the chain model: an application embedded in an outer one.  The merged middleware list of
   the re-bound route is ONE keep-first pass over  outer ++ inner ++ route ; and every theorem about accepted routes
   (no framework call error, exact keywords, values from sources, the onion) applies to the embedded route. *)
From Coq Require Import List String Bool Arith ZArith Lia.
Import ListNotations.
From ClasticV Require Import Base.Py Base.FSet Base.Sx Gen.Tables Model.Chain Model.Exec Proofs.ChainProofs Proofs.ExecProofs
     Proofs.RouteProofs Proofs.OnionProofs Proofs.ValueProofs.
Local Open Scope string_scope.
Local Open Scope list_scope.

Lemma merge_into_app a : forall acc b,
  merge_into acc (a ++ b) = match merge_into acc a with Ok acc' => merge_into acc' b | Raise c => Raise c end.
Proof.
  induction a as [|m r IH]; intros acc b; cbn [app merge_into]; [reflexivity|].
  destruct (m_unique m && existsb (fun x => Nat.eqb (m_id x) (m_id m)) acc).
  - destruct (m_reorderable m); [apply IH|reflexivity].
  - apply IH.
Qed.

Definition has_mtype (t : nat) (l : list mw) : bool := existsb (fun x => Nat.eqb (m_id x) t) l.

Lemma has_mtype_app t a b : has_mtype t (a ++ b) = has_mtype t a || has_mtype t b.
Proof. unfold has_mtype. apply existsb_app. Qed.

(* every type of the accumulator and of the merged list is present in the result *)
Lemma merge_into_types l : forall acc res t, merge_into acc l = Ok res ->
  has_mtype t res = has_mtype t acc || has_mtype t l.
Proof.
  induction l as [|m r IH]; intros acc res t H; cbn [merge_into] in H.
  - inversion H; subst. cbn. rewrite orb_false_r. reflexivity.
  - destruct (m_unique m && existsb (fun x => Nat.eqb (m_id x) (m_id m)) acc) eqn:E.
    + destruct (m_reorderable m); [|discriminate]. rewrite (IH _ _ t H).
      apply andb_prop in E. destruct E as [_ E].
      unfold has_mtype. cbn [existsb].
      destruct (Nat.eqb (m_id m) t) eqn:Et; cbn [orb]; [|reflexivity].
      apply Nat.eqb_eq in Et. subst t. rewrite E. reflexivity.
    + rewrite (IH _ _ t H), has_mtype_app. cbn [has_mtype existsb]. rewrite orb_false_r, orb_assoc. reflexivity.
Qed.

(* the heart: merging [route] into [inner_acc] and the result into [outer] is merging [route] into (outer merged with inner_acc) *)
Lemma merge_nested_step outer route : forall inner_acc flat_acc,
  merge_into outer inner_acc = Ok flat_acc ->
  match merge_into inner_acc route with
  | Ok l1 => merge_into outer l1
  | Raise c => Raise c
  end = merge_into flat_acc route.
Proof.
  induction route as [|m r IH]; intros inner_acc flat_acc Hf; cbn [merge_into].
  - exact Hf.
  - pose proof (merge_into_types inner_acc outer flat_acc (m_id m) Hf) as Ht. unfold has_mtype in Ht.
    destruct (m_unique m) eqn:Eu; cbn [andb].
    + destruct (existsb (fun x => Nat.eqb (m_id x) (m_id m)) inner_acc) eqn:Ei.
      * (* skipped (or refused) already at the inner level: the flat accumulator has the type too *)
        rewrite Ht; rewrite ?Ei, ?orb_true_r. destruct (m_reorderable m); [apply IH; exact Hf|reflexivity].
      * (* kept at the inner level *)
        rewrite Ht; rewrite ?Ei, ?orb_false_r.
        destruct (existsb (fun x => Nat.eqb (m_id x) (m_id m)) outer) eqn:Eo.
        -- (* present in the outer list: dropped when merging into it *)
           destruct (m_reorderable m) eqn:Er.
           ++ apply IH. rewrite merge_into_app, Hf. cbn [merge_into]. rewrite Eu. cbn [andb].
              rewrite Ht; rewrite ?Ei, ?Eo; cbn [orb]; rewrite ?Er; reflexivity.
           ++ (* the nested merge fails when it reaches m in the second pass *)
              destruct (merge_into (inner_acc ++ [m]) r) as [l1|c] eqn:E1.
              ** destruct (merge_into_shape r (inner_acc ++ [m]) l1 E1) as [k [-> _]].
                 rewrite <- app_assoc. rewrite merge_into_app, Hf. cbn [app merge_into]. rewrite Eu. cbn [andb].
                 rewrite Ht; rewrite ?Ei, ?Eo; cbn [orb]; rewrite ?Er; reflexivity.
              ** (* both fail; the classes agree: ValueError is the only one *)
                 clear -E1. revert E1. generalize (inner_acc ++ [m]). induction r as [|x r IHr]; intros acc E1; cbn [merge_into] in E1; [discriminate|].
                 destruct (m_unique x && existsb (fun y => Nat.eqb (m_id y) (m_id x)) acc).
                 --- destruct (m_reorderable x); [apply (IHr acc); exact E1|inversion E1; reflexivity].
                 --- apply (IHr (acc ++ [x])). exact E1.
        -- apply IH. rewrite merge_into_app, Hf. cbn [merge_into]. rewrite Eu. cbn [andb]. rewrite Ht; rewrite ?Ei, ?Eo; reflexivity.
    + apply IH. rewrite merge_into_app, Hf. cbn [merge_into]. rewrite Eu. reflexivity.
Qed.

(* C10: the middleware list of a route embedded through an inner application into an outer one is the ONE flat
   keep-first pass over  outer ++ inner ++ route  (each application's own list taken as it is) - success and failure alike *)
Theorem nested_merge_is_flat route_mws inner_mws outer_mws :
  match merge_middlewares route_mws inner_mws with
  | Ok l1 => merge_middlewares l1 outer_mws
  | Raise c => Raise c
  end =
  match merge_into outer_mws inner_mws with
  | Ok acc => merge_into acc route_mws
  | Raise c => Raise "ValueError"
  end.
Proof.
  unfold merge_middlewares.
  destruct (merge_into outer_mws inner_mws) as [acc|c] eqn:Ef.
  - apply merge_nested_step. exact Ef.
  - (* the outer/inner merge itself fails: so does the nested one, whatever the route adds *)
    destruct (merge_into inner_mws route_mws) as [l1|c1] eqn:E1.
    + destruct (merge_into_shape route_mws inner_mws l1 E1) as [k [-> _]].
      rewrite merge_into_app, Ef.
      clear -Ef. revert Ef. generalize outer_mws. induction inner_mws as [|x r IHr]; intros acc Ef; cbn [merge_into] in Ef; [discriminate|].
      destruct (m_unique x && existsb (fun y => Nat.eqb (m_id y) (m_id x)) acc).
      * destruct (m_reorderable x); [apply (IHr acc); exact Ef|inversion Ef; reflexivity].
      * apply (IHr (acc ++ [x])). exact Ef.
    + clear -E1. revert E1. generalize inner_mws. induction route_mws as [|x r IHr]; intros acc E1; cbn [merge_into] in E1; [discriminate|].
      destruct (m_unique x && existsb (fun y => Nat.eqb (m_id y) (m_id x)) acc).
      * destruct (m_reorderable x); [apply (IHr acc); exact E1|inversion E1; reflexivity].
      * apply (IHr (acc ++ [x])). exact E1.
Qed.

(* what a successful nested construction consists of *)
Theorem nested_accept o a pn pr m2 :
  build_nested o a = Ok (pn, pr, m2) ->
  (exists pn0 pr0, build_app a = Ok (pn0, pr0)) /\
  (forall r, In r RESERVED_ARGS -> ~ In r (o_resources o)) /\
  check_middlewares (o_mws o) [] = Ok tt /\
  build_route (outer_null_cfg o) = Ok pn /\
  (match merge_into (o_mws o) (a_mws a) with Ok acc => merge_into acc (a_route_mws a) | Raise c => Raise "ValueError" end) = Ok m2 /\
  build_route (nested_route_cfg o a m2) = Ok pr.
Proof.
  unfold build_nested. intros H.
  destruct (build_app a) as [[pn0 pr0]|c] eqn:Ea; cbn [rbind] in H; [|discriminate].
  destruct (existsb (fun r => mem r (o_resources o)) RESERVED_ARGS) eqn:Er; [discriminate|].
  destruct (check_middlewares (o_mws o) []) as [[]|c] eqn:Ec; cbn [rbind] in H; [|discriminate].
  destruct (build_route (outer_null_cfg o)) as [pn'|c] eqn:En; cbn [rbind] in H; [|discriminate].
  destruct (merge_middlewares (a_route_mws a) (a_mws a)) as [m1|c] eqn:E1; cbn [rbind] in H; [|discriminate].
  destruct (merge_middlewares m1 (o_mws o)) as [m2'|c] eqn:E2; cbn [rbind] in H; [|discriminate].
  destruct (build_route (nested_route_cfg o a m2')) as [pr'|c] eqn:Eb; cbn [rbind] in H; [|discriminate].
  inversion H; subst pn' pr' m2'. clear H.
  split; [eauto|]. split.
  { intros r Hr Hin. rewrite <- not_true_iff_false in Er. apply Er. apply existsb_exists. exists r. split; [exact Hr|].
    apply mem_In. exact Hin. }
  split; [reflexivity|]. split; [reflexivity|]. split; [|exact Eb].
  rewrite <- (nested_merge_is_flat (a_route_mws a) (a_mws a) (o_mws o)). rewrite E1. exact E2.
Qed.

(* hence everything proved about accepted routes holds for the embedded route with the flat list *)
Corollary nested_trace_is_onion o a pn pr m2 sc inj :
  build_nested o a = Ok (pn, pr, m2) ->
  no_posonly m2 (a_endpoint a) (a_render a) ->
  (forall x, In x (base (nested_route_cfg o a m2)) -> In x (map fst inj)) ->
  onion sc (proc_shape sc m2) (map fid_of (phase_funcs PhReq m2) ++ [FProc]) (fst (run sc pr inj)) (snd (run sc pr inj)).
Proof.
  intros Hb Hp Hi. destruct (nested_accept o a pn pr m2 Hb) as (_ & _ & _ & _ & _ & Hr).
  exact (route_trace_is_onion (nested_route_cfg o a m2) pr sc inj Hr Hp Hi).
Qed.

Corollary nested_value_is_source o a pn pr m2 sc :
  build_nested o a = Ok (pn, pr, m2) ->
  events_ok (src_of (nested_route_cfg o a m2) sc) (snd (run sc pr (base_env (nested_route_cfg o a m2)))).
Proof.
  intros Hb. destruct (nested_accept o a pn pr m2 Hb) as (_ & _ & _ & _ & _ & Hr).
  exact (value_is_source (nested_route_cfg o a m2) pr sc Hr).
Qed.

(* C04, embedded placement, as rejections: a name bound by the prefix that is also a resource of any level, a
   reserved name, or provided by any middleware function of the flat list makes the nested construction fail *)
Lemma NoDup_app_twice {X} (a b c : list X) x : In x a -> In x c -> ~ NoDup (a ++ b ++ c).
Proof.
  intros Ha Hc Hn. apply (NoDup_app_disjoint a (b ++ c) x Hn Ha). apply in_or_app. right. exact Hc.
Qed.

Theorem nested_prefix_conflict_rejected o a n :
  In n (o_prefix_url o) ->
  (In n (a_route_url a) \/ In n RESERVED_ARGS \/ In n (o_resources o) \/ In n (a_resources a) \/ In n (a_route_resources a)) ->
  forall r, build_nested o a <> Ok r.
Proof.
  intros Hp Hc [[pn pr] m2] Hb.
  pose proof (nested_accept o a pn pr m2 Hb) as (_ & _ & _ & _ & _ & Hr).
  pose proof (accept_disjoint (nested_route_cfg o a m2) pr Hr) as Hn.
  unfold all_offers, src_offers, nested_route_cfg in Hn. cbn [r_url r_resources r_mws] in Hn.
  (* the sources list starts with  prefix ++ route_url ++ RESERVED ++ dedup(resources) *)
  rewrite <- !app_assoc in Hn.
  destruct Hc as [H|[H|H]].
  - apply (NoDup_app_disjoint (o_prefix_url o) _ n Hn Hp). apply in_or_app. left. exact H.
  - apply (NoDup_app_disjoint (o_prefix_url o) _ n Hn Hp). apply in_or_app. right. apply in_or_app. left. exact H.
  - apply (NoDup_app_disjoint (o_prefix_url o) _ n Hn Hp). apply in_or_app. right. apply in_or_app. right.
    apply in_or_app. left. apply In_dedup. rewrite !in_app_iff. tauto.
Qed.
