From Coq Require Import List String Ascii Bool Arith Lia.
Import ListNotations.
From ClasticV Require Import Base.Py Base.Strs Model.Wsgi.
Local Open Scope list_scope.

(* ---------------- wrapper order ---------------- *)
Lemma add_all_prefix ms : forall acc, exists rest, add_all acc ms = acc ++ rest.
Proof.
  induction ms as [|m r IH]; intros acc; simpl.
  - exists []. rewrite app_nil_r. reflexivity.
  - destruct (has_type (ws_type m) acc).
    + apply IH.
    + destruct (IH (acc ++ [m])) as [rest ->]. exists (m :: rest). rewrite <- app_assoc. reflexivity.
Qed.

Lemma fold_add_all_prefix ls : forall acc, exists rest, fold_left add_all ls acc = acc ++ rest.
Proof.
  induction ls as [|l r IH]; intros acc; simpl.
  - exists []. rewrite app_nil_r. reflexivity.
  - destruct (add_all_prefix l acc) as [r1 ->]. destruct (IH (acc ++ r1)) as [r2 ->].
    exists (r1 ++ r2). rewrite <- app_assoc. reflexivity.
Qed.

(* types occur at most once in the collected list *)
Definition types_nodup (l : list wsmw) : Prop := NoDup (map ws_type l).

Lemma has_type_In t l : has_type t l = true <-> In t (map ws_type l).
Proof.
  unfold has_type. rewrite existsb_exists. split.
  - intros [m [Hm He]]. apply Nat.eqb_eq in He. subst. apply in_map. exact Hm.
  - intros H. apply in_map_iff in H. destruct H as [m [He Hm]]. exists m. split; [exact Hm|apply Nat.eqb_eq; exact He].
Qed.

Lemma nodup_snoc {X} (l : list X) x : NoDup l -> ~ In x l -> NoDup (l ++ [x]).
Proof.
  induction l as [|y r IH]; intros Hn Hx; simpl; [constructor; [intros []|constructor]|].
  inversion Hn; subst. constructor.
  - rewrite in_app_iff. intros [H|[H|[]]]; [contradiction|subst; apply Hx; left; reflexivity].
  - apply IH; [assumption|]. intros H. apply Hx. right. exact H.
Qed.

Lemma add_all_nodup ms : forall acc, types_nodup acc -> types_nodup (add_all acc ms).
Proof.
  induction ms as [|m r IH]; intros acc H; simpl; [exact H|].
  destruct (has_type (ws_type m) acc) eqn:E; [apply IH; exact H|].
  apply IH. unfold types_nodup in *. rewrite map_app. simpl.
  apply nodup_snoc; [exact H|]. intros Hx. apply has_type_In in Hx. congruence.
Qed.

Theorem get_all_types_once rs : types_nodup (get_all rs).
Proof.
  unfold get_all. generalize (rev rs) as ls. intros ls.
  assert (forall acc, types_nodup acc -> types_nodup (fold_left add_all ls acc)) as H.
  { induction ls as [|l r IH]; intros acc Ha; simpl; [exact Ha|]. apply IH. apply add_all_nodup. exact Ha. }
  apply H. constructor.
Qed.

(* a list whose types are pairwise distinct is collected unchanged *)
Lemma add_all_fresh ms : forall acc, NoDup (map ws_type (acc ++ ms)) -> add_all acc ms = acc ++ ms.
Proof.
  induction ms as [|m r IH]; intros acc H; simpl; [rewrite app_nil_r; reflexivity|].
  assert (Hm : has_type (ws_type m) acc = false).
  { destruct (has_type (ws_type m) acc) eqn:E; [|reflexivity]. exfalso. apply has_type_In in E.
    rewrite map_app in H. simpl in H. apply NoDup_remove_2 in H. apply H. apply in_or_app. left. exact E. }
  rewrite Hm. rewrite IH; [rewrite <- app_assoc; reflexivity|]. rewrite <- app_assoc. exact H.
Qed.

Lemma add_all_app a : forall acc b, add_all acc (a ++ b) = add_all (add_all acc a) b.
Proof.
  induction a as [|m r IH]; intros acc b; simpl; [reflexivity|].
  destruct (has_type (ws_type m) acc); apply IH.
Qed.

(* the application-level list M (types pairwise distinct) is a prefix of every bound route's list
   (merge_middlewares puts it first): the collected list starts with M, in M's order - so the wrappers of
   the application's middlewares run in list order, the first one outermost *)
Theorem app_list_first rs last M :
  NoDup (map ws_type M) -> (exists tail, last = M ++ tail) ->
  exists rest, get_all (rs ++ [last]) = M ++ rest.
Proof.
  intros Hn [tail ->]. unfold get_all. rewrite rev_app_distr. simpl.
  rewrite add_all_app. rewrite (add_all_fresh M []) by exact Hn. simpl.
  destruct (add_all_prefix tail M) as [r1 ->].
  destruct (fold_add_all_prefix (rev rs) (M ++ r1)) as [r2 ->].
  exists (r1 ++ r2). rewrite <- app_assoc. reflexivity.
Qed.

(* ---------------- the monitor ---------------- *)
(* declarative reading of the protocol for one request *)
Fixpoint count_starts (t : list wevent) : nat :=
  match t with [] => 0 | EStart _ _ :: r => S (count_starts r) | _ :: r => count_starts r end.

Lemma fold_started head t : forall s, m_started (fold_left (mstep head) t s) = m_started s + count_starts t.
Proof.
  induction t as [|e r IH]; intros s; simpl; [lia|]. rewrite IH. destruct e; simpl; lia.
Qed.

Lemma fold_ok_false head t : forall s, m_ok s = false -> m_ok (fold_left (mstep head) t s) = false.
Proof.
  induction t as [|e r IH]; intros s H; simpl; [exact H|]. apply IH. destruct e; simpl; rewrite H; reflexivity.
Qed.

(* soundness of the monitor: an accepted trace calls start_response exactly once, with a well-formed
   status and header list, before any non-empty chunk; yields only bytes; nothing but empty chunks for
   HEAD; and ends closed, with nothing after close *)
Theorem monitor_sound head t :
  monitor head t = true ->
  count_starts t = 1 /\
  (forall (pre : list wevent) (so ho : bool) (post : list wevent), t = pre ++ EStart so ho :: post ->
      so = true /\ ho = true /\ (forall (n : nat) (b : bool), In (EChunk n b) pre -> n = 0)) /\
  (forall (n : nat) (b : bool), In (EChunk n b) t -> b = true /\ (head = true -> n = 0)) /\
  (exists pre, t = pre ++ [EClose] /\ ~ In EClose pre).
Proof.
  unfold monitor. intros H. apply andb_prop in H. destruct H as [H Hc]. apply andb_prop in H. destruct H as [Hok Hst].
  apply Nat.eqb_eq in Hst. rewrite fold_started in Hst. simpl in Hst.
  split; [exact Hst|].
  (* a general invariant: if the final state is ok, every prefix state was ok *)
  assert (Hinv : forall pre e post s0, t = pre ++ e :: post ->
            m_ok (fold_left (mstep head) t s0) = true ->
            m_ok (mstep head (fold_left (mstep head) pre s0) e) = true).
  { intros pre e post s0 -> Hf. rewrite fold_left_app in Hf. simpl in Hf.
    destruct (m_ok (mstep head (fold_left (mstep head) pre s0) e)) eqn:E; [reflexivity|].
    rewrite fold_ok_false in Hf by exact E. discriminate. }
  set (s0 := mk_mstate 0 false false true) in *.
  assert (Hbody : forall pre s, m_body (fold_left (mstep head) pre s) = false ->
                  m_body s = false /\ forall n b, In (EChunk n b) pre -> n = 0).
  { induction pre as [|e r IH]; intros s Hb; simpl in *; [split; [exact Hb|intros ? ? []]|].
    destruct (IH _ Hb) as [H1 H2]. destruct e as [so ho|n b|]; simpl in H1.
    - split; [exact H1|]. intros n b [Hd|Hin]; [discriminate|eapply H2; eauto].
    - apply orb_false_iff in H1. destruct H1 as [H1 H3]. split; [exact H1|].
      intros n' b' [Hd|Hin]; [inversion Hd; subst; destruct (Nat.eqb n' 0) eqn:E; [apply Nat.eqb_eq in E; exact E|discriminate]|eapply H2; eauto].
    - split; [exact H1|]. intros n b [Hd|Hin]; [discriminate|eapply H2; eauto]. }
  split; [|split].
  - intros pre so ho post Ht. pose proof (Hinv pre (EStart so ho) post s0 Ht Hok) as Hs. simpl in Hs.
    repeat (apply andb_prop in Hs; destruct Hs as [Hs ?]).
    split; [assumption|]. split; [assumption|].
    match goal with Hnb : negb (m_body _) = true |- _ => apply negb_true_iff in Hnb; destruct (Hbody pre s0 Hnb) as [_ Hz]; exact Hz end.
  - intros n b Hin. apply in_split in Hin. destruct Hin as [pre [post Ht]].
    pose proof (Hinv pre (EChunk n b) post s0 Ht Hok) as Hs. simpl in Hs.
    repeat (apply andb_prop in Hs; destruct Hs as [Hs ?]).
    split; [assumption|]. intros Hh. subst head.
    match goal with Hx : (Nat.eqb n 0 || _) = true |- _ => apply orb_prop in Hx; destruct Hx as [Hx|Hx]; [apply Nat.eqb_eq in Hx; exact Hx|
      apply andb_prop in Hx; destruct Hx as [_ Hx]; discriminate] end.
  - (* closed, and close is the last event *)
    assert (Hcl : forall l s, m_closed (fold_left (mstep head) l s) = true -> m_closed s = true \/ In EClose l).
    { induction l as [|e r IH]; intros s Hx; simpl in *; [left; exact Hx|].
      destruct (IH _ Hx) as [H1|H1]; [|right; right; exact H1]. destruct e; simpl in H1; auto. }
    destruct (Hcl t s0 Hc) as [Hd|Hin]; [discriminate|].
    (* after a close, every further event makes the state not ok *)
    apply in_split in Hin. destruct Hin as [pre [post Ht]].
    assert (Hpost : post = []).
    { destruct post as [|e post']; [reflexivity|]. exfalso.
      assert (Ht2 : t = (pre ++ [EClose]) ++ e :: post') by (rewrite Ht, <- app_assoc; reflexivity).
      pose proof (Hinv (pre ++ [EClose]) e post' s0 Ht2 Hok) as Hs. rewrite fold_left_app in Hs. simpl in Hs.
      destruct e; simpl in Hs; rewrite ?andb_false_r in Hs; try discriminate;
        repeat (apply andb_prop in Hs; destruct Hs as [Hs ?]); discriminate. }
    subst post. exists pre. split; [exact Ht|].
    intros Hin2. apply in_split in Hin2. destruct Hin2 as [p1 [p2 Hp]].
    assert (Ht2 : t = (p1 ++ [EClose]) ++ (p2 ++ [EClose])).
    { rewrite Ht, Hp. rewrite <- !app_assoc. reflexivity. }
    destruct p2 as [|e p2'].
    + simpl in Ht2. pose proof (Hinv (p1 ++ [EClose]) EClose [] s0 Ht2 Hok) as Hs. rewrite fold_left_app in Hs. simpl in Hs.
      rewrite andb_false_r in Hs. discriminate.
    + pose proof (Hinv (p1 ++ [EClose]) e (p2' ++ [EClose]) s0 Ht2 Hok) as Hs. rewrite fold_left_app in Hs. simpl in Hs.
      destruct e; simpl in Hs; rewrite ?andb_false_r in Hs; try discriminate;
        repeat (apply andb_prop in Hs; destruct Hs as [Hs ?]); discriminate.
Qed.

(* completeness of the monitor: every trace of the conforming shape - zero-length byte chunks, one
   well-formed start_response, byte chunks (zero-length only for HEAD), one close at the very end - is accepted *)
Definition zero_chunk (e : wevent) : Prop := e = EChunk 0 true.
Definition body_chunk (head : bool) (e : wevent) : Prop := exists n, e = EChunk n true /\ (head = true -> n = 0).

Definition conforming (head : bool) (t : list wevent) : Prop :=
  exists pre post, t = pre ++ EStart true true :: post ++ [EClose] /\
                   Forall zero_chunk pre /\ Forall (body_chunk head) post.

Lemma fold_zero_chunks head pre : Forall zero_chunk pre ->
  forall s, m_ok s = true -> m_closed s = false -> fold_left (mstep head) pre s = s.
Proof.
  induction 1 as [|e r He Hr IH]; intros s Hok Hcl; simpl; [reflexivity|]. rewrite He. simpl.
  rewrite IH; destruct s as [st bd cl ok]; simpl in *; subst; simpl; rewrite ?orb_false_r; reflexivity.
Qed.

Lemma fold_body_chunks head post : Forall (body_chunk head) post ->
  forall s, m_ok s = true -> m_closed s = false -> m_started s = 1 ->
  let s' := fold_left (mstep head) post s in m_ok s' = true /\ m_closed s' = false /\ m_started s' = 1.
Proof.
  induction 1 as [|e r He Hr IH]; intros s Hok Hcl Hst; simpl; [auto|].
  destruct He as [n [-> Hn]]. apply IH; simpl; [|exact Hcl|exact Hst].
  rewrite Hok, Hcl, Hst. simpl. destruct head; simpl.
  - rewrite (Hn eq_refl). reflexivity.
  - rewrite orb_true_r. reflexivity.
Qed.

Theorem monitor_complete head t : conforming head t -> monitor head t = true.
Proof.
  intros (pre & post & -> & Hpre & Hpost). unfold monitor.
  rewrite fold_left_app. rewrite (fold_zero_chunks head pre Hpre) by reflexivity.
  simpl. rewrite fold_left_app. simpl.
  match goal with |- context [fold_left (mstep head) post ?S] =>
    destruct (fold_body_chunks head post Hpost S eq_refl eq_refl eq_refl) as (H1 & H2 & H3) end.
  rewrite H1, H2, H3. reflexivity.
Qed.

(* and conversely: soundness recast in the same shape, so that the monitor decides exactly [conforming] *)
Lemma split_at_start t : count_starts t = 1 ->
  exists pre so ho post, t = pre ++ EStart so ho :: post /\ count_starts pre = 0 /\ count_starts post = 0.
Proof.
  induction t as [|e r IH]; simpl; [discriminate|]. destruct e as [so ho|n b|]; intros H.
  - exists [], so, ho, r. simpl. split; [reflexivity|split; [reflexivity|lia]].
  - destruct (IH H) as (pre & so & ho & post & -> & H1 & H2). exists (EChunk n b :: pre), so, ho, post. simpl. auto.
  - destruct (IH H) as (pre & so & ho & post & -> & H1 & H2). exists (EClose :: pre), so, ho, post. simpl. auto.
Qed.

Lemma count_starts_app a b : count_starts (a ++ b) = count_starts a + count_starts b.
Proof. induction a as [|e r IH]; simpl; [reflexivity|]. destruct e; simpl; rewrite IH; reflexivity. Qed.

Theorem monitor_exact head t : monitor head t = true <-> conforming head t.
Proof.
  split; [|apply monitor_complete].
  intros H. destruct (monitor_sound head t H) as (Hc & Hstart & Hchunks & (body & Ht & Hnc)).
  destruct (split_at_start t Hc) as (pre & so & ho & post & Hsp & Hp0 & Hq0).
  destruct (Hstart pre so ho post Hsp) as (-> & -> & Hz).
  (* post ends with the close *)
  assert (Hpost : exists post', post = post' ++ [EClose]).
  { destruct (@exists_last _ post) as (post' & e & Hpe).
    - intros ->. rewrite Hsp in Ht. 
      assert (Hl : last (pre ++ [EStart true true]) EClose = last (body ++ [EClose]) EClose) by (rewrite Ht; reflexivity).
      rewrite !last_last in Hl. discriminate.
    - exists post'. rewrite Hpe in Hsp. rewrite Hsp in Ht.
      assert (Hl : last (pre ++ EStart true true :: post' ++ [e]) EClose = last (body ++ [EClose]) EClose) by (rewrite Ht; reflexivity).
      replace (pre ++ EStart true true :: post' ++ [e]) with ((pre ++ EStart true true :: post') ++ [e]) in Hl
        by (rewrite <- app_assoc; reflexivity).
      rewrite !last_last in Hl. subst e. exact Hpe. }
  destruct Hpost as [post' ->].
  assert (Hbody : body = pre ++ EStart true true :: post').
  { rewrite Hsp in Ht.
    replace (pre ++ EStart true true :: post' ++ [EClose]) with ((pre ++ EStart true true :: post') ++ [EClose]) in Ht
      by (rewrite <- app_assoc; reflexivity).
    apply app_inj_tail in Ht. destruct Ht as [Ht _]. symmetry. exact Ht. }
  exists pre, post'. split; [exact Hsp|]. split.
  - apply Forall_forall. intros e He. destruct e as [so ho|n b|].
    + exfalso. apply in_split in He. destruct He as (a & b & ->). rewrite count_starts_app in Hp0. simpl in Hp0. lia.
    + unfold zero_chunk. rewrite (Hz n b He). destruct (Hchunks n b) as [-> _]; [rewrite Hsp; apply in_or_app; left; exact He|reflexivity].
    + exfalso. apply Hnc. rewrite Hbody. apply in_or_app. left. exact He.
  - apply Forall_forall. intros e He. destruct e as [so ho|n b|].
    + exfalso. apply in_split in He. destruct He as (a & b & Hab).
      rewrite count_starts_app in Hq0. rewrite Hab in Hq0. rewrite count_starts_app in Hq0. simpl in Hq0. lia.
    + destruct (Hchunks n b) as [-> Hh]; [rewrite Hsp; apply in_or_app; right; right; apply in_or_app; left; exact He|].
      exists n. split; [reflexivity|exact Hh].
    + exfalso. apply Hnc. rewrite Hbody. apply in_or_app. right. right. exact He.
Qed.
