From Coq Require Import Lia.
From Coq Require Import List String Ascii Bool Arith ZArith.
Import ListNotations.
From ClasticV Require Import Base.Py Base.Strs Model.Errors Gen.ErrorsGen.
Local Open Scope list_scope.
Local Open Scope string_scope.

Lemma skeleton_app a b : skeleton (a ++ b) = skeleton a ++ skeleton b.
Proof. induction a as [|c r IH]; simpl; [reflexivity|]. destruct (is_markup c); simpl; rewrite IH; reflexivity. Qed.

Lemma esc_chr_clean c : skeleton (esc_chr c) = "".
Proof.
  destruct c as [b0 b1 b2 b3 b4 b5 b6 b7].
  destruct b0, b1, b2, b3, b4, b5, b6, b7; reflexivity.
Qed.

(* an escaped string contains no markup-significant character (angle brackets, quotes) *)
Theorem escape_clean s : skeleton (html_escape s) = "".
Proof. induction s as [|c r IH]; simpl; [reflexivity|]. rewrite skeleton_app, esc_chr_clean, IH. reflexivity. Qed.

(* format: values of fields without markup characters cannot change the markup skeleton of the page *)
Definition fields_clean (f : efields) : Prop :=
  skeleton (e_code f) = "" /\ skeleton (e_message f) = "" /\ skeleton (e_detail f) = "" /\ skeleton (e_error_type f) = "".

Lemma field_clean f n : fields_clean f -> skeleton (field f n) = "".
Proof.
  intros [H1 [H2 [H3 H4]]]. unfold field.
  destruct (String.eqb n "code"); [exact H1|]. destruct (String.eqb n "message"); [exact H2|].
  destruct (String.eqb n "detail"); [exact H3|]. destruct (String.eqb n "error_type"); [exact H4|reflexivity].
Qed.

Definition empty_fields : efields := mk_efields "" "" "" "".

Lemma fmt_go_skeleton tpl f : fields_clean f -> forall st,
  skeleton (fmt_go tpl st f) = skeleton (fmt_go tpl st empty_fields).
Proof.
  intros Hc. induction tpl as [|c r IH]; intros st; simpl; [reflexivity|].
  destruct st as [nm|].
  - destruct (Ascii.eqb c "}").
    + rewrite !skeleton_app. rewrite (field_clean f nm Hc). rewrite IH.
      assert (skeleton (field empty_fields nm) = "") as ->; [|reflexivity].
      apply field_clean. repeat split; reflexivity.
    + apply IH.
  - destruct (Ascii.eqb c "{"); [apply IH|]. simpl. destruct (is_markup c); rewrite IH; reflexivity.
Qed.

Theorem fmt_skeleton tpl f : fields_clean f -> skeleton (fmt tpl f) = skeleton (fmt tpl empty_fields).
Proof. intros H. apply fmt_go_skeleton. exact H. Qed.

Theorem escaped_fields_clean r : skeleton (Base.Sx.string_of_Z (r_code r)) = "" -> fields_clean (escape_fields r).
Proof.
  intros Hc. unfold escape_fields, fields_clean. simpl. repeat split; try apply escape_clean; [exact Hc|].
  destruct (r_error_type r); [apply escape_clean|reflexivity].
Qed.

(* the flags that select the template lines *)
Definition html_flags (f : efields) : bool * bool * bool :=
  (nonempty (e_detail f), nonempty (e_error_type f), prefix_s "http" (e_error_type f)).

Lemma html_lines_flags f f' : html_flags f = html_flags f' -> html_lines f = html_lines f'.
Proof.
  unfold html_flags, html_lines, field. simpl. intros H. inversion H as [[H1 H2 H3]]. rewrite H1, H2, H3. reflexivity.
Qed.

(* no field content can introduce markup: the sequence of markup-significant characters of the page is that of the template *)
Theorem html_skeleton f f' :
  fields_clean f -> fields_clean f' -> html_flags f = html_flags f' ->
  skeleton (to_html f) = skeleton (to_html f').
Proof.
  intros Hc Hc' Hf. unfold to_html. rewrite (html_lines_flags f f' Hf).
  rewrite (fmt_skeleton _ f Hc), (fmt_skeleton _ f' Hc'). reflexivity.
Qed.

Theorem xml_skeleton f f' : fields_clean f -> fields_clean f' -> skeleton (to_xml f) = skeleton (to_xml f').
Proof. intros Hc Hc'. unfold to_xml. rewrite (fmt_skeleton _ f Hc), (fmt_skeleton _ f' Hc'). reflexivity. Qed.

(* format selection: body builder and Content-Type are chosen by the same key *)
Definition adapt (mime : option string) : string * string :=
  match mime with
  | Some m => match assoc_s m MIME_SUPPORT_MAP with Some fname => (fname, m) | None => ("text", "text/plain") end
  | None => ("text", "text/plain")
  end.

Theorem format_agrees mime : assoc_s (snd (adapt mime)) MIME_SUPPORT_MAP = Some (fst (adapt mime)).
Proof.
  unfold adapt. destruct mime as [m|]; [|reflexivity].
  destruct (assoc_s m MIME_SUPPORT_MAP) eqn:E; [exact E|reflexivity].
Qed.

(* ---------------- escaping loses nothing: the browser's reading of the escaped text is the text ---------------- *)
Fixpoint strip_prefix (p s : string) : option string :=
  match p, s with
  | EmptyString, _ => Some s
  | String x p', String y s' => if Ascii.eqb x y then strip_prefix p' s' else None
  | _, EmptyString => None
  end.

(* decoding of the five character references html.escape produces (what an HTML parser does with text content) *)
Fixpoint unescape (fuel : nat) (s : string) : string :=
  match fuel with
  | O => s
  | S k =>
      match s with
      | EmptyString => ""
      | String c r =>
          if Ascii.eqb c "&" then
            match strip_prefix "amp;" r with Some t => String "&" (unescape k t) | None =>
            match strip_prefix "lt;" r with Some t => String "<" (unescape k t) | None =>
            match strip_prefix "gt;" r with Some t => String ">" (unescape k t) | None =>
            match strip_prefix "quot;" r with Some t => String """" (unescape k t) | None =>
            match strip_prefix "#x27;" r with Some t => String "'" (unescape k t) | None =>
            String c (unescape k r) end end end end end
          else String c (unescape k r)
      end
  end.

Lemma strip_prefix_app p s : strip_prefix p (p ++ s) = Some s.
Proof. induction p as [|c r IH]; cbn; [reflexivity|]. rewrite Ascii.eqb_refl. exact IH. Qed.

Theorem unescape_escape s : forall fuel, String.length (html_escape s) <= fuel -> unescape fuel (html_escape s) = s.
Proof.
  induction s as [|c r IH]; intros fuel Hf.
  - destruct fuel; reflexivity.
  - cbn [html_escape] in *. unfold esc_chr in *.
    destruct (Ascii.eqb c "&") eqn:E1.
    { apply Ascii.eqb_eq in E1. subst c. destruct fuel as [|k]; [cbn in Hf; lia|].
      change ("&amp;" ++ html_escape r) with (String "&" ("amp;" ++ html_escape r)). cbn [unescape].
      rewrite Ascii.eqb_refl, strip_prefix_app. f_equal. apply IH. cbn in Hf. lia. }
    destruct (Ascii.eqb c "<") eqn:E2.
    { apply Ascii.eqb_eq in E2. subst c. destruct fuel as [|k]; [cbn in Hf; lia|].
      change ("&lt;" ++ html_escape r) with (String "&" ("lt;" ++ html_escape r)). cbn [unescape].
      rewrite Ascii.eqb_refl. cbn [strip_prefix append Ascii.eqb Bool.eqb].
      f_equal. apply IH. cbn in Hf. lia. }
    destruct (Ascii.eqb c ">") eqn:E3.
    { apply Ascii.eqb_eq in E3. subst c. destruct fuel as [|k]; [cbn in Hf; lia|].
      change ("&gt;" ++ html_escape r) with (String "&" ("gt;" ++ html_escape r)). cbn [unescape].
      rewrite Ascii.eqb_refl. cbn [strip_prefix append Ascii.eqb Bool.eqb].
      f_equal. apply IH. cbn in Hf. lia. }
    destruct (Ascii.eqb c """") eqn:E4.
    { apply Ascii.eqb_eq in E4. subst c. destruct fuel as [|k]; [cbn in Hf; lia|].
      change ("&quot;" ++ html_escape r) with (String "&" ("quot;" ++ html_escape r)). cbn [unescape].
      rewrite Ascii.eqb_refl. cbn [strip_prefix append Ascii.eqb Bool.eqb].
      f_equal. apply IH. cbn in Hf. lia. }
    destruct (Ascii.eqb c "'") eqn:E5.
    { apply Ascii.eqb_eq in E5. subst c. destruct fuel as [|k]; [cbn in Hf; lia|].
      change ("&#x27;" ++ html_escape r) with (String "&" ("#x27;" ++ html_escape r)). cbn [unescape].
      rewrite Ascii.eqb_refl. cbn [strip_prefix append Ascii.eqb Bool.eqb].
      f_equal. apply IH. cbn in Hf. lia. }
    destruct fuel as [|k]; [cbn in Hf; lia|].
    change (String c "" ++ html_escape r) with (String c (html_escape r)). cbn [unescape]. rewrite E1.
    f_equal. apply IH. cbn in Hf. lia.
Qed.
