From Coq Require Import List String Ascii Bool Arith ZArith Lia.
Import ListNotations.
From ClasticV Require Import Base.Py Base.Strs Gen.Tables Gen.NormPathGen Model.Dispatch.
Local Open Scope string_scope.
Local Open Scope list_scope.

Definition vmeth (h : handler) (meth : string) (canon : bool) (r : droute) : list string :=
  match verdict_of h meth canon r with VMethod => methods_of r | _ => [] end.

Lemma loop_step h meth canon r rest i st :
  loop h meth canon (r :: rest) i st =
  match verdict_of h meth canon r with
  | VSkip => loop h meth canon rest (S i) st
  | VMethod => loop h meth canon rest (S i) (mk_dstate (ds_excs st) (ds_allowed st ++ methods_of r))
  | VSoft c => loop h meth canon rest (S i) (mk_dstate (ds_excs st ++ [(i, c)]) (ds_allowed st))
  | VStop l => l i
  end.
Proof.
  cbn [loop]. unfold verdict_of.
  destruct (negb (d_match r)); [reflexivity|].
  destruct (negb (admits (d_methods r) meth)); [reflexivity|].
  destruct (d_branch r && negb canon).
  - destruct (d_mode r); try reflexivity.
    destruct (d_out r) as [t|c b| |e|]; try reflexivity. destruct b; reflexivity.
  - destruct (d_out r) as [t|c b| |e|]; try reflexivity. destruct b; reflexivity.
Qed.

Lemma loop_gen h meth canon rs : forall i st,
  loop h meth canon rs i st =
  match first_stop (map (verdict_of h meth canon) rs) i with
  | Some (j, l) => l j
  | None => null_out (i + List.length rs)
              (mk_dstate (ds_excs st ++ softs (map (verdict_of h meth canon) rs) i)
                         (ds_allowed st ++ flat_map (vmeth h meth canon) rs))
  end.
Proof.
  induction rs as [|r rest IH]; intros i st.
  - simpl. rewrite Nat.add_0_r, !app_nil_r. destruct st; reflexivity.
  - rewrite loop_step. cbn [map first_stop softs flat_map List.length]. unfold vmeth at 1.
    replace (i + S (List.length rest)) with (S i + List.length rest) by lia.
    destruct (verdict_of h meth canon r) as [| |c|l].
    + rewrite IH. rewrite app_nil_l. reflexivity.
    + rewrite IH. cbn [ds_excs ds_allowed]. rewrite <- app_assoc. reflexivity.
    + rewrite IH. cbn [ds_excs ds_allowed]. rewrite <- app_assoc. reflexivity.
    + reflexivity.
Qed.

Theorem dispatch_refines_spec h meth canon rs :
  loop h meth canon rs 0 (mk_dstate [] []) = spec h meth canon rs.
Proof. rewrite loop_gen. unfold spec. simpl. reflexivity. Qed.

(* ---------------- consequences in the property's own words ---------------- *)
Lemma first_stop_spec vs : forall i j l,
  first_stop vs i = Some (j, l) ->
  exists k, j = i + k /\ nth_error vs k = Some (VStop l) /\
            forall k', k' < k -> exists v, nth_error vs k' = Some v /\ is_stop v = false.
Proof.
  induction vs as [|v r IH]; intros i j l H; simpl in H; [discriminate|].
  destruct v as [| |c|l'].
  1-3: (apply IH in H; destruct H as [k [-> [Hn Hb]]]; exists (S k); split; [lia|]; split; [exact Hn|];
        intros k' Hk; destruct k' as [|k']; [eexists; split; [reflexivity|reflexivity]|apply Hb; lia]).
  inversion H; subst. exists 0. split; [lia|]. split; [reflexivity|]. intros k' Hk; lia.
Qed.

Lemma first_stop_none vs : forall i, first_stop vs i = None <-> forallb (fun v => negb (is_stop v)) vs = true.
Proof.
  induction vs as [|v r IH]; intros i; simpl; [tauto|].
  destruct v; simpl; try apply IH. split; discriminate.
Qed.

(* the answering route is the first one, in list order, that matches, admits
   the method and does not soft-fail *)
Theorem first_answerer h meth canon rs k l :
  nth_error (map (verdict_of h meth canon) rs) k = Some (VStop l) ->
  (forall k', k' < k -> exists v, nth_error (map (verdict_of h meth canon) rs) k' = Some v /\ is_stop v = false) ->
  loop h meth canon rs 0 (mk_dstate [] []) = l k.
Proof.
  intros Hk Hb. rewrite dispatch_refines_spec. unfold spec.
  destruct (first_stop (map (verdict_of h meth canon) rs) 0) as [[j l']|] eqn:E.
  - apply first_stop_spec in E. destruct E as [k2 [-> [Hn Hb2]]]. simpl.
    destruct (Nat.lt_trichotomy k k2) as [Hlt|[->|Hgt]].
    + destruct (Hb2 k Hlt) as [v [Hv Hs]]. rewrite Hk in Hv. inversion Hv; subst. discriminate.
    + rewrite Hk in Hn. inversion Hn; subst. reflexivity.
    + destruct (Hb k2 Hgt) as [v [Hv Hs]]. rewrite Hn in Hv. inversion Hv; subst. discriminate.
  - apply (first_stop_none _ 0) in E. rewrite forallb_forall in E.
    apply nth_error_In in Hk. apply E in Hk. discriminate.
Qed.

Lemma softs_nil vs : forall i, (forall v, In v vs -> match v with VSoft _ => False | _ => True end) -> softs vs i = [].
Proof.
  induction vs as [|v r IH]; intros i H; simpl; [reflexivity|].
  destruct v; try (apply IH; intros; apply H; right; assumption).
  exfalso. apply (H (VSoft code)). left. reflexivity.
Qed.

Lemma flat_map_nil {X Y} (f : X -> list Y) l : (forall x, In x l -> f x = []) -> flat_map f l = [].
Proof.
  induction l as [|x r IH]; intros H; [reflexivity|]. simpl. rewrite (H x) by (left; reflexivity).
  apply IH. intros y Hy. apply H. right. exact Hy.
Qed.

(* no route's pattern matches => 404 from the catch-all *)
Theorem no_match_404 h meth canon rs :
  (forall r, In r rs -> d_match r = false) ->
  loop h meth canon rs 0 (mk_dstate [] []) = LHttp (List.length rs) 404%Z [].
Proof.
  intros H. rewrite dispatch_refines_spec. unfold spec.
  assert (Hv : forall r, In r rs -> verdict_of h meth canon r = VSkip).
  { intros r Hr. unfold verdict_of. rewrite (H r Hr). reflexivity. }
  assert (E1 : first_stop (map (verdict_of h meth canon) rs) 0 = None).
  { apply first_stop_none. rewrite forallb_forall. intros v Hin. apply in_map_iff in Hin.
    destruct Hin as [r [<- Hr]]. rewrite Hv by exact Hr. reflexivity. }
  rewrite E1. rewrite softs_nil.
  2:{ intros v Hin. apply in_map_iff in Hin. destruct Hin as [r [<- Hr]]. rewrite Hv by exact Hr. exact I. }
  rewrite flat_map_nil; [reflexivity|]. intros r Hr. rewrite (Hv r Hr). reflexivity.
Qed.

Lemma in_flat_map_vmeth h meth canon rs m :
  In m (flat_map (vmeth h meth canon) rs) <->
  exists r, In r rs /\ verdict_of h meth canon r = VMethod /\ In m (methods_of r).
Proof.
  rewrite in_flat_map. split.
  - intros [r [Hr Hm]]. unfold vmeth in Hm. destruct (verdict_of h meth canon r) eqn:E; try contradiction.
    exists r. auto.
  - intros [r [Hr [Hv Hm]]]. exists r. split; [exact Hr|]. unfold vmeth. rewrite Hv. exact Hm.
Qed.

Lemma verdict_method_iff h meth canon r :
  verdict_of h meth canon r = VMethod <-> d_match r = true /\ admits (d_methods r) meth = false.
Proof.
  unfold verdict_of. destruct (d_match r); simpl.
  2:{ split; [discriminate|intros [H _]; discriminate]. }
  destruct (admits (d_methods r) meth); simpl.
  - split; [|intros [_ H]; discriminate].
    destruct (d_branch r && negb canon); [destruct (d_mode r)|]; destruct (d_out r) as [t|c b| |e|]; try destruct b; discriminate.
  - tauto.
Qed.

(* patterns matched but no route admitted the method => 405 whose Allow names
   exactly the methods of the path-matching routes *)
Theorem method_mismatch_405 h meth canon rs :
  (forall r, In r rs -> d_match r = true -> admits (d_methods r) meth = false) ->
  (exists r, In r rs /\ d_match r = true /\ methods_of r <> []) ->
  exists allow, loop h meth canon rs 0 (mk_dstate [] []) = LHttp (List.length rs) 405%Z allow /\
    forall m, In m allow <-> exists r, In r rs /\ d_match r = true /\ In m (methods_of r).
Proof.
  intros H [r0 [Hr0 [Hm0 Hne]]]. rewrite dispatch_refines_spec. unfold spec.
  assert (Hv : forall r, In r rs -> verdict_of h meth canon r = VSkip \/ verdict_of h meth canon r = VMethod).
  { intros r Hr. destruct (d_match r) eqn:Em.
    - right. apply verdict_method_iff. split; [exact Em|apply H; assumption].
    - left. unfold verdict_of. rewrite Em. reflexivity. }
  assert (E1 : first_stop (map (verdict_of h meth canon) rs) 0 = None).
  { apply first_stop_none. rewrite forallb_forall. intros v Hin. apply in_map_iff in Hin.
    destruct Hin as [r [<- Hr]]. destruct (Hv r Hr) as [-> | ->]; reflexivity. }
  rewrite E1. rewrite softs_nil.
  2:{ intros v Hin. apply in_map_iff in Hin. destruct Hin as [r [<- Hr]]. destruct (Hv r Hr) as [-> | ->]; exact I. }
  fold (vmeth h meth canon).
  destruct (flat_map (vmeth h meth canon) rs) as [|a al] eqn:Ef.
  - exfalso. destruct (methods_of r0) as [|m ms] eqn:Em; [apply Hne; reflexivity|].
    assert (In m (flat_map (vmeth h meth canon) rs)) as Hin.
    { apply in_flat_map_vmeth. exists r0. split; [exact Hr0|]. split.
      - apply verdict_method_iff. split; [exact Hm0|apply H; assumption].
      - rewrite Em. left. reflexivity. }
    rewrite Ef in Hin. contradiction.
  - exists (a :: al). split; [reflexivity|]. intros m. rewrite <- Ef. rewrite in_flat_map_vmeth. split.
    + intros [r [Hr [Hvm Hin]]]. exists r. apply verdict_method_iff in Hvm. tauto.
    + intros [r [Hr [Hm Hin]]]. exists r. split; [exact Hr|]. split; [|exact Hin].
      apply verdict_method_iff. split; [exact Hm|apply H; assumption].
Qed.

(* nobody answers, somebody soft-failed => the most recent non-breaking error *)
Lemma softs_last vs : forall i, softs vs i <> [] ->
  exists j c, rev (softs vs i) = (j, c) :: tl (rev (softs vs i)).
Proof.
  intros i H. destruct (rev (softs vs i)) as [|[j c] t] eqn:E.
  - exfalso. apply H. apply (f_equal (@rev _)) in E. rewrite rev_involutive in E. exact E.
  - exists j, c. reflexivity.
Qed.

Theorem soft_fallthrough h meth canon rs :
  first_stop (map (verdict_of h meth canon) rs) 0 = None ->
  forall j c t, rev (softs (map (verdict_of h meth canon) rs) 0) = (j, c) :: t ->
  loop h meth canon rs 0 (mk_dstate [] []) = LHttp j c [].
Proof.
  intros E j c t Hs. rewrite dispatch_refines_spec. unfold spec. rewrite E. unfold null_out. cbn [ds_excs].
  rewrite Hs. reflexivity.
Qed.

(* ---------------- methods (C06_head_and_case) ---------------- *)
Lemma upper_idem_chr a : upper_chr (upper_chr a) = upper_chr a.
Proof.
  destruct a as [b0 b1 b2 b3 b4 b5 b6 b7].
  destruct b0, b1, b2, b3, b4, b5, b6, b7; vm_compute; reflexivity.
Qed.

Lemma upper_idem s : upper (upper s) = upper s.
Proof. induction s as [|a r IH]; simpl; [reflexivity|rewrite upper_idem_chr, IH; reflexivity]. Qed.

Lemma http_methods_upper : forallb (fun m => String.eqb (upper m) m) HTTP_METHODS = true.
Proof. vm_compute. reflexivity. Qed.

Lemma norm_methods_some l l' :
  norm_methods (Some l) = Ok (Some l') ->
  forallb (fun m => mem_str m HTTP_METHODS) (map upper l) = true /\
  l' = (if mem_str "GET" (map upper l) then map upper l ++ ["HEAD"] else map upper l).
Proof.
  unfold norm_methods. destruct l as [|x xs]; [discriminate|].
  remember (x :: xs) as l0. clear Heql0.
  destruct (forallb (fun m => mem_str m HTTP_METHODS) (map upper l0)); [|discriminate].
  intros H. inversion H. split; reflexivity.
Qed.

Theorem get_implies_head l l' :
  norm_methods (Some l) = Ok (Some l') -> In "GET" (map upper l) -> admits (Some l') "HEAD" = true /\ admits (Some l') "head" = true.
Proof.
  intros H Hin. apply norm_methods_some in H. destruct H as [_ ->]. apply mem_str_In in Hin. rewrite Hin.
  unfold admits. simpl nonempty. cbv iota.
  split; (apply mem_str_In; apply in_or_app; right; left; reflexivity).
Qed.

Theorem admits_case_insensitive ms meth : admits ms (upper meth) = admits ms meth.
Proof.
  unfold admits. destruct ms as [l|]; [|reflexivity]. rewrite upper_idem.
  destruct meth; reflexivity.
Qed.

Theorem no_methods_admits_all meth : admits None meth = true.
Proof. reflexivity. Qed.

Theorem norm_methods_admits l l' meth :
  norm_methods (Some l) = Ok (Some l') ->
  (admits (Some l') meth = true <->
   meth = "" \/ In (upper meth) (map upper l) \/ (upper meth = "HEAD" /\ In "GET" (map upper l))).
Proof.
  intros H. apply norm_methods_some in H. destruct H as [_ ->]. unfold admits.
  destruct meth as [|a r]; [simpl; tauto|]. cbn [nonempty]. rewrite mem_str_In.
  destruct (mem_str "GET" (map upper l)) eqn:Eg.
  - apply mem_str_In in Eg. rewrite in_app_iff. split.
    + intros [Hl|[Hh|[]]]; [right; left; exact Hl|right; right; split; [symmetry; exact Hh|exact Eg]].
    + intros [Hd|[Hl|[Hh _]]]; [discriminate|left; exact Hl|right; left; symmetry; exact Hh].
  - split.
    + intros Hl. right. left. exact Hl.
    + intros [Hd|[Hl|[_ Hg]]]; [discriminate|exact Hl|]. apply mem_str_In in Hg. congruence.
Qed.

Theorem unknown_method_rejected l :
  (exists m, In m l /\ ~ In (upper m) HTTP_METHODS) -> norm_methods (Some l) = Raise "InvalidMethod".
Proof.
  intros [m [Hm Hn]]. unfold norm_methods. destruct l as [|x xs]; [contradiction|].
  remember (x :: xs) as l0. clear Heql0.
  destruct (forallb (fun m0 => mem_str m0 HTTP_METHODS) (map upper l0)) eqn:E; [|reflexivity].
  exfalso. rewrite forallb_forall in E. apply Hn. apply mem_str_In. apply E. apply in_map. exact Hm.
Qed.

(* ---------------- C08: every request is answered ---------------- *)
Definition raised_by (rs : list droute) (e : string) : Prop :=
  exists r, In r rs /\ (d_out r = XRaise e \/ (d_out r = XNonResp /\ e = "TypeError")).

Lemma stop_escape h meth canon r l i e :
  verdict_of h meth canon r = VStop l -> l i = LEscape e ->
  h = HReraise /\ (d_out r = XRaise e \/ (d_out r = XNonResp /\ e = "TypeError")).
Proof.
  unfold verdict_of.
  destruct (negb (d_match r)); [discriminate|].
  destruct (negb (admits (d_methods r) meth)); [discriminate|].
  assert (Hexec : match d_out r with
          | XResp t => VStop (fun i => LResp i t) | XReroute => VStop (fun i => LReroute i)
          | XHttp c true => VStop (fun i => LHttp i c []) | XHttp c false => VSoft c
          | XNonResp => VStop (fun i => uncaught h i "TypeError") | XRaise e0 => VStop (fun i => uncaught h i e0) end = VStop l ->
          l i = LEscape e -> h = HReraise /\ (d_out r = XRaise e \/ (d_out r = XNonResp /\ e = "TypeError"))).
  { destruct (d_out r) as [t|c b| |e0|]; intros Hv Hl.
    - inversion Hv; subst. discriminate.
    - destruct b; inversion Hv; subst. discriminate.
    - inversion Hv; subst. unfold uncaught in Hl. destruct h; [discriminate|]. inversion Hl; subst. auto.
    - inversion Hv; subst. unfold uncaught in Hl. destruct h; [discriminate|]. inversion Hl; subst. auto.
    - inversion Hv; subst. discriminate. }
  destruct (d_branch r && negb canon); [|exact Hexec].
  destruct (d_mode r); [discriminate| |exact Hexec].
  intros Hv Hl. inversion Hv; subst. discriminate.
Qed.

Lemma loop_escape h meth canon rs : forall i st e,
  loop h meth canon rs i st = LEscape e -> h = HReraise /\ raised_by rs e.
Proof.
  induction rs as [|r rest IH]; intros i st e H.
  - simpl in H. unfold null_out in H. destruct (rev (ds_excs st)) as [|[? ?] ?]; [destruct (ds_allowed st)|]; discriminate.
  - assert (Hrest : forall i' st', loop h meth canon rest i' st' = LEscape e -> h = HReraise /\ raised_by (r :: rest) e).
    { intros i' st' H'. apply IH in H'. destruct H' as [Hh [r' [Hr' Ho]]]. split; [exact Hh|].
      exists r'. split; [right; exact Hr'|exact Ho]. }
    rewrite loop_step in H. destruct (verdict_of h meth canon r) as [| |c|l] eqn:Ev; try (eapply Hrest; eassumption).
    destruct (stop_escape _ _ _ _ _ _ _ Ev H) as [Hh Ho]. split; [exact Hh|].
    exists r. split; [left; reflexivity|exact Ho].
Qed.

Theorem serve_total h nr rs meth path :
  match serve h nr rs meth path with
  | FEscape e => h = HReraise /\ raised_by rs e
  | _ => True
  end.
Proof.
  unfold serve. destruct (loop h meth (canonical path) rs 0 (mk_dstate [] [])) eqn:E; try exact I.
  - unfold render_err. destruct (match nth_error rs src with Some r => d_rerr r | None => nr end); exact I.
  - eapply loop_escape; eauto.
Qed.

Theorem serve_default_never_escapes nr rs meth path e : serve HDefault nr rs meth path <> FEscape e.
Proof.
  intros H. pose proof (serve_total HDefault nr rs meth path) as T. rewrite H in T. destruct T; discriminate.
Qed.

(* an error response always carries the status of the error, whichever renderer ran *)
Theorem render_err_status rs nr src code allow :
  match render_err rs nr src code allow with
  | FErr s c a _ => s = src /\ c = code /\ a = allow
  | FOther s _ => s = src
  | _ => False
  end.
Proof.
  unfold render_err. destruct (match nth_error rs src with Some r => d_rerr r | None => nr end); auto.
Qed.

(* a broken error renderer falls back to the default rendering of the same error *)
Theorem broken_renderer_falls_back rs nr src code allow :
  (match nth_error rs src with Some r => d_rerr r | None => nr end) = RRaises ->
  render_err rs nr src code allow = FErr src code allow true.
Proof. unfold render_err. intros ->. reflexivity. Qed.

(* single-route facts used by C08: what each behaviour of application code becomes *)
Definition one (o : exec_out) (re : rerr) : list droute := [mk_droute true None false SRewrite o re].

Theorem uncaught_is_500 nr re meth path e :
  serve HDefault nr (one (XRaise e) re) meth path = render_err (one (XRaise e) re) nr 0 500%Z [] /\
  serve HDefault nr (one XNonResp re) meth path = render_err (one XNonResp re) nr 0 500%Z [] /\
  serve HReraise nr (one (XRaise e) re) meth path = FEscape e /\
  serve HReraise nr (one XNonResp re) meth path = FEscape "TypeError".
Proof. unfold serve, one. simpl. repeat split; reflexivity. Qed.

Theorem http_own_status h nr re meth path c b :
  serve h nr (one (XHttp c b) re) meth path = render_err (one (XHttp c b) re) nr 0 c [].
Proof. unfold serve, one. simpl. destruct b; reflexivity. Qed.
