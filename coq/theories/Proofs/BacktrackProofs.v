(* The backtracking matcher enumerates exactly the prefixes in the language (Stage A), and on the assembled route
   expression its first successful path assigns to every binding group the tokens the token-level matcher assigns
   (Stage B): the captures of C05 are those of the engine's documented search order. *)
From Coq Require Import List String Ascii Bool Arith Lia.
Import ListNotations.
From ClasticV Require Import Base.Py Base.Strs Base.Rx Gen.RouteLex Model.Pattern Model.Match Model.RouteRx Model.Backtrack
     Proofs.MatchProofs Proofs.RouteRxProofs.
Local Open Scope list_scope.
Local Open Scope string_scope.
Local Open Scope nat_scope.

Lemma length_app (a b : string) : String.length (a ++ b) = String.length a + String.length b.
Proof. induction a as [|c a IH]; simpl; [reflexivity|]. rewrite IH. reflexivity. Qed.

Lemma star_bt_self f n s : In s (star_bt f n s).
Proof. destruct n; simpl; [left; reflexivity|]. apply in_or_app. right. left. reflexivity. Qed.

Lemma star_bt_sound a (IHa : forall s r', In r' (bt a s) -> exists u, s = u ++ r' /\ lang a u) :
  forall n s r', In r' (star_bt (bt a) n s) -> exists u, s = u ++ r' /\ lang (RStar a) u.
Proof.
  induction n as [|n IH]; intros s r' H; simpl in H.
  - destruct H as [<-|[]]. exists "". split; [reflexivity|constructor].
  - apply in_app_or in H. destruct H as [H|[<-|[]]]; [|exists ""; split; [reflexivity|constructor]].
    apply in_flat_map in H. destruct H as [r1 [H1 H2]].
    destruct (String.length r1 <? String.length s); [|destruct H2].
    destruct (IHa _ _ H1) as [u1 [-> L1]]. destruct (IH _ _ H2) as [u2 [-> L2]].
    exists (u1 ++ u2). split; [rewrite append_assoc; reflexivity|]. constructor; assumption.
Qed.

Lemma bt_sound r : forall s r', In r' (bt r s) -> exists u, s = u ++ r' /\ lang r u.
Proof.
  induction r as [| |neg rs|a IHa b IHb|a IHa b IHb|a IHa]; intros s r' H; simpl in H.
  - destruct H.
  - destruct H as [<-|[]]. exists "". split; [reflexivity|constructor].
  - destruct s as [|c t]; [destruct H|]. destruct (cls_ok neg rs c) eqn:E; [|destruct H]. destruct H as [<-|[]].
    exists (String c ""). split; [reflexivity|constructor; exact E].
  - apply in_flat_map in H. destruct H as [r1 [H1 H2]].
    destruct (IHa _ _ H1) as [u1 [-> L1]]. destruct (IHb _ _ H2) as [u2 [-> L2]].
    exists (u1 ++ u2). split; [rewrite append_assoc; reflexivity|]. constructor; assumption.
  - apply in_app_or in H. destruct H as [H|H].
    + destruct (IHa _ _ H) as [u [-> L]]. exists u. split; [reflexivity|apply LAltL; exact L].
    + destruct (IHb _ _ H) as [u [-> L]]. exists u. split; [reflexivity|apply LAltR; exact L].
  - eapply star_bt_sound; eauto.
Qed.

Lemma bt_complete r : star_free_null r = true -> forall u r', lang r u -> In r' (bt r (u ++ r')).
Proof.
  induction r as [| |neg rs|a IHa b IHb|a IHa b IHb|a IHa]; intros Hs u r' L; simpl in Hs.
  - inversion L.
  - inversion L; subst. left. reflexivity.
  - inversion L; subst. simpl. match goal with H : cls_ok _ _ _ = true |- _ => rewrite H end. left. reflexivity.
  - apply andb_prop in Hs. destruct Hs as [Ha Hb]. apply lang_cat in L. destruct L as [u1 [u2 [-> [L1 L2]]]].
    simpl. apply in_flat_map. exists (u2 ++ r'). split; [rewrite append_assoc; apply IHa; assumption|apply IHb; assumption].
  - apply andb_prop in Hs. destruct Hs as [Ha Hb]. simpl. apply in_or_app. apply lang_alt in L.
    destruct L as [L|L]; [left; apply IHa; assumption|right; apply IHb; assumption].
  - apply andb_prop in Hs. destruct Hs as [Hn Ha]. apply negb_true_iff in Hn. apply lang_star in L. destruct L as [l [Hl ->]].
    simpl. generalize (Nat.le_refl (String.length (cat_all l ++ r'))). generalize (String.length (cat_all l ++ r')) at 2 3.
    induction Hl as [|x l Hx Hl IH]; intros n Hn'.
    + simpl. apply star_bt_self.
    + simpl in *. destruct x as [|c x'].
      { apply nullable_lang in Hx. congruence. }
      rewrite append_assoc in *. destruct n as [|n]; [simpl in Hn'; lia|]. cbn [star_bt]. apply in_or_app. left.
      apply in_flat_map. exists (cat_all l ++ r'). split; [apply (IHa Ha); exact Hx|].
      assert (Hlt : String.length (cat_all l ++ r') < String.length (String c x' ++ cat_all l ++ r')).
      { rewrite (length_app (String c x')). simpl. lia. }
      apply Nat.ltb_lt in Hlt. rewrite Hlt. apply IH. apply Nat.ltb_lt in Hlt. simpl in Hn'. rewrite length_app in Hn'. rewrite length_app in Hlt. simpl in Hlt. lia.
Qed.

Theorem bt_spec r : star_free_null r = true -> forall s r',
  In r' (bt r s) <-> exists u, s = u ++ r' /\ lang r u.
Proof.
  intros Hs s r'. split; [apply bt_sound|]. intros [u [-> L]]. apply bt_complete; assumption.
Qed.

(* =====================  Stage B: the engine's first successful path  ===================== *)

(* ---------------- first_some ---------------- *)
Lemma first_some_none {X Y} (f : X -> option Y) l : (forall x, In x l -> f x = None) -> first_some f l = None.
Proof.
  induction l as [|x r IH]; intros H; simpl; [reflexivity|]. rewrite (H x (or_introl eq_refl)). apply IH. intros y Hy. apply H. right. exact Hy.
Qed.

Lemma first_some_app {X Y} (f : X -> option Y) l1 l2 :
  first_some f (l1 ++ l2) = match first_some f l1 with Some p => Some p | None => first_some f l2 end.
Proof. induction l1 as [|x r IH]; simpl; [reflexivity|]. destruct (f x); [reflexivity|exact IH]. Qed.

Lemma first_some_flat_map {X Y Z} (f : X -> option Y) (g : Z -> list X) l :
  first_some f (flat_map g l) =
  match first_some (fun z => first_some f (g z)) l with Some (_, p) => Some p | None => None end.
Proof.
  induction l as [|z r IH]; simpl; [reflexivity|]. rewrite first_some_app. destruct (first_some f (g z)); [reflexivity|exact IH].
Qed.

(* every element fails or is [a]; [a] occurs iff P *)
Lemma first_some_only {X Y} (f : X -> option Y) l a (P : bool) :
  (forall x, In x l -> f x = None \/ x = a) -> (P = true <-> In a l) ->
  first_some f l = if P then match f a with Some y => Some (a, y) | None => None end else None.
Proof.
  intros Hall HP. destruct (f a) as [y|] eqn:Ea.
  - destruct P.
    + assert (Hin : In a l) by (apply HP; reflexivity). clear HP. induction l as [|x r IH]; [destruct Hin|]. simpl.
      destruct (Hall x (or_introl eq_refl)) as [Hx|Hx].
      * rewrite Hx. destruct Hin as [E|Hin]; [subst x; congruence|]. apply IH; [|exact Hin]. intros z Hz. apply Hall. right. exact Hz.
      * subst x. rewrite Ea. reflexivity.
    + apply first_some_none. intros x Hx. destruct (Hall x Hx) as [H|H]; [exact H|]. subst x. apply HP in Hx. discriminate.
  - assert (first_some f l = None).
    { apply first_some_none. intros x Hx. destruct (Hall x Hx) as [H|H]; [exact H|subst x; exact Ea]. }
    rewrite H. destruct P; reflexivity.
Qed.

Lemma no_elements {X} (l : list X) : (forall x, ~ In x l) -> l = [].
Proof. destruct l as [|x r]; [reflexivity|]. intros H. exfalso. apply (H x). left. reflexivity. Qed.

(* ---------------- junk: a remainder inside a segment ---------------- *)
Definition junk (x : string) : Prop := exists c x', x = String c x' /\ c <> "/"%char.
Definition jf {Y} (f : string -> option Y) : Prop := forall x, junk x -> f x = None.

Lemma contains_head c s : str_contains_chr "/" (String c s) = false -> c <> "/"%char.
Proof. simpl. unfold chr_eqb. intros H Hc. subst c. simpl in H. discriminate. Qed.

(* u ++ r' = s ++ rest, u and s without '/', rest empty or starting with '/': u is a prefix of s *)
Lemma prefix_split u : forall s r' rest, u ++ r' = s ++ rest ->
  str_contains_chr "/" u = false -> str_contains_chr "/" s = false -> slash_led rest ->
  exists s', s = u ++ s' /\ r' = s' ++ rest.
Proof.
  induction u as [|c u IH]; intros s r' rest E Hu Hs Hr; simpl in E.
  - exists s. split; [reflexivity|exact E].
  - destruct s as [|d s]; simpl in E.
    + destruct Hr as [->|[y ->]]; [discriminate|]. inversion E; subst c. simpl in Hu. discriminate.
    + inversion E; subst d. simpl in Hu, Hs. apply orb_false_elim in Hu. apply orb_false_elim in Hs.
      destruct (IH s r' rest) as [s' [-> ->]]; try tauto. exists s'. split; reflexivity.
Qed.

Lemma slash_led_slashes n rest : slash_led rest -> slash_led (slashes n ++ rest).
Proof. intros H. destruct n; [exact H|]. right. simpl. eauto. Qed.

Lemma junk_of_suffix s' rest : s' <> "" -> str_contains_chr "/" s' = false -> junk (s' ++ rest).
Proof.
  intros Hne Hs. destruct s' as [|c s'']; [congruence|]. exists c, (s'' ++ rest). split; [reflexivity|]. eapply contains_head; eauto.
Qed.

(* a slash-free, non-nullable lexeme on  s ++ rest : junk remainders, and [rest] iff the whole segment is a lexeme *)
Lemma lex_first {Y} (f : string -> option Y) lex s rest :
  star_free_null lex = true -> avoids "/" lex = true -> nullable lex = false ->
  str_contains_chr "/" s = false -> slash_led rest -> jf f ->
  first_some f (bt lex (s ++ rest)) =
  if rx_match lex s then match f rest with Some y => Some (rest, y) | None => None end else None.
Proof.
  intros Hsf Hav Hnn Hs Hr Hf. apply first_some_only.
  - intros x Hx. apply bt_sound in Hx. destruct Hx as [u [E L]].
    assert (Hu : str_contains_chr "/" u = false) by (eapply avoids_sound; eauto).
    destruct (prefix_split u s x rest (eq_sym E) Hu Hs Hr) as [s' [-> ->]].
    destruct s' as [|c s'']; [right; reflexivity|left]. apply Hf. apply junk_of_suffix; [discriminate|].
    rewrite contains_app in Hs. apply orb_false_elim in Hs. tauto.
  - split.
    + intros H. apply rx_match_lang in H. apply bt_complete; assumption.
    + intros H. apply bt_sound in H. destruct H as [u [E L]].
      assert (Hu : str_contains_chr "/" u = false) by (eapply avoids_sound; eauto).
      destruct (prefix_split u s rest rest (eq_sym E) Hu Hs Hr) as [s' [-> E2]].
      assert (s' = "").
      { destruct s' as [|c s'']; [reflexivity|]. exfalso.
        assert (Hl : String.length rest = String.length (String c s'' ++ rest)) by (rewrite <- E2; reflexivity).
        rewrite length_app in Hl. simpl in Hl. lia. }
      subst s'. rewrite append_nil_r. apply rx_match_lang. exact L.
Qed.

(* on a subject that starts with '/' (or is empty) such a lexeme has no match at all *)
Lemma lex_none lex x : avoids "/" lex = true -> nullable lex = false -> slash_led x -> bt lex x = [].
Proof.
  intros Hav Hnn Hx. apply no_elements. intros r' H. apply bt_sound in H. destruct H as [u [E L]].
  assert (Hu : str_contains_chr "/" u = false) by (eapply avoids_sound; eauto).
  destruct u as [|c u'].
  - apply nullable_lang in L. congruence.
  - destruct Hx as [->|[y ->]]; [discriminate|]. simpl in E. inversion E; subst c. simpl in Hu. discriminate.
Qed.

(* ---------------- the separator ---------------- *)
Definition sepc (m : mmode) (n : nat) : bool := match m with MTolerant => true | MStrict => n =? 1 end.

Lemma sep_star_free m : star_free_null (sep_rx m) = true.
Proof. destruct m; reflexivity. Qed.

Lemma slashes_split n : forall j x rest0, slashes n ++ rest0 = slashes j ++ x ->
  (forall y, rest0 <> String "/" y) -> j <= n /\ x = slashes (n - j) ++ rest0.
Proof.
  induction n as [|n IH]; intros j x rest0 E Hr.
  - destruct j as [|j]; simpl in *; [split; [lia|congruence]|]. exfalso. eapply Hr. exact E.
  - destruct j as [|j]; simpl in *; [split; [lia|congruence]|]. inversion E as [E']. destruct (IH j x rest0 E' Hr). split; [lia|assumption].
Qed.

Lemma sep_first {Y} (F : string -> option Y) m n rest0 :
  1 <= n -> (forall y, rest0 <> String "/" y) -> (forall y, F (String "/" y) = None) ->
  first_some F (bt (sep_rx m) (slashes n ++ rest0)) =
  if sepc m n then match F rest0 with Some y => Some (rest0, y) | None => None end else None.
Proof.
  intros Hn Hr HF. apply first_some_only.
  - intros x Hx. apply bt_sound in Hx. destruct Hx as [u [E L]]. apply lang_sep in L. destruct L as [j [Hj [Hm ->]]].
    destruct (slashes_split n j x rest0 E Hr) as [Hle ->]. destruct (n - j) as [|d] eqn:Ed; [right; reflexivity|left; apply HF].
  - split.
    + intros Hc. replace rest0 with ("" ++ rest0) at 1 by reflexivity.
      rewrite <- (append_nil_r (slashes n)) at 1. rewrite append_assoc. simpl. apply bt_complete; [apply sep_star_free|].
      apply lang_sep. exists n. split; [exact Hn|]. split; [|reflexivity]. intros ->. simpl in Hc. apply Nat.eqb_eq. exact Hc.
    + intros Hin. apply bt_sound in Hin. destruct Hin as [u [E L]]. apply lang_sep in L. destruct L as [j [Hj [Hm ->]]].
      destruct (slashes_split n j rest0 rest0 E Hr) as [Hle E2].
      assert (n - j = 0).
      { destruct (n - j) as [|d]; [reflexivity|]. exfalso.
        assert (Hl : String.length rest0 = String.length (slashes (S d) ++ rest0)) by (rewrite <- E2; reflexivity).
        rewrite length_app in Hl. simpl in Hl. lia. }
      destruct m; simpl; [|reflexivity]. apply Nat.eqb_eq. specialize (Hm eq_refl). lia.
Qed.

Lemma sep_on_junk m x : junk x -> bt (sep_rx m) x = [].
Proof.
  intros [c [x' [-> Hc]]]. apply no_elements. intros r' H. apply bt_sound in H. destruct H as [u [E L]].
  apply lang_sep in L. destruct L as [j [Hj [_ ->]]]. destruct j; [lia|]. simpl in E. inversion E. congruence.
Qed.

Lemma slashes_suffix a : forall u x, slashes a = u ++ x -> slash_led x.
Proof.
  induction a as [|a IH]; intros u x E; simpl in E.
  - destruct u; simpl in E; [left; congruence|discriminate].
  - destruct u as [|c u]; simpl in E; [right; eauto|]. inversion E. eapply IH; eauto.
Qed.

(* ---------------- separator + lexeme (a binding's body, and a literal part) ---------------- *)
Section Lex.
  Variable m : mmode.
  Variable lex : rx.
  Hypothesis Hsf : star_free_null lex = true.
  Hypothesis Hav : avoids "/" lex = true.
  Hypothesis Hnn : nullable lex = false.
  Let XL := RCat (sep_rx m) lex.

  Lemma XL_first {Y} (f : string -> option Y) n s ts tr :
    tok_wf (n, s) -> Forall tok_wf ts -> jf f ->
    first_some f (bt XL (R (((n, s) : token) :: ts) tr)) =
    if sepc m n && rx_match lex s then match f (R ts tr) with Some y => Some (R ts tr, y) | None => None end else None.
  Proof.
    intros [Hn [Hne Hs]] Hwf Hf. simpl in Hn, Hne, Hs. unfold XL. cbn [bt]. rewrite first_some_flat_map.
    unfold R. cbn [render fst snd]. rewrite !append_assoc.
    rewrite (sep_first (fun z => first_some f (bt lex z)) m n (s ++ render ts ++ slashes tr) Hn).
    - destruct (sepc m n); [|reflexivity]. cbn [andb].
      rewrite (lex_first f lex s (render ts ++ slashes tr) Hsf Hav Hnn Hs (slash_led_R ts tr Hwf) Hf).
      destruct (rx_match lex s); [|reflexivity]. fold (R ts tr). destruct (f (R ts tr)); reflexivity.
    - intros y E. destruct s as [|c s']; [discriminate|]. simpl in E. inversion E; subst c. simpl in Hs. discriminate.
    - intros y. rewrite (lex_none lex (String "/" y) Hav Hnn); [reflexivity|right; eauto].
  Qed.

  Lemma XL_on_slashes tr : bt XL (slashes tr) = [].
  Proof.
    unfold XL. cbn [bt]. apply no_elements. intros r' H. apply in_flat_map in H. destruct H as [x [Hx Hr]].
    apply bt_sound in Hx. destruct Hx as [u [E _]]. apply slashes_suffix in E. rewrite (lex_none lex x Hav Hnn E) in Hr. destruct Hr.
  Qed.

  Lemma XL_on_junk x : junk x -> bt XL x = [].
  Proof. intros H. unfold XL. cbn [bt]. rewrite (sep_on_junk m x H). reflexivity. Qed.

  Lemma star_on_junk n x : junk x -> star_bt (bt XL) n x = [x].
  Proof. intros H. destruct n; cbn [star_bt]; [reflexivity|]. rewrite (XL_on_junk x H). reflexivity. Qed.
End Lex.

(* ---------------- a binding group: the remainders worth trying, in the engine's order ---------------- *)
Fixpoint downto (v : nat) : list nat := match v with O => [0] | S v' => S v' :: downto v' end.

Definition after (ts : list token) (tr : nat) (k : nat) : string := R (skipn k ts) tr.

Lemma bind_ok_parts b : bind_ok b = true ->
  star_free_null (b_rx b) = true ->
  avoids "/" (b_rx b) = true /\ nullable (b_rx b) = false.
Proof.
  unfold bind_ok. intros H _. apply andb_prop in H. destruct H as [_ H]. apply andb_prop in H. destruct H as [H Hav]. apply andb_prop in H. destruct H as [_ Hnn].
  apply negb_true_iff in Hnn. auto.
Qed.

Lemma bind_ok_sf b : bind_ok b = true -> star_free_null (b_rx b) = true.
Proof. unfold bind_ok. intros H. apply andb_prop in H. tauto. Qed.

Lemma length_R_cons n s ts tr : 1 <= n -> String.length (R ts tr) < String.length (R (((n, s) : token) :: ts) tr).
Proof.
  intros Hn. unfold R. cbn [render fst snd]. rewrite !append_assoc. rewrite (length_app (slashes n)).
  rewrite (length_app s). destruct n; [lia|]. simpl. lia.
Qed.

Lemma map_after_cons t ts tr v :
  map (after (t :: ts) tr) (downto (S v)) = (map (after ts tr) (downto v) ++ [R (t :: ts) tr])%list.
Proof.
  induction v as [|v IH]; [reflexivity|].
  change (downto (S (S v))) with (S (S v) :: downto (S v)). cbn [map]. rewrite IH. reflexivity.
Qed.

Section Bind.
  Variable m : mmode.
  Variable b : binding.
  Hypothesis Hb : bind_ok b = true.
  Hypothesis Hsf : star_free_null (b_rx b) = true.
  Let Hav : avoids "/" (b_rx b) = true := proj1 (bind_ok_parts b Hb Hsf).
  Let Hnn : nullable (b_rx b) = false := proj2 (bind_ok_parts b Hb Hsf).

  Lemma star_first {Y} (f : string -> option Y) tr : jf f -> forall ts, Forall tok_wf ts -> strict_ok m ts ->
    forall n, String.length (R ts tr) <= n ->
    first_some f (star_bt (bt (X m b)) n (R ts tr)) = first_some f (map (after ts tr) (downto (valid_prefix b ts))).
  Proof.
    intros Hf. induction ts as [|[n0 s] ts' IH]; intros Hwf Hst n Hn.
    - cbn [valid_prefix downto map after skipn]. destruct n; cbn [star_bt]; [reflexivity|].
      change (R [] tr) with (slashes tr). unfold X. rewrite (XL_on_slashes m (b_rx b) Hav Hnn tr). reflexivity.
    - inversion Hwf as [|? ? Ht Hwf']; subst.
      assert (Hst' : strict_ok m ts') by (intros E; specialize (Hst E); inversion Hst; assumption).
      assert (Hsep : sepc m n0 = true).
      { destruct m; [|reflexivity]. specialize (Hst eq_refl). inversion Hst; subst. simpl in *. apply Nat.eqb_eq. assumption. }
      pose proof (length_R_cons n0 s ts' tr (proj1 Ht)) as Hlt.
      destruct n as [|n']; [exfalso; pose proof (Nat.lt_le_trans _ _ _ Hlt Hn) as Hc; inversion Hc|]. cbn [star_bt]. rewrite first_some_app, first_some_flat_map.
      unfold X.
      rewrite (XL_first m (b_rx b) Hsf Hav Hnn _ n0 s ts' tr Ht Hwf').
      + rewrite Hsep. cbn [andb valid_prefix]. unfold seg_ok. cbn [snd].
        destruct (rx_match (b_rx b) s) eqn:Es.
        * match goal with |- context [?a <? ?c] => replace (a <? c) with true by (symmetry; apply Nat.ltb_lt; exact Hlt) end.
          fold (X m b). rewrite (IH Hwf' Hst' n') by (apply Nat.lt_succ_r; exact (Nat.lt_le_trans _ _ _ Hlt Hn)).
          rewrite map_after_cons, first_some_app.
          destruct (first_some f (map (after ts' tr) (downto (valid_prefix b ts')))) as [[x y]|]; reflexivity.
        * reflexivity.
      + intros x Hx. destruct (String.length x <? _); [|reflexivity].
        rewrite (star_on_junk m (b_rx b) n' x Hx). simpl. rewrite (Hf x Hx). reflexivity.
  Qed.
End Bind.

Definition klist (b : binding) (ts : list token) : list nat :=
  filter (fun k => op_min b <=? k) (downto (kmax_of b ts)).

Lemma downto_S v : downto (S v) = S v :: downto v.
Proof. reflexivity. Qed.

Lemma map_after_filter1 (t : token) ts tr v :
  map (after (t :: ts) tr) (filter (fun k => 1 <=? k) (downto (S v))) = map (after ts tr) (downto v).
Proof.
  induction v as [|v IH]; [reflexivity|].
  change (downto (S (S v))) with (S (S v) :: downto (S v)). cbn [filter].
  change (1 <=? S (S v)) with true. cbv iota. cbn [map]. rewrite IH. reflexivity.
Qed.

Lemma filter_all_true {A} (l : list A) : filter (fun _ => true) l = l.
Proof. induction l as [|x r IH]; simpl; [reflexivity|]. rewrite IH. reflexivity. Qed.

Section Bind2.
  Variable m : mmode.
  Variable b : binding.
  Hypothesis Hb : bind_ok b = true.
  Hypothesis Hsf : star_free_null (b_rx b) = true.
  Let Hav : avoids "/" (b_rx b) = true := proj1 (bind_ok_parts b Hb Hsf).
  Let Hnn : nullable (b_rx b) = false := proj2 (bind_ok_parts b Hb Hsf).

  Lemma X_first {Y} (f : string -> option Y) n s ts tr :
    tok_wf (n, s) -> Forall tok_wf ts -> strict_ok m (((n, s) : token) :: ts) -> jf f ->
    first_some f (bt (X m b) (R (((n, s) : token) :: ts) tr)) =
    if seg_ok b (n, s) then match f (R ts tr) with Some y => Some (R ts tr, y) | None => None end else None.
  Proof.
    intros Ht Hwf Hst Hf. unfold X. rewrite (XL_first m (b_rx b) Hsf Hav Hnn f n s ts tr Ht Hwf Hf).
    assert (Hsep : sepc m n = true).
    { destruct m; [|reflexivity]. specialize (Hst eq_refl). inversion Hst; subst. simpl in *. apply Nat.eqb_eq. assumption. }
    rewrite Hsep. reflexivity.
  Qed.

  Lemma bind_first {Y} (f : string -> option Y) tr : jf f -> forall ts, Forall tok_wf ts -> strict_ok m ts ->
    first_some f (bt (bind_rx m b) (R ts tr)) = first_some f (map (after ts tr) (klist b ts)).
  Proof.
    intros Hf ts Hwf Hst. unfold bind_rx, arity_rx, klist, kmax_of, op_min, op_unbounded. fold (X m b).
    assert (Hstar : forall ts0, Forall tok_wf ts0 -> strict_ok m ts0 ->
              first_some f (bt (RStar (X m b)) (R ts0 tr)) = first_some f (map (after ts0 tr) (downto (valid_prefix b ts0)))).
    { intros ts0 H1 H2. cbn [bt]. apply (star_first m b Hb Hsf f tr Hf ts0 H1 H2). apply Nat.le_refl. }
    destruct (opstr_cases b Hb) as [E|[E|[E|E]]]; rewrite E; cbn [String.eqb Ascii.eqb Bool.eqb orb andb].
    - (* exactly one segment *)
      destruct ts as [|[n s] ts'].
      + change (R [] tr) with (slashes tr). unfold X. rewrite (XL_on_slashes m (b_rx b) Hav Hnn tr). reflexivity.
      + inversion Hwf as [|? ? Ht Hwf']; subst. rewrite (X_first f n s ts' tr Ht Hwf' Hst Hf). cbn [valid_prefix].
        destruct (seg_ok b (n, s)); [|reflexivity].
        replace (Nat.min 1 (S (valid_prefix b ts'))) with 1 by (destruct (valid_prefix b ts'); reflexivity).
        cbn [downto filter Nat.leb map first_some]. unfold after. cbn [skipn]. destruct (f (R ts' tr)); reflexivity.
    - (* zero or one, the segment first *)
      cbn [bt]. rewrite first_some_app. destruct ts as [|[n s] ts'].
      + change (R [] tr) with (slashes tr). unfold X. rewrite (XL_on_slashes m (b_rx b) Hav Hnn tr). reflexivity.
      + inversion Hwf as [|? ? Ht Hwf']; subst. rewrite (X_first f n s ts' tr Ht Hwf' Hst Hf). cbn [valid_prefix].
        destruct (seg_ok b (n, s)).
        * replace (Nat.min 1 (S (valid_prefix b ts'))) with 1 by (destruct (valid_prefix b ts'); reflexivity).
          cbn [downto filter Nat.leb map first_some]. unfold after. cbn [skipn]. destruct (f (R ts' tr)); reflexivity.
        * reflexivity.
    - (* any number, as many as possible first *)
      rewrite (Hstar ts Hwf Hst). f_equal. f_equal. symmetry. apply filter_all_true.
    - (* one or more *)
      unfold RPlus. change (bt (RCat (X m b) (RStar (X m b))) (R ts tr)) with (flat_map (bt (RStar (X m b))) (bt (X m b) (R ts tr))).
      rewrite first_some_flat_map. destruct ts as [|[n s] ts'].
      + change (R [] tr) with (slashes tr). unfold X. rewrite (XL_on_slashes m (b_rx b) Hav Hnn tr). reflexivity.
      + inversion Hwf as [|? ? Ht Hwf']; subst.
        assert (Hst' : strict_ok m ts') by (intros E'; specialize (Hst E'); inversion Hst; assumption).
        rewrite (X_first (fun z => first_some f (bt (RStar (X m b)) z)) n s ts' tr Ht Hwf' Hst).
        * cbn [valid_prefix]. destruct (seg_ok b (n, s)); [|reflexivity].
          rewrite (Hstar ts' Hwf' Hst').
          rewrite map_after_filter1.
          destruct (first_some f (map (after ts' tr) (downto (valid_prefix b ts')))) as [[x y]|]; reflexivity.
        * intros x Hx. cbn [bt]. unfold X. rewrite (star_on_junk m (b_rx b) _ x Hx). simpl. rewrite (Hf x Hx). reflexivity.
  Qed.
End Bind2.

(* ---------------- literal parts ---------------- *)
Lemma lit_sf s : star_free_null (lit_rx s) = true.
Proof. induction s as [|c r IH]; simpl; [reflexivity|exact IH]. Qed.

Lemma lit_nn s : nonempty s = true -> nullable (lit_rx s) = false.
Proof. destruct s; [discriminate|reflexivity]. Qed.

Lemma lit_avoids s : all_chr is_lit_chr s = true -> avoids "/" (lit_rx s) = true.
Proof.
  induction s as [|c r IH]; cbn [lit_rx avoids all_chr]; [reflexivity|]. intros H. apply andb_prop in H. destruct H as [Hc Hr].
  rewrite (IH Hr), andb_true_r.
  destruct (cls_ok false [(nat_of_ascii c, nat_of_ascii c)] "/") eqn:E; [|reflexivity]. exfalso.
  apply cls_single in E. apply (f_equal ascii_of_nat) in E. rewrite !ascii_nat_embedding in E. subst c. vm_compute in Hc. discriminate.
Qed.

Lemma lit_match s0 s : rx_match (lit_rx s0) s = String.eqb s s0.
Proof.
  destruct (String.eqb s s0) eqn:E.
  - apply String.eqb_eq in E. subst. apply rx_match_lang. apply lang_lit. reflexivity.
  - destruct (rx_match (lit_rx s0) s) eqn:E2; [|reflexivity]. apply rx_match_lang in E2. apply lang_lit in E2. subst.
    rewrite String.eqb_refl in E. discriminate.
Qed.

(* ---------------- the groups of a route expression ---------------- *)
Definition elem_rx (m : mmode) (e : elem) : rx :=
  match e with ELit s => RCat (sep_rx m) (lit_rx s) | EBind b => bind_rx m b end.

Definition groups (m : mmode) (p : pat) : list rx := (map (elem_rx m) (p_elems p) ++ [tail_rx m p])%list.

Fixpoint spans (tr : nat) (es : list elem) (ts : list token) (caps : list capture) : list (string * string) :=
  match es with
  | [] => [(R ts tr, "")]
  | ELit _ :: r => (R ts tr, R (tl ts) tr) :: spans tr r (tl ts) caps
  | EBind _ :: r =>
      match caps with
      | (_, l) :: caps' => (R ts tr, R (skipn (List.length l) ts) tr) :: spans tr r (skipn (List.length l) ts) caps'
      | [] => []
      end
  end.

Definition starts_ok (g : rx) : Prop := forall u, lang g u -> u = "" \/ exists u', u = String "/" u'.

Lemma mg_jf gs : Forall starts_ok gs -> jf (match_groups gs).
Proof.
  induction 1 as [|g r Hg Hr IH]; intros x Hx.
  - destruct Hx as [c [x' [-> _]]]. reflexivity.
  - cbn [match_groups]. rewrite first_some_none; [reflexivity|]. intros r' Hin. apply bt_sound in Hin. destruct Hin as [u [E L]].
    destruct (Hg u L) as [->|[u' ->]].
    + simpl in E. subst r'. apply IH. exact Hx.
    + destruct Hx as [c [x' [-> Hc]]]. simpl in E. inversion E. congruence.
Qed.

Lemma starts_sep_then m r : starts_ok (RCat (sep_rx m) r).
Proof.
  intros u L. apply lang_cat in L. destruct L as [u1 [u2 [-> [L1 _]]]]. apply lang_sep in L1. destruct L1 as [n [Hn [_ ->]]].
  destruct n; [lia|]. right. simpl. eauto.
Qed.

Lemma starts_bind m b : bind_ok b = true -> starts_ok (bind_rx m b).
Proof.
  intros Hb u L. destruct (bind_inv m b u Hb L) as [l [-> [Hwf _]]]. destruct l as [|[n s] l']; [left; reflexivity|].
  inversion Hwf as [|? ? [Hn _] _]; subst. simpl in Hn. destruct n; [lia|]. right. simpl. eauto.
Qed.

Lemma starts_tail m p : starts_ok (tail_rx m p).
Proof.
  intros u L. destruct m; simpl in L.
  - destruct (p_trailing p); [apply lang_slash in L; subst; right; eauto|apply lang_eps in L; left; exact L].
  - apply lang_star_slash in L. destruct L as [[|n] ->]; [left; reflexivity|right; simpl; eauto].
Qed.

Lemma groups_start m es t : forallb elem_ok es = true -> starts_ok t -> Forall starts_ok (map (elem_rx m) es ++ [t])%list.
Proof.
  intros Hok Ht. apply Forall_app. split; [|constructor; [exact Ht|constructor]].
  apply Forall_forall. intros g Hg. apply in_map_iff in Hg. destruct Hg as [e [<- He]].
  rewrite forallb_forall in Hok. specialize (Hok e He). destruct e as [s|b]; [apply starts_sep_then|apply starts_bind; exact Hok].
Qed.

(* ---------------- the tail ---------------- *)
Definition tail_cond (m : mmode) (p : pat) (tr : nat) : Prop := m = MStrict -> tr = if p_trailing p then 1 else 0.

Lemma tail_sf m p : star_free_null (tail_rx m p) = true.
Proof. destruct m; simpl; [destruct (p_trailing p); reflexivity|reflexivity]. Qed.

Lemma slashes_not_token k n s ts tr : tok_wf (n, s) -> slashes k <> R (((n, s) : token) :: ts) tr.
Proof.
  intros [_ [Hne Hs]] E. simpl in Hne, Hs. unfold R in E. cbn [render fst snd] in E. rewrite !append_assoc in E.
  apply slashes_suffix in E. destruct s as [|c s']; [discriminate|]. destruct E as [E|[y E]]; [discriminate|].
  simpl in E. inversion E; subst c. simpl in Hs. discriminate.
Qed.

Lemma tail_first m p ts tr : Forall tok_wf ts -> tail_cond m p tr ->
  match_groups [tail_rx m p] (R ts tr) = match ts with [] => Some [(R ts tr, "")] | _ => None end.
Proof.
  intros Hwf Hc.
  change (match_groups [tail_rx m p] (R ts tr)) with
    (match first_some (match_groups []) (bt (tail_rx m p) (R ts tr)) with
     | Some (s', sp) => Some ((R ts tr, s') :: sp) | None => None end).
  rewrite (first_some_only (match_groups []) (bt (tail_rx m p) (R ts tr)) "" (match ts with [] => true | _ => false end)).
  - destruct ts; reflexivity.
  - intros x _. destruct x; [right; reflexivity|left; reflexivity].
  - split.
    + intros H. destruct ts; [|discriminate]. change (R [] tr) with (slashes tr).
      rewrite <- (append_nil_r (slashes tr)). apply bt_complete; [apply tail_sf|].
      destruct m; simpl.
      * rewrite (Hc eq_refl). destruct (p_trailing p); [apply lang_slash; reflexivity|apply lang_eps; reflexivity].
      * apply lang_star_slash. eauto.
    + intros H. apply bt_sound in H. destruct H as [u [E L]]. rewrite append_nil_r in E. subst u.
      destruct ts as [|[n s] ts']; [reflexivity|]. exfalso. inversion Hwf as [|? ? Ht _]; subst.
      assert (Hk : exists k, R ((n, s) :: ts') tr = slashes k).
      { destruct m; simpl in L.
        - destruct (p_trailing p); [apply lang_slash in L; exists 1; exact L|apply lang_eps in L; exists 0; exact L].
        - apply lang_star_slash in L. exact L. }
      destruct Hk as [k Hk]. symmetry in Hk. eapply slashes_not_token; eauto.
Qed.

(* ---------------- the list of candidates and try_down ---------------- *)
Lemma klist_first_some {Y} (mg : string -> option Y) (A : nat -> string) kmin : forall k0 j y,
  j <= k0 -> kmin <= j -> mg (A j) = Some y ->
  (forall j', j < j' -> j' <= k0 -> kmin <= j' -> mg (A j') = None) ->
  first_some mg (map A (filter (fun k => kmin <=? k) (downto k0))) = Some (A j, y).
Proof.
  induction k0 as [|k0 IH]; intros j y Hj Hm Hy Hn.
  - assert (j = 0) by lia. subst j. cbn [downto filter]. apply Nat.leb_le in Hm. rewrite Hm. simpl. rewrite Hy. reflexivity.
  - rewrite downto_S. cbn [filter]. destruct (kmin <=? S k0) eqn:E.
    + cbn [map first_some]. destruct (Nat.eq_dec j (S k0)) as [->|Hne].
      * rewrite Hy. reflexivity.
      * apply Nat.leb_le in E. rewrite (Hn (S k0)) by lia. apply (IH j y); [lia|exact Hm|exact Hy|intros j' H1 H2 H3; apply Hn; lia].
    + apply Nat.leb_gt in E. apply (IH j y); [lia|exact Hm|exact Hy|intros j' H1 H2 H3; apply Hn; lia].
Qed.

Lemma klist_first_none {Y} (mg : string -> option Y) (A : nat -> string) kmin : forall k0,
  (forall j, j <= k0 -> kmin <= j -> mg (A j) = None) ->
  first_some mg (map A (filter (fun k => kmin <=? k) (downto k0))) = None.
Proof.
  intros k0 H. apply first_some_none. intros x Hx. apply in_map_iff in Hx. destruct Hx as [j [<- Hj]].
  apply filter_In in Hj. destruct Hj as [Hj Hm]. apply Nat.leb_le in Hm. apply H; [|exact Hm].
  clear - Hj. induction k0 as [|k0 IH]; simpl in Hj; [destruct Hj as [<-|[]]; lia|]. destruct Hj as [<-|Hj]; [lia|]. specialize (IH Hj). lia.
Qed.

Lemma try_down_none k kmin b ts cont : try_down k kmin b ts cont = None ->
  forall j, j <= k -> kmin <= j -> cont (skipn j ts) = None.
Proof.
  induction k as [|k IH]; cbn [try_down]; intros H j Hj Hm.
  - assert (j = 0) by lia. subst j. apply Nat.leb_le in Hm. rewrite Hm in H. destruct (cont (skipn 0 ts)); [discriminate|reflexivity].
  - destruct (kmin <=? S k) eqn:E.
    + destruct (cont (skipn (S k) ts)) eqn:Ec; [discriminate|]. destruct (Nat.eq_dec j (S k)) as [->|Hne]; [exact Ec|]. apply IH; [exact H|lia|exact Hm].
    + apply Nat.leb_gt in E. apply IH; [exact H|lia|exact Hm].
Qed.

(* ---------------- the theorem ---------------- *)
Theorem engine_first_path m p tr : pat_ok p = true -> tail_cond m p tr ->
  forall es, forallb elem_ok es = true -> forall ts, Forall tok_wf ts -> strict_ok m ts ->
  match_groups (map (elem_rx m) es ++ [tail_rx m p])%list (R ts tr) =
  match gmatch es ts with Some caps => Some (spans tr es ts caps) | None => None end.
Proof.
  intros _ Hc. induction es as [|e r IH]; intros Hok ts Hwf Hst.
  - cbn [map app]. rewrite (tail_first m p ts tr Hwf Hc). destruct ts; reflexivity.
  - cbn [forallb] in Hok. apply andb_prop in Hok. destruct Hok as [He Hok].
    pose proof (mg_jf _ (groups_start m r (tail_rx m p) Hok (starts_tail m p))) as Hjf.
    cbn [map app match_groups]. destruct e as [s0|b].
    + (* a literal part *)
      cbn [elem_ok] in He. apply andb_prop in He. destruct He as [Hne Hlit]. cbn [elem_rx gmatch].
      destruct ts as [|[n s] t].
      * change (R [] tr) with (slashes tr). rewrite (XL_on_slashes m (lit_rx s0) (lit_avoids s0 Hlit) (lit_nn s0 Hne) tr). reflexivity.
      * inversion Hwf as [|? ? Ht Hwf']; subst.
        assert (Hst' : strict_ok m t) by (intros E'; specialize (Hst E'); inversion Hst; assumption).
        assert (Hsep : sepc m n = true).
        { destruct m; [|reflexivity]. specialize (Hst eq_refl). inversion Hst; subst. simpl in *. apply Nat.eqb_eq. assumption. }
        rewrite (XL_first m (lit_rx s0) (lit_sf s0) (lit_avoids s0 Hlit) (lit_nn s0 Hne) _ n s t tr Ht Hwf' Hjf).
        rewrite Hsep, lit_match. cbn [andb]. destruct (String.eqb s s0); [|reflexivity].
        rewrite (IH Hok t Hwf' Hst'). destruct (gmatch r t); reflexivity.
    + (* a binding group *)
      cbn [elem_ok] in He. cbn [elem_rx gmatch]. fold (kmax_of b ts).
      rewrite (bind_first m b He (bind_ok_sf b He) _ tr Hjf ts Hwf Hst). unfold klist.
      destruct (try_down (kmax_of b ts) (op_min b) b ts (gmatch r)) as [res|] eqn:Et.
      * apply try_down_spec in Et. destruct Et as [j [caps [Hj [Hm [Hcj [-> Hn]]]]]].
        assert (Hlen : j <= List.length ts) by (apply (proj1 (kmax_ok b ts j) (conj Hj Hm))).
        rewrite (klist_first_some _ (after ts tr) (op_min b) (kmax_of b ts) j (spans tr r (skipn j ts) caps) Hj Hm).
        -- cbn [spans]. rewrite (firstn_length_le ts Hlen). reflexivity.
        -- unfold after. rewrite (IH Hok (skipn j ts) (Forall_skipn _ j ts Hwf)); [rewrite Hcj; reflexivity|].
           intros E'. apply Forall_skipn. apply Hst. exact E'.
        -- intros j' H1 H2 H3. unfold after. rewrite (IH Hok (skipn j' ts) (Forall_skipn _ j' ts Hwf)); [rewrite (Hn j' H1 H2 H3); reflexivity|].
           intros E'. apply Forall_skipn. apply Hst. exact E'.
      * rewrite klist_first_none; [reflexivity|]. intros j Hj Hm. unfold after.
        rewrite (IH Hok (skipn j ts) (Forall_skipn _ j ts Hwf)); [rewrite (try_down_none _ _ _ _ _ Et j Hj Hm); reflexivity|].
        intros E'. apply Forall_skipn. apply Hst. exact E'.
Qed.

(* ---------------- composed with tokenise / mode_ok, and the no-match side ---------------- *)
Lemma first_some_in {X Y} (f : X -> option Y) l x y : first_some f l = Some (x, y) -> In x l /\ f x = Some y.
Proof.
  induction l as [|a r IH]; simpl; [discriminate|]. destruct (f a) eqn:E.
  - intros H. inversion H; subst. split; [left; reflexivity|exact E].
  - intros H. destruct (IH H). split; [right; assumption|assumption].
Qed.

Lemma mg_cons g r s : match_groups (g :: r) s =
  match first_some (match_groups r) (bt g s) with Some (s', sp) => Some ((s, s') :: sp) | None => None end.
Proof. reflexivity. Qed.

Lemma match_groups_lang m t es : forall s sp,
  match_groups (map (elem_rx m) es ++ [t])%list s = Some sp -> lang (RCat (elems_rx m es) t) s.
Proof.
  induction es as [|e r IH]; intros s sp H.
  - cbn [map app] in H. rewrite mg_cons in H. destruct (first_some (match_groups []) (bt t s)) as [[r' y]|] eqn:E; [|discriminate].
    apply first_some_in in E. destruct E as [Hin Hy]. destruct r'; [|simpl in Hy; discriminate]. apply bt_sound in Hin. destruct Hin as [u [-> L]].
    rewrite append_nil_r. change u with ("" ++ u). constructor; [constructor|exact L].
  - cbn [map app] in H. rewrite mg_cons in H.
    destruct (first_some (match_groups (map (elem_rx m) r ++ [t])%list) (bt (elem_rx m e) s)) as [[r' y]|] eqn:E; [|discriminate].
    apply first_some_in in E. destruct E as [Hin Hy]. apply IH in Hy. apply bt_sound in Hin. destruct Hin as [u [-> L]].
    apply lang_cat in Hy. destruct Hy as [x1 [x2 [-> [L1 L2]]]]. rewrite <- append_assoc. constructor; [|exact L2].
    destruct e as [s0|b]; cbn [elems_rx elem_rx] in *; constructor; assumption.
Qed.

Theorem engine_captures s p m path : parse_pattern s = Ok p ->
  match_groups (groups m p) path =
  match tokenise path with
  | Some (ts, tr) =>
      if mode_ok m p ts tr then
        match gmatch (p_elems p) ts with Some caps => Some (spans tr (p_elems p) ts caps) | None => None end
      else None
  | None => None
  end.
Proof.
  intros Hp. pose proof (parse_pat_ok s p Hp) as Hok.
  assert (Hnone : accepts m p path = false -> match_groups (groups m p) path = None).
  { intros Ha. destruct (match_groups (groups m p) path) as [sp|] eqn:E; [|reflexivity]. exfalso.
    unfold groups in E. apply match_groups_lang in E. fold (route_rx m p) in E. apply (route_rx_language m p path Hok) in E. congruence. }
  unfold accepts in Hnone. destruct (tokenise path) as [[ts tr]|] eqn:Et; [|apply Hnone; reflexivity].
  destruct (mode_ok m p ts tr) eqn:Em; [|apply Hnone; reflexivity].
  destruct (tokenise_inv path ts tr Et) as [-> Hwf]. unfold groups. apply engine_first_path; try assumption.
  - intros ->. simpl in Em. apply andb_prop in Em. destruct Em as [_ Em]. apply Nat.eqb_eq in Em. exact Em.
  - intros ->. simpl in Em. apply andb_prop in Em. destruct Em as [Em _]. rewrite forallb_forall in Em.
    apply Forall_forall. intros t Ht. apply Nat.eqb_eq. apply Em. exact Ht.
Qed.
