#!/bin/sh
# usage: tools/multiseed.sh "<seeds>" [tier] [props...]  -- runs every claimed check under several seeds, prints one line per run
cd "$(dirname "$0")/.." || exit 2
SEEDS="${1:-1 2 3}"; TIER="${2:-quick}"; shift; shift
PROPS="$*"
[ -z "$PROPS" ] && PROPS=$(python3 -c "import json;print(' '.join(c['property_id'] for c in json.load(open('MANIFEST.json'))['checks']))")
./setup.sh >/dev/null 2>&1
for s in $SEEDS; do for p in $PROPS; do
  out=$(VERIF_SEED=$s ./check $p --tier $TIER 2>/dev/null | grep -E "^\[C|VIOLATION" | tr '\n' ' ')
  echo "seed=$s $out"
done; done
