#!/bin/sh
# runs every claimed check in the thorough tier, one line per property
cd "$(dirname "$0")/.." || exit 2
./setup.sh >/dev/null 2>&1
for p in $(python3 -c "import json;print(' '.join(c['property_id'] for c in json.load(open('MANIFEST.json'))['checks']))"); do
  s=$(date +%s)
  out=$(./check $p --tier thorough 2>/dev/null | grep -E "^\[C|VIOLATION|coqchk" | tr '\n' ' ')
  echo "$p $(( $(date +%s) - s ))s $out"
done
