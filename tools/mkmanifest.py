#!/venv/bin/python
"""Regenerates MANIFEST.json from the table below (kept valid at all times)."""
import json
import os

ROOT = os.path.dirname(os.path.dirname(os.path.abspath(__file__)))
props = [json.loads(l) for l in open(os.path.join(ROOT, 'properties.jsonl'))]

COMMON_NOTE = ('Trusted base: Coq 8.16.1 kernel (vm_compute in some proofs, no native_compute), no axioms '
               '(every theorem "Closed under the global context" unless the evidence names one), the fail-closed '
               'Python-ast translator, ExtrOcamlBasic-only extraction + ocaml/driver.ml, the correspondence harness. ')

CHAIN_NOTE = ('The functions the chain model transcribes by hand are pinned statement by statement (Gen/ChainShape.v, reflexivity obligation). Modelled not verified: signature extraction by boltons FunctionBuilder (the harness functions have real '
              'signatures and record what they receive), CPython keyword-call semantics (sig_accepts), user middlewares '
              'calling next() with their declared provides; set iteration order (quantified by hash seeds in the thorough tier). ')

DISPATCH_NOTE = ('Application.dispatch, _dispatch_wsgi, DispatchState and BoundRoute.match_path/match_method/execute are pinned statement by statement (Gen/DispatchShape.v, reflexivity obligation). Modelled not verified: werkzeug Request/Response/redirect, ExceptionInfo.from_current, the '
                 'Accept negotiation inside render_error; whether a pattern matches is an input of the dispatch model '
                 '(C05 decides it; every table is additionally routed by the composed pattern+match+dispatch model, tag dispatchfull, and both must agree); what executing a route yields is abstracted to an outcome (Model/Exec supplies it). ')

WORLD_NOTE = ('Application.__init__/add, SubApplication, Route and BoundRoute.__init__/bind are pinned statement by statement (Gen/WorldShape.v, Gen/ChainShape.v, reflexivity obligation). Modelled not verified: the dependency check inside BoundRoute.__init__ is reduced in the World model to '
              '"every needed name has a source" (C01 decides it in full on Model/Chain.v); render functions, factories, '
              'handlers and resource values are identities (numbers); aliasing inside the implementation (shared lists) is '
              'not expressible in the model and is exactly what the per-operation snapshots/probes of every live '
              'application and of every Route object look for. ')

CLAIMED = {
 'C12': dict(
   text=('PARTIAL. Theorems (Props/C12.v) over Model/Conc.v (any number of threads, each a finite sequence of atomic steps; the '
         'application frozen; the only step touching shared state is the fetch-and-increment of the request counter): for EVERY '
         'schedule each thread computes exactly what it computes alone (its state depends on how often it was scheduled, never on '
         'the interleaving or on other threads) and the identifiers handed out are pairwise distinct. What licenses this step shape '
         'for the code is the obligation C12_footprint_local on the write footprint REGENERATED from the request path of the source '
         '(every assignment / augmented assignment / del / mutating call / global declaration of 19 functions, classified by the '
         'root of its target; the counter is an itertools.count fetched once per request). Search/correspondence side: a '
         'deterministic scheduler (sys.settrace line events inside clastic/ and the generated chain code) runs request pairs '
         'under every single-preemption schedule, seeded multi-preemption schedules and free-running stress against one '
         'application; responses must equal the solo runs, ids must be unique; a violation is reported with the schedule as replay.'),
   note=COMMON_NOTE + 'Cannot be exhibited by the model: thread switches inside C code and third-party Python (werkzeug Request '
        'laziness), the atomicity of itertools.count.__next__ (assumed, GIL), aliasing of a per-request object with a shared one (the '
        'footprint classifies by syntactic root; the scheduler runs look for it dynamically), thread-safety of user middlewares.',
   technique='Coq proof (schedule-indexed invariants over an interleaving semantics) + translator-generated write footprint as proof obligation + deterministic-scheduler search for failing interleavings',
   design='6/C12'),
 'C13': dict(
   text=('PARTIAL. Theorems (Props/C13.v) over Model/Wsgi.v: in the wrapper stack built by Application.__init__ every middleware '
         'type contributes its WSGI wrapper at most once, and the application-level middlewares come first in list order (first '
         'outermost) with route-/embedded-level ones after them; a protocol monitor for one request (start_response exactly once, '
         'well-formed status and headers, before any non-empty chunk, only bytes, nothing but empty chunks for HEAD, closed last) '
         'is proved SOUND AND COMPLETE w.r.t. the declarative reading (C13_monitor_exact: it accepts exactly the conforming traces). That every trace the implementation can produce is accepted is NOT a '
         'theorem (werkzeug produces the events): every observed trace of 18 response kinds x 4 methods x header sets is decided by '
         'the extracted proved monitor (run-time verification), files opened under clastic.static must be closed after close(), '
         'wsgiref.validate runs on every kind, wrapper orders of random application trees are compared with the model, and '
         'RerouteWSGI (as endpoint and raised) to five target answers that a re-serialising relay would rewrite: environ identity, intact '
         'entries and exact relay of status, header list and body.'),
   note=COMMON_NOTE + 'Modelled not verified: werkzeug BaseResponse.__call__ / FileWrapper / get_app_iter; the bound routes\' middleware '
        'lists are inputs of the stack model (C03/C10 decide them); wsgiref.validate\'s objection to a Content-Type header on 304/204 is '
        'recorded in the evidence, not counted (neither PEP 3333 nor the property demands it).',
   technique='Coq proof (list lemmas on the wrapper collection; soundness of a protocol monitor by invariant over event folds) + run-time verification of observed traces by the extracted proved monitor + differential check of wrapper stacks',
   design='6/C13'),
 'C18': dict(
   text=('Theorems (Props/C18.v) over Model/Meta.v (get_resource_info with repr as a section variable): two hosts whose resources '
         'differ only in the VALUES of secret-named entries produce the same resource listing (noninterference, any number of '
         'resources, any value type); a secret-named resource is listed with the marker, any other with its truncated repr. The '
         'source inventory is REGENERATED from meta.py / cookie.py on every run and pinned: the substring and that it is tested '
         'against the key, the marker, the truncation constants, the loop of get_resource_info, every function of meta.py that reads '
         '.resources or .secret_key (none reads secret_key), the attributes SignedCookieMiddleware.__repr__ prints (no key), the '
         'per-peripheral try/except of both passes, the template references that bypass escaping. Tie: translator + pairs of real '
         'hosts that differ only in secret values and signing keys, meta mounted at prefixes and embedded up to two levels deep; '
         'HTML and JSON views: no secret token, markers present, visible resources shown, identical application sections, 200 even '
         'when a peripheral fails (value whose repr raises).'),
   note=COMMON_NOTE + "Modelled not verified: Python's repr (section variable), ashes rendering of the section templates, the process/"
        'host/rusage peripherals (not compared: they vary between runs), glom. The all-pages-render clause is pinned structurally (try/except '
        'shape) and exercised, not proved.',
   technique='Coq proof (noninterference of the resource listing by induction over the resource list) + translator-pinned source inventory + two-run noninterference differential check',
   design='6/C18'),
 'C17': dict(
   text=('Theorems (Props/C17.v) over Model/Render.v (branch structure of BasicRender.render_response / _serialize_to_resp / '
         '_guess_json and ClasticJSONEncoder.default over a universe of Python values of any nesting depth): render_basic yields a '
         'response for every value and every request whose format parameter is absent, json or html, whatever the negotiation '
         'yields; text/bytes: serialized JSON object/array => application/json, an HTML document in the first 168 bytes => '
         'text/html, otherwise text/plain, sent unchanged; mappings and sequences => JSON, or the table when HTML is asked for; '
         'unsized values => str() as text/plain; the encoder passes JSON-native data through unchanged and in dev mode never '
         'raises (unknown objects degrade to repr). Tie: generated values through real routes with render_basic, render_json, '
         'render_json_dev, streaming JSON, JSONP; Content-Type and parsed bodies compared with the extracted model; JSON-native '
         'data must parse back to the original value.'),
   note=COMMON_NOTE + 'Modelled not verified: stdlib json (number/string formatting; premise: emits valid JSON that round-trips native '
        'data), boltons Table/TabularRender (premise O10: builds a table for tabular shapes), werkzeug Accept negotiation (best_match '
        'is an input of the model), dict key handling beyond string keys, circular structures.',
   technique='Coq proof (nested structural induction over the value universe: totality of the dev-mode encoder, identity on JSON-native data, case analysis of the renderer) + extracted-model differential check',
   design='6/C17'),
 'C09': dict(
   text=('Theorems (Props/C09.v): every exported error class carries the standard status code of its name (class table '
         'REGENERATED from errors.py, checked against an RFC table inside Coq); html_escape output contains no angle bracket or '
         'quote; str.format never re-scans inserted values, so fields without markup characters cannot change the markup '
         'skeleton of a page; for to_html (TRANSLATED from errors.py into a Gallina function) and the XML template the '
         'sequence of markup-significant characters depends only on which optional lines are present, never on field contents; '
         'body builder and Content-Type are selected by the same key of the regenerated MIME_SUPPORT_MAP, plain text otherwise; '
         'escaping loses nothing: decoding the five character references returns exactly the original text (unescape_escape); '
         'no variable reference of the debug templates (inventory regenerated from _contextual_errors.py) disables escaping; the '
         'escaping calls of to_escaped_dict are pinned. Tie: translator + every HTTPException subclass x overrides x nasty '
         'strings x 16 Accept headers x default/debug handlers; HTML/XML bodies compared byte-for-byte with the translated '
         'functions, bodies parsed with json / minidom / an HTML tokenizer.'),
   note=COMMON_NOTE + 'Modelled not verified: html.escape (transcribed as esc_chr), str.format (fmt), werkzeug Accept negotiation '
        '(best_match is an input of the model; the oracle checks acceptability with an independent RFC 7231 reading), stdlib json, ashes '
        '(premise: references are escaped unless filter s). The integer code is assumed to print as digits (premise of C09_escaped_fields_clean).',
   technique='Coq proof (skeleton invariance of format/escape by induction over templates; finite table checks by vm_compute on regenerated tables) + translator (class table, templates, to_html as Gallina) + extracted-model differential check',
   design='6/C09'),
 'C20': dict(
   text=('Theorems (Props/C20.v) over Model/Flaw.v (the page template as a node list REGENERATED from _FLAW_TEMPLATE, rendered '
         'under the ashes discipline incl. its else-less-section rule): for every error text and every monitored-file list the '
         'page contains the HTML-escaped text and the HTML-escaped name of every file (visible and hidden lists); if the last '
         'line is "Type: message" the page contains the escaped type and the escaped message; inserted values contain no '
         'markup-significant character; SKELETON INDEPENDENCE: the markup skeleton of the whole page is a function of the shape of the '
         'failure alone (parsed or not, lengths of the file lists) for ANY texts and any template (induction over template nodes); '
         'the bare excepts around traceback parsing and last-line extraction, the catch-all '
         'route and the absence of unescaped references are pinned from the source. Tie: translator + real tracebacks (15 '
         'failing statements x depths 1-5, truncated, concatenated), SyntaxError reports, None, bytes, hostile and random '
         'texts x file lists (incl. files under the stdlib/werkzeug/clastic directories) x paths x methods; the page is compared '
         'byte-for-byte with the extracted model.'),
   note=COMMON_NOTE + 'Modelled not verified: ashes (rendering discipline is a premise; validated byte-for-byte here), str.splitlines '
        '(LF/CR/CRLF modelled; other separators oracle-only), _filter_site_files (re-stated in the harness), non-text error values '
        '(None, bytes) are oracle-only: 200 is demanded, containment is not meaningful.',
   technique='Coq proof (containment lemmas over a template interpreter, escape distributes over append) + translator (template nodes, exception-handling shape) + extracted-model differential check',
   design='6/C20'),
 'C16': dict(
   text=('Theorems (Props/C16.v) over Model/Cookie.v (JSONCookie.unserialize -> SecureCookie.unserialize step by step over the '
         'parsed wire form; the middleware\'s load / provide / stamp / save with modification tracking), HMAC/base64/JSON as '
         'section variables with explicit premises (tag equality is equality, decode(encode v) = v, SYMBOLIC unforgeability: a '
         'tag determines key and items): what the server serialized comes back as stored - whole, or without the stamp if '
         'unexpired, empty after expiry; a non-empty cookie implies a well-formed string whose tag is the MAC under the server key '
         'of exactly the received items; a tag made with another key or over other items, a missing separator, an undecodable tag, '
         'a non-ASCII key, an item without "=" all yield the empty cookie; with numeric expiry the next request is presented '
         'exactly what the application stored, nothing once the stamp has passed; HISTORIES: by induction over whole client '
         'histories (requests with any operations sparing the reserved key, clocks in any order, any tampering steps with anything '
         'the server did not sign, all three expiry settings) the contents given to the endpoint at every request equal those of a '
         'plain dictionary with a forget-after time (history_refines_dict; run_history is extracted and compared too). Totality rests on the catch-all handlers '
         'REGENERATED from cookie.py and pinned by a reflexivity obligation. Tie: request histories with patched clocks and 20 '
         'tampering kinds against the real middleware; contents, status and Set-Cookie compared with the extracted model and with '
         'an independent re-statement that recomputes HMAC-SHA1 and, for honest clients, tracks what the application stored (history oracle); '
         'operations include JSONCookie.set_expires.'),
   note=COMMON_NOTE + 'Modelled not verified: secure_cookie (its unserialize is transcribed; the lexical splitting of the cookie string '
        'is re-stated in the harness), HMAC-SHA1 (computational unforgeability is a premise, symbolic in the theorems), constant-time '
        'comparison, base64 leniency (a string that still verifies presents the genuinely signed contents), werkzeug cookie parsing.',
   technique='Coq proof (case analysis of the unserialize pipeline and assoc-list lemmas under symbolic-crypto premises) + translator-pinned exception handling + extracted-model differential check on tampered histories',
   design='6/C16'),
 'C15': dict(
   text=('Theorems (Props/C15.v) over Model/Mw.v (each built-in middleware\'s request function as a transformer of the inner '
         'outcome; zlib a section variable with the premise decompress(compress x) = x): gzip, HTTP cache (no matching client '
         'validator), stats, profiler without trigger, signed cookie, context processor, GET/POST parameter extractors and '
         'script root leave status and decoded body unchanged for every inner outcome (Response, streamed, already encoded, '
         'HTTPException without the Response mixins, raised exception); any stack of them is transparent; when gzip encodes, '
         'Content-Length is the number of bytes sent, Vary names Accept-Encoding and the client accepted gzip; a client that does '
         'not accept gzip gets the body unchanged. The decision structure of the request functions (early-return conditions and '
         'effects of gzip, the hasattr guard of the cache middleware, the try/except/finally shape of stats, the profiler trigger '
         'test) is REGENERATED from the sources and pinned by reflexivity obligations. Tie: with/without differential runs over a '
         'scenario application incl. stacks; every gzip body is actually decompressed; the gzip decision vs the extracted model.'),
   note=COMMON_NOTE + 'Modelled not verified: zlib (premise), werkzeug Accept-Encoding parsing / user-agent detection / ETag and '
        'make_conditional, boltons gzip_bytes; a 500 page quotes the traceback (frames differ with middlewares installed): only its '
        'status is compared; client validators are not sent.',
   technique='Coq proof (case analysis of the middleware transformers under a lossless-compression premise; induction over stacks) + translator-pinned decision structure + with/without differential check',
   design='6/C15'),
 'C14': dict(
   text=('Theorems (Props/C14.v) over a Gallina transcription of os.path.normpath (POSIX), find_file and the decision '
         'structure of build_file_response/get_file_response with an oracle answering (or failing) every filesystem call: '
         'normpath of any string is a run of ".." (none if absolute) followed by ordinary components; for EVERY request path a '
         'disclosed file is root/rel with rel made of ordinary components only (so, symlink-free, inside that root); a path whose '
         'normal form is absolute or begins with ".." is refused; every regular file at root_i/rel is found at rel, first root '
         'winning; whatever the filesystem answers the outcome is 200/304/non-breaking 403/404 - this last theorem is about the '
         'guard table REGENERATED from static.py (which calls sit in a try block yielding a non-breaking Forbidden, the 304 '
         'comparison, the order of find_file\'s steps); 200 only with the selected file; conditional => 304. Tie: translator + '
         'generated directory trees served directly / under prefixes / by overlapping applications with injected OS errors, '
         'bodies compared byte-for-byte.'),
   note=COMMON_NOTE + 'Modelled not verified: the kernel filesystem (symlink-free tree assumed, isfile never raises), os.path.normpath '
        '(C implementation in 3.12; the Gallina transcription is compared on every request path), mimetypes, werkzeug FileWrapper/'
        'Response/conditional-date parsing; Windows colon rule outside the model.',
   technique='Coq proof (stack invariant of normpath, string lemmas for confinement/completeness, case analysis over fault oracles on a guard table generated from the source) + translator + extracted-model differential check with fault injection',
   design='6/C14'),
 'C10': dict(
   text=('Theorems (Props/C10.v) over Model/World.v (application trees of any depth; bind_entry = Application.add / '
         'SubApplication.bind_all / BoundRoute.__init__ on routes and on already bound routes): a re-bound route has the '
         'prefixed pattern, the outer slash mode unless opted out, the outer error handling, merged middlewares and the inner '
         'resources laid over the outer ones; over three levels the middleware list is the outer list, then a subsequence of '
         'the embedded application\'s, then a subsequence of the route\'s; at request time the serving application\'s '
         'resource value wins and every other name keeps the inner value; entries are bound independently, so routes outside '
         'an embedding are bound exactly as without it. Tie: (1) every bound-route field (pattern, mode, middleware instances, '
         'resources, resolved renderer incl. render-factory stickiness and rebind_render, handler, bound_apps) of every live '
         'application after every operation of random histories equals the extracted model; (2) the property\'s own oracle: '
         'the nested application answers every probe request exactly like an independently flattened declaration.'),
   note=COMMON_NOTE + WORLD_NOTE,
   technique='Coq proof (list/assoc-list lemmas over the binding model: merge order, resource precedence, independence of entries) + extracted-model differential check + nested-vs-flat differential oracle',
   design='6/C10'),
 'C11': dict(
   text=('Theorems (Props/C11.v): the insert loop of add() (index resolved once, insert, index += 1) equals ONE contiguous '
         'splice for every index (None, in range, out of range, negative) and every number of new routes; a failing '
         'constructor/add/embed - whichever route of whichever embedded application fails - leaves the whole world unchanged; '
         'an operation changes at most its target application; embedding A in B never writes A and inserts EVERY route of A, in '
         'its order, as one contiguous block (C11_embed_refines_table). Tie: random histories of '
         'construct / add / embed / failing entries with one Route object bound into several applications; after EVERY '
         'operation every live application (bound-route snapshots and probe responses) and every Route object is compared '
         'with the model and with the frame/atomicity/splice oracles, with a fresh declaration of its routing table (the table is '
         'what answers) and with what the application was constructed with (never changes); non-termination of an operation is reported with the '
         'history as replay.'),
   note=COMMON_NOTE + WORLD_NOTE,
   technique='Coq proof (arithmetic/list proof that the insert loop is a splice; case analysis for atomicity and frame over the world-step function) + extracted-model differential check on operation histories',
   design='6/C11'),
 'C07': dict(
   text=('Theorems (Props/C07.v): normalize_path AS TRANSLATED from route.py is idempotent, keeps exactly the non-empty '
         'segments in order and its branch form is canonical (so the redirect target never redirects again); url_quote(path, '
         "safe='/') round-trips for every byte string (all 256 bytes checked inside Coq, lifted by induction) and emits no "
         "'?'/'#'; the Location splits at its first '?' into the encoded canonical path (decoding to exactly it) and the "
         'encoded query; URL-legal query strings pass through unchanged; in the dispatch model a redirect is issued only by a '
         'branch route in redirect mode that matches and admits the method, for a non-canonical path; the route matches the '
         'target with the same bindings (C05, partial F3). Tie: translator (normalize_path; a reshaped function fails closed and '
         'triggers the search) + real applications (flat / route-level mode / embedded with and without slash inheritance), '
         'every Location compared with the model string and followed by a second raw request.'),
   note=COMMON_NOTE + DISPATCH_NOTE + 'werkzeug url_quote/redirect/iri_to_uri are modelled (quote_with), not verified; the slash-mode '
        'inheritance rule is restated in the harness (effective_mode) until C10\'s World model carries it.',
   technique='Coq proof (string lemmas over the translated normalize_path, byte-exhaustive percent-encoding round trip lifted by induction, case analysis of the dispatch model) + translator + extracted-model differential check with followed redirects',
   design='6/C07'),
 'C05': dict(
   text=('Theorems (Props/C05.v): the token-level matcher (Model/Match.v) is sound, complete and greedy w.r.t. a declarative '
         'assignment of path segments to pattern elements (literal = equal segment; binding = 1 / 0-1 / 0+ / 1+ segments in '
         'the lexeme class of its type, the class being the regular language of the regex REGENERATED from route.py, decided '
         'by a derivative matcher proved correct); captures partition the segments; shapes of converted values; strict mode '
         'demands exactly the pattern\'s slashes; in tolerant modes a route matches a path exactly as it matches '
         'normalize_path(path) (function TRANSLATED from route.py) with the same bindings - partial: no slash run inside the '
         'span of a */+ binding (known finding F3, witness C05_tolerant_slashes_refuted); sign-space integers do not convert; '
         'leading-slash/double-slash/duplicate/unknown-type/unknown-operator patterns are InvalidPattern and accepted patterns '
         'have none of these defects; operator tables regenerated and proved consistent with the regex quantifiers. '
         'The regular expression _compile_path_pattern assembles is itself in the model (Model/RouteRx.route_rx, compared as a '
         'tree with Python\'s own parse of BoundRoute.regex.pattern on every run): C05_regex_language - for every accepted '
         'pattern, both slash modes and every path, it matches the whole path iff the segments can be assigned to the elements; '
         'C05_engine_captures - the first successful path of a backtracking engine (Model/Backtrack.v, proved to enumerate '
         'exactly the language) gives every binding group the tokens of the token-level matcher; C05_int_failures_exact - '
         'on the regenerated int lexeme int() fails exactly for sign-space and > 4300 digits; C05_match_path_end_to_end - '
         'BoundRoute.match_path as the code spells it (engine on the assembled expression, then build_converter\'s own string '
         'operations on each group\'s text) IS the model\'s match_path, for every accepted pattern, mode and path; the statement '
         'skeletons of _compile_path_pattern, build_converter and match_path are regenerated and pinned (C05_route_shape). Tie: '
         'translator + regex-tree comparison + exhaustive differential run: every string of length <= 4 (5 thorough) over an 11-symbol alphabet x '
         'several hundred patterns x 3 slash modes against BoundRoute.match_path (values and types).'),
   note=COMMON_NOTE + 'Modelled not verified: that Python\'s re IS a backtracking engine with the search order of Model/Backtrack.v and that '
        're._parser reads a pattern as the engine does (what such an engine does on the assembled expression is proved, DESIGN.md 19; the '
        'exhaustive comparison on short paths and long random paths checks the residue), int()/float()/str() builtins, \\d restricted to ASCII digits, BINDING regex modelled for the quantifier\'s grammar only.',
   technique='Coq proof (soundness/completeness/greediness of the matcher vs a declarative assignment relation; regex derivative correctness; language of the assembled route expression; first successful path of a backtracking engine; string lemmas tying tokenise to the translated normalize_path) + translator + regex-tree correspondence + exhaustive small-scope differential check',
   design='6/C05, 19'),
 'C06': dict(
   text=('Theorems (Props/C06.v) over a Gallina transcription of Application.dispatch / DispatchState / the catch-all '
         'route / Route.__init__ method normalisation / match_method: for every routing table of any length, method, '
         'handler kind: the accumulator loop equals a declarative spec; the first route in list order that matches, '
         'admits the method and does not fail softly answers; no match => 404; matched-but-not-admitted => 405 whose '
         'Allow is exactly the union of the methods of the path-matching routes; otherwise the most recent non-breaking '
         'error; GET implies HEAD, method comparison case-insensitive, no methods admits all, unknown method => '
         'InvalidMethod; HTTP_METHODS (regenerated from route.py) is the standard nine; COMPOSED WITH C05 '
         '(C06_first_answerer_from_patterns): with the match bits computed from the declared patterns by the pattern model, the '
         'answering route is the first whose verdict stops, its pattern is assigned the path\'s segments and it admits the method. Tie: translator (tables, '
         'normalize_path) + differential run of the extracted model against real applications (tables built by '
         'constructor and by add(entry, index) sequences, request sequences, header markers).'),
   note=COMMON_NOTE + DISPATCH_NOTE,
   technique='Coq proof (refinement of the dispatch loop to a declarative specification by induction over the routing table) + translator-generated tables + extracted-model differential check',
   design='6/C06'),
 'C08': dict(
   text=('Theorems (Props/C08.v) over the same dispatch model extended with uncaught_to_response and the execute_error / '
         'default_render_error fallback: for every routing table, every behaviour of every route (Response, '
         'HTTPException raised/returned, breaking or not, non-Response, any exception, reroute), every error renderer '
         '(adapts / raises / returns something else / not callable), method and path, serve yields a response unless the '
         'handler re-raises, and then what escapes is an exception some route raised (TypeError for a non-Response); '
         'uncaught => 500; an HTTPException keeps its own status; a failing renderer falls back to the default rendering of '
         'the same error. The model has no state, so statelessness of the implementation is the correspondence: request '
         'sequences (failing and succeeding, 7 handler kinds, 7 Accept headers, unprintable/huge/non-ASCII exception '
         'arguments) against ONE application object must match the per-request prediction.'),
   note=COMMON_NOTE + DISPATCH_NOTE,
   technique='Coq proof (case analysis + induction over the routing table on the dispatch/error-handling model) + extracted-model differential check on request histories',
   design='6/C08'),
 'C01': dict(
   text=('Theorems (Props/C01.v) over a Gallina transcription of chain_argspec/make_chain/build_chain_str/'
         'make_middleware_chain/check_middlewares/cycle test/Application.__init__ and a definitional interpreter of the '
         'generated code: for every route configuration (any number of middlewares, any signatures) outside C04 rejections '
         'and clastic\'s cycle test, construction succeeds iff the declarative availability table resolves every required '
         'parameter, every failure is NameError; an accepted plan never produces a missing/unexpected/unbound argument under '
         'any script assignment and any injected environment (partial: positional-only parameters excluded = known finding F2, '
         'witnessed by C01_posonly_refuted); the same for an application embedded under a prefix in an outer one '
         '(C01_nested_accept, C01_nested_no_arg_error_partial over Chain.build_nested). Tie: reserved/builtin tables and the control-flow '
         'skeletons of the transcribed functions regenerated from the source + differential run '
         'of the extracted model against real Applications built from generated configurations.'),
   note=COMMON_NOTE + CHAIN_NOTE, technique='Coq proof (refinement of the bind-time check to a declarative spec; induction over chains) + translator-generated tables + extracted-model differential check',
   design='6/C01'),
 'C02': dict(
   text=('Theorems (Props/C02.v): in every accepted plan the keyword list of every generated call is exactly the declared '
         'parameters that a source offers at that position (URL/built-ins/resources, request provides for later phases, '
         'context only in render, provides of earlier middlewares of the same chain), sources of an accepted route are '
         'pairwise distinct (no shadowing). VALUES (C02_value_is_source): for every accepted route, every script assignment and every '
         'function entered during a request, each keyword it is passed carries exactly the value of that name\'s one source - next, '
         'the context the endpoint returned, URL value, built-in, resource, or what the providing middleware function handed to next() '
         '(proved from the NoDup of sources by a counting argument; C02_sources characterises the source table). The implementation is observed with '
         'distinct sentinel objects checked by identity, positional and keyword next() calls, list-valued URL bindings '
         'mutated between requests, two requests per route; applications embedded under a prefix with URL bindings in an outer '
         'application (Chain.build_nested), a POST-only decoy route in front binding a resource name from the URL, wrappers '
         'around already bound functions.'),
   note=COMMON_NOTE + CHAIN_NOTE, technique='Coq proof (exact keyword sets of the call plan, NoDup of sources) + extracted-model differential check on sentinel values',
   design='6/C02'),
 'C03': dict(
   text=('Theorems (Props/C03.v): every trace of every plan under every script assignment is well bracketed; functions are '
         'entered in list order and a layer that does not call next cuts off everything inside; merge_middlewares puts the '
         'outer list first, keeps the inner order, keeps a unique type once at its outermost position and fails (ValueError) '
         'only for a unique non-reorderable duplicate; THE ONION (C03_trace_is_onion): for every accepted route (no positional-only '
         'parameters) the trace of a request IS the inductively defined onion over the request functions around process_request, '
         'whose own trace is the endpoint onion followed - iff the endpoint side produced a non-Response value '
         '(C03_render_skipped_iff) - by the render onion; each Leave carries the layer\'s script applied to exactly what its next() '
         'produced (C03_transparent_next), a layer that does not call next cuts off a suffix (C03_short_circuit). Tie: exact equality of enter/leave traces between the extracted '
         'interpreter and real applications with scripted middlewares (raise before/after, early Response, swallow, replace) '
         'at application, embedded-application (three-level merge) and route level.'),
   note=COMMON_NOTE + CHAIN_NOTE, technique='Coq proof (trace invariants by induction over the chain; list lemmas on merge) + extracted-model differential check on traces',
   design='6/C03'),
 'C04': dict(
   text=('Theorems (Props/C04.v): RESERVED_ARGS as regenerated from route.py is the documented six names; any name offered '
         'twice (URL, reserved built-ins, resources, any provides tuple, counted as a multiset) => construction fails '
         '(NameError once the middleware shapes are fine); Ok => sources NoDup; reserved application resource => NameError; '
         'middleware function without next first => rejected; next in endpoint/render => NameError; no accepted route has a '
         'request/endpoint-phase function requiring context; embedded placement: the URL bindings of the prefix, the resources of all '
         'levels and every provides tuple of the flat list are pairwise distinct, a prefix binding that is also a resource / reserved '
         'name / route binding is rejected (C04_nested_sources_distinct, C04_nested_prefix_conflict_rejected). Tie: one generated stream per defect kind (27 kinds incl. conflicts '
         'between the URL bindings of an embedding prefix and inner resources / provides / built-ins, '
         'instance-level functions and one middleware offering a name in two phases) mixed into valid configurations.'),
   note=COMMON_NOTE + CHAIN_NOTE, technique='Coq proof (has_dup/NoDup characterisation of check_middlewares, case analysis of make_middleware_chain) + translator-generated tables + extracted-model differential check',
   design='6/C04'),
 'C19': dict(
   text=('Theorems (Props/C19.v) over Reservoir.add/resize as REGENERATED from clastic/middleware/stats.py on every run: '
         'for every capacity >= 0, every add/resize history of any length and every result of the random generator: never '
         'raises, len <= cap, total_count exact, membership, fills to min(cap,total); and over a hand model of '
         'StatsMiddleware.request/reset: for every request history each route\'s counts sum to the requests that reached '
         'it since the last reset, each under exactly its own status key. Tie: translator (reservoir) + differential '
         'run of the extracted model against the real Reservoir / a 12-route scenario application after every step.'),
   note=COMMON_NOTE + 'Modelled not verified: StatsMiddleware.request try/except/finally (hand model, tied by correspondence), '
        'fast_randint assumed to return a value in [start, stop], cap=False (float inf) outside the model, dispatch '
        'semantics of which routes a request reaches (harness scenario table; C06).',
   technique='Coq proof by induction over operation histories of functions translated from the source + extracted-model differential check',
   design='6/C19'),
}


def main():
    checks = []
    for p in props:
        pid = p['id']
        if pid not in CLAIMED:
            continue
        c = CLAIMED[pid]
        checks.append({
            'property_id': pid,
            'quick_cmd': './check %s --tier quick' % pid,
            'thorough_cmd': './check %s --tier thorough' % pid,
            'evidence_file': 'evidence/%s.json' % pid,
            'replay_cmd_template': './check %s --replay {path}' % pid,
            'engine': 'coq-model',
            'level_claimed': {'category': 'proof', 'text': c['text'], 'design_ref': 'DESIGN.md section ' + c['design']},
            'level_note': c['note'],
            'technique': c['technique'],
        })
    m = {
        'version': 1,
        'setup_cmd': './setup.sh',
        'hooks': {'guard': 'CLASTIC_VERIF',
                  'enable': 'no source hooks exist: every observation is made from outside (harness-supplied '
                            'middlewares/endpoints, recording start_response, monkeypatched module attributes, '
                            'sys.settrace); checks export CLASTIC_VERIF=1 for uniformity',
                  'baseline_off_cmd': 'cd /repo && /venv/bin/python -m pytest -ra -q -p no:cacheprovider --timeout=900 '
                                      '--continue-on-collection-errors',
                  'source_commits': [], 'add_only': True},
        'engines': [
            {'name': 'coq-model', 'path': 'coq/', 'serves_properties': sorted(CLAIMED),
             'kind_free_text': 'Coq 8.16 development: Gen/ regenerated from /repo by translator/, Model/ executable '
                               'Gallina, Proofs/, Props/Cnn.v property theorems each followed by Print Assumptions'},
            {'name': 'correspondence', 'path': 'harness/', 'serves_properties': sorted(CLAIMED),
             'kind_free_text': 'differential run of the extracted model (ocaml/driver) against the implementation, '
                               'plus direct oracles used only to search for a failing input'}],
        'checks': checks,
        'notes': 'See DESIGN.md. Every claimed property is decided by theorems about a model that is regenerated '
                 'from, or checked against, the current source on every run; known_findings.json lists repaired and '
                 'recorded defects.',
        'not_applicable': [{'property_id': p['id'],
                            'reason': 'not claimed yet: the model/theorems of DESIGN.md section 6 for this property '
                                      'are not built in this round (no other technique substituted)'}
                           for p in props if p['id'] not in CLAIMED],
    }
    json.dump(m, open(os.path.join(ROOT, 'MANIFEST.json'), 'w'), indent=1)
    print('claimed:', sorted(CLAIMED))


if __name__ == '__main__':
    main()
