#!/venv/bin/python
"""Confirm a seeded breaking change and run the property's check against it.

usage: tools/seed.py confirm <Cnn> <k>      (validates /tmp/seedwork/Cnn/out/k in the scratch worktree,
                                             copies it to /verif/seeded/Cnn-k/)
       tools/seed.py detect <Cnn-k> [tier] [prop ...]  (applies seeded/Cnn-k/patch.diff to /repo, runs ./check, reverts)
"""
import json
import os
import shutil
import subprocess
import sys
import time

ROOT = os.path.dirname(os.path.dirname(os.path.abspath(__file__)))
PY = '/venv/bin/python'


def sh(cmd, cwd=None, env=None, timeout=3000):
    p = subprocess.run(cmd, shell=True, cwd=cwd, env=env, stdout=subprocess.PIPE, stderr=subprocess.STDOUT, timeout=timeout)
    return p.returncode, p.stdout.decode('utf8', 'replace')


def confirm(prop, k, outdir='out', name=None):
    src = '/tmp/seedwork/%s/%s/%s' % (prop, outdir, k)
    wt = '/tmp/seedwork/%s/wt' % prop
    env = dict(os.environ, PYTHONPATH=wt, PYTHONDONTWRITEBYTECODE='1')
    sh('git checkout -- . && git clean -fdq', cwd=wt)
    ran = []
    rc0, out0 = sh('%s %s/demo.py' % (PY, src), cwd=wt, env=env, timeout=600)
    ran.append('clean tree: demo.py exit %d' % rc0)
    rc, out = sh('git apply %s/patch.diff' % src, cwd=wt)
    if rc != 0:
        print('patch does not apply:', out)
        return False
    rct, outt = sh('%s -m pytest -q -p no:cacheprovider --timeout=900 clastic 2>&1 | tail -3' % PY, cwd=wt, env=env)
    ran.append('patched tree: test suite: %s' % outt.strip().split('\n')[-1])
    rc1, out1 = sh('%s %s/demo.py' % (PY, src), cwd=wt, env=env, timeout=600)
    ran.append('patched tree: demo.py exit %d' % rc1)
    sh('git checkout -- . && git clean -fdq', cwd=wt)
    ok = rc0 == 0 and rc1 != 0 and ' passed' in outt and 'failed' not in outt and 'error' not in outt.lower()
    print('\n'.join(ran))
    if not ok:
        print('NOT CONFIRMED', out0[-500:], out1[-500:], outt[-500:])
        return False
    dst = os.path.join(ROOT, 'seeded', '%s-%s' % (prop, name or k))
    os.makedirs(dst, exist_ok=True)
    for f in ('patch.diff', 'demo.py', 'notes.md'):
        if os.path.exists(os.path.join(src, f)):
            shutil.copy(os.path.join(src, f), os.path.join(dst, f))
    notes = open(os.path.join(src, 'notes.md')).read() if os.path.exists(os.path.join(src, 'notes.md')) else ''
    meta = {'property': prop, 'origin': 'independent sub-agent given only the property text and a scratch worktree',
            'needs_to_manifest': notes.strip()[:1500],
            'confirmed': ran, 'demo_failure_output': out1[-600:], 'detected_by': {}}
    json.dump(meta, open(os.path.join(dst, 'meta.json'), 'w'), indent=1)
    print('CONFIRMED ->', dst)
    return True


def detect(name, tier='quick', props=None):
    d = os.path.join(ROOT, 'seeded', name)
    meta = json.load(open(os.path.join(d, 'meta.json')))
    props = props or [meta['property']]
    rc, out = sh('git -C /repo status --porcelain')
    if out.strip():
        print('/repo is not clean, refusing')
        return
    ev_backup = os.path.join(ROOT, 'build', 'evidence.backup')
    shutil.rmtree(ev_backup, ignore_errors=True)
    shutil.copytree(os.path.join(ROOT, 'evidence'), ev_backup)
    rc, out = sh('git -C /repo apply %s/patch.diff' % d)
    if rc != 0:
        print('patch does not apply to /repo:', out)
        return
    try:
        for p in props:
            t0 = time.time()
            rc, out = sh('./check %s --tier %s' % (p, tier), cwd=ROOT, timeout=7200)
            vio = [l for l in out.split('\n') if l.startswith('VIOLATION')]
            res = {'exit': rc, 'violation_line': vio[0] if vio else None, 'wall_s': round(time.time() - t0, 1)}
            if vio and 'replay=' in vio[0]:
                rp = vio[0].split('replay=')[1].split()[0]
                try:
                    res['what'] = json.load(open(rp)).get('what') or json.load(open(rp)).get('no_longer_checks')
                except Exception:
                    pass
            meta['detected_by']['%s/%s' % (p, tier)] = res
            # keep the failing input as a corpus case of that property: it runs first on every later run
            if vio and 'replay=' in vio[0]:
                try:
                    rj = json.load(open(vio[0].split('replay=')[1].split()[0]))
                    if isinstance(rj.get('case'), (dict, list)):
                        cdir = os.path.join(ROOT, 'corpus', p)
                        os.makedirs(cdir, exist_ok=True)
                        json.dump({'case': rj['case'], 'origin': 'failing input found for seeded change %s' % name},
                                  open(os.path.join(cdir, 'seed-%s.json' % name), 'w'))
                except Exception as e:
                    print('corpus capture failed:', e)
            print(name, p, tier, '->', 'DETECTED' if rc == 1 and vio else 'MISSED', json.dumps(res)[:600])
    finally:
        sh('git -C /repo checkout -- .')
        # evidence/replays written during this run describe the mutated tree: restore
        shutil.rmtree(os.path.join(ROOT, 'evidence'), ignore_errors=True)
        shutil.copytree(ev_backup, os.path.join(ROOT, 'evidence'))
    json.dump(meta, open(os.path.join(d, 'meta.json'), 'w'), indent=1)


if __name__ == '__main__':
    if sys.argv[1] == 'confirm':
        # confirm <Cnn> <k> [outdir] [name]   e.g. confirm C05 1 out2 3  -> seeded/C05-3
        sys.exit(0 if confirm(*sys.argv[2:6]) else 1)
    elif sys.argv[1] == 'detect':
        detect(sys.argv[2], sys.argv[3] if len(sys.argv) > 3 else 'quick', sys.argv[4:] or None)
