(* Line protocol: "<tag> <sexp>\n" in, "<sexp>\n" out.  The only trusted
   conversions are OCaml string <-> extracted Coq string and the s-expression
   reader/printer below. *)

let ascii_of_char (c : char) : Model.ascii =
  let n = Char.code c in
  let b i = (n lsr i) land 1 = 1 in
  Model.Ascii (b 0, b 1, b 2, b 3, b 4, b 5, b 6, b 7)

let char_of_ascii (a : Model.ascii) : char =
  match a with
  | Model.Ascii (b0, b1, b2, b3, b4, b5, b6, b7) ->
    let v b i = if b then 1 lsl i else 0 in
    Char.chr (v b0 0 + v b1 1 + v b2 2 + v b3 3 + v b4 4 + v b5 5 + v b6 6 + v b7 7)

let coq_of_string (s : string) : Model.string =
  let r = ref Model.EmptyString in
  for i = String.length s - 1 downto 0 do
    r := Model.String (ascii_of_char s.[i], !r)
  done;
  !r

let buf_add_coq (b : Buffer.t) (s : Model.string) : unit =
  let rec go s = match s with
    | Model.EmptyString -> ()
    | Model.String (a, r) -> Buffer.add_char b (char_of_ascii a); go r in
  go s

let string_of_coq (s : Model.string) : string =
  let b = Buffer.create 16 in buf_add_coq b s; Buffer.contents b

exception Parse_error of string

(* atoms: bare tokens over a safe alphabet, or double-quoted with backslash escapes (backslash, quote, xNN) *)
let parse (s : string) (start : int) : Model.sexp * int =
  let n = String.length s in
  let rec skip i = if i < n && (s.[i] = ' ' || s.[i] = '\t') then skip (i + 1) else i in
  let hexv c = match c with
    | '0'..'9' -> Char.code c - 48 | 'a'..'f' -> Char.code c - 87 | 'A'..'F' -> Char.code c - 55
    | _ -> raise (Parse_error "hex") in
  let rec sx i =
    let i = skip i in
    if i >= n then raise (Parse_error "eof")
    else if s.[i] = '(' then lst (i + 1) []
    else if s.[i] = '"' then begin
      let b = Buffer.create 16 in
      let rec go j =
        if j >= n then raise (Parse_error "unterminated string")
        else match s.[j] with
          | '"' -> j + 1
          | '\\' ->
            if j + 1 >= n then raise (Parse_error "escape") else
            (match s.[j + 1] with
             | 'x' -> Buffer.add_char b (Char.chr (16 * hexv s.[j + 2] + hexv s.[j + 3])); go (j + 4)
             | c -> Buffer.add_char b c; go (j + 2))
          | c -> Buffer.add_char b c; go (j + 1) in
      let j = go (i + 1) in
      (Model.A (coq_of_string (Buffer.contents b)), j)
    end else begin
      let j = ref i in
      while !j < n && s.[!j] <> ' ' && s.[!j] <> '(' && s.[!j] <> ')' && s.[!j] <> '"' do incr j done;
      if !j = i then raise (Parse_error "empty atom");
      (Model.A (coq_of_string (String.sub s i (!j - i))), !j)
    end
  and lst i acc =
    let i = skip i in
    if i >= n then raise (Parse_error "unterminated list")
    else if s.[i] = ')' then (Model.L (List.rev acc), i + 1)
    else let (x, j) = sx i in lst j (x :: acc) in
  sx start

let bare_ok (s : string) : bool =
  String.length s > 0 &&
  (let ok = ref true in
   String.iter (fun c -> match c with
       | 'a'..'z' | 'A'..'Z' | '0'..'9' | '_' | '-' | '.' | '/' | ':' | '+' | '*' | '?' | '<' | '>' | '=' | ',' | '@' | '%' | '#' | '&' | ';' | '!' | '$' | '~' | '^' | '|' | '[' | ']' | '{' | '}' | '\'' -> ()
       | _ -> ok := false) s;
   !ok)

let rec print (b : Buffer.t) (x : Model.sexp) : unit =
  match x with
  | Model.A s ->
    let s = string_of_coq s in
    if bare_ok s then Buffer.add_string b s
    else begin
      Buffer.add_char b '"';
      String.iter (fun c ->
          let n = Char.code c in
          if c = '"' || c = '\\' then (Buffer.add_char b '\\'; Buffer.add_char b c)
          else if n < 32 || n > 126 then Buffer.add_string b (Printf.sprintf "\\x%02x" n)
          else Buffer.add_char b c) s;
      Buffer.add_char b '"'
    end
  | Model.L l ->
    Buffer.add_char b '(';
    List.iteri (fun i y -> if i > 0 then Buffer.add_char b ' '; print b y) l;
    Buffer.add_char b ')'

let () =
  let out = Buffer.create 65536 in
  (try
     while true do
       let line = input_line stdin in
       (try
          let sp = String.index line ' ' in
          let tag = String.sub line 0 sp in
          let (x, _) = parse line (sp + 1) in
          let r = Model.dispatch (coq_of_string tag) x in
          print out r
        with
        | Parse_error m -> Buffer.add_string out ("PARSE-ERROR " ^ m)
        | Not_found -> Buffer.add_string out "PARSE-ERROR no-tag"
        | Stack_overflow -> Buffer.add_string out "STACK-OVERFLOW");
       Buffer.add_char out '\n';
       if Buffer.length out > 60000 then (print_string (Buffer.contents out); Buffer.clear out)
     done
   with End_of_file -> ());
  print_string (Buffer.contents out)
