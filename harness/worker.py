"""Implementation-side worker: fresh interpreter, PYTHONPATH=/repo, fixed hash seed.
usage: worker.py <props-module> <cases.jsonl>   -> one JSON observation per line"""
import importlib
import json
import os
import sys

ROOT = os.path.dirname(os.path.dirname(os.path.abspath(__file__)))
sys.path.insert(0, ROOT)


def main():
    mod = importlib.import_module('harness.props.' + sys.argv[1])
    out = sys.stdout
    if len(sys.argv) > 3 and sys.argv[3] == '--shrink':
        case = json.loads(open(sys.argv[2]).read())
        out.write(json.dumps(mod.shrink(case)) + '\n')
        return
    with open(sys.argv[2]) as f:
        for line in f:
            case = json.loads(line)
            try:
                obs = mod.impl(case)
            except BaseException as e:  # harness bug or catastrophic failure: make it visible, keep alignment
                import traceback
                obs = {'_harness_exception': '%s: %s' % (type(e).__name__, e),
                       '_tb': traceback.format_exc()[-1500:]}
            out.write(json.dumps(obs) + '\n')
    out.flush()


if __name__ == '__main__':
    main()
