"""Implementation-side worker: fresh interpreter, PYTHONPATH=/repo, fixed hash seed.
usage: worker.py <props-module> <cases.jsonl>   -> one JSON observation per line"""
import importlib
import json
import os
import signal
import sys


class CaseTimeout(BaseException):
    pass


_STATE = {'fires': 0, 'finish': None}


def _alarm(signum, frame):
    # the timer keeps firing (interval): code under test that swallows the exception (a bare except, a finally that
    # loops on) is interrupted again; if that does not help either, the worker writes what it has and leaves
    _STATE['fires'] += 1
    if _STATE['fires'] >= 6 and _STATE['finish'] is not None:
        _STATE['finish']()
    raise CaseTimeout()

CASE_TIMEOUT = float(os.environ.get('VERIF_CASE_TIMEOUT', '30'))

ROOT = os.path.dirname(os.path.dirname(os.path.abspath(__file__)))
sys.path.insert(0, ROOT)


def main():
    mod = importlib.import_module('harness.props.' + sys.argv[1])
    out = sys.stdout
    if len(sys.argv) > 3 and sys.argv[3] == '--shrink':
        case = json.loads(open(sys.argv[2]).read())
        signal.signal(signal.SIGALRM, _alarm)
        signal.setitimer(signal.ITIMER_REAL, 120)          # best effort: give up shrinking after two minutes
        try:
            small = mod.shrink(case)
        except CaseTimeout:
            small = case
        out.write(json.dumps(small) + '\n')
        return
    timeouts = 0
    with open(sys.argv[2]) as f:
        all_lines = [l for l in f]
    pos = {'i': 0}

    def finish():
        out.write(json.dumps({'_harness_exception': 'CaseTimeout: the implementation did not finish this case within %.0f s and '
                              'kept running through repeated interrupts' % CASE_TIMEOUT, '_timeout': CASE_TIMEOUT}) + '\n')
        for _ in all_lines[pos['i'] + 1:]:
            out.write(json.dumps({'_harness_exception': 'skipped: an earlier case of this worker could not be interrupted',
                                  '_skipped': True}) + '\n')
        out.flush()
        os._exit(0)
    _STATE['finish'] = finish
    if True:
        for i, line in enumerate(all_lines):
            pos['i'] = i
            case = json.loads(line)
            if timeouts >= 3:
                # the implementation keeps hanging: the first timeouts are reported, do not spend minutes on the rest
                out.write(json.dumps({'_harness_exception': 'skipped after 3 timeouts in this worker', '_skipped': True}) + '\n')
                continue
            try:
                _STATE['fires'] = 0
                signal.signal(signal.SIGALRM, _alarm)
                signal.setitimer(signal.ITIMER_REAL, CASE_TIMEOUT, 3.0)
                try:
                    obs = mod.impl(case)
                finally:
                    signal.setitimer(signal.ITIMER_REAL, 0)
            except CaseTimeout:
                timeouts += 1
                obs = {'_harness_exception': 'CaseTimeout: the implementation did not finish this case within %.0f s' % CASE_TIMEOUT,
                       '_timeout': CASE_TIMEOUT}
            except BaseException as e:  # harness bug or catastrophic failure: make it visible, keep alignment
                import traceback
                obs = {'_harness_exception': '%s: %s' % (type(e).__name__, e),
                       '_tb': traceback.format_exc()[-1500:]}
            out.write(json.dumps(obs) + '\n')
    out.flush()


if __name__ == '__main__':
    main()
