"""Shared machinery: regenerate + build the Coq development, run the extracted
model, compare with the implementation, search for a failing input, report.

Outcome rules (DESIGN.md section 1):
  * all obligations discharged, correspondence agrees, oracle silent -> exit 0
  * oracle finds an input on which the PROPERTY fails on the implementation
      -> VIOLATION property=<id> replay=<file>                  (exit 1)
    unless the input matches an unfixed entry of known_findings.json
      -> KNOWN-FINDING: property=<id> <what>                    (exit 0)
  * a proof obligation / translator obligation / correspondence no longer checks
    and no failing input was found
      -> VIOLATION property=<id> replay=<file> no-failing-input-found   (exit 1)
"""
import fcntl
import hashlib
import json
import os
import random
import re
import subprocess
import sys
import time

ROOT = os.path.dirname(os.path.dirname(os.path.abspath(__file__)))
REPO = os.environ.get('CLASTIC_REPO', '/repo')
COQ = os.path.join(ROOT, 'coq')
GEN = os.path.join(COQ, 'theories', 'Gen')
OCAML = os.path.join(ROOT, 'ocaml')
BUILD = os.path.join(ROOT, 'build')
PY = '/venv/bin/python'

sys.path.insert(0, os.path.join(ROOT, 'translator'))
sys.path.insert(0, ROOT)

TRUSTED_BASE = [
    'Coq 8.16.1 kernel (coqc; coqchk in the thorough tier); vm_compute used inside some proofs, native_compute never',
    'no Axiom/Parameter/Admitted in the development (grep on every run); Print Assumptions output parsed per theorem',
    'translator /verif/translator (Python ast -> Gallina text, fail-closed)',
    'extraction: Require Extraction + ExtrOcamlBasic only; no Extract Constant / Extract Inductive of our own',
    'ocaml/driver.ml (s-expression reader/printer, string conversion), OCaml 4.13.1',
    'correspondence harness /verif/harness (generators, implementation runners, canonicalisation)',
]


class BuildResult(object):
    def __init__(self):
        self.translator_errors = {}
        self.make_ok = False
        self.make_log = ''
        self.props_ok = False
        self.theorems = []          # [(name, closed_bool, assumptions_text)]
        self.driver_ok = False
        self.forbidden = []
        self.gen_changed = []

    @property
    def obligations(self):
        return len(self.theorems)

    @property
    def discharged(self):
        return sum(1 for t in self.theorems if t[1]) if self.props_ok else 0

    def broken(self):
        """list of human-readable broken obligations (empty = all fine)"""
        out = []
        for k, v in self.translator_errors.items():
            out.append('translator obligation Gen/%s: %s' % (k, v))
        if self.forbidden:
            out.append('forbidden constructs in development: %s' % self.forbidden[:5])
        if not self.props_ok:
            out.append('coqc does not accept the property file or something it depends on: '
                       + self.make_log[-1500:])
        for name, closed, txt in self.theorems:
            if not closed:
                out.append('theorem %s: not closed or not checked (%s)' % (name, txt[:200]))
        return out


def sh(cmd, cwd=None, timeout=1800, env=None):
    p = subprocess.run(cmd, cwd=cwd, shell=isinstance(cmd, str), stdout=subprocess.PIPE,
                       stderr=subprocess.STDOUT, timeout=timeout, env=env)
    return p.returncode, p.stdout.decode('utf8', 'replace')


ALLOWED_AXIOMS = ()   # none needed so far: every theorem is closed under the global context

FORBIDDEN = re.compile(r'\b(Admitted|admit|Axiom|Parameter|Conjecture|Admit Obligations|bypass_check|'
                       r'Unset Guard Checking|Unset Positivity Checking|Unset Universe Checking|'
                       r'type-in-type|impredicative-set)\b')


def scan_forbidden():
    bad = []
    for dp, dn, fn in os.walk(os.path.join(COQ, 'theories')):
        for f in fn:
            if f.endswith('.v'):
                p = os.path.join(dp, f)
                txt = open(p).read()
                txt = re.sub(r'"(?:[^"]|"")*"', '""', txt)          # string literals may contain "(*": not a comment
                txt = re.sub(r'\(\*.*?\*\)', '', txt, flags=re.S)
                for m in FORBIDDEN.finditer(txt):
                    bad.append('%s: %s' % (os.path.relpath(p, COQ), m.group(0)))
    for line in open(os.path.join(COQ, '_CoqProject')):
        if FORBIDDEN.search(line):
            bad.append('_CoqProject: ' + line.strip())
    return bad


def build(prop, log=print):
    """Regenerate Gen/*.v from REPO, rebuild what changed, re-check Props/<prop>.v,
    re-extract and rebuild the driver.  Serialised by a lock file."""
    import gen as translator
    os.makedirs(BUILD, exist_ok=True)
    os.makedirs(GEN, exist_ok=True)
    res = BuildResult()
    t0 = time.time()
    with open(os.path.join(BUILD, 'lock'), 'w') as lk:
        fcntl.flock(lk, fcntl.LOCK_EX)
        files, errors = translator.generate(REPO)
        res.translator_errors = errors
        for name, text in files.items():
            p = os.path.join(GEN, name)
            old = open(p).read() if os.path.exists(p) else None
            if old != text:
                with open(p, 'w') as f:
                    f.write(text)
                res.gen_changed.append(name)
        res.forbidden = scan_forbidden()
        vfiles = sorted(os.path.relpath(os.path.join(dp, f), COQ)
                        for dp, dn, fn in os.walk(os.path.join(COQ, 'theories')) for f in fn if f.endswith('.v'))
        stamp = hashlib.sha1('\n'.join(vfiles).encode()).hexdigest()
        stamp_file = os.path.join(BUILD, 'vfiles.stamp')
        if not os.path.exists(os.path.join(COQ, 'Makefile')) or \
                not os.path.exists(stamp_file) or open(stamp_file).read() != stamp:
            sh(['coq_makefile', '-f', '_CoqProject'] + vfiles + ['-o', 'Makefile'], cwd=COQ)
            open(stamp_file, 'w').write(stamp)
        rc, out = sh('timeout 1500 make -k -j16 2>&1', cwd=COQ, timeout=1600)
        res.make_ok = (rc == 0)
        res.make_log = out
        # the property file itself (and, through make, everything it depends on)
        target = 'theories/Props/%s.vo' % prop
        rc2, out2 = sh('timeout 900 make %s 2>&1' % target, cwd=COQ, timeout=1000)
        res.props_ok = (rc2 == 0) and os.path.exists(os.path.join(COQ, target))
        if not res.props_ok:
            res.make_log = out2
        res.theorems = check_assumptions(prop, res.props_ok)
        # extraction + driver (independent of the proofs: models contain no proofs)
        extract_vo = os.path.join(COQ, 'theories/Extract/Extract.vo')
        rc3, out3 = sh('timeout 900 make theories/Extract/Extract.vo 2>&1', cwd=COQ, timeout=1000)
        if rc3 == 0 and os.path.exists(extract_vo):
            src = os.path.join(COQ, 'model.ml')
            drv = os.path.join(OCAML, 'driver')
            need = not os.path.exists(drv)
            if os.path.exists(src):
                for ext in ('ml', 'mli'):
                    os.replace(os.path.join(COQ, 'model.' + ext), os.path.join(OCAML, 'model.' + ext))
                need = True
            if not os.path.exists(os.path.join(OCAML, 'model.ml')):
                # Extract.vo is up to date but the .ml is gone (fresh checkout): force re-extraction
                os.remove(extract_vo)
                sh('timeout 900 make theories/Extract/Extract.vo 2>&1', cwd=COQ, timeout=1000)
                for ext in ('ml', 'mli'):
                    os.replace(os.path.join(COQ, 'model.' + ext), os.path.join(OCAML, 'model.' + ext))
                need = True
            if not need and os.path.getmtime(drv) < os.path.getmtime(os.path.join(OCAML, 'driver.ml')):
                need = True
            if need:
                rc4, out4 = sh('timeout 600 ocamlfind ocamlopt -O3 -w -a model.mli model.ml driver.ml -o driver 2>&1',
                               cwd=OCAML, timeout=700)
                res.driver_ok = (rc4 == 0)
                if rc4 != 0:
                    res.make_log += '\n[ocaml] ' + out4
            else:
                res.driver_ok = True
        else:
            res.make_log += '\n[extract] ' + out3[-1500:]
    log('[build] %.1fs make_ok=%s props_ok=%s driver_ok=%s gen_changed=%s theorems=%d/%d' % (
        time.time() - t0, res.make_ok, res.props_ok, res.driver_ok, res.gen_changed,
        res.discharged, res.obligations))
    return res


def check_assumptions(prop, props_ok):
    """Names of the theorems stated in Props/<prop>.v; if the file compiles, re-run
    coqc on it alone and pair every `Print Assumptions` answer with its theorem."""
    path = os.path.join(COQ, 'theories', 'Props', prop + '.v')
    src = open(path).read()
    # string literals first (a pinned source line like "list(zip(*req_sigs))" must not open a comment), then comments
    src_ns = re.sub(r'"(?:[^"]|"")*"', '""', src)
    src_nc = re.sub(r'\(\*.*?\*\)', '', src_ns, flags=re.S)
    names = re.findall(r'^\s*Theorem\s+(\w+)', src_nc, flags=re.M)
    printed = re.findall(r'^\s*Print Assumptions\s+(\w+)\s*\.', src_nc, flags=re.M)
    if not props_ok:
        return [(n, False, 'not compiled') for n in names]
    os.makedirs(os.path.join(BUILD, 'tmp'), exist_ok=True)
    rc, out = sh('timeout 600 coqc -Q theories ClasticV -w -notation-overridden,-deprecated-syntactic-definition '
                 '-o %s/tmp/%s.vo theories/Props/%s.v 2>&1' % (BUILD, prop, prop), cwd=COQ, timeout=700)
    if rc != 0:
        return [(n, False, 'coqc failed: ' + out[-300:]) for n in names]
    # split output into one block per Print Assumptions, in order
    blocks = re.split(r'(?=Closed under the global context|Axioms:)', out)
    blocks = [b for b in blocks if b.startswith('Closed under') or b.startswith('Axioms:')]
    res = []
    for n in names:
        if n not in printed:
            res.append((n, False, 'no Print Assumptions for this theorem'))
            continue
        i = printed.index(n)
        if i >= len(blocks):
            res.append((n, False, 'Print Assumptions output missing'))
            continue
        b = blocks[i].strip()
        if b.startswith('Closed under the global context'):
            res.append((n, True, 'Closed under the global context'))
        else:
            axs = re.findall(r'^(\S+)\s*:', b[len('Axioms:'):], flags=re.M)
            ok = all(a in ALLOWED_AXIOMS for a in axs)
            res.append((n, ok, 'Axioms: ' + ', '.join(axs)))
    return res


def coqchk(prop, log=print):
    """Thorough tier: independent re-check of the property's compiled file and its dependencies."""
    rc, out = sh('timeout 3000 coqchk -silent -o -Q theories ClasticV ClasticV.Props.%s 2>&1' % prop,
                 cwd=COQ, timeout=3100)
    tail = out[-3000:]
    axioms = []
    m = re.search(r'\* Axioms:\s*(.*?)(?:\n\s*\n|\* |$)', out, flags=re.S)
    if m:
        axioms = [a.strip() for a in m.group(1).split('\n') if a.strip()]
    log('[coqchk] rc=%d axioms=%s' % (rc, axioms))
    return rc == 0, axioms, tail


# ---------------------------------------------------------------------------
def _run_driver(lines):
    data = ('\n'.join(lines) + '\n').encode('latin-1')
    p = subprocess.run([os.path.join(OCAML, 'driver')], input=data, stdout=subprocess.PIPE,
                       stderr=subprocess.PIPE, timeout=3000,
                       preexec_fn=lambda: __import__('resource').setrlimit(
                           __import__('resource').RLIMIT_STACK, (-1, -1)))
    if p.returncode != 0:
        raise RuntimeError('driver failed rc=%s: %s' % (p.returncode, p.stderr[-500:]))
    out = p.stdout.decode('latin-1').split('\n')
    if out and out[-1] == '':
        out.pop()
    if len(out) != len(lines):
        raise RuntimeError('driver answered %d lines for %d requests' % (len(out), len(lines)))
    return out


def run_model(lines):
    """lines: iterable of 'tag sexp' strings -> list of output lines (one per request line, same order).
    The extracted driver is a pure function of each line, so large batches are spread over several driver processes."""
    lines = list(lines)
    if not lines:
        return []
    nproc = min(16, max(1, len(lines) // 100))
    if nproc == 1:
        return _run_driver(lines)
    import concurrent.futures
    size = (len(lines) + nproc - 1) // nproc
    chunks = [lines[i:i + size] for i in range(0, len(lines), size)]
    with concurrent.futures.ThreadPoolExecutor(max_workers=len(chunks)) as ex:
        outs = list(ex.map(_run_driver, chunks))
    return [l for o in outs for l in o]


def impl_env(hashseed=0):
    env = dict(os.environ)
    env['PYTHONPATH'] = REPO
    env['PYTHONHASHSEED'] = str(hashseed)
    env['PYTHONDONTWRITEBYTECODE'] = '1'
    env['CLASTIC_VERIF'] = '1'
    return env


def run_impl_workers(module, cases, nworkers=None, hashseeds=(0,), timeout=3000, extra_env=None):
    """Run `python -m harness.worker <module>` over the cases in parallel subprocesses
    (fresh interpreters with PYTHONPATH=/repo and a fixed hash seed).  Returns a list of
    observations (index-aligned with cases) per hash seed."""
    nworkers = nworkers or min(16, max(1, len(cases) // 50 + 1))
    os.makedirs(os.path.join(BUILD, 'tmp'), exist_ok=True)
    results = {}
    for hs in hashseeds:
        chunks = [cases[i::nworkers] for i in range(nworkers)]
        procs = []
        for w, chunk in enumerate(chunks):
            inp = os.path.join(BUILD, 'tmp', '%s.%d.%d.%d.in' % (module, os.getpid(), hs, w))
            with open(inp, 'w') as f:
                for c in chunk:
                    f.write(json.dumps(c) + '\n')
            env = impl_env(hs)
            if extra_env:
                env.update(extra_env)
            p = subprocess.Popen([PY, os.path.join(ROOT, 'harness', 'worker.py'), module, inp],
                                 stdout=subprocess.PIPE, stderr=subprocess.PIPE, env=env, cwd=ROOT)
            procs.append((p, inp, len(chunk)))
        outs = []
        for p, inp, n in procs:
            so, se = p.communicate(timeout=timeout)
            os.remove(inp)
            if p.returncode != 0:
                raise RuntimeError('impl worker failed: %s' % se.decode('utf8', 'replace')[-2000:])
            lines = so.decode('utf8').split('\n')
            lines = [json.loads(l) for l in lines if l.startswith('[') or l.startswith('{') or l.startswith('"')]
            if len(lines) != n:
                raise RuntimeError('impl worker returned %d observations for %d cases: %s'
                                   % (len(lines), n, se.decode('utf8', 'replace')[-1000:]))
            outs.append(lines)
        merged = [None] * len(cases)
        for w, lines in enumerate(outs):
            for j, o in enumerate(lines):
                merged[w + j * nworkers] = o
        results[hs] = merged
    return results


def shrink_in_worker(module, case, hashseed=0, timeout=300):
    """Minimise a failing case on the implementation side (module.shrink), best effort."""
    os.makedirs(os.path.join(BUILD, 'tmp'), exist_ok=True)
    inp = os.path.join(BUILD, 'tmp', '%s.%d.shrink' % (module, os.getpid()))
    json.dump(case, open(inp, 'w'))
    try:
        p = subprocess.run([PY, os.path.join(ROOT, 'harness', 'worker.py'), module, inp, '--shrink'],
                           stdout=subprocess.PIPE, stderr=subprocess.PIPE, env=impl_env(hashseed), cwd=ROOT,
                           timeout=timeout)
        if p.returncode == 0:
            return json.loads(p.stdout.decode('utf8').strip().split('\n')[-1])
    except Exception:
        pass
    finally:
        if os.path.exists(inp):
            os.remove(inp)
    return case


# ---------------------------------------------------------------------------
def load_known():
    p = os.path.join(ROOT, 'known_findings.json')
    if not os.path.exists(p):
        return []
    return json.load(open(p))['findings']


def load_corpus(prop):
    d = os.path.join(ROOT, 'corpus', prop)
    out = []
    if os.path.isdir(d):
        for f in sorted(os.listdir(d)):
            if f.endswith('.json'):
                j = json.load(open(os.path.join(d, f)))
                j['_corpus'] = f
                out.append(j)
    return out


class Report(object):
    """Collects what one run did and turns it into stdout lines, evidence and exit code."""

    def __init__(self, prop, tier, seed):
        self.prop, self.tier, self.seed = prop, tier, seed
        self.t0 = time.time()
        self.violations = []      # (what, replay_obj)  -- concrete failing inputs
        self.unexplained = []     # broken obligations / correspondence differences without failing input
        self.known_hits = {}      # signature -> what
        self.evaluations = 0
        self.nontrivial = set()
        self.samples = []
        self.dist = {}
        self.extra = {}
        self.traces = 0
        self.assumptions = []
        self.rule = ''
        self.pending = []
        self.shrink_module = None

    def count(self, key, n=1):
        self.dist[key] = self.dist.get(key, 0) + n

    def case(self, canon, nontrivial=True):
        self.evaluations += 1
        if nontrivial:
            self.nontrivial.add(hashlib.sha1(canon.encode('utf8', 'replace')).digest()[:8])

    def violation(self, what, replay):
        sig = replay.get('signature')
        for k in load_known():
            if k['property'] == self.prop and k.get('status') == 'known' and sig and sig == k.get('signature'):
                self.known_hits[sig] = k['what']
                return
        self.violations.append((what, replay))

    def broken(self, what, detail=None):
        obs = detail.get('obs') if isinstance(detail, dict) else None
        if isinstance(obs, dict) and obs.get('_skipped'):
            self.count('skipped_after_timeouts')
            return
        if isinstance(obs, dict) and obs.get('_timeout') and 'case' in detail:
            # non-termination on a concrete input is a failing input, not merely a broken obligation
            self.violations.append(('the implementation did not terminate within %.0f s on this case' % obs['_timeout'],
                                    {'case': detail['case'], 'signature': 'timeout'}))
            return
        self.unexplained.append((what, detail))

    def finish(self, build_res, checker_cmd):
        os.makedirs(os.path.join(ROOT, 'replays'), exist_ok=True)
        os.makedirs(os.path.join(ROOT, 'evidence'), exist_ok=True)
        lines = []
        rc = 0
        for sig, what in sorted(self.known_hits.items()):
            lines.append('KNOWN-FINDING: property=%s %s' % (self.prop, what))
        if self.violations:
            rc = 1
            what, replay = self.violations[0]
            if self.shrink_module and 'case' in replay:
                small = shrink_in_worker(self.shrink_module, replay['case'])
                if small != replay['case']:
                    replay = dict(replay, case=small, unshrunk_case=replay['case'])
            path = os.path.join(ROOT, 'replays', '%s-%s-%d.json' % (self.prop, self.tier, self.seed))
            replay = dict(replay, property=self.prop, what=what, seed=self.seed, tier=self.tier,
                          other_violations=[w for w, _ in self.violations[1:20]],
                          broken_obligations=[w for w, _ in self.unexplained[:20]])
            json.dump(replay, open(path, 'w'), indent=1, default=repr)
            lines.append('VIOLATION property=%s replay=%s' % (self.prop, path))
        elif self.unexplained:
            rc = 1
            path = os.path.join(ROOT, 'replays', '%s-%s-%d.json' % (self.prop, self.tier, self.seed))
            json.dump({'property': self.prop, 'no_failing_input_found': True,
                       'no_longer_checks': [{'what': w, 'detail': d} for w, d in self.unexplained[:50]],
                       'seed': self.seed, 'tier': self.tier}, open(path, 'w'), indent=1, default=repr)
            lines.append('VIOLATION property=%s replay=%s no-failing-input-found' % (self.prop, path))
        if rc == 0:
            stale = os.path.join(ROOT, 'replays', '%s-%s-%d.json' % (self.prop, self.tier, self.seed))
            if os.path.exists(stale):
                os.remove(stale)
        ev = {
            'property_id': self.prop, 'tier': self.tier, 'seed': self.seed, 'level': 'proof',
            'coverage': dict({
                'obligations': max(build_res.obligations, 1),
                'discharged': build_res.discharged,
                'theorems': [{'name': n, 'closed': c, 'assumptions': a} for n, c, a in build_res.theorems],
                'pending_theorems': self.pending,
                'checker_cmd': checker_cmd,
                'trusted_base': TRUSTED_BASE,
                'translator_regenerated': sorted(os.listdir(GEN)) if os.path.isdir(GEN) else [],
                'translator_errors': build_res.translator_errors,
                'evaluations': self.evaluations,
                'distinct_nontrivial': len(self.nontrivial),
                'rule': self.rule,
                'samples': self.samples[:8],
                'input_distribution': self.dist,
                'traces_validated_against_impl': self.traces,
                'known_findings_hit': sorted(self.known_hits),
            }, **self.extra),
            'assumptions': self.assumptions,
            'wall_s': round(time.time() - self.t0, 2),
            'violations': len(self.violations) + (1 if self.unexplained and not self.violations else 0),
        }
        json.dump(ev, open(os.path.join(ROOT, 'evidence', self.prop + '.json'), 'w'), indent=1, default=repr)
        for l in lines:
            print(l)
        print('[%s] tier=%s seed=%d obligations=%d/%d evaluations=%d nontrivial=%d violations=%d broken=%d wall=%.1fs' % (
            self.prop, self.tier, self.seed, build_res.discharged, build_res.obligations, self.evaluations,
            len(self.nontrivial), len(self.violations), len(self.unexplained), time.time() - self.t0))
        return rc
