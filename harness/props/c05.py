"""C05 - matchlab: Route(...)/InvalidPattern and BoundRoute.match_path vs Model/Pattern.v + Model/Match.v,
exhaustively over short paths, plus a declarative Python restatement of the property as direct oracle."""
import itertools
import json
import random

from harness import core, sexp

ALPHABET = ['/', 'a', 'b', '1', '5', '.', '-', '+', ' ', 'e', 'é']
LITERALS = ['a', 'b', 'a-1', 'x_y']
TYPES = [None, 'int', 'float', 'str', 'unicode']
OPS = ['', ':', '?', '*', '+']
MODES = ['strict', 'redirect', 'rewrite']


def binding_src(name, op, ty):
    if ty is None:
        return '<%s%s>' % (name, op)
    return '<%s%s%s>' % (name, op if op else ':', ty)


def all_elements():
    out = [('lit', l) for l in LITERALS[:2]]
    for op in OPS:
        for ty in (None, 'int', 'float', 'str'):
            out.append(('bind', op, ty))
    return out


def pattern_src(elems, trailing):
    parts, n = [], 0
    for e in elems:
        if e[0] == 'lit':
            parts.append(e[1])
        else:
            parts.append(binding_src('n%d' % n, e[1], e[2]))
            n += 1
    s = '/' + '/'.join(parts)
    if trailing and elems:
        s += '/'
    return s


def enum_paths(L):
    out = ['']
    for n in range(1, L + 1):
        for t in itertools.product(ALPHABET, repeat=n):
            out.append(''.join(t))
    return out


_PATH_CACHE = {}


def paths_of(case):
    L = case['L']
    if L not in _PATH_CACHE:
        _PATH_CACHE[L] = enum_paths(L)
    return _PATH_CACHE[L] + case.get('extra', [])


# ------------------------------------------------------------------ implementation side
def canon_value(v):
    if v is None:
        return 'None'
    if isinstance(v, bool):
        return ['OTHER', repr(v)]
    if isinstance(v, int):
        return ['i', v]
    if isinstance(v, float):
        return ['f', repr(v)]
    if isinstance(v, str):
        return ['s', v]
    if isinstance(v, list):
        return ['l', [canon_value(x) for x in v]]
    return ['OTHER', repr(v)]


def impl(case):
    from clastic import Application, Route, Response
    from clastic.route import InvalidPattern
    if case['lab'] == 'invalid':
        try:
            Route(case['pattern'], lambda: Response('x'))
            return 'ok'
        except InvalidPattern:
            return 'InvalidPattern'
        except Exception as e:
            return type(e).__name__
    try:
        if case.get('embedded'):
            # the application is mounted, as it is, in another one with another slash mode (inherit_slashes=False: it
            # keeps its own); its route was declared as a plain tuple
            from clastic import SubApplication
            inner = Application([(case['pattern'], lambda: Response('x'))], slash_mode=case['mode'])
            other = {'strict': 'redirect', 'redirect': 'strict', 'rewrite': 'strict'}[case['mode']]
            app = Application([SubApplication('/', inner, inherit_slashes=False)], slash_mode=other)
            if case['embedded'] == 2:
                app = Application([SubApplication('/', app, inherit_slashes=False)], slash_mode=case['mode'])
        else:
            rt = Route(case['pattern'], lambda: Response('x'))
            app = Application([rt], slash_mode=case['mode'])
    except Exception as e:
        return {'construct': type(e).__name__}
    br = app.routes[0]
    names = list(br.converters.keys())
    out = {}
    for i, p in enumerate(paths_of(case)):
        try:
            m = br.match_path(p)
        except Exception as e:
            out[str(i)] = ['RAISED', type(e).__name__]
            continue
        if m is not None:
            out[str(i)] = [[k, canon_value(m[k]) if k in m else 'MISSING-BINDING'] for k in names]
    # the same lookups once more, on the same bound route: a match must not depend on what was looked up before
    # (a sample is enough: every path that matched, every 50th of the others, and each list binding is emptied first -
    # a consumer may do whatever it likes with the list it was given)
    again = []
    for i, p in enumerate(paths_of(case)):
        if str(i) not in out and i % 50:
            continue
        try:
            first = br.match_path(p)
            if isinstance(first, dict):
                for v in first.values():
                    if isinstance(v, list):
                        del v[:]
            m = br.match_path(p)
            second = None if m is None else [[k, canon_value(m[k]) if k in m else 'MISSING-BINDING'] for k in names]
        except Exception as e:
            second = ['RAISED', type(e).__name__]
        if second != out.get(str(i)):
            again.append([i, out.get(str(i)), second])
    obs = {'construct': 'ok', 'matches': out, 'n': len(paths_of(case)), 'again': again[:5],
           'regex': br.regex.pattern, 'regex_flags': int(br.regex.flags)}
    # a sample through a real request: the endpoint receives the same values
    if case.get('request_sample'):
        from harness import wsgi
        got = {}

        def ep(**kw):
            got['kw'] = kw
            return Response('x')
        # endpoint with exactly the binding names
        ns = {}
        exec('def ep2(%s):\n    return _ep(%s)\n' % (', '.join(names), ', '.join('%s=%s' % (n, n) for n in names)), {'_ep': ep}, ns)
        app2 = Application([Route(case['pattern'], ns['ep2'])], slash_mode='rewrite' if case['mode'] == 'redirect' else case['mode'])
        reqs = {}
        for i in case['request_sample']:
            if i >= len(paths_of(case)):
                continue                       # a shrunk replay case keeps the sample indices of the case it came from
            p = paths_of(case)[i]
            if not p.startswith('/') or p.startswith('//') or '?' in p or '#' in p:
                continue                       # werkzeug collapses a leading slash run (O17)
            got.clear()
            r = wsgi.get(app2, p.encode('utf8').decode('latin-1'))
            reqs[str(i)] = [[k, canon_value(got['kw'][k])] for k in names] if 'kw' in got else ['status', r.code]
        obs['requests'] = reqs
    return obs


# ------------------------------------------------------------------ declarative oracle (property text)
def lex_ok(ty, seg):
    import re
    if ty in (None, 'str', 'unicode'):
        return seg != '' and '/' not in seg
    if ty == 'int':
        return re.fullmatch(r'[+-]? *[0-9]+', seg) is not None
    return re.fullmatch(r'[+-]? *([0-9]+(\.[0-9]*)?|\.[0-9]+)([eE][+-]?[0-9]+)?', seg) is not None


def assignments(elems, segs):
    """all ways to give the elements consecutive segments, as lists of counts, in priority (greedy) order"""
    if not elems:
        if not segs:
            yield []
        return
    e = elems[0]
    if e[0] == 'lit':
        if segs and segs[0] == e[1]:
            for rest in assignments(elems[1:], segs[1:]):
                yield [1] + rest
        return
    op, ty = e[1], e[2]
    lo = 1 if op in ('', ':', '+') else 0
    hi = len(segs) if op in ('*', '+') else 1
    k = 0
    while k < hi and k < len(segs) and lex_ok(ty, segs[k]):
        k += 1
    for c in range(k, lo - 1, -1):
        for rest in assignments(elems[1:], segs[c:]):
            yield [c] + rest


def spec_match(case, path):
    """what the property says match_path must return (None = no match)"""
    elems, trailing, mode = case['elems'], case['trailing'], case['mode']
    if path != '' and not path.startswith('/'):
        return None
    pieces = path.split('/')[1:] if path else []
    if mode == 'strict':
        if trailing and elems:
            if not pieces or pieces[-1] != '':
                return None
            pieces = pieces[:-1]
        elif not elems:
            # the pattern is "/"
            return [] if path == '/' else None
        if any(p == '' for p in pieces):
            return None
        segs = pieces
    else:
        segs = [p for p in pieces if p]
    for counts in assignments(elems, segs):
        out, pos, names = [], 0, 0
        ok = True
        for e, c in zip(elems, counts):
            taken = segs[pos:pos + c]
            pos += c
            if e[0] == 'lit':
                continue
            op, ty = e[1], e[2]
            conv = {None: str, 'str': str, 'unicode': str, 'int': int, 'float': float}[ty]
            try:
                vals = [conv(s) for s in taken]
            except ValueError:
                ok = False
                break
            if op in ('*', '+'):
                v = vals
            else:
                v = vals[0] if vals else None
            out.append(['n%d' % names, canon_value(v)])
            names += 1
        # a segment that fails conversion makes the route not match (no second lexical attempt, O2)
        return out if ok else None
    return None


def f3_shape(case, path):
    """tolerant mode and a run of >= 2 slashes directly before a segment that the greedy assignment
    gives to a '*' / '+' binding"""
    if case['mode'] == 'strict' or '//' not in path or not path.startswith('/'):
        return False
    pieces = path.split('/')[1:]
    segs, runs, run = [], [], 1
    for p in pieces:
        if p:
            segs.append(p)
            runs.append(run)
            run = 1
        else:
            run += 1
    for counts in assignments(case['elems'], segs):
        pos = 0
        for e, c in zip(case['elems'], counts):
            if e[0] == 'bind' and e[1] in ('*', '+') and any(r >= 2 for r in runs[pos:pos + c]):
                return True
            pos += c
        return False
    # no assignment on the collapsed path; the empty pieces may still have been offered to a multi binding
    return any(e[0] == 'bind' and e[1] in ('*', '+') for e in case['elems'])


def norm_float(x):
    """model value -> comparable form (floats: lexeme -> repr(float(lexeme)))"""
    if isinstance(x, list) and x and x[0] == 'f':
        return ['f', repr(float(x[1]))]
    if isinstance(x, list) and x and x[0] == 'l':
        return ['l', [norm_float(y) for y in x[1]]]
    if isinstance(x, list) and x and x[0] == 'i':
        return ['i', int(x[1])]
    return x


def model_matches(line):
    """-> ('raise', cls) | dict index -> [[name, value]...]"""
    t = sexp.loads(line)
    if t[0] == b'raise':
        return ('raise', t[1].decode())

    def val(v):
        if isinstance(v, bytes):
            return v.decode('utf8', 'surrogateescape')
        tag = v[0].decode()
        if tag == 'l':
            return ['l', [val(x) for x in v[1]]]
        if tag == 'i':
            return ['i', int(v[1])]
        return [tag, v[1].decode('utf8', 'surrogateescape')]
    out = {}
    for idx, m in t[1]:
        out[idx.decode()] = [[kv[0].decode(), norm_float(val(kv[1]))] for kv in m] if isinstance(m, list) else m
    return out


# ------------------------------------------------------------------ the assembled regex as a tree
def rx_nf(t):
    """normal form shared by both sides: concatenations flattened, empty words dropped"""
    def flat(x):
        if x[0] == 'cat':
            out = []
            for y in x[1:]:
                out += flat(y)
            return out
        if x[0] == 'eps':
            return []
        if x[0] == 'alt':
            a, c = rx_nf(x[1]), rx_nf(x[2])
            # "x?": the model writes the lexemes' optional parts as (empty | x) and a binding's greedy "?" as (x | empty);
            # same language, and only the latter's order enters a theorem (C05_engine_captures) - one normal form for both
            if a == ['eps']:
                return [['opt', c]]
            if c == ['eps']:
                return [['opt', a]]
            return [['alt', a, c]]
        if x[0] == 'star':
            return [['star', rx_nf(x[1])]]
        return [x]
    items = flat(t)
    if not items:
        return ['eps']
    return items[0] if len(items) == 1 else ['cat'] + items


def rx_tree(pat):
    """Python's own parse of a regex source -> tree in the vocabulary of Base/Rx.v (fail-closed on anything else).
    A whole-path match is '^' ... '\\Z'; a final '$' also admits a newline before the end and is kept visible."""
    import re._parser as sp
    import re._constants as sc

    def cls(items):
        neg, ranges = False, []
        for op, av in items:
            if op is sc.NEGATE:
                neg = True
            elif op is sc.LITERAL:
                ranges.append([av, av])
            elif op is sc.RANGE:
                ranges.append([av[0], av[1]])
            elif op is sc.CATEGORY and av is sc.CATEGORY_DIGIT:
                ranges.append([48, 57])
            else:
                raise ValueError('character class item %s %s' % (op, av))
        return ['cls', neg, ranges]

    def seq(items):
        return ['cat'] + [one(op, av) for op, av in items] if items else ['eps']

    def one(op, av):
        if op is sc.LITERAL:
            return ['cls', False, [[av, av]]]
        if op is sc.NOT_LITERAL:
            return ['cls', True, [[av, av]]]
        if op is sc.IN:
            return cls(av)
        if op is sc.MAX_REPEAT:
            lo, hi, sub = av
            body = seq(list(sub))
            if (lo, hi) == (0, 1):
                return ['alt', body, ['eps']]          # greedy: the body first
            if lo == 0 and hi is sc.MAXREPEAT:
                return ['star', body]
            if lo == 1 and hi is sc.MAXREPEAT:
                return ['cat', body, ['star', body]]
            raise ValueError('repeat {%s,%s}' % (lo, hi))
        if op is sc.SUBPATTERN:
            return seq(list(av[3]))
        if op is sc.BRANCH:
            alts = [seq(list(a)) for a in av[1]]
            out = alts[-1]
            for t in reversed(alts[:-1]):
                out = ['alt', t, out]
            return out
        if op is sc.AT:
            return ['at', str(av)]
        raise ValueError('regex construct %s outside the modelled subset' % (op,))
    items = list(sp.parse(pat))
    if not items or items[0] != (sc.AT, sc.AT_BEGINNING):
        raise ValueError('the regex does not start with ^')
    if items[-1] == (sc.AT, sc.AT_END_STRING):
        items = items[1:-1]
    else:
        items = items[1:]                      # whatever ends it stays in the tree and will differ from the model
    return rx_nf(seq(items))


def model_rx(x):
    """parsed s-expression of Model/MatchIO.e_rx -> the same vocabulary"""
    if isinstance(x, bytes):
        return [x.decode()]
    tag = x[0].decode()
    if tag == 'cls':
        return ['cls', x[1] == b'T', [[int(a), int(b)] for a, b in x[2]]]
    return [tag] + [model_rx(y) for y in x[1:]]


# ------------------------------------------------------------------ generation
def gen_case(rng, tier, elems=None):
    els = all_elements()
    if elems is None:
        n = rng.choice([1, 2, 2, 3, 3, 4])
        elems = [list(rng.choice(els)) for _ in range(n)]
    L = 4 if len(elems) <= 2 else 3
    if tier == 'thorough':
        L += 1
    case = {'lab': 'match', 'elems': [list(e) for e in elems], 'trailing': rng.random() < 0.4,
            'mode': rng.choice(MODES), 'L': L}
    case['pattern'] = pattern_src([tuple(e) for e in case['elems']], case['trailing'])
    if rng.random() < 0.25:
        case['embedded'] = rng.choice([1, 1, 2])
    # long random paths assembled from valid segments with mutations
    segpool = ['a', 'b', 'a-1', 'x_y', '1', '5', '15', '-5', '+1', ' 5', '+ 5', '1.5', '.5', '5.', '1e5', '1e+5', '-.5e-1',
               'e', '1e', '.', '-', '+', 'ab', 'é', '5a', ' ', '1 5', '0' * 30,
               # the same spellings in the other case: literal segments are case-sensitive, float exponents are not
               'A', 'B', 'A-1', 'X_Y', '1E5', '1E+5', '-.5E-1', 'É',
               # control characters arrive percent-decoded: a line break is a character like any other
               'a\n', '5\n', '1.5\n', '\n', 'b\r\n', '\na']
    extra = []
    for _ in range(40):
        k = rng.randint(0, 8)
        segs = [rng.choice(segpool) for _ in range(k)]
        s = ''.join('/' * rng.choice([1, 1, 1, 2, 3]) + x for x in segs) + '/' * rng.choice([0, 0, 1, 2])
        if rng.random() < 0.1:
            s = s[1:]
        extra.append(s)
    # paths built from the pattern itself
    for _ in range(20):
        segs = []
        for e in case['elems']:
            if e[0] == 'lit':
                segs.append(e[1] if rng.random() < 0.8 else rng.choice(['zz', e[1].upper(), e[1].capitalize()]))
            else:
                cnt = rng.choice([0, 1, 1, 2, 3]) if e[1] in ('*', '+') else rng.choice([0, 1, 1, 1])
                pool = {'int': ['1', '-5', '+1', ' 5', '+ 5', '007'], 'float': ['1.5', '.5', '5.', '1e5', '- 1.5', '5', '1E5', '2.5E-3'],
                        }.get(e[2], ['a', 'b', '1', 'x y'])
                segs += [rng.choice(pool) for _ in range(cnt)]
        s = ''.join('/' * rng.choice([1, 1, 1, 1, 2]) + x for x in segs) + '/' * rng.choice([0, 1, 1, 2])
        extra.append(s)
        if rng.random() < 0.3:
            extra.append(s + '\n')            # the same path followed by a line break is another path
    if rng.random() < 0.05:
        extra.append('/' + '9' * 4301)
        extra.append('/' + '9' * 4300)
    case['extra'] = extra
    n_short = len(enum_paths(L)) if L not in _PATH_CACHE else len(_PATH_CACHE[L])
    case['request_sample'] = [n_short + i for i in range(0, len(extra), 3)]
    return case


INVALID_KINDS = ['no_leading_slash', 'double_slash', 'duplicate', 'unknown_type', 'unknown_op', 'valid', 'empty']


def gen_invalid(rng):
    kind = rng.choice(INVALID_KINDS)
    els = all_elements()
    elems = [rng.choice(els) for _ in range(rng.choice([1, 2, 3]))]
    s = pattern_src(elems, rng.random() < 0.3)
    if kind == 'no_leading_slash':
        s = s[1:] if len(s) > 1 else 'a'
    elif kind == 'double_slash':
        i = rng.choice([i for i, c in enumerate(s) if c == '/'])
        s = s[:i] + '/' + s[i:]
    elif kind == 'duplicate':
        s = s.rstrip('/') + '/' + binding_src('dup', rng.choice(OPS), rng.choice(TYPES)) + '/x/' + \
            binding_src('dup', rng.choice(OPS), rng.choice(TYPES))
    elif kind == 'unknown_type':
        s = s.rstrip('/') + '/<q%s%s>' % (rng.choice([':', '?', '*', '+']), rng.choice(['foo', 'integer', 'Int', 'bool', 'path']))
    elif kind == 'empty':
        s = ''                              # no leading slash either
    elif kind == 'unknown_op':
        s = s.rstrip('/') + '/<q%s%s>' % (rng.choice(['*?', '!', '::', '+?', '=', '**', '-', '.', '~']), rng.choice(['int', '', 'str']))
    return {'lab': 'invalid', 'pattern': s, 'kind': kind}


def shrink(case):
    return case


# ------------------------------------------------------------------ driver
def run(rep, b, tier, seed, only_cases=None):
    rep.shrink_module = None
    rng = random.Random(seed * 32452843 + 5)
    els = all_elements()
    corpus = [c['case'] if 'case' in c else c for c in core.load_corpus('C05')]
    if only_cases is not None:
        cases = list(only_cases)
    else:
        cases = list(corpus)
        # every one-element pattern, every mode, with and without trailing slash
        for e in els:
            for mode in MODES:
                for tr in (False, True):
                    c = gen_case(rng, tier, [e])
                    c['mode'], c['trailing'] = mode, tr
                    c['pattern'] = pattern_src([tuple(x) for x in c['elems']], tr)
                    cases.append(c)
        n2 = 120 if tier == 'quick' else 1500
        pairs = [(a, bb) for a in els for bb in els]
        rng.shuffle(pairs)
        for a, bb in pairs[:n2]:
            cases.append(gen_case(rng, tier, [a, bb]))
        for _ in range(80 if tier == 'quick' else 1500):
            cases.append(gen_case(rng, tier))
        cases.append({'lab': 'match', 'elems': [], 'trailing': True, 'mode': 'strict', 'L': 4, 'pattern': '/', 'extra': ['////', '/ /']})
        cases.append({'lab': 'match', 'elems': [], 'trailing': True, 'mode': 'rewrite', 'L': 4, 'pattern': '/', 'extra': ['////', '/ /']})
        cases += [gen_invalid(rng) for _ in range(300 if tier == 'quick' else 3000)]
    rep.rule = ('matchlab: patterns of 1-4 elements over {2 literals} + {5 operator spellings x 4 types} (every 1-element '
                'pattern, %s sampled 2-element patterns, random 3-4-element ones) x 3 slash modes x trailing slash or not; '
                'paths = EVERY string of length <= L over %r (L=%d for <=2 elements, %d otherwise) + 60 long paths per '
                'pattern assembled from valid segments with mutations (repeated slashes, sign-space, 4300/4301-digit '
                'integers); BoundRoute.match_path compared with the extracted model on every path (values incl. types: '
                'int/str/float/list/None), a sample also through a real request; invalid-pattern stream (%s) compared on '
                'InvalidPattern. non-trivial = (pattern, path) pairs that match.'
                % ('120' if tier == 'quick' else '1500', ''.join(ALPHABET), 4 if tier == 'quick' else 5,
                   3 if tier == 'quick' else 4, ', '.join(INVALID_KINDS)))
    rep.assumptions = ["Python's re engine decides membership in the regular language of the expression it is given, for the subset "
                       "used here (classes, concatenation, alternation, ? * +, groups, ^ and \\Z) - that language is proved to be the token "
                       "matcher's acceptance (C05_regex_language); WHICH segments each group captures (greedy, leftmost) is compared, not proved",
                       "Python's regex parser (re._parser) reads the pattern text the way the engine does",
                       "int()/float()/str() builtins: int rejects sign-space and > 4300 digits; float rejects sign-space",
                       r'\d is modelled as [0-9] (non-ASCII digits are outside the alphabet)',
                       'literal segments with regex metacharacters and malformed "<...>" parts are outside the quantifier (O1)']
    obs = core.run_impl_workers('c05', cases, nworkers=16)[0]
    lines = []
    for c in cases:
        if c['lab'] == 'invalid':
            lines.append('matchlab ' + sexp.dumps([c['pattern'], 'rewrite', []]))
        else:
            lines.append('matchlab ' + sexp.dumps([c['pattern'], c['mode'], paths_of(c)]))
    model_out = None
    if b.driver_ok:
        try:
            model_out = core.run_model(lines)
        except Exception as e:  # noqa
            rep.broken('model matchlab is not executable: %s' % e)
    else:
        rep.broken('model matchlab is not executable (extraction or driver build failed)')
    # the regular expression itself: Python's parse of BoundRoute.regex.pattern vs Model/RouteRx.route_rx (whose language
    # is PROVED to be the token matcher's acceptance, Props/C05.C05_regex_language)
    rx_idx = [i for i, (c, o) in enumerate(zip(cases, obs)) if c['lab'] == 'match' and isinstance(o, dict) and o.get('construct') == 'ok']
    if b.driver_ok:
        try:
            rx_out = core.run_model(['routerx ' + sexp.dumps([cases[i]['pattern'], cases[i]['mode']]) for i in rx_idx])
            nrx = 0
            for i, line in zip(rx_idx, rx_out):
                c, o = cases[i], obs[i]
                t = sexp.loads(line)
                problem = None
                if not isinstance(t, list) or t[0] != b'ok':
                    problem = 'the model rejects the pattern: %s' % line[:200]
                elif t[2] != b'T':
                    problem = 'pat_ok is false for a pattern the model accepts (the language theorem does not apply)'
                else:
                    try:
                        want, got = rx_nf(model_rx(t[1])), rx_tree(o.get('regex') or '')
                    except Exception as e:  # noqa
                        want, got = 'model', 'unreadable: %s' % e
                    if want != got:
                        problem = 'the regex %r parses to %s, Model/RouteRx.route_rx is %s' % (o.get('regex'), json.dumps(got)[:600], json.dumps(want)[:600])
                    elif o.get('regex_flags') != 32:
                        problem = 'the regex %r is compiled with flags %s (expected re.UNICODE only: 32)' % (o.get('regex'), o.get('regex_flags'))
                if problem:
                    nrx += 1
                    if nrx <= 3:
                        rep.broken('correspondence routerx: pattern %r (%s): %s' % (c['pattern'], c['mode'], problem), {'case': dict(c, extra=[], L=0)})
                else:
                    rep.traces += 1
                    rep.count('regex_trees_equal')
        except Exception as e:  # noqa
            rep.broken('model routerx is not executable: %s' % e)
    ndiff = 0
    pairs_total, pairs_match = 0, 0
    for i, (c, o) in enumerate(zip(cases, obs)):
        if isinstance(o, dict) and '_harness_exception' in o:
            rep.broken('harness exception on implementation side', {'case': c, 'obs': o})
            continue
        mm = None
        if model_out is not None:
            try:
                mm = model_matches(model_out[i])
            except Exception as e:  # noqa
                rep.broken('model output unreadable: %s' % e, {'case': dict(c, extra=None), 'model': model_out[i][:300]})
        if c['lab'] == 'invalid':
            want_invalid = c['kind'] != 'valid'
            if (o == 'InvalidPattern') != want_invalid:
                rep.violation('Route(%r) -> %s, the pattern is %s' % (c['pattern'], o, 'invalid (%s)' % c['kind'] if want_invalid else 'valid'),
                              {'case': c, 'impl_observation': o, 'signature': 'invalid-pattern'})
            if mm is not None:
                mres = mm[1] if isinstance(mm, tuple) else 'ok'
                if mres != o:
                    ndiff += 1
                    if ndiff <= 5:
                        rep.broken('correspondence matchlab: Route(%r): model %s, implementation %s' % (c['pattern'], mres, o), {'case': c})
                else:
                    rep.traces += 1
            rep.count('invalid.' + c['kind'])
            rep.case(json.dumps(c, sort_keys=True), nontrivial=want_invalid)
            continue
        if o.get('construct') != 'ok':
            rep.violation('valid pattern %r rejected: %s' % (c['pattern'], o.get('construct')),
                          {'case': dict(c, extra=None), 'impl_observation': o, 'signature': 'valid-rejected'})
            continue
        paths = paths_of(c)
        pairs_total += len(paths)
        pairs_match += len(o['matches'])
        # --- direct oracle on every path
        nviol = 0
        for j, p in enumerate(paths):
            got = o['matches'].get(str(j))
            if got is not None and got and got[0] == 'RAISED':
                rep.violation('match_path(%r) on %r raised %s' % (p, c['pattern'], got[1]),
                              {'case': dict(c, extra=[p], L=0), 'path': p, 'signature': 'match-raises'})
                continue
            want = spec_match(c, p)
            if got != want:
                sig = 'tolerant-slash-run-inside-multi-binding' if f3_shape(c, p) else 'match-differs'
                rep.violation('pattern %r (%s) path %r: match_path gives %s, the mini-language says %s' % (
                    c['pattern'], c['mode'], p, got, want),
                    {'case': dict(c, extra=[p], L=0), 'path': p, 'signature': sig, 'impl': got, 'spec': want})
                nviol += 1
                if nviol > 3:
                    break
        for j, first, second in (o.get('again') or []):
            rep.violation('pattern %r (%s) path %r: match_path gave %s, and on a later lookup of the same path %s'
                          % (c['pattern'], c['mode'], paths[j], first, second),
                          {'case': dict(c, extra=[paths[j]], L=0), 'path': paths[j], 'signature': 'match-depends-on-history'})
        for j, r in (o.get('requests') or {}).items():
            got = o['matches'].get(j)
            if got is not None and r != got:
                rep.violation('pattern %r path %r: the endpoint received %s, match_path said %s' % (c['pattern'], paths[int(j)], r, got),
                              {'case': dict(c, extra=[paths[int(j)]], L=0, request_sample=[1]), 'signature': 'endpoint-values'})
        # --- model vs implementation
        if isinstance(mm, tuple):
            ndiff += 1
            if ndiff <= 5:
                rep.broken('correspondence matchlab: model rejects %r (%s), implementation accepts it' % (c['pattern'], mm[1]))
        elif mm is not None:
            if mm != o['matches']:
                ndiff += 1
                if ndiff <= 5:
                    keys = sorted(set(mm) | set(o['matches']), key=int)
                    k = next(k for k in keys if mm.get(k) != o['matches'].get(k))
                    rep.broken('correspondence matchlab: pattern %r (%s) path %r: model %s, implementation %s' % (
                        c['pattern'], c['mode'], paths[int(k)], mm.get(k), o['matches'].get(k)),
                        {'case': dict(c, extra=[paths[int(k)]], L=0)})
            else:
                rep.traces += 1
        rep.count('mode.' + c['mode'])
        rep.count('elements.%d' % len(c['elems']))
        rep.evaluations += len(paths) - 1
        rep.case(json.dumps([c['pattern'], c['mode']]), nontrivial=bool(o['matches']))
    rep.extra['pattern_path_pairs'] = pairs_total
    rep.extra['matching_pairs'] = pairs_match
    rep.samples = [dict(c, extra=c.get('extra', [])[:3]) for c in cases[:2]]


def replay(rep, b, path):
    j = json.load(open(path))
    run(rep, b, 'quick', 0, only_cases=[j['case']])
