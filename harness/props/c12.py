"""C12 - conclab: a deterministic scheduler (sys.settrace line events inside clastic/ and the generated
chain code) runs pairs of requests against ONE application under every single-preemption schedule
(thread A is suspended before its k-th line, thread B serves its whole request, A resumes), seeded
multi-preemption schedules, and free-running stress; each thread's response must equal its solo run,
request ids must be unique.  Part of the search/correspondence side only: never a discharged obligation."""
import json
import random
import sys
import threading

from harness import core

REQUESTS = {
    'item1': ('GET', '/item/1'), 'item2': ('GET', '/item/2'), 'post': ('POST', '/postonly'), 'wrong': ('GET', '/postonly'),
    'boom': ('GET', '/boom/7'), 'nb': ('GET', '/nb/x'), 'missing': ('GET', '/nope'), 'redir': ('GET', '/branch'), 'ctx': ('GET', '/ctx/9'),
    'multi': ('GET', '/multi/a/b/c'), 'nbfall': ('GET', '/fall/q'),
    # one path, two method-restricted routes, and a method neither admits
    'get2': ('GET', '/two/3'), 'post2': ('POST', '/two/4'), 'put2': ('PUT', '/two/5'),
    # two plain 404s that differ only in the negotiated format of the error page
    'missing_html': ('GET', '/nope/h', {'Accept': 'text/html'}), 'missing_json': ('GET', '/nope/j', {'Accept': 'application/json'}),
    'boom_xml': ('GET', '/boom/8', {'Accept': 'application/xml'}),
    'boom2': ('GET', '/boom/9'),                       # a second uncaught exception with its own message
    # the same application reached under another root URL (virtual host): its slash redirect names that host
    'redir_beta': ('GET', '/branch', {'Host': 'beta.example'}),
    # two requests through ONE instance of a built-in parameter-extracting middleware, with different parameters
    'tag1': ('GET', '/tagged', None, 'tag=one&page=1'), 'tag2': ('GET', '/tagged', None, 'tag=two&page=2'),
}
PAIRS_QUICK = [('item1', 'item2'), ('item1', 'boom'), ('post', 'wrong'), ('nb', 'missing'), ('redir', 'item2'), ('ctx', 'multi'), ('nbfall', 'item1'),
               ('post2', 'put2'), ('get2', 'post2'), ('redir', 'missing'), ('item1', 'wrong'),
               ('missing_html', 'missing_json'), ('missing_json', 'missing_html'), ('boom', 'boom_xml'), ('missing', 'missing_json'),
               ('boom', 'boom2'), ('boom2', 'boom'), ('redir', 'redir_beta'), ('redir_beta', 'redir'), ('tag1', 'tag2'), ('tag2', 'tag1'),
               ('tag1', 'item2')]


def build_app():
    from clastic import Application, Response, POST
    from clastic.errors import NotFound
    from clastic.middleware import Middleware
    from clastic.render import render_basic

    class Provider(Middleware):
        provides = ('token',)

        def request(self, next, request):
            tok = 'tok:' + request.path
            resp = next(token=tok)
            resp.headers['X-Req-Id'] = str(getattr(request, 'request_id', None))
            resp.headers['X-Tok'] = tok.encode('utf8').decode('latin-1')
            return resp

    def item(n, token, request, _dispatch_state):
        return Response('item %s %s %s exc=%d' % (n, token, request.path, len(_dispatch_state.exceptions)))

    def post(token):
        return Response('posted ' + token)

    def boom(n):
        raise ValueError('boom %s' % n)

    def nb(x):
        raise NotFound('nb %s' % x, is_breaking=False)

    def ctx(n, token):
        return {'n': n, 'token': token}

    def multi(p, request):
        return Response('multi %s %s' % ('/'.join(p), request.path))

    def fall(q):
        raise NotFound('first ' + q, is_breaking=False)

    def fall2(q, _dispatch_state):
        return Response('second %s after %d' % (q, len(_dispatch_state.exceptions)))
    def two_get(n):
        return Response('two GET %s' % n)

    def two_post(n):
        return Response('two POST %s' % n)
    from clastic import GET
    from clastic.middleware import GetParamMiddleware

    def tagged(tag, page):
        return Response('tagged %s page %s' % (tag, page))
    routes = [('/tagged', tagged), ('/item/<n:int>', item), POST('/postonly', post), GET('/two/<n:int>', two_get), POST('/two/<n:int>', two_post), ('/boom/<n:int>', boom), ('/nb/<x>', nb), ('/branch/', lambda: Response('b')),
              ('/ctx/<n:int>', ctx, render_basic), ('/multi/<p+>', multi), ('/fall/<q>', fall), ('/fall/<q>', fall2)]
    return Application(routes, middlewares=[Provider(), GetParamMiddleware(['tag', 'page'])])


BURST = 520        # more distinct URLs than any small per-process memo holds


def serve_burst(app):
    """one client walking over many distinct URLs of one resource (a crawler, a scanner): all must be answered"""
    from harness import wsgi
    bad = []
    for k in range(1, BURST + 1):
        r = wsgi.call(app, wsgi.environ('/branch' + '/' * k))
        want = 200 if k == 1 else 302
        if r.exc is not None or r.code != want:
            bad.append([k, r.code, type(r.exc).__name__ if r.exc else None])
    return {'status': 'burst', 'body': bad[:3], 'ctype': None, 'loc': None, 'tok': None, 'rid': None, 'exc': None}


def serve(app, name):
    from harness import wsgi
    if name == 'burst':
        return serve_burst(app)
    method, path = REQUESTS[name][:2]
    headers = REQUESTS[name][2] if len(REQUESTS[name]) > 2 else None
    query = REQUESTS[name][3] if len(REQUESTS[name]) > 3 else ''
    r = wsgi.call(app, wsgi.environ(path, method=method, headers=headers, query=query))
    body = r.body.decode('utf8', 'replace')
    if r.code == 500:
        # the page names the exception and its message (boom 7 / boom 9); the traceback below it varies with the schedule
        import re
        m = re.search(r'boom \d+', body)
        body = body[:40] + '|' + (m.group(0) if m else '')
    return {'status': r.code, 'body': body, 'ctype': r.header('Content-Type'), 'loc': r.header('Location'), 'tok': r.header('X-Tok'),
            'rid': r.header('X-Req-Id'),
            'exc': type(r.exc).__name__ if r.exc else None}


def interesting(frame):
    fn = frame.f_code.co_filename
    return ('/clastic/' in fn and '/tests/' not in fn) or fn.startswith('<sinter generated')


class Scheduler(object):
    """thread A runs traced; before its k-th interesting line each point in `points` lets B run to completion"""
    def __init__(self, app, a, b2s, points):
        self.app, self.a, self.b2s, self.points = app, a, list(b2s), dict(points)
        self.n = 0
        self.results_b = []
        self.where = {}

    def local(self, frame, event, arg):
        if event == 'line':
            self.n += 1
            if self.n in self.points:
                name = self.points[self.n]
                self.where[self.n] = '%s:%d' % (frame.f_code.co_filename.split('/')[-1], frame.f_lineno)
                out = {}
                t = threading.Thread(target=lambda: out.update(serve(self.app, name)))
                t.start()
                t.join(120 if name == 'burst' else 20)
                out['_hung'] = t.is_alive()
                self.results_b.append((name, out))
        return self.local

    def glob(self, frame, event, arg):
        return self.local if interesting(frame) else None

    def run(self):
        res = {}

        def target():
            sys.settrace(self.glob)
            try:
                res.update(serve(self.app, self.a))
            finally:
                sys.settrace(None)
        t = threading.Thread(target=target)
        t.start()
        t.join(60)
        res['_hung'] = t.is_alive()
        return res, self.n


def mask(r):
    # the identifier itself differs from run to run; THAT the request was given one does not
    return dict([(k, v) for k, v in r.items() if k not in ('rid', '_hung')] + [('has_rid', r.get('rid') not in (None, 'None'))])


def impl(case):
    solo = dict((n, mask(serve(build_app(), n))) for n in set([case['a']] + list(case['bs'])))
    out = {'schedules': 0, 'violations': [], 'ids': 0}
    ids = []
    # a server (or a retry wrapper) may hand the application an environ it has seen before, or a copy of one: each CALL is a
    # request of its own and gets an identifier of its own
    from harness import wsgi as _w
    import io as _io
    app0 = build_app()
    env0 = _w.environ('/item/1')
    seen = []
    for variant in ('first', 'same-environ-again', 'copy-of-the-environ'):
        env_v = dict(env0) if variant == 'copy-of-the-environ' else env0
        env_v['wsgi.input'] = _io.BytesIO(b'')
        seen.append(_w.call(app0, env_v).header('X-Req-Id'))
    real_seen = [i for i in seen if i not in (None, 'None')]
    if len(set(real_seen)) != len(real_seen):
        out['violations'].append({'plan': 'ids', 'duplicate_ids': sorted(set(i for i in real_seen if real_seen.count(i) > 1))[:5],
                                  'how': 'one environ served again (and a copy of it): %s' % seen})
    # every schedule runs twice: on a COLD application (fresh object, nothing served yet - lazily built state is
    # still being built while the other thread arrives) and on one WARM application shared by all schedules of the
    # case (whatever an earlier request left behind is still there)
    _, nlines = Scheduler(build_app(), case['a'], [], {}).run()
    app = build_app()
    _, nwarm = Scheduler(app, case['a'], [], {}).run()
    _, nwarm = Scheduler(app, case['a'], [], {}).run()
    nlines = max(nlines, nwarm)
    out['lines'] = nlines
    if case['mode'] == 'single':
        plans = [{k: case['bs'][0]} for k in range(1, nlines + 1)]
    elif case['mode'] == 'multi':
        rng = random.Random(case['seed'])
        plans = []
        for _ in range(case['count']):
            ks = sorted(rng.sample(range(1, nlines + 1), min(len(case['bs']), nlines)))
            plans.append(dict(zip(ks, case['bs'])))
    else:
        plans = []
    for plan in plans:
        for temp in (('warm',) if 'burst' in case['bs'] else ('cold', 'warm')):
            the_app = build_app() if temp == 'cold' else app
            cold_ids = []
            s = Scheduler(the_app, case['a'], [], plan)
            ra, _ = s.run()
            out['schedules'] += 1
            ids.append(ra.get('rid'))          # unique within the PROCESS: across all application objects, cold and warm
            cold_ids.append(ra.get('rid'))
            if ra.get('_hung') or mask(ra) != solo[case['a']]:
                out['violations'].append({'plan': sorted(plan.items()), 'app': temp, 'where': s.where, 'thread': 'A', 'request': case['a'],
                                          'got': ra, 'solo': solo[case['a']]})
            for name, rb in s.results_b:
                ids.append(rb.get('rid'))
                cold_ids.append(rb.get('rid'))
                if rb.get('_hung') or mask(rb) != solo[name]:
                    out['violations'].append({'plan': sorted(plan.items()), 'app': temp, 'where': s.where, 'thread': 'B', 'request': name,
                                              'got': rb, 'solo': solo[name]})
            real_cold = [i for i in cold_ids if i not in (None, 'None')]
            if len(set(real_cold)) != len(real_cold):
                out['violations'].append({'plan': 'ids', 'duplicate_ids': sorted(set(i for i in real_cold if real_cold.count(i) > 1))[:5]})
        if len(out['violations']) > 3:
            break
    if case['mode'] == 'stress':
        import concurrent.futures
        old = sys.getswitchinterval()
        sys.setswitchinterval(1e-6)
        try:
            names = [case['a']] + list(case['bs'])
            with concurrent.futures.ThreadPoolExecutor(max_workers=len(names)) as ex:
                for rnd in range(case['count']):
                    futs = [(n, ex.submit(serve, app, n)) for n in names]
                    for n, f in futs:
                        r = f.result(30)
                        ids.append(r.get('rid'))
                        out['schedules'] += 1
                        if mask(r) != solo[n]:
                            out['violations'].append({'plan': 'free-running', 'thread': n, 'request': n, 'got': r, 'solo': solo[n]})
        finally:
            sys.setswitchinterval(old)
    real = [i for i in ids if i not in (None, 'None')]
    out['ids'] = len(real)
    dup = sorted(set(i for i in real if real.count(i) > 1))
    if dup:
        out['violations'].append({'plan': 'ids', 'duplicate_ids': dup[:5]})
    out['violations'] = out['violations'][:5]
    return out


def shrink(case):
    return case


def run(rep, b, tier, seed, only_cases=None):
    rep.shrink_module = None
    rng = random.Random(seed * 275604541 + 12)
    corpus = [c['case'] if 'case' in c else c for c in core.load_corpus('C12')]
    if only_cases is not None:
        cases = list(only_cases)
    else:
        cases = list(corpus)
        pairs = list(PAIRS_QUICK)
        if tier != 'quick':
            names = sorted(REQUESTS)
            pairs = [(a, c) for a in names for c in names]
        for a, c in pairs:
            cases.append({'mode': 'single', 'a': a, 'bs': [c]})
            if tier != 'quick':
                cases.append({'mode': 'single', 'a': c, 'bs': [a]})
        # a long walk over distinct URLs of a branch route arrives while another request for that route is in flight
        cases.append({'mode': 'single', 'a': 'redir', 'bs': ['burst']})
        if tier != 'quick':
            cases.append({'mode': 'single', 'a': 'redir_beta', 'bs': ['burst']})
            cases.append({'mode': 'single', 'a': 'item1', 'bs': ['burst']})
        for _ in range(6 if tier == 'quick' else 60):
            a = rng.choice(sorted(REQUESTS))
            cases.append({'mode': 'multi', 'a': a, 'bs': [rng.choice(sorted(REQUESTS)) for _ in range(rng.choice([2, 3]))], 'seed': rng.randrange(10 ** 6),
                          'count': 15 if tier == 'quick' else 60})
        for _ in range(3 if tier == 'quick' else 12):
            cases.append({'mode': 'stress', 'a': rng.choice(sorted(REQUESTS)), 'bs': [rng.choice(sorted(REQUESTS)) for _ in range(3)],
                          'count': 100 if tier == 'quick' else 1000})
    rep.rule = ('conclab: one shared application with a provides-middleware; request catalogue of %d kinds (different routes and '
                'parameters, POST, 405, two method-restricted routes on one path with GET / POST / a method neither admits, uncaught exception, non-breaking error -> 404, unknown URL, slash redirect, rendered context, '
                'multi-segment binding, non-breaking fallthrough to a later route); EVERY single-preemption schedule of %s request pairs '
                '(thread A suspended before each of its ~100 line events inside clastic/ and the generated chain code while thread B '
                'serves its whole request) - each schedule once on a COLD application object and once on a WARM one shared by the case -, seeded multi-preemption schedules with 2-3 intruding requests, and free-running stress with '
                'switch interval 1e-6; every response (status, body incl. URL parameters / provided token / dispatch-state size, '
                'Location) is compared with the request served alone on a fresh application; all request ids must be distinct. '
                'non-trivial = schedules executed.' % (len(REQUESTS), 'selected' if tier == 'quick' else 'all ordered'))
    rep.assumptions = ['itertools.count.__next__ is atomic under the GIL', 'thread switches inside C code / werkzeug are not controlled by the scheduler '
                       '(only by the free-running stress)', 'user middlewares/endpoints of the scenario are themselves thread-safe']
    obs = core.run_impl_workers('c12', cases, nworkers=min(16, len(cases)), extra_env={'VERIF_CASE_TIMEOUT': '600'})[0]
    total = 0
    for c, o in zip(cases, obs):
        if isinstance(o, dict) and '_harness_exception' in o:
            rep.broken('harness exception on implementation side', {'case': c, 'obs': o})
            continue
        total += o['schedules']
        for v in o['violations']:
            if 'duplicate_ids' in v:
                rep.violation('request identifiers %s were handed to more than one request' % v['duplicate_ids'],
                              {'case': c, 'signature': 'duplicate-id', 'detail': v})
            else:
                rep.violation('request %s (thread %s) under schedule %s got %s; served alone it gets %s'
                              % (v['request'], v['thread'], v['plan'], v['got'], v['solo']), {'case': c, 'signature': 'interference', 'detail': v})
        rep.count('mode.' + c['mode'])
        rep.count('schedules', o['schedules'])
        rep.count('ids_checked', o['ids'])
        rep.evaluations += o['schedules']
        rep.case(json.dumps(c, sort_keys=True), nontrivial=o['schedules'] > 0)
    rep.traces = total
    rep.samples = cases[:2]


def replay(rep, b, path):
    j = json.load(open(path))
    run(rep, b, 'quick', 0, only_cases=[j['case']])
