from harness.props import dispatchprops


def impl(case):
    return dispatchprops.impl_any(case)


def shrink(case):
    return dispatchprops.shrink(case)
