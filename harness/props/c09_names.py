from harness.props import c09


def impl(case):
    return [[c.__name__, c.code, c.message, c.detail] for c in c09.error_classes()]
