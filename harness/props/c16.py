"""C16 - cookielab: histories of requests by one client against SignedCookieMiddleware with a patched
clock, interleaved with tampering of the cookie the client sends back."""
import base64
import hashlib
import hmac
import json
import random
from urllib.parse import unquote_plus

from harness import core, sexp

SERVER_KEY = b'server-secret-key-0123'
OTHER_KEY = b'attacker-or-other-key!'
_DEFAULT_KEYS = (SERVER_KEY, OTHER_KEY)
NONASCII_SECRET = u'\u043e\u0447\u0435\u043d\u044c-\u0434\u043b\u0438\u043d\u043d\u044b\u0439-\u043a\u043b\u044e\u0447'


def set_keys(case, keys=None):
    """the form of the server's secret is a configuration dimension: bytes, ASCII text, or a non-ASCII passphrase (its key
    bytes are its UTF-8 encoding); for the latter the 'other key' of the re-signing tamper step is the passphrase with
    every non-ASCII character collapsed to '?'.  'default': no secret is configured, every middleware draws its own; the
    keys are read off the built middlewares (keys = [first, second] in hex) and the 'other key' is the second middleware's"""
    global SERVER_KEY, OTHER_KEY
    if case.get('secret') == 'default':
        SERVER_KEY, OTHER_KEY = _DEFAULT_KEYS
        if keys:
            SERVER_KEY, OTHER_KEY = bytes.fromhex(keys[0]), bytes.fromhex(keys[1])
        return
    if case.get('secret') == 'nonascii':
        SERVER_KEY = NONASCII_SECRET.encode('utf8')
        OTHER_KEY = NONASCII_SECRET.encode('ascii', 'replace')
    else:
        SERVER_KEY, OTHER_KEY = _DEFAULT_KEYS


def secret_arg(case):
    form = case.get('secret')
    if form == 'default':
        return None
    return NONASCII_SECRET if form == 'nonascii' else (_DEFAULT_KEYS[0].decode('ascii') if form == 'text' else _DEFAULT_KEYS[0])
VALUES = [1, 0, -5, 3.5, True, False, 1.0, 0.0, [True, False, True], [1, 0, 1], None, '', 'x', 'é中', [1, [2, {'a': None}]], {'k': 'v', 'n': [1, 2]}, 'a=b&c?d', '"q"', 10 ** 20,
          # texts whose JSON contains '>', '?' or '~' at every offset modulo 3 (base64 alphabets differ exactly there)
          'Saved. What next?', '/search?q=clastic&page=2', '<b>Done</b> -> continue', '?', 'a?', 'ab?', '>>>', '~x~y~z~', 'x>y?z~w',
          # long values: a shopping cart, a draft text, a long unicode string (compressible), and one that is not
          [{'sku': 1000 + i, 'qty': 1} for i in range(40)], 'lorem ipsum dolor sit amet ' * 20, 'é中' * 200,
          ''.join(chr(33 + (i * 7919) % 90) for i in range(400))]
KEYS = ['a', 'a', 'a', 'b', 'user', 'k e y', 'é', '_expires_not', 'x=y']
TAMPER = ['none', 'none', 'none', 'flip_tag', 'flip_payload', 'truncate', 'extend', 'swap_sig', 'swap_payload', 'resign_other',
          'random', 'nonascii', 'nonascii_key', 'bad_b64_tag', 'no_sep', 'no_eq', 'replay_old', 'drop', 'quotes', 'bad_value', 'junk_prefix']


# ------------------------------------------------------------------ independent re-statement of the wire format
def lex(cookie_bytes):
    """the purely lexical structure of a cookie string: -> 'absent' | 'nosep' | (tag_b64, [item bytes])"""
    if not cookie_bytes:
        return 'absent'
    if b'?' not in cookie_bytes:
        return 'nosep'
    tag, data = cookie_bytes.split(b'?', 1)
    return (tag, data.split(b'&'))


def classify(cookie_str, history_items):
    """-> the model's `received` s-expression and an oracle verdict (dict or None = must be empty)"""
    s = cookie_str.strip('"') if cookie_str is not None else ''
    b = s.encode('utf8', 'replace')
    lx = lex(b)
    if lx in ('absent', 'nosep'):
        return lx, None
    tag_b64, raw_items = lx
    items, key_raises = [], False
    for it in raw_items:
        if b'=' not in it:
            items.append('None')
            break                              # the loop of SecureCookie.unserialize stops here
        k, v = it.split(b'=', 1)
        try:
            ks = unquote_plus(k.decode('ascii'))
        except UnicodeDecodeError:
            key_raises = True
            break
        try:
            val = json.loads(base64.b64decode(v).decode('utf8'))
            vs = json.dumps(val, sort_keys=True)
        except Exception:
            vs = '!bad'
        items.append([ks.encode('utf8'), vs.encode('utf8')])
    try:
        client_hash = base64.b64decode(tag_b64)
        tag = 'junk'
    except Exception:
        client_hash, tag = None, 'b64error'
    verdict = None
    if client_hash is not None and not key_raises and 'None' not in items:
        for kid, key in ((0, SERVER_KEY), (1, OTHER_KEY)):
            mac = hmac.new(key, None, hashlib.sha1)
            for it in raw_items:
                mac.update(b'|' + it)
            if hmac.compare_digest(client_hash, mac.digest()):
                tag = ['mac', kid, items]
                if kid == 0 and all(i[1] != b'!bad' for i in items):
                    verdict = dict((i[0].decode('utf8'), json.loads(i[1].decode('utf8'))) for i in items)
    return ['parsed', tag, items, key_raises], verdict


# ------------------------------------------------------------------ implementation side
def build(case):
    from clastic import Application, Response
    from clastic.middleware.cookie import SignedCookieMiddleware, NEVER
    ex = case['expiry']
    expiry = 0 if ex == 'session' else (NEVER if ex == 'never' else ex[1])
    arg = case['arg_name']
    state = {'ops': []}
    ns = {}

    def body(cookie):
        given = dict(cookie)
        for op in state['ops']:
            if op[0] == 'set':
                cookie[op[1]] = op[2]
            elif op[0] == 'del':
                if op[1] in cookie:
                    del cookie[op[1]]
            elif op[0] == 'clear':
                cookie.clear()
            elif op[0] == 'expire':
                cookie.set_expires(int(state['now'] + op[1]))       # the public JSONCookie API (examples/basic.py logout idiom)
            elif op[0] == 'expire_abs':
                cookie.set_expires(op[1])                           # an absolute time, the epoch itself included
        return Response(json.dumps(given, sort_keys=True), mimetype='application/json', status=state.get('status') or 200)
    mw = SignedCookieMiddleware(arg_name=arg, cookie_name=case['cookie_name'], secret_key=secret_arg(case), expiry=expiry)
    if case.get('second_cookie'):
        # a second, independent signed cookie whose name merely BEGINS with the first one's name; the endpoint writes it on
        # every request and reports what it found in it
        arg2 = arg + '_prefs'
        mw2 = SignedCookieMiddleware(arg_name=arg2, cookie_name=mw.cookie_name + '_prefs',
                                     secret_key=None if case.get('secret') == 'default' else b'second-key-' * 2)

        def body2(c1, c2):
            seen2 = dict(c2)
            c2['p'] = state['n']
            resp = body(c1)
            resp.headers['X-Second'] = json.dumps(seen2, sort_keys=True)
            return resp
        exec('def ep(%s, %s):\n    return _body2(%s, %s)\n' % (arg, arg2, arg, arg2), {'_body2': body2}, ns)
        state['second_name'] = mw2.cookie_name
        return Application([('/', ns['ep'])], middlewares=[mw, mw2]), state, mw.cookie_name
    exec('def ep(%s):\n    return _body(%s)\n' % (arg, arg), {'_body': body}, ns)
    return Application([('/', ns['ep'])], middlewares=[mw]), state, mw.cookie_name


def tamper(kind, cur, old, rng):
    """cur/old: cookie strings (or None) -> the string the client sends"""
    if cur is None or kind == 'none':
        return cur
    tagpart, _, payload = cur.partition('?')
    if kind == 'flip_tag':
        i = rng.randrange(len(tagpart) - 2)
        c = 'A' if tagpart[i] != 'A' else 'B'
        return tagpart[:i] + c + tagpart[i + 1:] + '?' + payload
    if kind == 'flip_payload' and payload:
        i = rng.randrange(len(payload))
        c = 'A' if payload[i] != 'A' else 'B'
        return tagpart + '?' + payload[:i] + c + payload[i + 1:]
    if kind == 'truncate':
        return cur[:rng.randrange(1, len(cur))]
    if kind == 'extend':
        return cur + rng.choice(['&admin=MQ==', 'A', '&', '&x', '=', '&_expires=OTk5OTk5OTk5OQ=='])
    if kind == 'swap_sig' and old:
        return old.partition('?')[0] + '?' + payload
    if kind == 'swap_payload' and old:
        return tagpart + '?' + old.partition('?')[2]
    if kind == 'resign_other':
        items = payload.encode('ascii').split(b'&') if payload else [b'']
        mac = hmac.new(OTHER_KEY, None, hashlib.sha1)
        for it in items:
            mac.update(b'|' + it)
        return base64.b64encode(mac.digest()).decode() + '?' + payload
    if kind == 'random':
        return ''.join(rng.choice('abcXYZ019+/=?&%') for _ in range(rng.randrange(1, 40)))
    if kind == 'nonascii':
        return cur[:3] + 'é' + cur[3:]
    if kind == 'nonascii_key':
        return tagpart + '?' + 'é=' + (payload.partition('=')[2] or 'MQ==')
    if kind == 'bad_b64_tag':
        return tagpart[:-3] + '?' + payload
    if kind == 'no_sep':
        return cur.replace('?', '', 1)
    if kind == 'no_eq':
        return tagpart + '?' + payload.replace('=', '', 1)
    if kind == 'replay_old' and old:
        return old
    if kind == 'drop':
        return None
    if kind == 'quotes':
        return '"' + cur + '"'
    if kind == 'bad_value':
        return tagpart + '?' + (payload.partition('=')[0] or 'a') + '=!!!notbase64'
    if kind == 'junk_prefix':
        return '\xe9' + cur if rng.random() < 0.5 else '*' + cur
    return cur


def impl(case):
    from harness import wsgi
    import secure_cookie.cookie as sc
    import clastic.middleware.cookie as cm
    set_keys(case)
    import os
    import time as _time
    os.environ['TZ'] = case.get('tz') or 'UTC'        # the server's time zone is a deployment choice, not the cookie's business
    _time.tzset()
    app, state, cname = build(case)
    keys = None
    if case.get('secret') == 'default':
        ks = [m.secret_key for m in app.middlewares]
        keys = [ks[0].hex(), (ks[1] if len(ks) > 1 else OTHER_KEY).hex()]
        set_keys(case, keys)
    rng = random.Random(case['seed'])
    clock = {'now': 1000000.0}
    orig = (sc.time, cm.time)

    class FakeTime(object):
        @staticmethod
        def time():
            return clock['now']
    sc.time = lambda: clock['now']
    cm.time = FakeTime
    out = []
    cur, old = None, None
    jar2 = None
    try:
        for n_step, step in enumerate(case['steps']):
            state['n'] = n_step
            clock['now'] += step['advance']
            sent = tamper(step['tamper'], cur, old, rng)
            if step['tamper'] == 'cross_name' and jar2 is not None:
                # the value the server issued for its OTHER signed cookie, presented under this cookie's name
                sent = bytes(jar2[1:-1], 'latin-1').decode('unicode_escape') if jar2.startswith('"') else jar2
            state['ops'] = step['ops']
            state['status'] = step.get('status')      # the endpoint's own answer may be an error page: the cookie is stored all the same
            state['now'] = clock['now']
            env = wsgi.environ('/')
            cookies = []
            if sent is not None:
                cookies.append('%s=%s' % (cname, sent.encode('utf8').decode('latin-1')))
            if jar2 is not None:
                cookies.append('%s=%s' % (state['second_name'], jar2))
            if cookies:
                env['HTTP_COOKIE'] = '; '.join(cookies)
            r = wsgi.call(app, env)
            sc_headers = r.all_headers('Set-Cookie')
            new = None
            for h in sc_headers:
                name, _, rest = h.partition('=')
                if state.get('second_name') and name == state['second_name']:
                    jar2 = rest.split(';', 1)[0]
                if name == cname:
                    val = rest.split(';', 1)[0]
                    new = val.strip('"') if val.startswith('"') else val
                    if val.startswith('"'):
                        new = bytes(val[1:-1], 'latin-1').decode('unicode_escape')
            try:
                given = json.loads(r.body.decode('utf8')) if r.code == (step.get('status') or 200) else None
            except Exception:
                given = None
            second = None
            if state.get('second_name'):
                try:
                    second = json.loads(r.header('X-Second')) if r.header('X-Second') else 'missing'
                except Exception:
                    second = 'unreadable'
            out.append({'keys': keys, 'second': second, 'status': r.code, 'exc': type(r.exc).__name__ if r.exc else None, 'given': given, 'sent': sent,
                        'set_cookie': new, 'now': clock['now']})
            if new is not None:
                old, cur = cur, new
    finally:
        sc.time, cm.time = orig
    return out


# ------------------------------------------------------------------ oracle
def oracle(case, obs):
    for n, (step, o) in enumerate(zip(case['steps'], obs)):
        what = 'request %d (tamper %s, clock %s)' % (n, step['tamper'], o['now'])
        if o['exc']:
            return ('%s: %s escaped for cookie %r' % (what, o['exc'], o['sent']), 'escape')
        if o['status'] != (step.get('status') or 200):
            return ('%s: status %s for cookie %r' % (what, o['status'], o['sent']), 'error-response')
        _, verdict = classify(o['sent'], None)
        want = {}
        if step['tamper'] == 'cross_name' and case.get('secret') == 'default' and case.get('second_cookie'):
            verdict = None                # issued for another cookie by a middleware with its own (drawn) secret: not this one's data
        if verdict is not None:
            exp = verdict.get('_expires')
            if exp is None:
                want = verdict
            elif isinstance(exp, (int, float)) and not isinstance(exp, bool) and not (o['now'] > exp):
                want = dict((k, v) for k, v in verdict.items() if k != '_expires')
            else:
                want = {}
        if not same(o['given'], want):
            return ('%s: the endpoint was given %r for cookie %r; intact, unexpired, server-signed contents are %r'
                    % (what, o['given'], o['sent'], want), 'contents')
    return None


def same(a, b):
    """type-exact equality of JSON-compatible values: true is not 1, 1 is not 1.0 (Python's == conflates them)"""
    try:
        return json.dumps(a, sort_keys=True) == json.dumps(b, sort_keys=True)
    except Exception:
        return a == b


def history_oracle(case, obs):
    """the history clause, restated independently: an honest client (one that returns the cookie it was last sent,
    untouched) is presented exactly what the application stored over its previous responses, until that expires"""
    numeric = None if isinstance(case['expiry'], str) else case['expiry'][1]
    jar, jar_exp = {}, None
    if case.get('second_cookie'):
        for n, o in enumerate(obs):
            want2 = {} if n == 0 else {'p': n - 1}
            if o.get('given') is not None and not same(o.get('second'), want2):
                return ('request %d: the second signed cookie (its name begins with the first one\'s) holds %r; the application stored %r '
                        'in it at the previous request' % (n, o.get('second'), want2), 'second-cookie')
    for n, (step, o) in enumerate(zip(case['steps'], obs)):
        if o['given'] is None:
            return None                   # an error response: the per-request oracle reports it
        if step['tamper'] == 'none' or n == 0:
            want = {} if (jar_exp is not None and o['now'] > jar_exp) else jar
            if not same(o['given'], want):
                return ('request %d (clock %s) by an honest client: the endpoint was given %r; over its previous responses the '
                        'application stored %r%s' % (n, o['now'], o['given'], jar,
                                                     ' (valid until %s)' % jar_exp if jar_exp is not None else ''), 'history')
        d = dict(o['given'])
        modified = False
        for op in step['ops']:
            if op[0] == 'set':
                d[op[1]] = op[2]
                modified = True
            elif op[0] == 'del':
                if op[1] in d:
                    del d[op[1]]
                    modified = True
            elif op[0] == 'expire':
                d['_expires'] = int(o['now'] + op[1])
                modified = True
            elif op[0] == 'expire_abs':
                d['_expires'] = op[1]
                modified = True
            else:
                d.clear()
                modified = True
        if '_expires' in d:
            if modified:
                jar, jar_exp = dict((k, v) for k, v in d.items() if k != '_expires'), d['_expires']
        elif numeric is not None:
            jar, jar_exp = d, o['now'] + numeric
        elif modified:
            jar, jar_exp = d, None
    return None


def gen_case(rng, tier):
    ex = rng.choice(['session', 'never', ['numeric', rng.choice([5, 50, 100])], ['numeric', 100]])
    steps = []
    keys_now = set()
    for _ in range(rng.choice([3, 6, 10]) if tier == 'quick' else rng.choice([6, 15, 30])):
        ops = []
        for _ in range(rng.choice([0, 0, 1, 1, 2])):
            x = rng.random()
            if x < 0.6:
                k = rng.choice(KEYS)
                ops.append(['set', k, rng.choice(VALUES)])
            elif x < 0.8:
                ops.append(['del', rng.choice(KEYS)])
            elif x < 0.87:
                ops.append(['expire', rng.choice([-500, -1, 30, 60, 1000])])
            elif x < 0.9:
                ops.append(['expire_abs', rng.choice([0, 0, 1, 999999, 1000200, 4102444800])])
            else:
                ops.append(['clear'])
        adv = rng.choice([0, 1, 1, 10, 49, 50, 51, 99, 100, 101, 500])
        steps.append({'ops': ops, 'advance': adv, 'tamper': rng.choice(TAMPER + ['cross_name'])})
        if rng.random() < 0.15:
            steps[-1]['status'] = rng.choice([503, 502, 500, 404, 302])
    return {'second_cookie': rng.random() < 0.3, 'secret': rng.choice(['bytes', 'bytes', 'text', 'nonascii', 'default']), 'expiry': ex, 'steps': steps, 'seed': rng.randrange(10 ** 6), 'arg_name': rng.choice(['cookie', 'session', 'sess_1']),
            'cookie_name': rng.choice([None, 'sid', 'my-cookie']), 'tz': rng.choice(['UTC', 'UTC', 'EST5', 'XYZ-9', 'ABC+11', 'IST-5:30'])}


def shrink(case):
    return case


def run(rep, b, tier, seed, only_cases=None):
    rep.shrink_module = None
    rng = random.Random(seed * 160481183 + 16)
    corpus = [c['case'] if 'case' in c else c for c in core.load_corpus('C16')]
    def directed():
        # a cookie the server has already verified once is presented again after its expiry (replayed by the client)
        out = []
        for secs in (5, 50):
            for adv in (secs + 1, 500):
                out.append({'secret': 'bytes', 'second_cookie': False, 'expiry': ['numeric', secs], 'seed': 1, 'arg_name': 'cookie',
                            'cookie_name': None,
                            'steps': [{'ops': [['set', 'a', 'x']], 'advance': 1, 'tamper': 'none'},
                                      {'ops': [], 'advance': 1, 'tamper': 'none'},
                                      {'ops': [], 'advance': 1, 'tamper': 'none'},
                                      {'ops': [], 'advance': adv, 'tamper': 'replay_old'},
                                      {'ops': [], 'advance': 0, 'tamper': 'replay_old'},
                                      {'ops': [['set', 'b', 1]], 'advance': adv, 'tamper': 'none'},
                                      {'ops': [], 'advance': 0, 'tamper': 'none'}]})
        # two signed cookies of one application, no secret configured: each middleware draws its own; what was issued for one
        # cookie is presented under the other's name
        for arg in ('cookie', 'session'):
            out.append({'secret': 'default', 'second_cookie': True, 'expiry': 'session', 'seed': 2, 'arg_name': arg, 'cookie_name': None,
                        'steps': [{'ops': [['set', 'user', 'alice']], 'advance': 1, 'tamper': 'none'},
                                  {'ops': [], 'advance': 1, 'tamper': 'none'},
                                  {'ops': [], 'advance': 1, 'tamper': 'cross_name'},
                                  {'ops': [], 'advance': 1, 'tamper': 'none'}]})
        # logout by set_expires(0): the cookie sent with that very response is presented again later
        for ex in ('session', 'never', ['numeric', 100]):
            out.append({'secret': 'bytes', 'second_cookie': False, 'expiry': ex, 'seed': 3, 'arg_name': 'cookie', 'cookie_name': None,
                        'steps': [{'ops': [['set', 'user', 'alice']], 'advance': 1, 'tamper': 'none'},
                                  {'ops': [['expire_abs', 0]], 'advance': 1, 'tamper': 'none'},
                                  {'ops': [], 'advance': 1, 'tamper': 'none'},
                                  {'ops': [], 'advance': 500, 'tamper': 'none'}]})
        return out
    cases = list(only_cases) if only_cases is not None else corpus + directed() + \
        [gen_case(rng, tier) for _ in range(300 if tier == 'quick' else 3000)]
    rep.rule = ('cookielab: histories of %s requests by one client: per request 0-2 operations {set key to a JSON value from %d '
                '(nested, unicode, numbers, empty), delete, clear, set_expires(now + {-500,-1,30,60,1000}), set_expires(absolute time incl. 0)}, a clock advance around the expiry (patched clocks in '
                'secure_cookie and the middleware), and a tampering step from %d kinds applied to the cookie the client sends '
                'back; expiry session / never / numeric; the secret given as bytes, ASCII text, a non-ASCII passphrase or not at all (each middleware draws its own; with two signed cookies in one application the value issued for one is presented under the name of the other) (re-signing then uses its question-mark-collapsed form); custom cookie and argument names; raw Cookie headers. Every request: '
                'status, the cookie contents the endpoint saw, the Set-Cookie value; compared with Model/Cookie.mw_request and '
                'with an independent re-statement (HMAC-SHA1 recomputed in the harness). non-trivial = histories with a '
                'tampering step or an expiry.' % ('3-10' if tier == 'quick' else '6-30', len(VALUES), len(set(TAMPER))))
    rep.assumptions = ['HMAC-SHA1 is unforgeable (symbolic premise mac_injective of the theorems; computational security is not provable here)',
                       'base64 / stdlib json round-trip JSON-compatible values (premise dec_enc)',
                       "the key '_expires' is reserved by the mechanism (O8)"]
    obs = core.run_impl_workers('c16', cases)[0]
    lines, index = [], []
    def keys_of(o):
        return o[0].get('keys') if isinstance(o, list) and o and isinstance(o[0], dict) else None
    for i, (c, o) in enumerate(zip(cases, obs)):
        set_keys(c, keys_of(o))
        if isinstance(o, dict) and '_harness_exception' in o:
            rep.broken('harness exception on implementation side', {'case': c, 'obs': o})
            continue
        for k, (step, r) in enumerate(zip(c['steps'], o)):
            rc, _ = classify(r['sent'], None)
            ops = []
            for op in step['ops']:
                if op[0] == 'set':
                    ops.append(['set', op[1].encode('utf8'), json.dumps(op[2], sort_keys=True).encode('utf8')])
                elif op[0] == 'del':
                    ops.append(['del', op[1].encode('utf8')])
                elif op[0] == 'expire':
                    ops.append(['set', b'_expires', str(int(r['now'] + op[1])).encode()])
                elif op[0] == 'expire_abs':
                    ops.append(['set', b'_expires', str(op[1]).encode()])
                else:
                    ops.append('clear')
            ex = c['expiry'] if isinstance(c['expiry'], str) else ['numeric', c['expiry'][1]]
            lines.append('cookielab ' + sexp.dumps([ex, int(r['now']), rc, ops]))
            index.append((i, k))
    # whole histories: the jar is carried by the model (run_history); only tampered cookies are fed in
    hlines, hindex = [], []
    for i, (c, o) in enumerate(zip(cases, obs)):
        set_keys(c, keys_of(o))
        if isinstance(o, dict) and '_harness_exception' in o:
            continue
        hist = []
        prev_set = None
        for k, (step, r) in enumerate(zip(c['steps'], o)):
            if r['sent'] != prev_set:
                hist.append(['tamper', classify(r['sent'], None)[0]])
            ops = []
            for op in step['ops']:
                if op[0] == 'set':
                    ops.append(['set', op[1].encode('utf8'), json.dumps(op[2], sort_keys=True).encode('utf8')])
                elif op[0] == 'del':
                    ops.append(['del', op[1].encode('utf8')])
                elif op[0] == 'expire':
                    ops.append(['set', b'_expires', str(int(r['now'] + op[1])).encode()])
                elif op[0] == 'expire_abs':
                    ops.append(['set', b'_expires', str(op[1]).encode()])
                else:
                    ops.append('clear')
            hist.append(['req', int(r['now']), ops])
            if r['set_cookie'] is not None:
                prev_set = r['set_cookie']
            else:
                prev_set = r['sent']
        ex = c['expiry'] if isinstance(c['expiry'], str) else ['numeric', c['expiry'][1]]
        hlines.append('cookiehist ' + sexp.dumps([ex, hist]))
        hindex.append(i)
    model_out = None
    if b.driver_ok:
        try:
            model_out = core.run_model(lines)
            hist_out = core.run_model(hlines)
            nh = 0
            for i, line in zip(hindex, hist_out):
                try:
                    givens = [dict((kv[0].decode('utf8'), json.loads(kv[1].decode('utf8'))) for kv in d) for d in sexp.loads(line)]
                except Exception as e:  # noqa
                    givens = 'unreadable %s' % e
                real = [r['given'] for r in obs[i]]
                if not same(givens, real):
                    nh += 1
                    if nh <= 3:
                        rep.broken('correspondence cookiehist: the model run over the whole history (its own jar) gives the endpoint %r; '
                                   'the implementation gave %r' % (givens, real), {'case': cases[i]})
                else:
                    rep.count('histories_refined')
        except Exception as e:  # noqa
            rep.broken('model cookielab is not executable: %s' % e)
    else:
        rep.broken('model cookielab is not executable (extraction or driver build failed)')
    ndiff = 0
    if model_out is not None:
        for (i, k), line in zip(index, model_out):
            t = sexp.loads(line)
            c, r = cases[i], obs[i][k]
            set_keys(c, keys_of(obs[i]))
            try:
                given = dict((kv[0].decode('utf8'), json.loads(kv[1].decode('utf8'))) for kv in t[0])
                stored = None if t[1] == b'None' else dict((kv[0].decode('utf8'), json.loads(kv[1].decode('utf8'))) for kv in t[1][0])
            except Exception as e:  # noqa
                given, stored = 'unreadable %s' % e, None
            ok = same(given, r['given'])
            if ok:
                got_rc, got_verdict = classify(r['set_cookie'], None) if r['set_cookie'] is not None else (None, None)
                if stored is None:
                    ok = r['set_cookie'] is None
                elif stored == {}:
                    # an empty dict is serialized as "tag?" whose single empty item parses as an empty cookie
                    ok = r['set_cookie'] is not None and r['set_cookie'].endswith('?')
                else:
                    ok = got_verdict is not None and same(dict((kk, vv) for kk, vv in got_verdict.items()), stored)
            if not ok:
                ndiff += 1
                if ndiff <= 5:
                    rep.broken('correspondence cookielab: request %d: model gives %r / stores %r; implementation gives %r / Set-Cookie %r'
                               % (k, given, stored, r['given'], r['set_cookie']), {'case': c})
            else:
                rep.traces += 1
    for c, o in zip(cases, obs):
        set_keys(c, keys_of(o))
        if isinstance(o, dict) and '_harness_exception' in o:
            continue
        v = oracle(c, o) or history_oracle(c, o)
        if v:
            rep.violation(v[0], {'case': c, 'signature': v[1], 'lab': 'cookielab'})
        for st in c['steps']:
            rep.count('tamper.' + st['tamper'])
        rep.count('expiry.' + (c['expiry'] if isinstance(c['expiry'], str) else 'numeric'))
        rep.evaluations += len(c['steps']) - 1
        rep.case(json.dumps(c, sort_keys=True), nontrivial=any(st['tamper'] != 'none' for st in c['steps']))
    rep.samples = cases[:1]


def replay(rep, b, path):
    j = json.load(open(path))
    run(rep, b, 'quick', 0, only_cases=[j['case']])
