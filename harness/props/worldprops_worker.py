from harness.props import worldprops


def impl(case):
    return worldprops.impl(case)


def shrink(case):
    return worldprops.shrink(case)
