"""C09 - errorlab: every HTTPException class x field overrides x nasty strings x Accept headers x
default/debug handlers x ways of producing the error; bodies parsed and compared with the model."""
import json
import random
from html.parser import HTMLParser

from harness import core, sexp

NASTY = ['plain text', 'a[b[0]]>1 and <x>]]><admin>1</admin><![CDATA[', '<script>XSS1</script>', '"><img src=x onerror=XSS2>', "' onmouseover='XSS3", 'a & b &amp; c', '{code} {0} {message!r}',
         '{{ x }} {#sec}{/sec} {>partial/}', 'é 中 ✓', 'tab\tnew\nline', '</title></head><body>XSS4', '<![CDATA[XSS5]]>', '<!-- XSS6 -->',
         '&lt;already&gt;', '\x07bell\x1bescape', '%s %d %(x)s', 'http://evil/"onclick="XSS7', 'https://ok.example/errors/invalid_token', '', 'x' * 3000,
         '&<"\'' * 1500, 'a' * 2043 + '&&&&' + 'b' * 4000, ('<tag attr="v">' + "it's & more ") * 400]
ACCEPTS = [None, 'text/html', 'application/json', 'application/xml', 'text/plain', '*/*', 'text/*', 'application/*',
           'text/html;q=0.2, application/json;q=0.9', 'image/png', 'image/png, */*;q=0.1', 'application/json;q=0', '', 'garbage;;q=x, ,',
           'TEXT/HTML', 'text/html, application/xhtml+xml, application/xml;q=0.9, */*;q=0.8',
           # types that are NOT among the four formats, alone and ahead of one that is
           'application/xhtml+xml', 'application/xhtml+xml, text/html;q=0.9', 'text/xml', 'text/xml, application/json;q=0.5', 'text/*']
TOKENS = ['<script>XSS1', '<img src=x onerror=XSS2', "' onmouseover='XSS3", '<body>XSS4', '<![CDATA[XSS5', '<!-- XSS6', '"onclick="XSS7']
SUPPORTED = {'text/html': 'html', 'application/json': 'json', 'text/plain': 'text', 'application/xml': 'xml'}


class Skel(HTMLParser):
    def __init__(self):
        HTMLParser.__init__(self, convert_charrefs=True)
        self.tags = []

    def handle_starttag(self, tag, attrs):
        self.tags.append(('start', tag, tuple(sorted(k for k, v in attrs))))

    def handle_endtag(self, tag):
        self.tags.append(('end', tag))

    def handle_comment(self, data):
        self.tags.append(('comment',))

    def handle_decl(self, decl):
        self.tags.append(('decl',))

    def unknown_decl(self, data):
        self.tags.append(('unknown_decl',))


def html_skeleton(text):
    p = Skel()
    p.feed(text)
    p.close()
    return [list(t) if not isinstance(t, tuple) else [list(x) if isinstance(x, tuple) else x for x in t] for t in p.tags]


def error_classes():
    import clastic.errors as E
    out = []
    seen = set()
    stack = [E.HTTPException]
    while stack:
        c = stack.pop()
        for s in c.__subclasses__():
            if s not in seen and s.__module__ == 'clastic.errors':
                seen.add(s)
                out.append(s)
                stack.append(s)
    return sorted(out, key=lambda c: (c.code or 0, c.__name__))


def build(case):
    from clastic import Application, Response
    import clastic.errors as E
    classes = dict((c.__name__, c) for c in error_classes())
    debug = case['handler'] == 'debug'

    def make():
        cls = classes[case['cls']]
        kw = dict((k, v) for k, v in case['fields'].items() if k != 'detail')
        kw.update(case.get('response_kw') or {})        # content_type= / mimetype= of the Response side: negotiation decides anyway
        if case['cls'] == 'MethodNotAllowed':
            return cls(None, case['fields'].get('detail'), **kw)
        return cls(case['fields'].get('detail'), **kw)

    shared = []

    def reused():
        # one error instance answered again and again (a module-level singleton): each client gets its own format
        if not shared:
            shared.append(make())
        return shared[0]

    def raiser():
        raise make()

    def returner():
        return make()

    def boom():
        secret_local = case['nasty']
        raise ValueError(case['nasty'])
    def boomexec():
        # the failing frame has no source text (code made by exec, a generated __init__, a frozen module)
        ns = {}
        exec('def generated(msg):\n    local_copy = msg\n    raise ValueError(msg)\n', ns)
        return ns['generated'](case['nasty'])
    return Application([('/raise', raiser), ('/return', returner), ('/reused', reused), ('/boom', boom), ('/boomexec', boomexec)], debug=debug)


def impl(case):
    from harness import wsgi
    from werkzeug.datastructures import MIMEAccept
    from werkzeug.http import parse_accept_header
    try:
        app = build(case)
    except Exception as e:
        return {'construct': '%s: %s' % (type(e).__name__, e)}
    out = {'construct': 'ok', 'requests': []}
    for rq in case['requests']:
        headers = {} if rq['accept'] is None else {'Accept': rq['accept']}
        path = rq['path']
        env = wsgi.environ(path.encode('utf8').decode('latin-1'), headers=headers)
        if rq.get('upload'):
            # a multipart form post with a file part: the debug page inspects the request, files included
            body = (b'--BOUND\r\nContent-Disposition: form-data; name="field"\r\n\r\nvalue\r\n'
                    b'--BOUND\r\nContent-Disposition: form-data; name="doc"; filename="a.txt"\r\nContent-Type: text/plain\r\n\r\n'
                    b'file content <b>\r\n--BOUND--\r\n')
            env = wsgi.environ(path.encode('utf8').decode('latin-1'), method='POST', headers=headers, body=body)
            env['CONTENT_TYPE'] = 'multipart/form-data; boundary=BOUND'
        r = wsgi.call(app, env)
        best = parse_accept_header(rq['accept'], MIMEAccept).best_match(SUPPORTED) if rq['accept'] is not None else \
            parse_accept_header(None, MIMEAccept).best_match(SUPPORTED)
        body = r.body.decode('utf8', 'replace')
        rec = {'status': r.code, 'exc': type(r.exc).__name__ if r.exc else None, 'ctype': r.header('Content-Type'), 'body': body[:600000],
               'best': best}
        out['requests'].append(rec)
    return out


def acceptable(mime, accept):
    """simple RFC 7231 reading: is `mime` acceptable (q > 0) for this Accept header; None/'' accept anything"""
    if accept is None:
        return True
    ok = False
    any_entry = False
    for part in accept.split(','):
        bits = [x.strip() for x in part.split(';')]
        if not bits[0]:
            continue
        any_entry = True
        q = 1.0
        for x in bits[1:]:
            if x.lower().startswith('q='):
                try:
                    q = float(x[2:])
                except ValueError:
                    q = 1.0
        t = bits[0].lower()
        if q > 0 and (t == mime or t == '*/*' or (t.endswith('/*') and mime.startswith(t[:-1]))):
            ok = True
    return ok or not any_entry


_CLASS_INFO = {}      # name -> {'code', 'message', 'detail'}: the class defaults as reported by the implementation


def expected_fields(case):
    info = _CLASS_INFO[case['cls']]
    f = case['fields']
    return {'code': f.get('code', info['code']), 'message': f.get('message', info['message']),
            'detail': f.get('detail') or info['detail'], 'error_type': f.get('error_type')}


def oracle(case, obs):
    if obs.get('construct') != 'ok':
        return ('the application could not be built: %s' % obs.get('construct'), 'construct')
    exp = expected_fields(case)
    for rq, o in zip(case['requests'], obs['requests']):
        what = 'GET %s (Accept %r, %s handler, %s%s)' % (rq['path'], rq['accept'], case['handler'], case['cls'],
                                                        ' with overrides %s' % sorted(case['fields']) if case['fields'] else '')
        if o['exc']:
            return ('%s: %s escaped' % (what, o['exc']), 'escape')
        kind = rq['path'].split('/')[1]
        want_status = exp['code'] if kind in ('raise', 'return', 'reused') else (500 if kind in ('boom', 'boomexec') else 404)
        if o['status'] != want_status:
            return ('%s: status %s, expected %s' % (what, o['status'], want_status), 'status')
        ctype = (o['ctype'] or '').split(';')[0].strip()
        if ctype not in SUPPORTED:
            return ('%s: Content-Type %r is none of the four formats' % (what, o['ctype']), 'content-type')
        if ctype != 'text/plain' and not acceptable(ctype, rq['accept']):
            return ('%s: answered %s which the Accept header does not admit' % (what, ctype), 'negotiation')
        if ctype == 'text/plain' and any(acceptable(m, rq['accept']) for m in SUPPORTED if m != 'text/plain') \
                and not acceptable('text/plain', rq['accept']):
            return ('%s: answered text/plain although an acceptable supported format exists' % what, 'negotiation')
        body = o['body']
        if ctype == 'application/json':
            try:
                j = json.loads(body)
            except Exception as e:
                return ('%s: JSON body does not parse: %s' % (what, e), 'json')
            if not all(k in j for k in ('code', 'message', 'detail', 'error_type')):
                return ('%s: JSON body lacks one of code/message/detail/error_type: %s' % (what, sorted(j)), 'json-fields')
            if kind in ('raise', 'return', 'reused') and (j['code'] != exp['code'] or j['message'] != exp['message']):
                return ('%s: JSON code/message %r/%r' % (what, j['code'], j['message']), 'json-fields')
        if ctype in ('text/html', 'application/xml'):
            for t in TOKENS:
                if t in body:
                    return ('%s: the %s body contains unescaped %r' % (what, ctype, t), 'unescaped')
        if ctype == 'text/html':
            try:
                sk = html_skeleton(body)
            except Exception as e:
                return ('%s: HTML body does not tokenize: %s' % (what, e), 'html')
            # container elements open and close in pairs, properly nested (pages of both handlers)
            stack, paired = [], ('html', 'head', 'body', 'div', 'span', 'table', 'tr', 'td', 'th', 'ul', 'ol', 'pre', 'textarea', 'form', 'h1', 'h2',
                                 'h3', 'title', 'style', 'script', 'a', 'code', 'button', 'label', 'select', 'thead', 'tbody')
            for t in sk:
                if t[0] == 'start' and t[1] in paired:
                    stack.append(t[1])
                elif t[0] == 'end' and t[1] in paired:
                    if not stack or stack[-1] != t[1]:
                        return ('%s: HTML is not well formed: </%s> closes %s' % (what, t[1], ('<%s>' % stack[-1]) if stack else 'nothing'), 'html-nesting')
                    stack.pop()
            if stack:
                return ('%s: HTML is not well formed: never closed: %s' % (what, stack[-6:]), 'html-nesting')
            if case['handler'] == 'default' and kind in ('raise', 'return', 'reused') and not case['cls'].startswith('Contextual'):
                want = [['decl'], ['start', 'html', []], ['start', 'head', []], ['start', 'title', []], ['end', 'title'], ['end', 'head'],
                        ['start', 'body', []], ['start', 'h1', []], ['end', 'h1']]
                if exp['detail']:
                    want += [['start', 'p', []], ['end', 'p']]
                if exp['error_type']:
                    want += [['start', 'p', []]] + ([['start', 'a', ['href', 'target']], ['end', 'a']] if exp['error_type'].startswith('http') else []) + [['end', 'p']]
                want += [['end', 'body'], ['end', 'html']]
                if sk != want:
                    return ('%s: HTML tag sequence %s differs from the fixed skeleton %s' % (what, sk[:14], want), 'html-skeleton')
        if ctype == 'application/xml' and kind in ('raise', 'return', 'reused'):
            text = ''.join(str(v) for v in exp.values() if v is not None)
            if all(ord(ch) >= 32 or ch in '\t\n\r' for ch in text):
                import xml.dom.minidom
                try:
                    d = xml.dom.minidom.parseString(body.encode('utf8'))
                    names = [n.nodeName for n in d.documentElement.childNodes]
                except Exception as e:
                    return ('%s: XML body is not well formed: %s' % (what, e), 'xml')
                if names != ['code', 'message', 'detail', 'error_type']:
                    return ('%s: XML children %s' % (what, names), 'xml-skeleton')
    return None


def gen_case(rng, tier, classes):
    cls = rng.choice(classes)
    fields = {}
    nasty = rng.choice(NASTY)
    if rng.random() < 0.6:
        fields['detail'] = rng.choice(NASTY)
    if rng.random() < 0.3:
        fields['message'] = rng.choice(NASTY)
    if rng.random() < 0.4:
        fields['error_type'] = rng.choice(NASTY + ['http://x.example/"q"', 'https://ok.example/e'])
    if rng.random() < 0.15:
        fields['code'] = rng.choice([418, 499, 599, 400])
    reqs = []
    for _ in range(6 if tier == 'quick' else 16):
        kind = rng.choice(['raise', 'return', 'raise', 'boom', 'missing', 'reused', 'boomexec'])
        path = '/' + kind if kind != 'missing' else '/nf/' + rng.choice(['<script>XSS1</script>', 'a"b', "x'y", 'plain', '<!-- XSS6 -->'])
        reqs.append({'path': path, 'accept': rng.choice(ACCEPTS), 'upload': rng.random() < 0.25})
    response_kw = rng.choice([None, None, None, {'content_type': 'application/json'}, {'mimetype': 'application/json'},
                              {'content_type': 'text/html; charset=utf-8'}, {'mimetype': 'application/xml'}])
    return {'cls': cls, 'fields': fields, 'nasty': nasty, 'handler': rng.choice(['default', 'default', 'debug']), 'requests': reqs,
            'response_kw': response_kw}


def shrink(case):
    return case


def run(rep, b, tier, seed, only_cases=None):
    rep.shrink_module = None
    rng = random.Random(seed * 179424673 + 9)
    # class names from the implementation (O13: enumerate subclasses, not __all__)
    info = core.run_impl_workers('c09_names', [{}], nworkers=1)[0][0]
    _CLASS_INFO.clear()
    _CLASS_INFO.update(dict((n, {'code': c, 'message': m, 'detail': d}) for n, c, m, d in info))
    names = [row[0] for row in info]
    corpus = [c['case'] if 'case' in c else c for c in core.load_corpus('C09')]
    if only_cases is not None:
        cases = list(only_cases)
    else:
        cases = list(corpus)
        for n in names:                                   # every class at least twice
            for _ in range(2):
                c = gen_case(rng, tier, [n])
                cases.append(c)
        cases += [gen_case(rng, tier, names) for _ in range(200 if tier == 'quick' else 3000)]
    rep.rule = ('errorlab: every HTTPException subclass of clastic.errors (%d, enumerated from the implementation) x default and '
                'overridden detail/message/error_type/code x %d nasty strings (markup, quotes, ampersands, braces, format and '
                'template syntax, non-ASCII, control characters, 3000 characters) x %d Accept headers (exact, wildcards, q-values, '
                'q=0, unsupported, empty, malformed) x default and debug handlers x {raised, returned, uncaught exception with markup '
                'in message and locals, 404 for paths containing markup}; bodies parsed with json / xml.dom.minidom / an HTML '
                'tokenizer; HTML and XML bodies of the default handler compared byte-for-byte with the functions translated from '
                'errors.py. non-trivial = cases with an overridden field.' % (len(names), len(NASTY), len(ACCEPTS)))
    rep.assumptions = ["werkzeug's Accept parsing/best_match picks an acceptable supported type when one exists (cross-checked by a simple RFC parser)",
                       'stdlib json emits valid JSON; ashes escapes every reference without the s filter (premise for the debug pages)',
                       'XML well-formedness is claimed only for text XML 1.0 can represent']
    obs = core.run_impl_workers('c09', cases)[0]
    lines, index = [], []
    for i, (c, o) in enumerate(zip(cases, obs)):
        if isinstance(o, dict) and '_harness_exception' in o:
            rep.broken('harness exception on implementation side', {'case': c, 'obs': o})
            continue
        if o.get('construct') != 'ok' or c['handler'] != 'default':
            continue
        exp = expected_fields(c)
        for k, (rq, r) in enumerate(zip(c['requests'], o['requests'])):
            if rq['path'] not in ('/raise', '/return', '/reused') or c['cls'].startswith(('InternalServerError', 'Contextual')) or exp['code'] >= 500:
                continue
            et = sexp.some(exp['error_type'].encode('utf8')) if exp['error_type'] is not None else 'None'
            mime = sexp.some(r['best']) if r['best'] is not None else 'None'
            lines.append('errorlab ' + sexp.dumps([exp['code'], exp['message'].encode('utf8'), exp['detail'].encode('utf8'), et, mime]))
            index.append((i, k))
    model_out = None
    if b.driver_ok:
        try:
            model_out = core.run_model(lines)
        except Exception as e:  # noqa
            rep.broken('model errorlab is not executable: %s' % e)
    else:
        rep.broken('model errorlab is not executable (extraction or driver build failed)')
    ndiff = 0
    if model_out is not None:
        for (i, k), line in zip(index, model_out):
            t = sexp.loads(line)
            c, r = cases[i], obs[i]['requests'][k]
            fname, ct = t[0].decode(), t[1].decode()
            ctype = (r['ctype'] or '').split(';')[0].strip()
            ok = (ct == ctype)
            if ok and fname == 'html':
                ok = t[2].decode('utf8', 'replace') == r['body']
            if ok and fname == 'xml':
                ok = t[3].decode('utf8', 'replace') == r['body']
            if not ok:
                ndiff += 1
                if ndiff <= 5:
                    rep.broken('correspondence errorlab: %s %s: model %s %s..., implementation %s %s...' % (
                        c['cls'], c['requests'][k], ct, (t[2] if fname == 'html' else t[3]).decode('utf8', 'replace')[:300], r['ctype'], r['body'][:300]),
                        {'case': dict(c, requests=[c['requests'][k]])})
            else:
                rep.traces += 1
    for c, o in zip(cases, obs):
        if isinstance(o, dict) and '_harness_exception' in o:
            continue
        v = oracle(c, o)
        if v:
            rep.violation(v[0], {'case': c, 'signature': v[1], 'lab': 'errorlab'})
        rep.count('handler.' + c['handler'])
        for r in o.get('requests', []):
            rep.count('ctype.' + ((r['ctype'] or 'none').split(';')[0]))
        rep.evaluations += len(c['requests']) - 1
        rep.case(json.dumps(c, sort_keys=True), nontrivial=bool(c['fields']))
    rep.samples = cases[:1]


def replay(rep, b, path):
    j = json.load(open(path))
    run(rep, b, 'quick', 0, only_cases=[j['case']])
