"""C14 - staticlab: a generated directory tree (temporary, removed afterwards) served by
StaticApplication directly / under prefixes / by two overlapping static applications;
request paths from nasty segments; OS errors injected at each filesystem call."""
import hashlib
import json
import os
import posixpath
import random
import shutil
import tempfile

from harness import core, sexp

NAMES = ['a.txt', 'b', 'sub', 'x y.html', 'é.bin', 'empty', '..hidden', 'c.d.e', 'deep',
         'cafe\u0301.txt', '\u212bngstrom']      # names that are not in Unicode normal form C (combining accent, ANGSTROM SIGN)
FAULTS = [None, None, None, 'mtime1', 'open', 'mtime2', 'size', 'peek', 'vanish']
ERRNOS = ['ENOENT', 'EACCES', 'EIO', 'EISDIR', 'ENOTDIR']


def build_tree(base, spec):
    """spec: {'roots': [name...], 'files': [[root_idx, relpath, kind]], 'secrets': [relpath from base]}"""
    files = {}
    for ri, rel, kind in spec['files']:
        full = os.path.join(base, spec['roots'][ri], rel)
        os.makedirs(os.path.dirname(full), exist_ok=True)
        data = {'text': ('file %s in root %d\n' % (rel, ri)).encode('utf8') * 3,
                'binary': bytes(range(256)) + hashlib.sha1(('%d:%s' % (ri, rel)).encode('utf8')).digest(),
                'empty': b'',
                'big': (('%d:%s' % (ri, rel)).encode('utf8') + b'\n') * 3000}[kind]
        with open(full, 'wb') as f:
            f.write(data)
        t0 = spec.get('mtime_base', 1500000000)     # 2017, or (clock skew, unpacked archives) a date AHEAD of the server's clock
        t0 += spec.get('mtime_frac', 0.0)           # file systems keep sub-second times; HTTP dates do not
        os.utime(full, (t0 + len(rel), t0 + len(rel)))      # same date in every root: one If-Modified-Since verdict per request
        files[full] = data
    for ri in range(len(spec['roots'])):
        os.makedirs(os.path.join(base, spec['roots'][ri]), exist_ok=True)
    secrets = {}
    for rel in spec['secrets']:
        full = os.path.join(base, rel)
        os.makedirs(os.path.dirname(full), exist_ok=True)
        data = ('TOP-SECRET-%s' % hashlib.sha1(rel.encode('utf8')).hexdigest()).encode()
        with open(full, 'wb') as f:
            f.write(data)
        secrets[full] = data
    return files, secrets


class Patches(object):
    """fault injection as seen from clastic.static; the patched callables also record what they were asked"""
    def __init__(self, base):
        import clastic.static as st
        self.st = st
        self.base = base
        self.fault = None
        self.errno = 'EIO'
        self.calls = []
        self.find_args = []
        self.n_mtime = 0
        self.orig = {'find_file': st.find_file, 'get_file_mtime': st.get_file_mtime, 'peek_file': st.peek_file,
                     'isfile': st.isfile, 'getsize': os.path.getsize, 'open': getattr(st, 'open', None)}

    def err(self):
        import errno
        return OSError(getattr(errno, self.errno), 'injected ' + self.errno)

    def install(self, conditional_state):
        st = self.st
        me = self

        def find_file(search_paths, path, limit_root=True):
            me.find_args.append(path)
            if len(me.find_args) > 1:
                me.fault = None            # faults hit the first static application consulted; an overlapping one then sees a healthy filesystem
            me.n_mtime = 0
            del me.calls[:]
            return me.orig['find_file'](search_paths, path, limit_root)

        def get_file_mtime(path, rounding=0):
            me.n_mtime += 1
            first_is_conditional = conditional_state['conditional']
            which = 'mtime1' if (first_is_conditional and me.n_mtime == 1) else 'mtime2'
            me.calls.append(which)
            if me.fault == which:
                raise me.err()
            return me.orig['get_file_mtime'](path, rounding)

        def peek_file(file_obj, size=-1):
            me.calls.append('peek')
            if me.fault == 'peek':
                raise me.err()
            return me.orig['peek_file'](file_obj, size)

        def isfile(path):
            r = me.orig['isfile'](path)
            if r:
                me.calls.append('isfile')
            # "vanishes between lookup and open": the SECOND successful isfile (the one inside build_file_response) says no
            if me.fault == 'vanish' and r and me.calls.count('isfile') >= conditional_state['vanish_at']:
                return False
            return r

        def getsize(path):
            if str(path).startswith(me.base):
                me.calls.append('size')
                if me.fault == 'size':
                    raise me.err()
            return me.orig['getsize'](path)

        def fake_open(path, *a, **kw):
            me.calls.append('open')
            if me.fault == 'open':
                raise me.err()
            return open(path, *a, **kw)
        st.find_file, st.get_file_mtime, st.peek_file, st.isfile = find_file, get_file_mtime, peek_file, isfile
        os.path.getsize = getsize
        st.open = fake_open

    def uninstall(self):
        st = self.st
        st.find_file, st.get_file_mtime, st.peek_file, st.isfile = (self.orig['find_file'], self.orig['get_file_mtime'],
                                                                    self.orig['peek_file'], self.orig['isfile'])
        os.path.getsize = self.orig['getsize']
        if self.orig['open'] is None:
            del st.open
        else:
            st.open = self.orig['open']


def make_app(case, base):
    from clastic import Application
    from clastic.static import StaticApplication
    roots = [os.path.join(base, r) for r in case['tree']['roots']]
    m = case['mount']
    if m['kind'] == 'direct':
        return StaticApplication(roots), ''
    if m['kind'] == 'overlap':
        return Application([(m['prefix'], StaticApplication(roots[:1])), (m['prefix'], StaticApplication(roots[1:] or roots[:1]))],
                           slash_mode=m['mode']), m['prefix'].rstrip('/')
    return Application([(m['prefix'], StaticApplication(roots))], slash_mode=m['mode']), m['prefix'].rstrip('/')


def impl(case):
    from harness import wsgi
    from werkzeug.http import http_date
    import mimetypes
    base = tempfile.mkdtemp(prefix='clastic-c14-')
    try:
        files, secrets = build_tree(base, case['tree'])
        late = case.get('late_root') and len(case['tree']['roots']) > 1
        if late:
            # the last search directory (an uploads / release directory) does not exist yet when the application is built
            os.rename(os.path.join(base, case['tree']['roots'][-1]), os.path.join(base, 'not-yet'))
        app, prefix = make_app(case, base)
        if late:
            os.rename(os.path.join(base, 'not-yet'), os.path.join(base, case['tree']['roots'][-1]))
        out = {'base': base, 'roots': [os.path.join(base, r) for r in case['tree']['roots']],
               'files': sorted(list(files) + list(secrets)), 'requests': []}
        for rq in case['requests']:
            path = rq['path'].replace('@BASE@', base)
            p = Patches(base)
            state = {'conditional': False, 'vanish_at': 2}
            headers = {}
            # the conditional header refers to the file the clean path denotes (if any)
            target = None
            rel = posixpath.normpath(path.lstrip('/')) if path.strip('/') else '.'
            for r in out['roots']:
                cand = os.path.join(r, rel)
                if not rel.startswith('..') and not rel.startswith('/') and os.path.isfile(cand):
                    target = cand
                    break
            if rq.get('override') and target and len(out['roots']) > 1 and not target.startswith(out['roots'][0] + os.sep):
                # the deployment changes between two requests: an earlier search directory now has its own copy of the path
                # (it was served from a later directory before); first directory wins from now on
                newp = os.path.join(out['roots'][0], rel)
                try:
                    os.makedirs(os.path.dirname(newp), exist_ok=True)
                    data = b'OVERRIDE of ' + rel.encode('utf8') + b': ' + files[target]      # unique even for empty originals
                    with open(newp, 'wb') as f:
                        f.write(data)
                    mt0 = os.path.getmtime(target)
                    os.utime(newp, (mt0, mt0))
                    files[newp] = data
                    target = newp
                except OSError:
                    pass                  # a file is in the way of the directory: nothing changes
            if rq['ims'] == 'echo':
                # revalidation as a client does it: whatever Last-Modified the server sends is echoed back
                r0 = wsgi.call(app, wsgi.environ((prefix + path).encode('utf8').decode('latin-1')))
                if r0.header('Last-Modified'):
                    headers['If-Modified-Since'] = r0.header('Last-Modified')
                    state['conditional'] = True
            elif rq['ims'] is not None:
                mt = int(os.path.getmtime(target)) if target else 1500000000
                headers['If-Modified-Since'] = http_date(mt + {'before': -100, 'at': 0, 'after': 100}[rq['ims']])
                state['conditional'] = True
            p.fault, p.errno = rq['fault'], rq['errno']
            p.install(state)
            try:
                r = wsgi.call(app, wsgi.environ((prefix + path).encode('utf8').decode('latin-1'), headers=headers))
            finally:
                p.uninstall()
            body = r.body
            rec = {'status': r.code, 'exc': type(r.exc).__name__ if r.exc else None, 'len': len(body),
                   'sha': hashlib.sha1(body).hexdigest(), 'clen': r.header('Content-Length'), 'lm': r.header('Last-Modified'),
                   'ctype': r.header('Content-Type'), 'find_args': p.find_args, 'calls': p.calls,
                   'served': next((f for f, d in list(files.items()) + list(secrets.items())
                                   if d == body and len(d) > 0), None) if r.code == 200 else None,
                   'secret_leak': any(d in body for d in secrets.values()),
                   'mtime_cmp': None, 'has_ext_type': None, 'files_now': sorted(list(files) + list(secrets))}
            if target:
                rec['target'] = target
                rec['target_mtime_http'] = http_date(int(os.path.getmtime(target)))
                rec['target_mtime_http_round'] = http_date(int(round(os.path.getmtime(target))))
                rec['target_sha'] = hashlib.sha1(files[target]).hexdigest()
                rec['target_len'] = len(files[target])
                rec['has_ext_type'] = mimetypes.guess_type(target)[0] is not None
                if rq['ims'] is not None:
                    rec['mtime_cmp'] = {'before': False, 'at': True, 'after': True, 'echo': True}[rq['ims']]
            out['requests'].append(rec)
        return out
    finally:
        shutil.rmtree(base, ignore_errors=True)


# ------------------------------------------------------------------ oracle (property text)
def oracle(case, obs):
    roots = obs['roots']
    for rq, o in zip(case['requests'], obs['requests']):
        what = 'GET %r (mount %s, fault %s/%s, If-Modified-Since %s)' % (rq['path'], case['mount']['kind'], rq['fault'], rq['errno'], rq['ims'])
        if o['exc']:
            return ('%s: %s escaped' % (what, o['exc']), 'escape')
        if o['secret_leak']:
            return ('%s: the response discloses a file outside the search directories' % what, 'disclosure')
        if o['status'] not in (200, 304, 403, 404):
            return ('%s: status %s (only 200/304/403/404 are allowed)' % (what, o['status']), 'status')
        joined = o['find_args'][0] if o['find_args'] else None
        escaping = joined is not None and (posixpath.normpath(joined).startswith('/') or posixpath.normpath(joined).startswith('..'))
        if escaping and o['status'] == 200 and not any(fa != joined for fa in o['find_args']):
            return ('%s: path %r escapes the root but was answered 200' % (what, joined), 'escape-served')
        if o['status'] == 200:
            if o['served'] is None and o['len'] > 0:
                return ('%s: 200 with a body that is no file of the tree' % what, 'foreign-body')
            if o['served'] is not None and not any(os.path.commonpath([r, o['served']]) == r for r in roots):
                return ('%s: served %s which is outside every search directory' % (what, o['served']), 'outside-root')
            if o['clen'] != str(o['len']):
                return ('%s: Content-Length %s for %d body bytes' % (what, o['clen'], o['len']), 'content-length')
            if not o['lm'] or not o['ctype']:
                return ('%s: missing Last-Modified / Content-Type' % what, 'headers')
            import re as _re
            if not _re.match(r'^[A-Za-z0-9.+-]+/[A-Za-z0-9.+-]+', o['ctype']):
                return ('%s: Content-Type %r is not a media type' % (what, o['ctype']), 'content-type')
        if o['status'] == 304 and o['len'] != 0:
            return ('%s: 304 with a body' % what, '304-body')
        # served-at-its-path: a clean request for an existing file, no fault, not conditional
        if o.get('target') and rq['fault'] is None and case['mount']['kind'] != 'overlap' \
                and rq['path'] == '/' + posixpath.normpath(rq['path'].lstrip('/')):      # the file's own relative path, unmutated
            first = posixpath.normpath(rq['path'].lstrip('/')).split('/')[0]
            if not first.startswith('..'):
                if rq['ims'] in (None, 'before'):
                    if o['status'] != 200 or o['sha'] != o['target_sha'] or o['lm'] not in (o['target_mtime_http'], o.get('target_mtime_http_round')):
                        return ('%s: the regular file %s inside a search directory was not served faithfully (status %s)'
                                % (what, o['target'], o['status']), 'not-served')
                elif o['status'] != 304:
                    return ('%s: conditional request with the file\'s own date answered %s, not 304' % (what, o['status']), 'conditional')
        if case['mount']['kind'] == 'overlap' and o['status'] in (403, 404) and len(o['find_args']) == 1:
            return ('%s: the first static application answered %s and the overlapping one was never tried (its error was not a '
                    'non-breaking one)' % (what, o['status']), 'breaking-error')
        if rq['fault'] is not None and o['status'] not in (200, 304, 403, 404):
            return ('%s: an injected filesystem error became status %s' % (what, o['status']), 'fault-500')
    return None


# ------------------------------------------------------------------ model side
def model_lines(case, obs):
    """one model evaluation per (request, static application consulted)"""
    lines, keys = [], []
    roots = obs['roots']
    groups = [roots] if case['mount']['kind'] != 'overlap' else [roots[:1], roots[1:] or roots[:1]]
    for k, (rq, o) in enumerate(zip(case['requests'], obs['requests'])):
        for gi, fa in enumerate(o['find_args']):
            g = groups[min(gi, len(groups) - 1)]
            cond = rq['ims'] is not None
            f = rq['fault'] if gi == 0 else None
            m1 = 'None' if f == 'mtime1' else [bool(o['mtime_cmp'])] if o['mtime_cmp'] is not None else [False]
            ans = [m1, f != 'vanish', f != 'open', f != 'mtime2', f != 'size', bool(o['has_ext_type']), f != 'peek']
            lines.append('staticlab ' + sexp.dumps([[r.encode('utf8') for r in g], [x.encode('utf8') for x in o.get('files_now', obs['files'])],
                                                    fa.encode('utf8'), cond, ans]))
            keys.append((k, gi))
    return lines, keys


def combine(outs):
    """dispatch over the consulted static applications (C06): first 200/304 answers, else the last soft error"""
    final = None
    for o in outs:
        final = o
        if o[0] in ('200', '304'):
            break
    return final


# ------------------------------------------------------------------ generation
def gen_tree(rng):
    nroots = rng.choice([1, 1, 2])
    roots = ['site', 'site2'][:nroots]
    files = []
    for ri in range(nroots):
        for _ in range(rng.choice([3, 5, 8])):
            depth = rng.choice([1, 1, 2, 3])
            comps = [rng.choice(NAMES) for _ in range(depth)]
            comps = [c for i, c in enumerate(comps) if not (i < len(comps) - 1 and '.' in c and c != 'c.d.e')] or ['a.txt']
            rel = '/'.join(comps)
            if any(f[1] == rel or f[1].startswith(rel + '/') or rel.startswith(f[1] + '/') for f in files if f[0] == ri):
                continue
            files.append([ri, rel, rng.choice(['text', 'text', 'binary', 'empty', 'big'])])
    secrets = ['secret.txt', 'site.bak/secret.txt', 'site_private/a.txt', 'other/passwd', 'site2x/b']
    return {'roots': roots, 'files': files, 'secrets': secrets}


def gen_case(rng, tier):
    tree = gen_tree(rng)
    mount = rng.choice([{'kind': 'direct'}, {'kind': 'prefix', 'prefix': '/static', 'mode': 'redirect'},
                        {'kind': 'prefix', 'prefix': '/a/b/', 'mode': rng.choice(['redirect', 'rewrite', 'strict'])},
                        {'kind': 'overlap', 'prefix': '/s', 'mode': 'redirect'}])
    if mount['kind'] == 'overlap' and len(tree['roots']) < 2:
        mount = {'kind': 'prefix', 'prefix': '/static', 'mode': 'redirect'}
    segpool = NAMES + ['.', '..', '', '...', '..x', '..hidden', 'site', 'site.bak', 'secret.txt', '%2e%2e', '@BASE@'.strip('/'), 'tmp',
                       'etc', 'passwd', 'site_private', 'other']
    reqs = []
    rels = [f[1] for f in tree['files']]
    n = 40 if tier == 'quick' else 200
    for _ in range(n):
        x = rng.random()
        if x < 0.35 and rels:
            path = '/' + rng.choice(rels)
            if rng.random() < 0.3:      # mutate a valid path
                comps = path.split('/')
                i = rng.randrange(1, len(comps) + 1)
                comps.insert(i, rng.choice(['.', '..', '', 'sub/..', '../' + tree['roots'][0]]))
                path = '/'.join(comps)
        elif x < 0.45:
            path = '/' + rng.choice(['', '/']) + '@BASE@/' + rng.choice(tree['secrets'] + [tree['roots'][0] + '/' + (rels[0] if rels else 'a')])
        elif x < 0.6:
            path = '/' + '../' * rng.choice([1, 2, 3]) + rng.choice(tree['secrets'] + ['site.bak/secret.txt', 'etc/passwd'])
            if rng.random() < 0.5:
                path = '/' + rng.choice(['sub', 'deep/b', 'x']) + path
        else:
            path = '/' + '/'.join(rng.choice(segpool) for _ in range(rng.choice([1, 2, 3, 4])))
        reqs.append({'path': path, 'ims': rng.choice([None, None, None, 'before', 'at', 'after']),
                     'fault': rng.choice(FAULTS), 'errno': rng.choice(ERRNOS)})
    # climbs and absolute paths whose dots and slashes are still percent-encoded after the server's own decoding
    for sec in tree['secrets']:
        for form in ('/%2e%2e/' + sec, '/%2e%2e%2f' + sec, '/sub/%2e%2e/%2e%2e/' + sec, '/%2E%2E/' + sec, '/..%2f' + sec,
                     '/%2f@BASE@%2f' + sec.replace('/', '%2f'), '/%252e%252e/' + sec):
            reqs.append({'path': form, 'ims': None, 'fault': None, 'errno': 'EIO'})
    # overlapping static applications: every fault at every call while the first one serves a file it has
    if mount['kind'] == 'overlap':
        for rel in [f[1] for f in tree['files'] if f[0] == 0][:3]:
            for fault in [f for f in FAULTS if f is not None]:
                reqs.append({'path': '/' + rel, 'ims': 'at' if fault == 'mtime1' else None, 'fault': fault,
                             'errno': rng.choice(['ENOENT', 'ENOENT', 'ENOTDIR', 'EACCES'])})
    # every file once, cleanly, and once conditionally
    for rel in rels:
        reqs.append({'path': '/' + rel, 'ims': None, 'fault': None, 'errno': 'EIO'})
        reqs.append({'path': '/' + rel, 'ims': 'at', 'fault': None, 'errno': 'EIO'})
    # history: every file once more after an earlier search directory got its own copy of it
    for rel in rels:
        if rng.random() < 0.5:
            reqs.append({'path': '/' + rel, 'ims': None, 'fault': None, 'errno': 'EIO', 'override': True})
            reqs.append({'path': '/' + rel, 'ims': 'at', 'fault': None, 'errno': 'EIO'})
    tree['mtime_base'] = rng.choice([1500000000, 1500000000, 4102444800])
    tree['mtime_frac'] = rng.choice([0.0, 0.0, 0.25, 0.75, 0.999])
    if tree['mtime_frac']:
        for rq in reqs:
            if rq['ims'] == 'at':
                rq['ims'] = 'echo'        # 'the file's own date' is what the server says it is
    return {'tree': tree, 'mount': mount, 'requests': reqs, 'late_root': rng.random() < 0.3}


def shrink(case):
    def fails(rqs):
        c = dict(case, requests=rqs)
        try:
            return oracle(c, impl(c)) is not None
        except Exception:
            return False
    if not fails(case['requests']):
        return case
    from harness.lab import ddmin_list
    return dict(case, requests=ddmin_list(case['requests'], fails, max_steps=40))


def run(rep, b, tier, seed, only_cases=None):
    rep.shrink_module = 'c14'
    rng = random.Random(seed * 122949829 + 14)
    corpus = [c['case'] if 'case' in c else c for c in core.load_corpus('C14')]
    cases = list(only_cases) if only_cases is not None else corpus + [gen_case(rng, tier) for _ in range(60 if tier == 'quick' else 400)]
    rep.rule = ('staticlab: generated directory trees (1-2 search directories, nested directories, text/binary/empty/large files, '
                'names with dots, spaces, non-ASCII and a leading "..", secrets beside and above the roots incl. siblings whose name '
                'starts with the root\'s name) in a temporary directory that is removed afterwards; served directly, under prefixes '
                '(incl. trailing slash, three slash modes) and by two overlapping static applications; request paths: every file '
                'cleanly and conditionally, mutated valid paths, "../" climbs, absolute paths formed by repeated slashes, random '
                'segment sequences from {names, ".", "..", "", "...", "..x", encoded dots, pieces of the absolute root}; OS errors '
                '(ENOENT/EACCES/EIO/EISDIR) injected at each filesystem call (conditional getmtime, second isfile = file vanished, '
                'open, getmtime, getsize, peek); If-Modified-Since before/at/after. Bodies compared byte-for-byte (SHA-1) with the '
                'files. non-trivial = requests that reach find_file.')
    rep.assumptions = ['no symbolic links in the served tree (the quantifier says so); os.path.isfile never raises',
                       'mimetypes.guess_type is a pure function of the name; werkzeug FileWrapper/Response send the opened file\'s bytes',
                       'the model\'s isfile is membership in the set of regular files of the generated tree']
    obs = core.run_impl_workers('c14', cases)[0]
    lines, index = [], []
    for i, (c, o) in enumerate(zip(cases, obs)):
        if isinstance(o, dict) and '_harness_exception' in o:
            rep.broken('harness exception on implementation side', {'case': c, 'obs': o})
            continue
        ls, keys = model_lines(c, o)
        lines += ls
        index += [(i, k, gi) for k, gi in keys]
    model_out = None
    if b.driver_ok:
        try:
            model_out = core.run_model(lines)
        except Exception as e:  # noqa
            rep.broken('model staticlab is not executable: %s' % e)
    else:
        rep.broken('model staticlab is not executable (extraction or driver build failed)')
    ndiff = 0
    if model_out is not None:
        per = {}
        for (i, k, gi), line in zip(index, model_out):
            t = sexp.loads(line)
            oc = t[1]
            per.setdefault((i, k), []).append((t[0], [x.decode('utf8', 'replace') for x in oc] if isinstance(oc, list) else [oc.decode()]))
        for (i, k), outs in sorted(per.items()):
            c, o = cases[i], obs[i]['requests'][k]
            final = combine([x[1] for x in outs])
            want_norm = posixpath.normpath(o['find_args'][0]) if o['find_args'][0] else '.'
            got_norm = outs[0][0].decode('utf8', 'replace')
            ok = (got_norm == want_norm)
            if final[0] == '200':
                ok = ok and o['status'] == 200 and o['served'] in (final[1], None) and (o['served'] is not None or o['len'] == 0)
            elif final[0] == 'escape':
                ok = False
            else:
                ok = ok and str(o['status']) == final[0]
            if not ok:
                ndiff += 1
                if ndiff <= 5:
                    rep.broken('correspondence staticlab: request %r: model normpath %r -> %s; implementation normpath %r -> %s %s'
                               % (c['requests'][k], got_norm, final, want_norm, o['status'], o['served']),
                               {'case': dict(c, requests=[c['requests'][k]])})
            else:
                rep.traces += 1
    for c, o in zip(cases, obs):
        if isinstance(o, dict) and '_harness_exception' in o:
            continue
        v = oracle(c, o)
        if v:
            rep.violation(v[0], {'case': c, 'signature': v[1], 'lab': 'staticlab'})
        for rq, r in zip(c['requests'], o['requests']):
            rep.count('status.%s' % r['status'])
            if rq['fault']:
                rep.count('fault.' + rq['fault'])
        rep.count('mount.' + c['mount']['kind'])
        rep.evaluations += len(c['requests']) - 1
        rep.case(json.dumps(c, sort_keys=True), nontrivial=True)
    rep.samples = [dict(cases[0], requests=cases[0]['requests'][:3])] if cases else []


def replay(rep, b, path):
    j = json.load(open(path))
    run(rep, b, 'quick', 0, only_cases=[j['case']])
